import Tally.Model.Udp
import Tally.Spec.C15
import TallyProofs.Lemmas.Udp
import TallyProofs.Lemmas.UdpMulti
/-!
# C15 — UDP transport: one flush = one exact datagram; a failed message never poisons

Property theorems only.  `Spec.C15.holds` / `holdsMulti` are the predicates the driver evaluates
on the real transport's history; here they are proved of the model's history for *every* call
sequence, every socket oracle and every maximum length (`Udp.maxLength`, the code's
`MaxLength` from the regenerated facts, is one instance).
-/
namespace Tally.Props.C15
open Tally Tally.UdpObs Tally.Udp Tally.UdpLemmas Tally.UdpMultiLemmas Tally.Spec.C15

/-! ### the whole property on the model's history -/

/-- every clause of C15 — (a) exact datagram per flush, nothing else delivered, (b) length,
(c) refused writes and their messages deliver nothing, fitting writes are accepted, (d) use after
close — holds of the history of every call sequence with every socket oracle. -/
theorem trace_holds (max : Nat) (ops : List Op) : holds max (trace max Udp.init ops) = true := by
  simp [holds, check, trace_ok max ops Udp.init {} (inv_init max)]

/-- … in particular for the limit the code uses -/
theorem trace_holds_maxLength (ops : List Op) : holds Udp.maxLength (trace Udp.maxLength Udp.init ops) = true :=
  trace_holds _ ops

example : holds 4 (trace 4 Udp.init
    [.write [1, 2, 3], .write [4, 5], .write [6], .flush .ok, .write [7], .writeByte 8, .flush .fail,
     .writeString [9, 9, 9, 9], .flush .ok, .close true, .close true, .flush .ok]) = true := by decide

example : delivered 4 Udp.init
    [.write [1, 2, 3], .write [4, 5], .write [6], .flush .ok, .write [7], .writeByte 8, .flush .fail,
     .writeString [9, 9, 9, 9], .flush .ok, .close true, .close true, .flush .ok] = [[9, 9, 9, 9]] := by decide

/-! ### `buffer_le_max` -/

/-- invariant: the buffer never exceeds the maximum, whatever is called in whatever order -/
theorem buffer_le_max (max : Nat) (ops : List Op) : (run max Udp.init ops).1.buf.length ≤ max :=
  run_inv max ops Udp.init (Nat.zero_le _)

/-- with `MaxLength` as extracted from the source -/
theorem buffer_le_maxLength (ops : List Op) :
    ((run Udp.maxLength Udp.init ops).1.buf.length : Int) ≤ Facts.udpMaxLength.getD 0 := by
  have h := buffer_le_max Udp.maxLength ops
  have : (Udp.maxLength : Int) = Facts.udpMaxLength.getD 0 := by decide
  omega

example : (run 4 Udp.init [.write [1, 2, 3], .writeByte 6, .writeByte 7, .write [4, 5]]).1.buf.length = 4 := by decide

/-! ### `flush_sends_exactly` -/

/-- an open transport's `Flush` hands exactly the buffer to the socket as one datagram (nothing
when the message was poisoned by a refused write) and leaves the buffer empty and unpoisoned
whether or not the send succeeded.  That the buffer *is* the concatenation of the writes accepted
since the previous flush is clause `flush-not-exact` of `trace_holds` (the oracle recomputes that
concatenation from the observed calls alone) and `next_message_clean` below. -/
theorem flush_sends_exactly (s : T) (sock : Sock) (hopen : s.closed = false) :
    (Udp.flush s sock).1 = { s with buf := [], poisoned := false }
    ∧ (Udp.flush s sock).2.recv = (if s.poisoned = false ∧ sock = .ok then [s.buf] else []) := by
  obtain ⟨buf, closed, poisoned⟩ := s
  simp only at hopen; subst hopen
  cases poisoned <;> cases sock <;> simp [Udp.flush]

example : (Udp.flush { buf := [1, 2] } .ok).2.recv = [[1, 2]] ∧ (Udp.flush { buf := [1, 2] } .fail).1.buf = [] := by decide

/-- globally: the sink's datagram sequence is exactly the sequence of successfully flushed,
refusal-free messages — each once, in order, nothing else -/
theorem delivered_exactly (max : Nat) (ops : List Op) : deliveredExactly (trace max Udp.init ops) = true := by
  simp [deliveredExactly, checkFrom_messages max _ {} (trace_ok max ops Udp.init {} (inv_init max))]

/-! ### `refused_write_sends_nothing` -/

/-- a write that would make the message exceed the maximum is refused with an error, changes
nothing in the buffer, and nothing of its message is ever delivered — not by the write, not by
any further writes, not by the flush that ends the message -/
theorem refused_write_sends_nothing (max : Nat) (s : T) (c : Bytes) (ws : List Bytes) (sock : Sock)
    (hopen : s.closed = false) (hbig : s.buf.length + c.length > max) :
    (step max s (.write c)).2 = { err := .tooLarge }
    ∧ (step max s (.write c)).1.buf = s.buf
    ∧ delivered max s (.write c :: ws.map Op.write ++ [.flush sock]) = [] := by
  have hstep : step max s (.write c) = ({ s with poisoned := true }, { err := .tooLarge }) := by
    simp [step, accept, hopen, hbig]
  refine ⟨by rw [hstep], by rw [hstep], ?_⟩
  have hw := writes_stuck max ws { s with poisoned := true } (Or.inr rfl)
  have := delivered_append max (ws.map Op.write) [.flush sock] { s with poisoned := true }
  simp only [delivered, List.cons_append, trace_cons, hstep, List.flatMap_cons] at this hw ⊢
  rw [this, hw.2, hw.1]
  simp [toEv, trace, step, Udp.flush, hopen]

example : delivered 4 Udp.init [.write [1, 2, 3], .write [4, 5], .write [6], .flush .ok] = [] := by decide

/-- the scratch-confirmed input at the code's own limit: 40000 bytes buffered, 40000 more offered -/
example (s : T) (c : Bytes) (hopen : s.closed = false) (hs : s.buf.length = 40000) (hc : c.length = 40000) :
    (step Udp.maxLength s (.write c)).2 = { err := .tooLarge } := by
  have hlen : s.buf.length + c.length > Udp.maxLength := by rw [hs, hc]; decide
  exact (refused_write_sends_nothing Udp.maxLength s c [] .ok hopen hlen).1

/-! ### `next_message_clean` -/

/-- after *any* history that left the transport open — refused writes, failed sends, abandoned
messages in any number and order — and a `Flush` (whatever its outcome), the next message is
accepted completely and delivered alone and unchanged -/
theorem next_message_clean (max : Nat) (pre : List Op) (sock0 sock : Sock) (ws : List Bytes)
    (hopen : (run max Udp.init pre).1.closed = false)
    (hfit : (ws.map List.length).sum ≤ max) :
    let s1 := (run max Udp.init (pre ++ [.flush sock0])).1
    (run max s1 (ws.map Op.write ++ [.flush sock])).2
        = (ws.map fun w => ({ n := w.length } : Res))
          ++ [match sock with | .ok => { recv := [ws.flatten] } | .fail => { err := .sendError } | .lost => {}]
    ∧ delivered max s1 (ws.map Op.write ++ [.flush sock]) = (if sock = .ok then [ws.flatten] else [])
    ∧ (run max s1 (ws.map Op.write ++ [.flush sock])).1 = s1 := by
  intro s1
  have hs1 : s1 = { (run max Udp.init pre).1 with buf := [], poisoned := false } := by
    show (run max Udp.init (pre ++ [.flush sock0])).1 = _
    rw [run_append]
    exact (flush_sends_exactly _ sock0 hopen).1
  have hc : s1.closed = false := by rw [hs1]; exact hopen
  have hp : s1.poisoned = false := by rw [hs1]
  have hb : s1.buf = [] := by rw [hs1]
  have hw := writes_fit max ws s1 hc hp (by rw [hb]; simpa using hfit)
  have hfl := flush_sends_exactly { s1 with buf := s1.buf ++ ws.flatten } sock hc
  refine ⟨?_, ?_, ?_⟩
  · rw [run_append, hw.1]
    cases sock <;> simp [run, step, Udp.flush, hc, hp, hb]
  · rw [delivered_append, hw.2, hw.1]
    cases sock <;> simp [delivered, trace, step, toEv, Udp.flush, hc, hp, hb]
  · rw [run_append, hw.1]
    simp only [run, step]
    rw [hfl.1]
    simp [hs1]

/-! ### the M3 emission layer -/

/-- the reporter keeps emitting: whatever batches came before — too large, refused half-way and
abandoned, lost by a failing socket — every batch that fits and whose send succeeds arrives as
exactly its own bytes, and nothing else arrives -/
theorem reporter_keeps_emitting (max : Nat) (bs : List M3Batch.Batch) :
    M3Batch.emitted max bs
      = bs.filterMap fun b => if b.size ≤ max ∧ b.sock = .ok then some b.bytes else none := by
  unfold M3Batch.emitted
  induction bs with
  | nil => rfl
  | cons b bs ih =>
    have he := emit_clean max Udp.init b rfl rfl rfl
    simp only [M3Batch.reporterOps, delivered_append, he.1, he.2, ih, List.filterMap_cons]
    split <;> simp_all

/-! ### `close_idempotent`, `use_after_close_not_open` -/

/-- a second `Close` returns nil, touches nothing and sends nothing -/
theorem close_idempotent (s : T) (ok1 ok2 : Bool) :
    Udp.close (Udp.close s ok1).1 ok2 = ((Udp.close s ok1).1, {}) ∧ (Udp.close s ok1).1.closed = true := by
  obtain ⟨buf, closed, poisoned⟩ := s
  cases closed <;> simp [Udp.close]

/-- after `Close` every write and flush returns not-open, `IsOpen` is false, nothing is delivered
and the state does not change -/
theorem use_after_close_not_open (max : Nat) (s : T) (op : Op) (hclosed : s.closed = true) :
    (step max s op).1 = s ∧ (step max s op).2.recv = []
    ∧ (step max s op).2.err = (match op with | .close _ => .nil | .isOpen => .nil | _ => .notOpen)
    ∧ (step max s op).2.n = 0 := by
  obtain ⟨buf, closed, poisoned⟩ := s
  simp only at hclosed; subst hclosed
  cases op <;> simp [step, accept, Udp.flush, Udp.close]

example : (run 4 Udp.init [.write [1], .close true, .write [2], .flush .ok, .close false]).2.map (·.err)
    = [.nil, .nil, .notOpen, .notOpen, .nil] := by decide

/-! ### `multi_fanout` -/

/-- as long as no socket fault is injected — whatever else happens: refused writes, abandoned and
discarded messages, `Close` and use after `Close` — the history seen at each of the `k ≥ 1`
destinations is exactly the single-transport history of the same calls (every destination
performs every write and every flush, and the caller is told that one result), and the whole
multi-destination history satisfies the oracle: every clause at every destination, and
`fanout-unequal` -/
theorem multi_fanout (max k : Nat) (hk : 0 < k) (mops : List UdpMulti.MOp)
    (hquiet : ∀ op ∈ mops, op.quiet = true) :
    (∀ d, d < k → (UdpMulti.trace max (UdpMulti.init k) mops).map (MEv.proj d)
        = Udp.trace max Udp.init (mops.map UdpMulti.MOp.single))
    ∧ holdsMulti max k (UdpMulti.trace max (UdpMulti.init k) mops) = true := by
  have h := fanout max k hk mops Udp.init {} true (inv_init max) hquiet
  refine ⟨h.1, ?_⟩
  have h2 := h.2
  simp only [holdsMulti, checkMulti, MSt.init, UdpMulti.init] at h2 ⊢
  simp [h2]

/-- with socket faults too (any oracle at any destination; `conn.Close()` itself succeeding):
every destination still sees every write and every flush — what arrives at destination `d` is
exactly what a transport of its own would have delivered, given all the calls and `d`'s socket
behaviour.  So by `trace_holds` / `delivered_exactly` each sink gets only whole, exact,
refusal-free messages, each at most once, in order, and a failing destination never makes another
one skip, repeat or glue a message. -/
theorem multi_every_destination (max k : Nat) (mops : List UdpMulti.MOp) (d : Nat) (hd : d < k)
    (hclose : ∀ op ∈ mops, op.closeOk = true) :
    (UdpMulti.trace max (UdpMulti.init k) mops).map (fun e => e.recv[d]?.getD [])
      = (Udp.trace max Udp.init (mops.map (UdpMulti.MOp.at d))).map (·.recv) :=
  every_destination max mops (UdpMulti.init k) d Udp.init (by simp [UdpMulti.init, hd]) hclose

/-- the abandoned-message scenario through two destinations: nothing of the refused message
arrives anywhere, the next message arrives alone at both -/
example : (UdpMulti.trace 4 (UdpMulti.init 2) [.write [1, 2, 3], .write [4, 5], .flush [], .write [9], .flush []]).map (·.recv)
      = [[[], []], [[], []], [[], []], [[], []], [[[9]], [[9]]]]
    ∧ holdsMulti 4 2 (UdpMulti.trace 4 (UdpMulti.init 2) [.write [1, 2, 3], .write [4, 5], .flush [], .write [9], .flush []]) = true := by
  decide

/-- a failing destination in the middle: the others are flushed all the same, the first error is returned -/
example : (UdpMulti.trace 4 (UdpMulti.init 3) [.write [1, 2], .flush [.ok, .fail, .ok], .write [3], .flush []]).map (fun e => (e.err, e.recv))
      = [(.nil, [[], [], []]), (.sendError, [[[1, 2]], [], [[1, 2]]]), (.nil, [[], [], []]), (.nil, [[[3]], [[3]], [[3]]])] := by
  decide

example : (UdpMulti.trace 4 (UdpMulti.init 3) [.write [1, 2], .write [3], .flush [], .isOpen, .write [4], .flush [.ok, .ok, .ok], .close []]).map (·.recv)
    = [[[], [], []], [[], [], []], [[[1, 2, 3]], [[1, 2, 3]], [[1, 2, 3]]], [[], [], []], [[], [], []], [[[4]], [[4]], [[4]]], [[], [], []]] := by decide

/-! ### Legacy witnesses: the tree before repair D9 (transport without the overflow flag,
reporter without the discarding flush) -/

/-- Legacy: the transport before the repair (no overflow flag), a refused write, the writer abandons, the next message:
one datagram made of the stale prefix followed by the new message -/
theorem stale_bytes_counterexample :
    (tracePinned 4 Udp.init [.write [1, 2, 3], .write [4, 5], .write [9], .flush .ok]).flatMap (·.recv) = [[1, 2, 3, 9]]
    ∧ check 4 (tracePinned 4 Udp.init [.write [1, 2, 3], .write [4, 5], .write [9], .flush .ok]) = some "dirty-message-sent" := by
  decide

/-- Legacy: the unrepaired transport under the unrepaired reporter: once a batch overflowed, nothing is ever
emitted again, although every later batch fits -/
theorem reporter_stuck_counterexample :
    M3Batch.emittedPinned 4 [{ chunks := [[1, 2, 3, 4], [5]] }, { chunks := [[6]] }, { chunks := [[7], [8]] }] = []
    ∧ M3Batch.emitted 4 [{ chunks := [[1, 2, 3, 4], [5]] }, { chunks := [[6]] }, { chunks := [[7], [8]] }] = [[6], [7, 8]] := by
  decide

end Tally.Props.C15
