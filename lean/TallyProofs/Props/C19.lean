import Tally.Model.Multi
import Tally.Spec.C19
import TallyProofs.Lemmas.Multi
/-!
# C19 — a multi reporter forwards every call to every child exactly once, in order

Property theorems only.  They are about `Multi.run fl caps hist`: the model of `multi/reporter.go`
with children of capabilities `caps` (any number of them), flavour `fl` (plain / cached), after the
history `hist` (any list of calls).  The hypothesis `Spec.C19.wellFormed fl hist` says only that the
history can be written against the Go API (calls of the right flavour, handles used after they were
allocated and with their own type); `accepts_iff_wellFormed` shows it is exactly the domain of the
model.  The conclusions are the clauses of `Spec.C19.holds`, the predicate the driver evaluates on
what the implementation did.
-/
namespace Tally.Props.C19
open Tally Tally.Multi Tally.Lemmas.Multi

/-- **every child's log is the history**: same calls, same arguments, same order, nothing else; one
log per child.  Handle arguments are handle ordinals on both sides, so this includes: a value
reported through the `h`-th handle of the multi reporter arrives at the `h`-th handle of every
child (histogram bucket handles likewise). -/
theorem child_log_eq (fl : Flavour) (caps : List Caps) (hist : List Call)
    (hwf : Spec.C19.wellFormed fl hist = true) :
    ∃ st, run fl caps hist = some st ∧ (logs st).length = caps.length ∧
      Spec.C19.childLogEq hist (logs st) = true := by
  refine ⟨_, run_eq_closed fl caps hist hwf, ?_, ?_⟩
  · simp [logs_closed]
  · rw [logs_closed]
    simp only [Spec.C19.childLogEq, List.all_map, List.all_eq_true, Function.comp_def, beq_iff_eq]
    intro p _
    exact map_snd_log _ _ _

/-- **children are called in the order they were given**: the shared sequence numbers, read call by
call and within a call child by child, strictly increase — child `i` gets call `j` before child
`i+1` does, and before any child gets call `j+1`. -/
theorem children_called_in_order (fl : Flavour) (caps : List Caps) (hist : List Call)
    (hwf : Spec.C19.wellFormed fl hist = true) :
    ∃ st, run fl caps hist = some st ∧ Spec.C19.inOrder hist (logs st) = true := by
  refine ⟨_, run_eq_closed fl caps hist hwf, ?_⟩
  unfold Spec.C19.inOrder
  rw [seqMatrix_closed, List.range_eq_range']
  exact strictlyIncreasing_range' _ _

/-- the same, explicitly: call number `j` reaches child number `i` of `n` at time `j * n + i` -/
theorem call_time (fl : Flavour) (caps : List Caps) (hist : List Call)
    (hwf : Spec.C19.wellFormed fl hist = true) (i j : Nat) (hi : i < caps.length) (hj : j < hist.length) :
    ∃ st, run fl caps hist = some st ∧
      ((logs st)[i]? >>= (·[j]?)) = some (j * caps.length + i, hist[j]) := by
  refine ⟨_, run_eq_closed fl caps hist hwf, ?_⟩
  simp [logs_closed, List.getElem?_zipIdx, List.getElem?_eq_getElem hi, List.getElem?_eq_getElem hj]

/-- **capabilities are the conjunction of the children's** (after any history) -/
theorem capabilities_conjunction (fl : Flavour) (caps : List Caps) (hist : List Call)
    (hwf : Spec.C19.wellFormed fl hist = true) :
    ∃ st, run fl caps hist = some st ∧ Spec.C19.capsConjunction caps [capabilities st] = true := by
  refine ⟨_, run_eq_closed fl caps hist hwf, ?_⟩
  simp [Spec.C19.capsConjunction, capabilities_eq_conj, caps_closed]

/-- **handles correspond**: the `k`-th metric handle of the multi reporter is the list of every
child's `k`-th handle, and so is the `k`-th bucket handle. -/
theorem handles_correspond (fl : Flavour) (caps : List Caps) (hist : List Call)
    (hwf : Spec.C19.wellFormed fl hist = true) :
    ∃ st, run fl caps hist = some st ∧
      (∀ (k : Nat) (kind : Kind) (ids : List Nat), st.metrics[k]? = some (kind, ids) → ids = List.replicate caps.length k) ∧
      (∀ (k : Nat) (ids : List Nat), st.buckets[k]? = some ids → ids = List.replicate caps.length k) := by
  refine ⟨_, run_eq_closed fl caps hist hwf, ?_, ?_⟩
  · intro k kind ids h
    simp only [closed, List.getElem?_map, List.getElem?_zipIdx, Option.map_map] at h
    cases hk : (allocKinds hist)[k]? with
    | none => simp [hk] at h
    | some kd => simp [hk] at h; exact h.2.symm
  · intro k ids h
    simp only [closed, List.getElem?_map] at h
    cases hk : (List.range (numBuckets hist))[k]? with
    | none => simp [hk] at h
    | some v =>
      have hv : v = k := by
        have hlt : k < numBuckets hist := by
          have := (List.getElem?_eq_some_iff.mp hk).1; simpa using this
        rw [List.getElem?_range hlt] at hk; exact (Option.some.inj hk).symm
      simp [hk, hv] at h; exact h.symm

/-- **every call is accepted**, whatever the children: the model refuses nothing that can be
written against the API … -/
theorem accepts_all (fl : Flavour) (caps : List Caps) (hist : List Call)
    (hwf : Spec.C19.wellFormed fl hist = true) : (run fl caps hist).isSome = true := by
  rw [run_eq_closed fl caps hist hwf]; rfl

/-- … and **a multi reporter with no children accepts all calls**: every history runs to the end,
there is no child to log anything, and its capabilities are the empty conjunction `true, true`. -/
theorem empty_accepts_all (fl : Flavour) (hist : List Call) (hwf : Spec.C19.wellFormed fl hist = true) :
    ∃ st, run fl [] hist = some st ∧ logs st = [] ∧
      capabilities st = { reporting := true, tagging := true } ∧
      Spec.C19.acceptsAll hist (hist.map fun _ => true) = true := by
  refine ⟨_, run_eq_closed fl [] hist hwf, ?_, ?_, ?_⟩
  · simp [logs_closed]
  · simp [capabilities_eq_conj, caps_closed, Spec.C19.conj]
  · simp [Spec.C19.acceptsAll]

/-- **C19 at full strength**: for every flavour, every list of children, every history that can be
written, what would be observed of the model satisfies the whole predicate. -/
theorem holds_run (fl : Flavour) (caps : List Caps) (hist : List Call)
    (hwf : Spec.C19.wellFormed fl hist = true) :
    ∃ st, run fl caps hist = some st ∧ Spec.C19.holds (observe caps hist st) = none := by
  obtain ⟨st, h1, hlen, hlog⟩ := child_log_eq fl caps hist hwf
  obtain ⟨st2, h2, hord⟩ := children_called_in_order fl caps hist hwf
  obtain ⟨st3, h3, hcap⟩ := capabilities_conjunction fl caps hist hwf
  rw [h1] at h2 h3
  cases Option.some.inj h2
  cases Option.some.inj h3
  refine ⟨st, h1, ?_⟩
  have hacc : Spec.C19.acceptsAll hist (hist.map fun _ => true) = true := by simp [Spec.C19.acceptsAll]
  simp [Spec.C19.holds, observe, Spec.C19.childCount, hlen, hlog, hord, hcap, hacc]

/-- the hypothesis is not a restriction of the model's domain: the model runs a history to the end
exactly when the history is well formed. -/
theorem accepts_iff_wellFormed (fl : Flavour) (caps : List Caps) (hist : List Call) :
    (run fl caps hist).isSome = true ↔ Spec.C19.wellFormed fl hist = true := by
  constructor
  · intro h
    -- generalised over the part of the history already run
    have key : ∀ (rest pre : List Call), (runFrom (closed fl caps pre) rest).isSome = true →
        Spec.C19.wellFormedFrom fl (allocKinds pre) (numBuckets pre) rest = true := by
      intro rest
      induction rest with
      | nil => intro pre _; rfl
      | cons x xs ih =>
        intro pre hsome
        have hok : callOk fl pre x = true := by
          cases hc : callOk fl pre x with
          | true => rfl
          | false =>
            exfalso
            have hnone : step (closed fl caps pre) x = none := by
              simp only [callOk, Bool.and_eq_false_iff] at hc
              unfold step
              rcases hc with (hf | hm) | hb
              · have : x.flavourOk (closed fl caps pre).flavour = false := hf
                simp [this]
              · split
                · rfl
                · cases hmr : x.metricRef with
                  | none => simp [hmr] at hm
                  | some r =>
                    obtain ⟨hh, k⟩ := r
                    simp only [hmr] at hm
                    have : perChild (closed fl caps pre) x = none := by
                      simp only [perChild, hmr, closed, List.getElem?_map, List.getElem?_zipIdx, Nat.zero_add]
                      cases hk : (allocKinds pre)[hh]? with
                      | none => simp
                      | some kd =>
                        have hne : kd ≠ k := by
                          intro he; simp [hk, he] at hm
                        simp [hne]
                    simp [this]
              · split
                · rfl
                · cases hbr : x.bucketRef with
                  | none => simp [hbr] at hb
                  | some b =>
                    simp only [hbr, decide_eq_false_iff_not, Nat.not_lt] at hb
                    have : perChild (closed fl caps pre) x = none := by
                      cases hmr : x.metricRef with
                      | some r =>
                        have := metricRef_bucketRef hmr
                        rw [hbr] at this; cases this
                      | none =>
                        simp only [perChild, hmr, hbr, closed, List.getElem?_map]
                        have : (List.range (numBuckets pre))[b]? = none := by
                          apply List.getElem?_eq_none; simpa using hb
                        simp [this]
                    simp [this]
            simp [runFrom, hnone] at hsome
        simp only [runFrom, step_closed fl caps pre x hok] at hsome
        have := ih (pre ++ [x]) hsome
        rw [allocKinds_snoc, numBuckets_snoc] at this
        simp only [callOk, Bool.and_eq_true] at hok
        simp only [Spec.C19.wellFormedFrom, Bool.and_eq_true]
        exact ⟨⟨⟨hok.1.1, hok.1.2⟩, hok.2⟩, this⟩
    have := key hist [] (by rw [← init_eq_closed]; exact h)
    simpa [Spec.C19.wellFormed, allocKinds, numBuckets] using this
  · exact accepts_all fl caps hist

/-! ### the hypotheses are satisfiable, the conclusions are not vacuous -/

/-- a cached history over three children with three different capability pairs: allocations,
reports through every kind of handle, a histogram bucket and samples through it, a flush -/
def exHist : List Call :=
  [ .allocCounter [0x61] none, .allocHistogram [] (some [([0x6b], [0x76])]) (.values [0x3ff0000000000000]),
    .count 0 (-5), .valueBucket 1 0 0x7ff8000000000001, .allocGauge [0xff] (some []), .samples 0 9223372036854775807,
    .gauge 2 0x7ff8000000000000, .flush ]

def exCaps : List Caps := [⟨true, false⟩, ⟨true, true⟩, ⟨false, true⟩]

example : Spec.C19.wellFormed .cached exHist = true := by decide
example : Spec.C19.wellFormed .plain [.reportCounter [0x61] none 1, .flush, .reportGauge [] (some []) 0] = true := by decide
-- histories that cannot be written: a handle used before it exists / with the wrong type / wrong flavour
example : Spec.C19.wellFormed .cached [.count 0 1] = false := by decide
example : Spec.C19.wellFormed .cached [.allocGauge [] none, .count 0 1] = false := by decide
example : Spec.C19.wellFormed .plain [.allocGauge [] none] = false := by decide

/-- the second child's log after the example history: all eight calls, at times 1, 4, 7, … -/
example : (run .cached exCaps exHist).map (fun st => (logs st)[1]?.map (·.map Prod.fst))
    = some (some [1, 4, 7, 10, 13, 16, 19, 22]) := by decide

example : (run .cached exCaps exHist).map capabilities = some ⟨false, false⟩ := by decide
example : (run .plain [] [.flush, .reportTimer [] none 0]).map (fun st => (logs st, capabilities st))
    = some ([], ⟨true, true⟩) := by decide

/-- the predicate does reject: the same observation with the last child's last call missing, with
the first two children's times swapped in one call, and with a wrong capabilities answer -/
example : Spec.C19.holds
    { caps := [⟨true, true⟩, ⟨true, true⟩], calls := [.flush, .flush], returned := [true, true],
      logs := [[(0, .flush), (2, .flush)], [(1, .flush)]] } = some "child-log-eq" := by decide
example : Spec.C19.holds
    { caps := [⟨true, true⟩, ⟨true, true⟩], calls := [.flush, .flush], returned := [true, true],
      logs := [[(0, .flush), (3, .flush)], [(1, .flush), (2, .flush)]] } = some "children-in-order" := by decide
example : Spec.C19.holds
    { caps := [⟨true, false⟩, ⟨true, true⟩], calls := [], returned := [],
      logs := [[], []], reported := [⟨true, true⟩] } = some "capabilities-conjunction" := by decide
example : Spec.C19.holds { caps := [], calls := [.flush], returned := [false], logs := [] } = some "empty-accepts-all" := by
  decide

/-- **the capabilities follow the children**: the multi reporter keeps no copy of its children's answers — after
the children's capabilities changed (in any state, after any history) `Capabilities()` is the conjunction of the
NEW answers. -/
theorem capabilities_follow_children (st : State) (caps : List Caps) (h : caps.length = st.children.length) :
    capabilities (setCaps st caps) = Spec.C19.conj caps := by
  rw [capabilities_eq_conj]
  congr 1
  simp only [setCaps]
  have hd : st.children.drop caps.length = [] := by rw [h]; exact List.drop_length
  have hf : ((fun c : Child => c.caps) ∘ fun p : Child × Caps => { p.1 with caps := p.2 }) = Prod.snd := by
    funext p; rfl
  rw [hd, List.append_nil, List.map_map, hf]
  exact List.map_snd_zip (by omega)

/-- changing the children's capabilities changes nothing else: the children's logs stay -/
theorem setCaps_keeps_logs (st : State) (caps : List Caps) (h : caps.length = st.children.length) :
    logs (setCaps st caps) = logs st := by
  simp only [logs, setCaps]
  have hd : st.children.drop caps.length = [] := by rw [h]; exact List.drop_length
  have hf : ((fun c : Child => c.log) ∘ fun p : Child × Caps => { p.1 with caps := p.2 }) =
      (fun c : Child => c.log) ∘ Prod.fst := by
    funext p; rfl
  rw [hd, List.append_nil, List.map_map, hf, ← List.map_map]
  rw [List.map_fst_zip (by omega)]

end Tally.Props.C19
