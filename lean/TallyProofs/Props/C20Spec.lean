import Tally.Model.BucketCache
import TallyProofs.Lemmas.C20Cache
/-!
# C20 — the specification a histogram carries (and hands to a plain reporter with every bucket)

`histogram.specification` is `storage.buckets`, the `spec` field of the `Storage` the bucket cache handed out.
For every identity function and every history of `Get` calls the storage handed out for a request carries the
requested specification itself (a miss, or a hit on a different set: the storage is built from the request) or one
that passed `bucketsEqual` against it (a hit on an equal set) - never the specification of a colliding other set.
The model's values are immutable: that the real storage keeps a PRIVATE copy of the caller's slice is a frozen
fact (`newBucketStorage`) and is observed by the `c20cache` histories under a plain reporter.
-/
namespace Tally.Props.C20Spec
open Tally Tally.BucketCache

theorem build_spec (s : BSpec) : (build s).spec = s := by
  cases s <;> rfl

/-- what `Get` hands out carries the request, or a specification `bucketsEqual` to it -/
theorem get_spec (idf : BSpec → UInt64) (c : Cache) (req : BSpec) :
    (BucketCache.get idf c req).2.spec = req ∨ specEq req (BucketCache.get idf c req).2.spec = true := by
  unfold BucketCache.get
  split
  · exact Or.inl (build_spec req)
  · next st _ =>
    by_cases h : specEq req st.spec = true
    · rw [if_pos h]; exact Or.inr h
    · rw [if_neg h]; exact Or.inl (build_spec req)

/-- **spec_kept (sequential)**: for every identity function and every history of `Get` calls, each storage handed
out carries the specification it was asked for, or one element-wise equal to it -/
theorem spec_kept (idf : BSpec → UInt64) (c : Cache) (reqs : List BSpec) :
    ∀ p ∈ reqs.zip (getAll idf c reqs).2, p.2.spec = p.1 ∨ specEq p.1 p.2.spec = true := by
  induction reqs generalizing c with
  | nil => intro p hp; simp [getAll] at hp
  | cons r rs ih =>
    intro p hp
    simp only [getAll, List.zip_cons_cons, List.mem_cons] at hp
    rcases hp with rfl | hp
    · exact get_spec idf c r
    · exact ih _ p hp

/-- non-vacuity: with an identity function that makes everything collide, a second, different duration set gets
its own specification, not the cached one -/
example : ((getAll (fun _ => 0) Cache.empty [.dur [1, 4], .dur [2, 3]]).2.map (·.spec)) = [.dur [1, 4], .dur [2, 3]] := by
  decide

end Tally.Props.C20Spec
