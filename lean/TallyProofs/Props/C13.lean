import Tally.Model.M3Report
import Tally.Spec.C13
import TallyProofs.Props.C12
import TallyProofs.Lemmas.M3Report
import TallyProofs.Lemmas.M3Buckets
import TallyProofs.Lemmas.DigitsLex
import TallyProofs.Lemmas.M3Pool
/-!
# C13 — M3 delivers every reported value exactly once and intact

About the model of the REPAIRED reporter (`Tally/Model/M3Report.lean`): histories are arbitrary lists
of operations (allocations, reports, bucket reports, `Flush`, clock ticks, receives of `process()`),
the tag-cache hash is an arbitrary function.

* `tags_intact`, `alloc_tags_intact` — for EVERY hash function and every cache whose entries were
  built from maps, the tags attached to a handle are exactly the requested pairs;
  `cache_invariant` — every history keeps the cache in that shape;
* `report_enqueues_one`, `bucket_report_metric` — a report sends exactly one metric: the handle's
  name, kind and tags, the value given, the current clock value (buckets: plus the two bucket tags);
* `close_drains` — after `Close`, nothing is pending and what was emitted is the batching of
  everything that was ever sent, however the receives of `process()` were interleaved;
* `delivery_exactly_once` — the datagrams of a closed reporter decode (each one canonical message)
  to exactly the metrics the history sent, in order (`Spec.C13.deliveredExactly` on the model);
* `common_tags_everywhere` — every datagram carries exactly the configured common tags;
* `bucket_ids_increase` — the bucket ids of a histogram read back as 0, 1, 2, … in bound order, all
  of the same width, and the bounds are sorted;
* `bucket_ids_lex_increase` — … and the ids increase with the position *as byte strings*
  (lexicographic order on `List UInt8`), which is what a backend sorting by the id tag relies on;
  `legacy_id_width_counterexample` — not so when the width is computed from `Len() - 1`;
* `timestamp_bracket`, `timestamps_monotone` — every timestamp is the clock cell's content at the
  report step: not earlier than construction, not later than the cell at any later time, never
  decreasing along the queue;
* `legacy_tag_cache_counterexample`, `legacy_clock_counterexample` — the pinned behaviour;
* `pool_refines_batch`, `emitted_tags_intact`, `pool_invariant` — `process()` with its memory made
  explicit (`Tally/Model/M3Pool.lean`: heap of backing arrays, `sync.Pool` of recycled tag slices with
  an arbitrary choice per `Get`, batch entries that are views of heap arrays): whatever the pool hands
  out, the batches read at flush time are those of the abstract fold, every metric with its own tags
  followed by its own two bucket tags; `mutant_recycles_early_counterexample` — not so when the tags
  are built before the flush-if-needed block.
-/
namespace Tally.Props.C13
open Tally Tally.Thrift Tally.M3

/-! ### tags -/

/-- for every hash function and every cache state whose entries have pairwise different tag names
(each was built from a map): the slice `convertTags` returns holds exactly the requested pairs, and
the cache stays in that shape -/
theorem tags_intact (hash : TagMap → UInt64) (c : Cache) (m : TagMap) (hc : CacheInv c)
    (hm : (m.map (·.1)).Nodup) :
    ((convertTags hash c m).1.map pairOf).Perm m ∧ CacheInv (convertTags hash c m).2 :=
  convertTags_spec hash c m hc hm

/-- the template of an allocated counter / gauge / timer: the name, the kind, and exactly the
requested tags (no tag field at all for an empty map) -/
theorem alloc_tags_intact (hash : TagMap → UInt64) (cfg : Config) (c : Cache) (k : Kind) (name : Bytes)
    (tags : TagMap) (hc : CacheInv c) (hm : (tags.map (·.1)).Nodup) :
    ∃ t size, (allocMetricH hash cfg c k name tags).1 = .metric k t size ∧ t.name = name ∧
      t.value.mtype = k.mtype ∧ ((t.tags.getD []).map pairOf).Perm tags ∧
      size = chargeMetric cfg.proto t := by
  unfold allocMetricH
  by_cases he : tags.isEmpty = true
  · have : tags = [] := List.isEmpty_iff.1 he
    subst this
    exact ⟨template name k none, chargeMetric cfg.proto (template name k none), by simp, rfl, rfl,
      by simp [template], rfl⟩
  · simp only [he]
    exact ⟨template name k (some (convertTags hash c tags).1), _, rfl, rfl, rfl,
      by simpa [template] using (convertTags_spec hash c tags hc hm).1, rfl⟩

/-- every history keeps the cache invariant -/
theorem cache_invariant (hash : TagMap → UInt64) (ops : List Op) : ∀ (s : State), CacheInv s.cache →
    (∀ op ∈ ops, opWf op) → CacheInv (run hash s ops).cache := by
  induction ops with
  | nil => intro s h _; exact h
  | cons op rest ih =>
    intro s h hw
    exact ih _ (cache_invariant_step hash s op h (hw op (by simp))) (fun o ho => hw o (by simp [ho]))

/-- D7a on the pinned `convertTags`: with the additive hash over the `key=value` strings, the maps
`{"a":"b=c"}` and `{"a=b":"c"}` collide; the second allocation is handed the first one's tags.  The
repaired `convertTags` returns the requested pairs under the same hash. -/
def toyHash (m : TagMap) : UInt64 :=
  if m.isEmpty then 0
  else m.foldl (fun a kv => a + ((kv.1 ++ (61 :: kv.2)).foldl (fun h b => h * 131 + b.toUInt64) 7) * 31) 23

def mapA : TagMap := [([97], [98, 61, 99])]          -- {"a": "b=c"}
def mapB : TagMap := [([97, 61, 98], [99])]          -- {"a=b": "c"}

theorem legacy_tag_cache_counterexample :
    toyHash mapA = toyHash mapB ∧
    (legacyConvertTags toyHash (legacyConvertTags toyHash [] mapA).2 mapB).1.map pairOf = mapA ∧
    (convertTags toyHash (convertTags toyHash [] mapA).2 mapB).1.map pairOf = mapB := by
  refine ⟨by decide, by decide, by decide⟩

/-! ### what a report sends -/

/-- `Report*` on a live counter / gauge / timer handle sends exactly one metric: the template with
the value and the current clock value, charged the handle's size -/
theorem report_enqueues_one (s : State) (h : Nat) (k : Kind) (t : Metric) (size : Nat) (v : Val)
    (hopen : s.closed = false) (hh : s.handles[h]? = some (.metric k t size)) (hv : v.kind = k) :
    enq s (.report h v) = [.met { m := withValue t v s.cell, size := size }] := by
  simp [enq, hopen, reportItems, hh, hv]

/-- the metric of a bucket report: name and type of the histogram's counter template, the samples
as the count, the clock value, and the histogram's tags followed by the bucket-id and bucket-range
tags -/
theorem bucket_report_metric (b : BucketH) (samples now : Int) :
    ∃ x, bucketItem b samples now = .met x ∧ x.size = b.size ∧ x.m.name = b.tmpl.name ∧
      x.m.value.count = samples ∧ x.m.timestamp = now ∧
      x.m.tags = some (b.tmpl.tags.getD [] ++ [b.idTag, b.rangeTag]) :=
  ⟨_, rfl, rfl, rfl, rfl, rfl, rfl⟩

/-! ### the queue, Close, the datagrams -/

/-- `Close` returns only after everything queued has been emitted: for every history, with the
receives of `process()` interleaved in any way, after `close` nothing is pending and the emitted
batches are the batching of everything that was ever sent -/
theorem close_drains (hash : TagMap → UInt64) (cfg : Config) (t0 : Int) (ops : List Op) :
    let s := run hash (init hash cfg t0) (ops ++ [.close])
    s.closed = true ∧ s.pending = [] ∧ s.bs.out = batches cfg.free s.sent := by
  intro s
  have hq : QInv s := (init_qinv hash cfg t0).run hash _
  have hc : s.closed = true := by
    show (run hash (init hash cfg t0) (ops ++ [.close])).closed = true
    rw [run_append]
    exact opStep_close_closed hash _
  have hcfg : s.cfg = cfg := by
    show (run hash (init hash cfg t0) (ops ++ [.close])).cfg = cfg
    rw [run_cfg, init_cfg]
  simp only [QInv, hc, if_true, hcfg] at hq
  exact ⟨hc, hq.1, by rw [hq.2]; rfl⟩

/-- what the history sent: operation by operation -/
theorem sent_eq (hash : TagMap → UInt64) (cfg : Config) (t0 : Int) (ops : List Op) :
    (run hash (init hash cfg t0) ops).sent = sentOf hash (init hash cfg t0) ops := by
  rw [run_sent, init_sent, List.nil_append]

/-- exactly once, in order, intact on the wire: the datagrams of a closed reporter each decode as
one canonical `emitMetricBatchV2` message, and their metrics are exactly the metrics the history
sent (`sent_eq`, `report_enqueues_one`), in the order they were sent.  Hypotheses: the metrics are
encodable (string lengths and integers in range) and fewer than 2^31 - 1 were sent. -/
theorem delivery_exactly_once (hash : TagMap → UInt64) (cfg : Config) (t0 : Int) (ops : List Op) :
    let s := run hash (init hash cfg t0) (ops ++ [.close])
    (∀ x ∈ queued s.sent, wfMetric x.m = true) → wfTags (some cfg.commonTags) = true →
    (queued s.sent).length < 2147483647 →
    Spec.C13.deliveredExactly cfg.proto ((queued s.sent).map (·.m)) (datagrams s) = true := by
  intro s hwf hct hn
  have hout : s.bs.out = batches cfg.free s.sent := (close_drains hash cfg t0 ops).2.2
  have hcfg : s.cfg = cfg := by
    show (run hash (init hash cfg t0) (ops ++ [.close])).cfg = cfg
    rw [run_cfg, init_cfg]
  have hpart := Props.C12.batching_partition cfg.free s.sent
  have hne : ∀ b ∈ batches cfg.free s.sent, b ≠ [] := fun b hb => (batches_ok cfg.free s.sent b hb).2
  have hcount : (batches cfg.free s.sent).length ≤ (queued s.sent).length := by
    rw [← hpart]; exact length_le_flatten _ hne
  have hbwf : ∀ b ∈ batches cfg.free s.sent, wfBatch (batchOf cfg.commonTags b) = true := by
    intro b hb
    have hlen : b.length ≤ (queued s.sent).length := by
      rw [← hpart]; exact length_le_flatten_of_mem _ b hb
    simp only [wfBatch, batchOf, Bool.and_eq_true, List.all_eq_true, lenOk, decide_eq_true_eq,
      List.length_map, List.mem_map]
    refine ⟨⟨by omega, ?_⟩, hct⟩
    rintro m ⟨x, hx, rfl⟩
    exact hwf x (by rw [← hpart]; exact List.mem_flatten.2 ⟨b, hb, hx⟩)
  have hdec := decodeAll_messagesFrom cfg.proto cfg.commonTags (batches cfg.free s.sent) 1 hbwf
    (by decide) (by omega)
  simp only [Spec.C13.deliveredExactly, Spec.C13.emitted, datagrams, messages, hcfg, hout, hdec,
    Bool.and_eq_true, beq_iff_eq]
  exact ⟨decsFrom_all_some _ _ _, by rw [decsFrom_metrics, hpart]⟩

/-- every datagram carries exactly the configured common tags -/
theorem common_tags_everywhere (hash : TagMap → UInt64) (cfg : Config) (t0 : Int) (ops : List Op) :
    let s := run hash (init hash cfg t0) (ops ++ [.close])
    (∀ x ∈ queued s.sent, wfMetric x.m = true) → wfTags (some cfg.commonTags) = true →
    (queued s.sent).length < 2147483647 →
    Spec.C13.allCarry cfg.proto cfg.commonTags (datagrams s) = true := by
  intro s hwf hct hn
  have hout : s.bs.out = batches cfg.free s.sent := (close_drains hash cfg t0 ops).2.2
  have hcfg : s.cfg = cfg := by
    show (run hash (init hash cfg t0) (ops ++ [.close])).cfg = cfg
    rw [run_cfg, init_cfg]
  have hpart := Props.C12.batching_partition cfg.free s.sent
  have hne : ∀ b ∈ batches cfg.free s.sent, b ≠ [] := fun b hb => (batches_ok cfg.free s.sent b hb).2
  have hcount : (batches cfg.free s.sent).length ≤ (queued s.sent).length := by
    rw [← hpart]; exact length_le_flatten _ hne
  simp only [Spec.C13.allCarry, List.all_eq_true, datagrams, messages, hcfg, hout]
  intro d hd
  obtain ⟨b, hb, seq, hseq, rfl⟩ : ∃ b ∈ batches cfg.free s.sent, ∃ seq : Int,
      (1 ≤ seq ∧ seq ≤ (batches cfg.free s.sent).length) ∧ d = encMessage cfg.proto seq (batchOf cfg.commonTags b) := by
    have aux : ∀ (bs : List (List Sized)) (q : Int) (d : Bytes), d ∈ messagesFrom cfg.proto cfg.commonTags q bs →
        ∃ b ∈ bs, ∃ seq : Int, (q ≤ seq ∧ seq < q + bs.length) ∧ d = encMessage cfg.proto seq (batchOf cfg.commonTags b) := by
      intro bs
      induction bs with
      | nil => intro q d h; simp [messagesFrom] at h
      | cons b rest ih =>
        intro q d h
        simp only [messagesFrom, List.mem_cons] at h
        rcases h with h | h
        · exact ⟨b, by simp, q, ⟨Int.le_refl _, by simp only [List.length_cons]; omega⟩, h⟩
        · obtain ⟨b', hb', seq, hs, hd⟩ := ih (q + 1) d h
          exact ⟨b', by simp [hb'], seq, ⟨by omega, by simp only [List.length_cons]; omega⟩, hd⟩
    obtain ⟨b, hb, seq, hs, hd⟩ := aux _ 1 d hd
    exact ⟨b, hb, seq, ⟨hs.1, by omega⟩, hd⟩
  have hbwf : wfBatch (batchOf cfg.commonTags b) = true := by
    have hlen : b.length ≤ (queued s.sent).length := by
      rw [← hpart]; exact length_le_flatten_of_mem _ b hb
    simp only [wfBatch, batchOf, Bool.and_eq_true, List.all_eq_true, lenOk, decide_eq_true_eq,
      List.length_map, List.mem_map]
    refine ⟨⟨by omega, ?_⟩, hct⟩
    rintro m ⟨x, hx, rfl⟩
    exact hwf x (by rw [← hpart]; exact List.mem_flatten.2 ⟨b, hb, hx⟩)
  rw [decodeOne_encMessage cfg.proto seq ⟨by omega, by omega⟩ _ hbwf]
  simp [batchOf]

/-! ### bucket ids -/

/-- the buckets of an allocated duration histogram: ids read back as 0, 1, 2, … (so they strictly
increase with the position), all have the same width, and the bounds are sorted -/
theorem bucket_ids_increase (cfg : Config) (charge : Proto → Metric → MetricTag → MetricTag → Nat)
    (name : Bytes) (mtags : List MetricTag) (spec : BucketSpec) :
    let bs := bucketHandles cfg charge name mtags spec
    bs.length = spec.len + 1 ∧
    (∀ i (h : i < bs.length), Spec.C18.parseDigits bs[i].idTag.value = some i ∧
        bs[i].idTag.value.length = idWidth spec.len ∧ bs[i].idTag.name = cfg.bucketIdName ∧
        bs[i].rangeTag.name = cfg.bucketName) ∧
    (∀ l, spec = .durations l → (∀ d ∈ l, d ≤ maxInt64) →
        (bs.map (·.upperD)).Pairwise (· ≤ ·) ∧ bs.map (·.upperD) = Buckets.durationUppers l) ∧
    (∀ l, spec = .values l → (∀ x ∈ l, F64.key x ≤ F64.key F64.maxFloat) →
        (bs.map (·.upperV)).Pairwise (fun a b => F64.key a ≤ F64.key b) ∧
        bs.map (·.upperV) = Buckets.valueUppers l) := by
  intro bs
  have hlen : bs.length = spec.len + 1 := by
    show (bucketHandles cfg charge name mtags spec).length = _
    rw [bucketHandles_length, bucketRows_length]
  refine ⟨hlen, ?_, ?_, ?_⟩
  · intro i h
    have hids := bucketHandles_ids cfg charge name mtags spec
    have hi : i ≤ spec.len := by omega
    have hval : bs[i].idTag.value = bucketIdString (idWidth spec.len) i := by
      have h1 : (bs.map (·.idTag.value))[i]'(by simpa using h) = bs[i].idTag.value := by simp
      rw [← h1]
      have h2 : i < (List.range (bucketRows cfg.prec spec).length).length := by
        rw [List.length_range, bucketRows_length]; omega
      have : (bs.map (·.idTag.value))[i]'(by simpa using h)
          = ((List.range (bucketRows cfg.prec spec).length).map (bucketIdString (idWidth spec.len)))[i]'(by simpa using h2) := by
        simp only [bs, hids]
      rw [this]
      simp
    rw [hval]
    refine ⟨(bucketIdString_parse spec.len i hi).1, (bucketIdString_parse spec.len i hi).2, ?_, ?_⟩
    · have : ∀ b ∈ bs, b.idTag.name = cfg.bucketIdName := by
        intro b hb
        simp only [bs, bucketHandles, List.mem_map] at hb
        obtain ⟨_, _, rfl⟩ := hb
        rfl
      exact this _ (List.getElem_mem h)
    · have : ∀ b ∈ bs, b.rangeTag.name = cfg.bucketName := by
        intro b hb
        simp only [bs, bucketHandles, List.mem_map] at hb
        obtain ⟨_, _, rfl⟩ := hb
        rfl
      exact this _ (List.getElem_mem h)
  · intro l hl hmax
    subst hl
    have : bs.map (·.upperD) = Buckets.durationUppers l := by
      show (bucketHandles cfg charge name mtags (.durations l)).map (·.upperD) = _
      rw [bucketHandles_upperD, bucketRows_durations]
    exact ⟨this ▸ durationUppers_sorted l hmax, this⟩
  · intro l hl hmax
    subst hl
    have : bs.map (·.upperV) = Buckets.valueUppers l := by
      show (bucketHandles cfg charge name mtags (.values l)).map (·.upperV) = _
      rw [bucketHandles_upperV, bucketRows_values]
    exact ⟨this ▸ valueUppers_sorted l hmax, this⟩

/-- the id tag of the bucket at position `i` is the zero-padded `i` -/
theorem bucketHandles_idValue (cfg : Config) (charge : Proto → Metric → MetricTag → MetricTag → Nat)
    (name : Bytes) (mtags : List MetricTag) (spec : BucketSpec) (i : Nat)
    (h : i < (bucketHandles cfg charge name mtags spec).length) :
    (bucketHandles cfg charge name mtags spec)[i].idTag.value = bucketIdString (idWidth spec.len) i := by
  have hids := bucketHandles_ids cfg charge name mtags spec
  have h1 : ((bucketHandles cfg charge name mtags spec).map (·.idTag.value))[i]'(by simpa using h)
      = (bucketHandles cfg charge name mtags spec)[i].idTag.value := by simp
  rw [← h1]
  have h2 : i < (List.range (bucketRows cfg.prec spec).length).length := by
    rw [List.length_range, ← bucketHandles_length cfg charge name mtags spec]; exact h
  have : ((bucketHandles cfg charge name mtags spec).map (·.idTag.value))[i]'(by simpa using h)
      = ((List.range (bucketRows cfg.prec spec).length).map (bucketIdString (idWidth spec.len)))[i]'(by simpa using h2) := by
    simp only [hids]
  rw [this]
  simp

/-- the bucket ids of an allocated histogram increase with the position **as byte strings**: for all
positions `i < j` the id tag value of bucket `i` is smaller than that of bucket `j` in the
lexicographic order on `List UInt8` — what a backend that sorts by the id tag relies on.  (All ids
have the width `idWidth spec.len`, are made of digits, and read back as their position.) -/
theorem bucket_ids_lex_increase (cfg : Config) (charge : Proto → Metric → MetricTag → MetricTag → Nat)
    (name : Bytes) (mtags : List MetricTag) (spec : BucketSpec) :
    let bs := bucketHandles cfg charge name mtags spec
    ∀ i j (hij : i < j) (hj : j < bs.length),
      (bs[i]'(Nat.lt_trans hij hj)).idTag.value < bs[j].idTag.value := by
  intro bs i j hij hj
  have hi : i < bs.length := Nat.lt_trans hij hj
  have hlen : bs.length = spec.len + 1 := by
    show (bucketHandles cfg charge name mtags spec).length = _
    rw [bucketHandles_length, bucketRows_length]
  have hvi : bs[i].idTag.value = bucketIdString (idWidth spec.len) i :=
    bucketHandles_idValue cfg charge name mtags spec i hi
  have hvj : bs[j].idTag.value = bucketIdString (idWidth spec.len) j :=
    bucketHandles_idValue cfg charge name mtags spec j hj
  have pi := bucketIdString_parse spec.len i (by omega)
  have pj := bucketIdString_parse spec.len j (by omega)
  show bs[i].idTag.value < bs[j].idTag.value
  rw [hvi, hvj]
  exact Lemmas.DigitsLex.lex_lt_of_parseDigits_lt _ _ (by rw [pi.2, pj.2])
    (Lemmas.DigitsLex.bucketIdString_all_digit _ i) (Lemmas.DigitsLex.bucketIdString_all_digit _ j)
    i j pi.1 pj.1 hij

/-- non-vacuity: a duration histogram with the two bounds `{5ns, 1ns}` has three buckets, whose ids
`"0000"`, `"0001"`, `"0002"` are three increasing byte strings (the instance `i = 0`, `j = 2` of
`bucket_ids_lex_increase` is spelled out) -/
example :
    let bs := bucketHandles { proto := .compact, maxPacket := 150, commonTags := [], bucketIdName := [105],
                              bucketName := [98], prec := 1, internalTags := [] }
      (fun _ _ _ _ => 0) [104] [] (.durations [5, 1])
    bs.length = 3 ∧ bs.map (·.idTag.value) = [[48, 48, 48, 48], [48, 48, 48, 49], [48, 48, 48, 50]] ∧
    (∀ (h : 2 < bs.length), (bs[0]'(by omega)).idTag.value < bs[2].idTag.value) ∧
    ([48, 48, 48, 48] : Bytes) < [48, 48, 48, 49] ∧ ([48, 48, 48, 49] : Bytes) < [48, 48, 48, 50] := by
  intro bs
  refine ⟨(bucket_ids_increase _ _ _ _ _).1, ?_, fun h => bucket_ids_lex_increase _ _ _ _ _ 0 2 (by decide) h,
    by decide, by decide⟩
  show (bucketHandles _ _ _ _ _).map (·.idTag.value) = _
  rw [bucketHandles_ids, bucketRows_length]
  decide

/-- the pinned width `max(ndigits(Len() - 1), 4)`: a histogram with 10000 bounds has 10001 buckets,
positions 0 … 10000, but the width is computed from 9999 — four digits.  The last id, `"10000"`, is
one byte longer than the others, and as a byte string it sorts before `"9999"` (and before `"1001"`),
so the ids neither have one length nor increase with the position. -/
theorem legacy_id_width_counterexample :
    max (ndigits (10000 - 1)) 4 = 4 ∧ idWidth 10000 = 5 ∧
    (bucketIdString (max (ndigits (10000 - 1)) 4) 10000).length
      ≠ (bucketIdString (max (ndigits (10000 - 1)) 4) 0).length ∧
    ¬ bucketIdString (max (ndigits (10000 - 1)) 4) 9999 < bucketIdString (max (ndigits (10000 - 1)) 4) 10000 ∧
    bucketIdString (max (ndigits (10000 - 1)) 4) 10000 < bucketIdString (max (ndigits (10000 - 1)) 4) 9999 ∧
    bucketIdString (idWidth 10000) 9999 < bucketIdString (idWidth 10000) 10000 := by
  refine ⟨by decide, by decide, by decide, by decide, by decide, by decide⟩

/-! ### timestamps -/

/-- every timestamp is a value the clock cell held between construction and the report: it is the
cell's content at the report step (`enq_ts`), hence — the clock thread storing readings of a
monotone wall clock — not earlier than the construction time `t0` and not later than the cell's
content at any later moment (in particular not later than the wall clock at the call) -/
theorem timestamp_bracket (hash : TagMap → UInt64) (cfg : Config) (t0 : Int) (ops : List Op)
    (hm : ticksMono t0 ops) :
    let s := run hash (init hash cfg t0) ops
    ∀ x ∈ queued s.sent, t0 ≤ x.m.timestamp ∧ x.m.timestamp ≤ s.cell := by
  intro s
  exact ((init_tinv hash cfg t0).run hash ops (by rw [init_cell]; exact hm)).bracket

/-- … and timestamps never decrease along the queue (so not within one producer either) -/
theorem timestamps_monotone (hash : TagMap → UInt64) (cfg : Config) (t0 : Int) (ops : List Op)
    (hm : ticksMono t0 ops) :
    let s := run hash (init hash cfg t0) ops
    (queued s.sent).Pairwise fun a b => a.m.timestamp ≤ b.m.timestamp := by
  intro s
  exact ((init_tinv hash cfg t0).run hash ops (by rw [init_cell]; exact hm)).mono

/-- the timestamp of whatever an operation sends is the cell's content at that step -/
theorem timestamp_is_cell (s : State) (op : Op) : ∀ x, Item.met x ∈ enq s op → x.m.timestamp = s.cell :=
  enq_ts s op

/-- D7b on the pinned code: the cell holds 0 until the clock thread has run, so a report made right
after construction at `t0 = 1 700 000 000 000 000 000` is stamped 0 — earlier than construction -/
theorem legacy_clock_counterexample :
    let t := template [99] .counter none
    let s : State := { base { proto := .compact, maxPacket := 1440, commonTags := [], bucketIdName := [],
                              bucketName := [], prec := 6, internalTags := [] } 1700000000000000000 with
                       handles := [.metric .counter t 41], cell := legacyInitCell }
    (enq s (.report 0 (.count 1))).map (fun it => match it with | .met x => x.m.timestamp | .flush => -1) = [0] := by
  decide

/-! ### non-vacuity -/

/-- compact protocol, 150-byte packets (105 free), colliding tag maps, a duration histogram -/
def cfgEx : Config :=
  { proto := .compact, maxPacket := 150, commonTags := [⟨[115], [120]⟩], bucketIdName := [105],
    bucketName := [98], prec := 1, internalTags := [] }

def histEx : List Op :=
  [.allocMetric .counter [99] mapA, .allocMetric .gauge [103] mapB, .allocHist [104] mapB (.durations [5, 1]),
   .report 5 (.count 7), .consume, .tick 120, .report 6 (.gauge 1), .consume, .tick 130,
   .report 5 (.count 8)]

/-- the hypotheses of `delivery_exactly_once`, `common_tags_everywhere`, `timestamp_bracket` and
`cache_invariant` hold of this history; the gauge allocated with the colliding map `{"a=b":"c"}`
carries its own tags; the third metric does not fit (52 + 43 + 52 > 105) and starts the second datagram
(bucket reports and `Flush` go through `sort.Search`, whose well-founded model `decide` cannot
unfold: they are exercised by the differential instead) -/
example :
    let s := run toyHash (init toyHash cfgEx 100) (histEx ++ [.close])
    (∀ x ∈ queued s.sent, wfMetric x.m = true) ∧ wfTags (some cfgEx.commonTags) = true ∧
    (queued s.sent).length < 2147483647 ∧ cfgEx.free = 105 ∧
    (queued s.sent).map (·.m.timestamp) = [100, 120, 130] ∧
    (queued s.sent).map (·.size) = [52, 43, 52] ∧
    (datagrams s).map List.length = [105, 70] ∧
    (queued s.sent).map (fun x => (x.m.tags.getD []).map pairOf) = [mapA, mapB, mapA] := by
  decide

/-- the side conditions of `bucket_ids_increase` for the duration bounds `{5ns, 1ns}` and the value
bounds `{2.5, -1}` -/
example : (∀ d ∈ [(5 : Int), 1], d ≤ maxInt64) ∧
    (∀ x ∈ [(0x4004000000000000 : F64), 0xBFF0000000000000], F64.key x ≤ F64.key F64.maxFloat) := by decide

example : ticksMono 100 (histEx ++ [.close]) ∧ ∀ op ∈ histEx, opWf op := by
  refine ⟨by simp [histEx, ticksMono], ?_⟩
  intro op h
  simp only [histEx, List.mem_cons, List.mem_nil_iff, or_false] at h
  rcases h with h | h | h | h | h | h | h | h | h | h <;> subst h <;> simp [opWf, mapA, mapB]

example : ticksMono 5 [.tick 5, .report 0 (.count 1), .tick 9, .consume, .close] := by
  simp [ticksMono]

example : opWf (.allocMetric .counter [99] mapA) := by simp [opWf, mapA]

example : CacheInv (convertTags toyHash [] mapA).2 := by
  intro e he
  simp [convertTags, mapA, toyHash, fresh, tagOf] at he
  subst he
  simp

/-! ### the recycled tag slices of histogram bucket samples (`process()` with its memory) -/

/-- every run of the loop — any items, any choices of the pool — keeps the heap invariant: pool and
borrowed list duplicate-free and disjoint, every view of the open batch into a borrowed array that
holds exactly the tags of its entry, no array shared by two entries -/
theorem pool_invariant (free : Nat) (items : List Pool.PItem) (cs : List Pool.Choice) :
    Pool.Inv (Pool.consume free Pool.PState.init items cs) :=
  Pool.Inv.init.consume items cs

/-- the abstraction is sound: for every queue and every behaviour of the `sync.Pool` (which pooled
array each `Get` returns, or a new one), the batches the heap model reads at its flushes are the
batches of the abstract fold of `M3Batch.lean` on the items with the bucket tags appended -/
theorem pool_refines_batch (free : Nat) (items : List Pool.PItem) (cs : List Pool.Choice) :
    Pool.runPool free items cs = batches free (items.map Pool.abs) := by
  have hinv := pool_invariant free items cs
  have h := Pool.consume_abs free items Pool.PState.init cs Pool.Inv.init
  show (Pool.absState (Pool.emit (Pool.consume free Pool.PState.init items cs))).out = _
  rw [Pool.emit_abs hinv, h, Pool.absState_init]
  rfl

/-- what a queue item must be sent as: a plain metric as it is, a histogram bucket sample with its
own tags followed by its bucket-id tag and its bucket tag (a non-nil slice); a flush marker sends
nothing -/
def expectedSized : Pool.PItem → Option Sized
  | .met m size none => some { m := m, size := size }
  | .met m size (some (idTag, bucketTag)) =>
    some { m := { m with tags := some (m.tags.getD [] ++ [idTag, bucketTag]) }, size := size }
  | .flush => none

/-- no emitted metric ever shows another sample's tags: the metrics of the emitted batches, in
order, are exactly the queue's metrics in queue order, each with `own ++ [bucket-id tag, bucket tag]`
of its own item (`own` for a plain metric) — whatever arrays the pool recycled -/
theorem emitted_tags_intact (free : Nat) (items : List Pool.PItem) (cs : List Pool.Choice) :
    (Pool.runPool free items cs).flatten = items.filterMap expectedSized := by
  rw [pool_refines_batch, Props.C12.batching_partition, queued, List.filterMap_map]
  congr 1
  funext it
  match it with
  | .met m size none => rfl
  | .met m size (some (a, b)) => rfl
  | .flush => rfl

/-- one histogram (name `h`, own tag `t=v`), its buckets 0, 1 and 2 -/
def histT : Metric := template [104] .counter (some [⟨[116], [118]⟩])
def bkt0 : MetricTag × MetricTag := (⟨[105], [48]⟩, ⟨[98], [48, 45, 49]⟩)
def bkt1 : MetricTag × MetricTag := (⟨[105], [49]⟩, ⟨[98], [49, 45, 50]⟩)
def bkt2 : MetricTag × MetricTag := (⟨[105], [50]⟩, ⟨[98], [50, 45, 51]⟩)

/-- two samples of 10 bytes each, nothing fits (`freeBytes = 0`): each one overflows -/
def twoSamples : List Pool.PItem := [.met histT 10 (some bkt0), .met histT 10 (some bkt1)]

/-- the seeded defect "c13-hist-tags-recycled-early" (tags built before the flush-if-needed block):
the first sample's array is borrowed, the flush block that follows hands it straight back to the
pool while the open batch points at it; the second sample is given that array (`some 0`) and writes
its tags; the overflow then emits the FIRST batch — whose metric carries the SECOND sample's bucket
tags.  The abstract fold (and the correct model) send bucket 0 first. -/
theorem mutant_recycles_early_counterexample :
    (Pool.Mutant.runPool 0 twoSamples [none, some 0]).map (·.map (·.m.tags))
      = [[some ([⟨[116], [118]⟩] ++ [bkt1.1, bkt1.2])], [some ([⟨[116], [118]⟩] ++ [bkt1.1, bkt1.2])]] ∧
    (batches 0 (twoSamples.map Pool.abs)).map (·.map (·.m.tags))
      = [[some ([⟨[116], [118]⟩] ++ [bkt0.1, bkt0.2])], [some ([⟨[116], [118]⟩] ++ [bkt1.1, bkt1.2])]] ∧
    Pool.Mutant.runPool 0 twoSamples [none, some 0] ≠ batches 0 (twoSamples.map Pool.abs) := by
  refine ⟨by decide, by decide, by decide⟩

/-- the same with room for one sample per batch (`freeBytes = 15`): the second sample overflows, its
fresh array is recycled by the flush it triggers, the third sample is given it and the second batch
goes out with bucket 2's tags in place of bucket 1's -/
theorem mutant_recycles_early_counterexample_roomy :
    (Pool.Mutant.runPool 15 (twoSamples ++ [.met histT 10 (some bkt2)]) [none, none, some 1]).map
        (·.map (·.m.tags))
      = [[some ([⟨[116], [118]⟩] ++ [bkt0.1, bkt0.2])], [some ([⟨[116], [118]⟩] ++ [bkt2.1, bkt2.2])],
         [some ([⟨[116], [118]⟩] ++ [bkt2.1, bkt2.2])]] := by
  decide

/-- the correct loop on the same input and the same choices: bucket 0, then bucket 1 -/
example :
    (Pool.runPool 0 twoSamples [none, some 0]).map (·.map (·.m.tags))
      = [[some ([⟨[116], [118]⟩] ++ [bkt0.1, bkt0.2])], [some ([⟨[116], [118]⟩] ++ [bkt1.1, bkt1.2])]] ∧
    Pool.runPool 0 twoSamples [none, some 0] = batches 0 (twoSamples.map Pool.abs) := by
  refine ⟨by decide, by decide⟩

/-- non-vacuity: in that run the array is really reused.  The first sample allocates array 0; the
second sample's flush reads it, returns it to the pool, and `Get` hands it out again (`some 0`): the
run ends with ONE array on the heap, holding the second sample's tags, borrowed, the pool empty —
and both batches went out right. -/
example :
    let s := Pool.runState 0 twoSamples [none, some 0]
    s.heap = [[⟨[116], [118]⟩, bkt1.1, bkt1.2]] ∧ s.borrowed = [0] ∧ s.pool = [] ∧
    (Pool.consume 0 Pool.PState.init [.met histT 10 (some bkt0), .flush] []).pool = [0] ∧
    s.out.flatten = twoSamples.filterMap expectedSized := by
  decide

end Tally.Props.C13
