import Tally.Model.Thrift
import TallyProofs.Lemmas.ThriftLemmas
/-!
# C16 — Thrift serialisation of the M3 metric batch: round trips and size accounting

* `roundtrip_metric`, `roundtrip_batch`, `roundtrip_message`: for both protocols the (specialised)
  readers recover exactly what the writers wrote, and consume exactly the written bytes;
* `max_is_upper_bound`: the reporter sizes a metric once, with `MaxInt64` / `MaxFloat64` placeholders
  in every numeric slot; that size bounds the size with any other values (`varint_len_le`,
  `varint_len_max` are the compact-protocol facts behind it; `max_slack` bounds the over-estimate);
* `encBatch_length`, `encMessage_length`: framing.  A batch is header + concatenated metric
  encodings + a trailer that depends only on the common tags; the header depends on the *number*
  of metrics (compact: 1 byte up to 14 metrics, 2 bytes up to 127, 3 bytes up to 16383 …).
-/
namespace Tally.Props.C16
open Tally Tally.Thrift

/-! ### struct round trips -/

theorem roundtrip_tag (p : Proto) (t : MetricTag) (h : wfTag t = true) (rest : Bytes) :
    decTag p (encTag p t ++ rest) = some (t, rest) := by
  simp only [wfTag, Bool.and_eq_true] at h
  obtain ⟨h1, h2⟩ := h
  simp only [encTag, decTag, List.append_assoc,
    expectField_fieldBegin p 0 T_STRING 1 _ (by decide) (by decide),
    expectField_fieldBegin p 1 T_STRING 2 _ (by decide) (by decide),
    readString_encString p _ _ h1, readString_encString p _ _ h2, expectStop_fieldStop]

theorem roundtrip_value (p : Proto) (v : MetricValue) (h : wfValue v = true) (rest : Bytes) :
    decValue p (encValue p v ++ rest) = some (v, rest) := by
  simp only [wfValue, Bool.and_eq_true] at h
  obtain ⟨⟨h1, h2⟩, h3⟩ := h
  simp only [encValue, decValue, List.append_assoc,
    expectField_fieldBegin p 0 T_I32 1 _ (by decide) (by decide),
    expectField_fieldBegin p 1 T_I64 2 _ (by decide) (by decide),
    expectField_fieldBegin p 2 T_DOUBLE 3 _ (by decide) (by decide),
    expectField_fieldBegin p 3 T_I64 4 _ (by decide) (by decide),
    readI32_encI32 p _ _ h1, readI64_encI64 p _ _ h2, readI64_encI64 p _ _ h3,
    readDouble_encDouble, expectStop_fieldStop]

/-- the optional tag-list field followed by the struct's STOP byte -/
theorem roundtrip_tagsTail (p : Proto) (last id : Int) (hid : inI16 id = true)
    (ts : Option (List MetricTag)) (h : wfTags ts = true) (rest : Bytes) :
    decTagsTail p last id (encTagsField p last id ts ++ (fieldStop ++ rest)) = some (ts, rest) := by
  cases ts with
  | none => simp [encTagsField, decTagsTail, readFieldBegin_stop]
  | some l =>
    simp only [wfTags, Bool.and_eq_true, List.all_eq_true] at h
    obtain ⟨hlen, hall⟩ := h
    have hl := decList_flatMap (encTag p) (decTag p) l (fieldStop ++ rest)
      (fun x hx r => roundtrip_tag p x (hall x hx) r)
    simp [encTagsField, decTagsTail, decTagList, List.append_assoc,
      readFieldBegin_fieldBegin p last T_LIST id _ (by decide) hid,
      readListBegin_listBegin p T_STRUCT l.length _ (by decide) hlen, hl, expectStop_fieldStop]

theorem roundtrip_metric (p : Proto) (m : Metric) (h : wfMetric m = true) (rest : Bytes) :
    decMetric p (encMetric p m ++ rest) = some (m, rest) := by
  simp only [wfMetric, Bool.and_eq_true] at h
  obtain ⟨⟨⟨h1, h2⟩, h3⟩, h4⟩ := h
  simp only [encMetric, decMetric, List.append_assoc,
    expectField_fieldBegin p 0 T_STRING 1 _ (by decide) (by decide),
    expectField_fieldBegin p 1 T_STRUCT 2 _ (by decide) (by decide),
    expectField_fieldBegin p 2 T_I64 3 _ (by decide) (by decide),
    readString_encString p _ _ h1, roundtrip_value p _ h2, readI64_encI64 p _ _ h3,
    roundtrip_tagsTail p 3 4 (by decide) _ h4]

theorem roundtrip_batch (p : Proto) (b : MetricBatch) (h : wfBatch b = true) (rest : Bytes) :
    decBatch p (encBatch p b ++ rest) = some (b, rest) := by
  simp only [wfBatch, Bool.and_eq_true, List.all_eq_true] at h
  obtain ⟨⟨h1, h2⟩, h3⟩ := h
  have hl := fun r => decList_flatMap (encMetric p) (decMetric p) b.metrics r
    (fun x hx r => roundtrip_metric p x (h2 x hx) r)
  simp [encBatch, decBatch, List.append_assoc,
    expectField_fieldBegin p 0 T_LIST 1 _ (by decide) (by decide),
    readListBegin_listBegin p T_STRUCT b.metrics.length _ (by decide) h1, hl,
    roundtrip_tagsTail p 1 2 (by decide) _ h3]

theorem readMessageBegin_messageBegin (p : Proto) (seq : Int) (hs : inI32 seq = true)
    (rest : Bytes) :
    readMessageBegin p (messageBegin p methodName M_ONEWAY seq ++ rest)
      = some (methodName, M_ONEWAY, seq, rest) := by
  have hname : lenOk methodName.length = true := by decide
  cases p with
  | compact =>
    have hv := readVarint64_varint (u32 seq) (encString .compact methodName ++ rest)
      (by have := u32_lt seq; omega)
    simp [readMessageBegin, messageBegin, readByte, readVarint32, List.append_assoc, hv,
      s32_u32 seq hs, readString_encString .compact methodName rest hname, M_ONEWAY]
  | binary =>
    have hb : beVal (beBytes 4 2147549188) = 2147549188 := beVal_beBytes 4 _ (by decide)
    have hs32 : s32 2147549188 = -2147418108 := by decide
    have hu : u32 (-2147418108) = 2147549188 := by decide
    have hbs : beVal (beBytes 4 (u32 seq)) = u32 seq :=
      beVal_beBytes 4 _ (by have := u32_lt seq; omega)
    simp [readMessageBegin, messageBegin, readI32, List.append_assoc, M_ONEWAY,
      takeN_append 4 _ _ (beBytes_length 4 _), hb, hs32, hu, hbs, s32_u32 seq hs,
      readString_encString .binary methodName _ hname]

theorem roundtrip_message (p : Proto) (seq : Int) (hs : -2^31 ≤ seq ∧ seq < 2^31)
    (b : MetricBatch) (h : wfBatch b = true) (rest : Bytes) :
    decMessage p (encMessage p seq b ++ rest) = some (seq, b, rest) := by
  have hs' : inI32 seq = true := by
    simp only [inI32, Bool.and_eq_true, decide_eq_true_eq]; omega
  simp [encMessage, decMessage, List.append_assoc, readMessageBegin_messageBegin p seq hs',
    expectField_fieldBegin p 0 T_STRUCT 1 _ (by decide) (by decide), roundtrip_batch p b h,
    expectStop_fieldStop]

/-! ### sizes: the "max placeholder" bound -/

/-- a zigzag varint of any i64 takes at most 10 bytes (holds for every `Int`: the writer wraps) -/
theorem varint_len_le (i : Int) : (encI64 .compact i).length ≤ 10 := varint_length_le _

/-- … and `math.MaxInt64` attains the bound -/
theorem varint_len_max : (encI64 .compact (2^63 - 1)).length = 10 := by decide

theorem encI64_length_binary (i : Int) : (encI64 .binary i).length = 8 := beBytes_length 8 _

theorem encI64_length_pos (p : Proto) (i : Int) : 1 ≤ (encI64 p i).length := by
  cases p with
  | compact => exact varintAux_length_pos 9 _
  | binary => rw [encI64_length_binary]; omega

theorem encI64_length_le_max (p : Proto) (i : Int) :
    (encI64 p i).length ≤ (encI64 p maxI64).length := by
  cases p with
  | compact =>
    have h1 := varint_len_le i
    have h2 : (encI64 .compact maxI64).length = 10 := varint_len_max
    omega
  | binary => simp [encI64_length_binary]

/-- the i64 varint is monotone in the zigzag value (so small magnitudes are short) -/
theorem encI64_compact_length_mono (a b : Int) (ha : inI64 a = true) (hb : inI64 b = true)
    (h : zz a ≤ zz b) : (encI64 .compact a).length ≤ (encI64 .compact b).length := by
  simp only [encI64, s64_u64 a ha, s64_u64 b hb]
  exact varint_length_mono _ _ h

theorem encI64_max_length (p : Proto) :
    (encI64 p maxI64).length = match p with | .compact => 10 | .binary => 8 := by
  cases p <;> decide

theorem encDouble_length (p : Proto) (g : UInt64) : (encDouble p g).length = 8 := by
  cases p
  · exact leBytes_length 8 _
  · exact beBytes_length 8 _

/-- size of a metric = a part that ignores the numeric values + the three i64 slots -/
theorem encMetric_length (p : Proto) (m : Metric) :
    (encMetric p m).length =
      (encMetric p (maxed m)).length
        + ((encI64 p m.value.count).length + (encI64 p m.value.timer).length
            + (encI64 p m.timestamp).length)
        - 3 * (encI64 p maxI64).length := by
  simp only [encMetric, encValue, maxed, List.length_append, encDouble_length]
  omega

/-- the size computed for a metric with maximal numeric fields bounds its size with any other
in-range values (the hypothesis is not even needed: out-of-range values would wrap) -/
theorem max_is_upper_bound (p : Proto) (m : Metric) (h : wfMetric m = true) :
    (encMetric p m).length ≤ (encMetric p (maxed m)).length := by
  have _ := h
  have h1 := encI64_length_le_max p m.value.count
  have h2 := encI64_length_le_max p m.value.timer
  have h3 := encI64_length_le_max p m.timestamp
  simp only [encMetric, encValue, maxed, List.length_append, encDouble_length]
  omega

/-- the placeholder over-estimates by at most 27 bytes (compact: three slots of 10 instead of ≥ 1),
and not at all for the binary protocol -/
theorem max_slack (p : Proto) (m : Metric) :
    (encMetric p (maxed m)).length ≤ (encMetric p m).length + 27 := by
  have h1 := encI64_length_pos p m.value.count
  have h2 := encI64_length_pos p m.value.timer
  have h3 := encI64_length_pos p m.timestamp
  have hm := encI64_max_length p
  simp only [encMetric, encValue, maxed, List.length_append, encDouble_length]
  cases p <;> simp only [] at hm <;> omega

theorem max_exact_binary (m : Metric) :
    (encMetric .binary (maxed m)).length = (encMetric .binary m).length := by
  simp only [encMetric, encValue, maxed, List.length_append, encDouble_length, encI64_length_binary]

/-! ### framing -/

/-- batch framing: a batch is its header, the concatenated metric encodings, and a trailer that
depends only on the common tags -/
theorem encBatch_length (p : Proto) (b : MetricBatch) :
    (encBatch p b).length
      = batchOverhead p b.metrics.length b.commonTags
        + (b.metrics.map (fun m => (encMetric p m).length)).sum := by
  simp only [encBatch, batchOverhead, List.length_append, List.length_flatMap, fieldStop,
    List.length_cons, List.length_nil]
  omega

theorem encMessage_length (p : Proto) (seq : Int) (b : MetricBatch) :
    (encMessage p seq b).length = messageOverhead p seq + (encBatch p b).length := by
  simp only [encMessage, messageOverhead, List.length_append, fieldStop, List.length_cons,
    List.length_nil]
  omega

/-- compact message overhead: `0x82`, version/type, varint seq id, 1 + 17 bytes of method name,
the `batch` field header, the args STOP — i.e. 22 bytes + the seq-id varint (1 … 5 bytes) -/
theorem messageOverhead_compact (seq : Int) :
    messageOverhead .compact seq = 22 + (varint (u32 seq)).length := by
  simp [messageOverhead, messageBegin, fieldBegin, encString, methodName, varint, varintAux,
    compactType]
  omega

theorem messageOverhead_compact_bounds (seq : Int) :
    23 ≤ messageOverhead .compact seq ∧ messageOverhead .compact seq ≤ 27 := by
  rw [messageOverhead_compact]
  have h1 := varintAux_length_pos 9 (u32 seq)
  have h2 := varint_length_le5 (u32 seq) (u32_lt seq)
  unfold varint at *
  omega

theorem messageOverhead_binary (seq : Int) : messageOverhead .binary seq = 33 := by
  simp [messageOverhead, messageBegin, fieldBegin, encString, methodName, beBytes_length, encI16]

/-- compact batch header + trailer without common tags: 3 bytes up to 14 metrics, then the list
size moves into a varint -/
theorem batchOverhead_compact_none (n : Nat) :
    batchOverhead .compact n none
      = if n ≤ 14 then 3 else 3 + (varint (n % 4294967296)).length := by
  by_cases h : n ≤ 14 <;>
    simp [batchOverhead, listBegin, fieldBegin, encTagsField, compactType, h] <;> omega

/-! ### non-vacuity and regression examples (bytes checked against the Go writers) -/

set_option maxRecDepth 8000

def exTag (n v : Bytes) : MetricTag := { name := n, value := v }

/-- name `"a"`, COUNTER, count 1, timestamp 1, empty non-nil tags -/
def exMetric1 : Metric :=
  { name := [97], value := { mtype := 1, count := 1, gauge := 0, timer := 0 }, timestamp := 1,
    tags := some [] }

/-- name `"counter"`, count −1, gauge = −0.0, one tag `k0=v0` -/
def exMetric2 : Metric :=
  { name := [99, 111, 117, 110, 116, 101, 114],
    value := { mtype := 1, count := -1, gauge := 0x8000000000000000, timer := 63 },
    timestamp := 64, tags := some [exTag [107, 48] [118, 48]] }

def exMetric3 : Metric :=
  { name := [], value := { mtype := -2147483648, count := -9223372036854775808,
                           gauge := 0x7FEFFFFFFFFFFFFF, timer := 9223372036854775807 },
    timestamp := -65, tags := none }

def exBatch : MetricBatch :=
  { metrics := [exMetric1, exMetric2, exMetric3], commonTags := some [exTag [104] [120, 121]] }

example : wfBatch exBatch = true := by decide
example : wfMetric exMetric3 = true := by decide

-- Go: `metric1 compact 1801611c150216021700000000000000001600001602190c00`
example : encMetric .compact exMetric1 =
    [0x18, 0x01, 0x61, 0x1c, 0x15, 0x02, 0x16, 0x02, 0x17, 0, 0, 0, 0, 0, 0, 0, 0, 0x16, 0x00, 0x00,
     0x16, 0x02, 0x19, 0x0c, 0x00] := by decide

-- Go: `metric2 compact 1807636f756e7465721c15021601170000000000000080167e00168001191c18026b30180276300000`
example : encMetric .compact exMetric2 =
    [0x18, 0x07, 0x63, 0x6f, 0x75, 0x6e, 0x74, 0x65, 0x72, 0x1c, 0x15, 0x02, 0x16, 0x01, 0x17,
     0, 0, 0, 0, 0, 0, 0, 0x80, 0x16, 0x7e, 0x00, 0x16, 0x80, 0x01, 0x19, 0x1c, 0x18, 0x02, 0x6b,
     0x30, 0x18, 0x02, 0x76, 0x30, 0x00, 0x00] := by decide

-- Go: `metric1 binary 0b000100000001610c0002080001000000010a0002…0f00040c0000000000`
example : encMetric .binary exMetric1 =
    [0x0b, 0, 1, 0, 0, 0, 1, 0x61, 0x0c, 0, 2, 0x08, 0, 1, 0, 0, 0, 1, 0x0a, 0, 2, 0, 0, 0, 0, 0, 0, 0, 1,
     0x04, 0, 3, 0, 0, 0, 0, 0, 0, 0, 0, 0x0a, 0, 4, 0, 0, 0, 0, 0, 0, 0, 0, 0x00, 0x0a, 0, 3,
     0, 0, 0, 0, 0, 0, 0, 1, 0x0f, 0, 4, 0x0c, 0, 0, 0, 0, 0x00] := by decide

example : decBatch .compact (encBatch .compact exBatch ++ [1, 2]) = some (exBatch, [1, 2]) := by
  decide
example : decMessage .binary (encMessage .binary 128 exBatch) = some (128, exBatch, []) := by
  decide
example : decMessage .compact (encMessage .compact 16384 exBatch) = some (16384, exBatch, []) := by
  decide

/-- a wrong method name, message type or protocol id is rejected -/
example : decMessage .compact (0x83 :: (encMessage .compact 1 exBatch).tail) = none := by decide
example : decMessage .compact
    (messageBegin .compact methodName 1 1 ++ fieldBegin .compact 0 T_STRUCT 1 ++
      encBatch .compact exBatch ++ fieldStop) = none := by decide
example : decMessage .binary
    (messageBegin .binary [101] M_ONEWAY 1 ++ fieldBegin .binary 0 T_STRUCT 1 ++
      encBatch .binary exBatch ++ fieldStop) = none := by decide

/-- the reporter's constant `_emitMetricBatchOverhead = 19` is smaller than every real overhead -/
example : messageOverhead .compact 1 = 23 := by decide
example : messageOverhead .compact 128 = 24 := by decide
example : batchOverhead .compact 14 none = 3 ∧ batchOverhead .compact 15 none = 4
    ∧ batchOverhead .compact 128 none = 5 := by decide

/-- the long form of a compact field header is exercised too (delta 0 or > 15) -/
example : readFieldBegin .compact 4 (fieldBegin .compact 4 T_I64 4 ++ [9]) = some (T_I64, 4, [9]) := by
  decide
example : fieldBegin .compact 0 T_I64 16 = [0x06, 0x20] := by decide

end Tally.Props.C16
