import Tally.Model.BucketAlias
import TallyProofs.Props.C20
/-!
# C20, last sentence, with the caller's memory in the picture (repair D16)

"A histogram always uses exactly the bounds it was created with" — also when the caller reuses the slice it passed.

* `copy_run_is_value_run`: with the private copy the run over caller memory IS the value-level run of
  `Tally.BucketCache` on the contents each slice had when its histogram was created;
* `created_with_bounds_kept`: hence every created histogram uses exactly the bounds of those contents, for every
  identity function, every program of writes and creations, every initial memory;
* `legacy_alias_counterexample`: the pinned code (storage aliasing the caller's slice) hands the second histogram of
  `s = {1,4}; create; s = {2,3}; create` the bounds `{1,4}`.
-/
namespace Tally.Props.C20Alias
open Tally Tally.Buckets Tally.BucketCache Tally.BucketAlias Tally.C20Cache Tally.Props.C20

/-- the repaired run over caller memory is the value-level history of the contents at creation time -/
theorem copy_run_is_value_run (idf : BSpec → UInt64) (h : Heap) (c : Cache) (ops : List Op) :
    runCopy idf h c ops = ((getAll idf c (createdWith h ops)).2).map (·.uppers) := by
  induction ops generalizing h c with
  | nil => rfl
  | cons op ops ih =>
    cases op with
    | write r s => simp only [runCopy, createdWith]; exact ih _ _
    | create r =>
      simp only [runCopy, createdWith, getAll, List.map_cons]
      rw [ih]

/-- **a histogram keeps the bounds it was created with, whatever the caller does to its slice afterwards**:
for every identity function, every initial caller memory and every program of slice writes and histogram
creations, the `i`-th created histogram uses exactly the bounds of the contents its slice had at that creation
(`Transparent`: the sorted contents followed by the maximum; values compared through the numeric key). -/
theorem created_with_bounds_kept (idf : BSpec → UInt64) (h : Heap) (ops : List Op) :
    (runCopy idf h Cache.empty ops).length = (createdWith h ops).length ∧
    ∀ p ∈ (createdWith h ops).zip (getAll idf Cache.empty (createdWith h ops)).2, Transparent p.1 p.2 :=
  ⟨by rw [copy_run_is_value_run, List.length_map]; exact (cache_transparent idf _).1,
   (cache_transparent idf _).2⟩

/-! ## the pinned code -/
namespace Example
/-- any identity that is a function of the multiset of elements makes `{1,4}` and `{2,3}` collide; the sum will do -/
def idf : BSpec → UInt64 := fun s => UInt64.ofNat (s.keys.foldl (· + ·) 0).toNat
def heap : Heap := fun _ => .dur []
def prog : List Op := [.write 0 (.dur [1, 4]), .create 0, .write 0 (.dur [2, 3]), .create 0]

theorem uppers14 : (build (.dur [1, 4])).uppers = .dur [1, 4, maxInt64] := by
  simp [build, pairsD, sortByKey, List.mergeSort, List.MergeSort.Internal.splitInTwo, durationLower, List.range,
    List.range.loop]
theorem uppers23 : (build (.dur [2, 3])).uppers = .dur [2, 3, maxInt64] := by
  simp [build, pairsD, sortByKey, List.mergeSort, List.MergeSort.Internal.splitInTwo, durationLower, List.range,
    List.range.loop]

theorem collide : idf (.dur [1, 4]) = idf (.dur [2, 3]) := by decide

/-- D16: the second histogram was created with `{2,3}` and uses `{1,4}` (and the maximum) -/
theorem legacy_alias_counterexample :
    createdWith heap prog = [.dur [1, 4], .dur [2, 3]] ∧
    runRef idf heap RefCache.empty prog = [.dur [1, 4, maxInt64], .dur [1, 4, maxInt64]] := by
  refine ⟨by simp [createdWith, prog, Heap.write], ?_⟩
  have hmiss : RefCache.empty (idf (.dur [1, 4])) = none := rfl
  simp only [runRef, prog, getRef, Heap.write, if_true, hmiss, uppers14]
  simp only [← collide, RefCache.set, if_true, specEq, allEq, beq_self_eq_true, Bool.and_self]

/-- the repaired code on the same program -/
theorem repaired_on_the_same_program :
    runCopy idf heap Cache.empty prog = [.dur [1, 4, maxInt64], .dur [2, 3, maxInt64]] := by
  have hmiss : Cache.empty (idf (.dur [1, 4])) = none := rfl
  have hne : specEq (.dur [2, 3]) (.dur [1, 4]) = false := by decide
  simp only [runCopy, prog, BucketCache.get, Heap.write, if_true, hmiss, uppers14]
  have hspec : (build (.dur [1, 4])).spec = .dur [1, 4] := rfl
  simp only [← collide, Cache.set, if_true, hspec, hne]
  simp [uppers23]

/-- non-vacuity of `created_with_bounds_kept` on this program: two creations, both judged -/
example : (createdWith heap prog).length = 2 := by simp [createdWith, prog, Heap.write]
end Example

end Tally.Props.C20Alias
