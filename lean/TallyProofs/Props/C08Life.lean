import TallyProofs.Lemmas.ScopeLifeInv
/-!
# C08 over a live registry — the root's `Close` as a barrier when subscopes are closed / re-acquired meanwhile

Model: `Tally.ScopeLife` = the control skeleton of the root's `Close` and of the report loop (as in
`Tally.RootClose`) on top of the registry shard `Tally.Registry` (its `State`, `Ev`, `step` are reused: every step of
the combined model is one `Registry.step` on the component `reg`, or leaves `reg` alone, or is the `purge`).
All theorems are for every idempotent sanitizer `san` and over EVERY event list accepted by the model from
`init san hasLoop closable err`.

A token counts for the barrier (`Barrier s tok`) iff `tok.pre` (recorded before its SUBSCOPE's `Close`) and
`tok.id ∈ s.preRoot` (recorded before the root's CAS).

What is proved, and what the combined model shows that neither `C07` nor `C08` can:

* `life_token_conservation` — the Registry partition delivered / cells / pending / dropped, in every reachable state.
* `life_no_barrier_token_dropped` — NO side condition is needed: the purge never clears a barrier token away.  The
  argument "a record after the final pass's visit is after the CAS, hence not in `preRoot`" is the easy half; the
  other half is that a barrier token still in a cell after the final pass sits in a scope some re-acquire visit is
  about to swap, that visit holds the shard's read lock, and the purge takes the write lock.
  (`C07.no_pre_token_dropped` itself is FALSE in the combined model: `purge_drops_registry_pre_token`.)
* `life_barrier_after_final_pass` — from the end of the final pass on, every barrier token is in `delivered`
  exactly once OR is held by an application thread's re-acquire visit in flight (`ReacquireHolds`).  That residual
  exists only while the winning call waits for the purge's write lock; after the purge it is empty
  (`life_barrier_after_purge`).
* REPAIRED ORDER (final pass, purge, THEN `Flush`): `life_final_flush_complete` — when the winning call is about to
  call its final `Flush`, every barrier token is in `delivered` exactly once, with no side condition; and
  `life_final_flush_covers_everything` — once that flush is logged (`flush n`, `n` = number of deliveries so far),
  in every later state every barrier token is in `delivered` exactly once at a position (counted from the oldest)
  below `n`: its delivery precedes the final flush.  No hypothesis about re-acquire visits in flight.
* `life_close_barrier` — when the winning call has returned the residual is EMPTY (`¬ ReacquireInFlight`, again by
  the purge's write lock): every barrier token is in `delivered` exactly once, unconditionally.
* the code BEFORE the repair (final pass, `Flush`, purge: `ScopeLife.Legacy`) did not have that property:
  `legacy_reacquire_in_flight_delivers_after_final_flush` (a barrier token reaches the reporter after the last `Flush`,
  before the reporter's `Close`); the same schedule on the repaired model delivers the token BEFORE the final flush
  (`repaired_reacquire_in_flight_delivers_before_final_flush`).
* `reacquire_in_flight_may_deliver_after_close` — an application thread that entered `Subscope` before the root's
  CAS makes the (closed) reporter receive a delivery after the winning `Close` returned.  In this model (one shard,
  purge under the write lock) what is delivered late can NOT be a barrier token (`life_close_barrier`); it is a token
  recorded, after the purge, on a scope that another in-flight `Subscope` call created in the purged registry.
* `life_silent_after_close_partial` — after the return the loop thread and the `Close` calls are silent, `Subscope`
  can never be entered again; only application threads already inside `Subscope`, and records / closes on old handles,
  still act on the shard.
-/
namespace Tally.Props.C08Life
open Tally Tally.ScopeLife
open Tally.Registry (Token ScopeS Pc pcOf scopeOf lookup allCells allPending allTokens Inv shadow er swapsNext isPassPc)

variable {san : Nat → Nat}

theorem allTokens_shadow_ids (r : Registry.State) :
    (allTokens (shadow r)).map (·.id) = (allTokens r).map (·.id) := by
  show (r.delivered ++ allCells r ++ allPending r ++ r.dropped.map er).map (·.id) = _
  simp [allTokens, List.map_append, List.map_map, Function.comp_def, er]

/-! ## the root's flag -/

/-- **the root's `closed` flag is the closed flag of scope 0 of the shard** in every reachable state (the CAS of the
root's `Close` is modelled as the Registry event `close 0` together with `rootClosed := true`; application threads can
only close subscopes): so a final pass treats the root scope like any closed scope (reports it, unregisters it, clears
it), and a token recorded on the root is `pre` iff it was recorded before the CAS -/
theorem root_flag_is_scope_zero {s : State} {es : List Ev} (hsan : ∀ k, san (san k) = san k) {hl cl : Bool}
    {er : Option Nat} (hr : run san (init san hl cl er) es = some s) :
    ∃ x, scopeOf s.reg 0 = some x ∧ x.closed = s.rootClosed :=
  rootFlag_reach hsan hr

/-! ## T1 — token conservation -/

/-- **token conservation** in the combined model: in every reachable state the tokens delivered, still in a cell,
held pending by a visiting thread, or dropped (cleared by a visit, recorded on a cleared scope, or cleared by the
root's purge) have pairwise distinct ids, all below `nextToken`, and there are exactly `nextToken` of them. -/
theorem life_token_conservation {s : State} {es : List Ev} (hsan : ∀ k, san (san k) = san k) {hl cl : Bool}
    {er : Option Nat} (hr : run san (init san hl cl er) es = some s) :
    ((s.reg.delivered ++ allCells s.reg ++ allPending s.reg ++ s.reg.dropped).map (·.id)).Nodup
    ∧ (∀ tok ∈ s.reg.delivered ++ allCells s.reg ++ allPending s.reg ++ s.reg.dropped, tok.id < s.reg.nextToken)
    ∧ (s.reg.delivered ++ allCells s.reg ++ allPending s.reg ++ s.reg.dropped).length = s.reg.nextToken := by
  have hp := (life_inv_reach hsan hr).tok.base.inv.ids_perm
  rw [allTokens_shadow_ids] at hp
  have hp' : ((allTokens s.reg).map (·.id)).Perm (List.range s.reg.nextToken) := hp
  refine ⟨hp'.nodup_iff.mpr List.nodup_range, ?_, ?_⟩
  · intro tok hm
    have : tok.id ∈ (allTokens s.reg).map (·.id) := List.mem_map_of_mem hm
    exact List.mem_range.mp (hp'.mem_iff.mp this)
  · have := hp'.length_eq
    rw [List.length_map, List.length_range] at this
    exact this

/-- every id in `preRoot` is the id of an issued token -/
theorem preRoot_issued {s : State} {es : List Ev} (hsan : ∀ k, san (san k) = san k) {hl cl : Bool}
    {er : Option Nat} (hr : run san (init san hl cl er) es = some s) :
    ∀ id ∈ s.preRoot, ∃ tok ∈ allTokens s.reg, tok.id = id := by
  intro id hm
  have h := life_inv_reach hsan hr
  have hp := h.tok.base.inv.ids_perm
  rw [allTokens_shadow_ids] at hp
  have : id ∈ (allTokens s.reg).map (·.id) :=
    hp.mem_iff.mpr (List.mem_range.mpr (h.tok.base.preLt id hm))
  obtain ⟨tok, htok, rfl⟩ := List.mem_map.mp this
  exact ⟨tok, htok, rfl⟩

/-! ## T2 — no barrier token is ever dropped -/

/-- **no barrier token is ever dropped** — neither by a visit that clears a closed scope, nor by a record on a cleared
scope, nor by the root's purge; no side condition. -/
theorem life_no_barrier_token_dropped {s : State} {es : List Ev} (hsan : ∀ k, san (san k) = san k) {hl cl : Bool}
    {er : Option Nat} (hr : run san (init san hl cl er) es = some s) :
    ∀ tok ∈ s.reg.dropped, ¬ (tok.pre = true ∧ tok.id ∈ s.preRoot) :=
  (life_inv_reach hsan hr).tok.base.dropNoB

/-- before the purge the Registry property itself holds: nothing `pre` (in the Registry sense) is dropped -/
theorem life_no_pre_token_dropped_before_purge {s : State} {es : List Ev} (hsan : ∀ k, san (san k) = san k)
    {hl cl : Bool} {er : Option Nat} (hr : run san (init san hl cl er) es = some s) (hp : s.purged = false) :
    ∀ tok ∈ s.reg.dropped, tok.pre = false :=
  (life_inv_reach hsan hr).tok.base.dropNoPre hp

/-- what is recorded on a live subscope after the root's CAS and after the final pass visited that subscope is `pre`
in the Registry sense (its subscope was not closed) and is cleared away by the purge: `C07.no_pre_token_dropped`
does not lift to the combined model; `life_no_barrier_token_dropped` is the statement that does
(the token is not in `preRoot`).  Thread 1 creates scope 1 (key 7); root `Close`: CAS, `close(done)`, wait, final
pass over keys 7 and 0; then the record; purge, flush. -/
def purgeDropsRun : List Ev :=
  [.obtain 1 7, .step 1 0, .step 1 0, .step 1 0,
   .closer 0 0, .closer 0 0, .closer 0 0, .closer 0 0,
   .closer 0 7, .closer 0 0, .closer 0 0,
   .closer 0 0, .closer 0 0, .closer 0 0, .closer 0 0, .closer 0 0, .closer 0 0,
   .closerEnd 0, .record 1, .closer 0 0, .closer 0 0]

set_option maxRecDepth 100000 in
theorem purge_drops_registry_pre_token :
    (run id (init id false true) purgeDropsRun).map (fun s => (s.closers 0, s.reg.dropped, s.preRoot))
      = some (.reporterClose, [{ id := 0, scope := 1, pre := true }], []) := by decide

/-! ## T3 — the barrier -/

/-- an application thread's re-acquire visit (`Subscope` found a closed scope and reports it) holds the token: the
thread is about to swap the cell the token is in, or has swapped it out and is about to call the reporter -/
def ReacquireHolds (s : State) (tok : Token) : Prop :=
  ∃ t, isApp t = true ∧
    ((∃ r sid x, pcOf s.reg t = .obtSwap r sid ∧ s.reg.scopes[sid]? = some x ∧ tok ∈ x.cell)
      ∨ (∃ r sid pd, pcOf s.reg t = .obtDeliver r sid pd ∧ tok ∈ pd))

/-- a re-acquire visit of an application thread — which necessarily passed its root-closed check before the root's
CAS, see `obtain_disabled_after_cas` — holds a barrier token -/
def ReacquireInFlight (s : State) : Prop := ∃ tok, Barrier s tok ∧ ReacquireHolds s tok

/-- `Subscope` cannot be entered once the root's flag is set: an obtain in flight after the CAS began before it -/
theorem obtain_disabled_after_cas (s : State) (hc : s.rootClosed = true) (t k : Nat) :
    step san s (.obtain t k) = none := by
  simp [step, hc]

theorem delivered_once {s : State} {es : List Ev} (hsan : ∀ k, san (san k) = san k) {hl cl : Bool}
    {er : Option Nat} (hr : run san (init san hl cl er) es = some s) {tok : Token} (hm : tok ∈ s.reg.delivered) :
    (s.reg.delivered.map (·.id)).count tok.id = 1 := by
  have hnd := (life_token_conservation hsan hr).1
  have h1 : 1 ≤ (s.reg.delivered.map (·.id)).count tok.id := List.one_le_count_iff.mpr (List.mem_map_of_mem hm)
  have h2 := List.nodup_iff_count.mp hnd tok.id
  simp only [List.map_append, List.count_append] at h2
  omega

/-- **after the final pass** (the winning call `w` is about to purge, to `Flush`, to close the reporter, or has
returned): every barrier token is in `delivered` — exactly once — or is held by an application thread's re-acquire
visit in flight (possible only while `w` is about to purge: `life_barrier_after_purge`). -/
theorem life_barrier_after_final_pass {s : State} {es : List Ev} (hsan : ∀ k, san (san k) = san k) {hl cl : Bool}
    {er : Option Nat} (hr : run san (init san hl cl er) es = some s) (w : Nat) (hw : 5 ≤ ph (s.closers w)) :
    ∀ tok ∈ s.reg.delivered ++ allCells s.reg ++ allPending s.reg ++ s.reg.dropped, Barrier s tok →
      (tok ∈ s.reg.delivered ∧ (s.reg.delivered.map (·.id)).count tok.id = 1) ∨ ReacquireHolds s tok := by
  have h := life_inv_reach hsan hr
  have hwin : s.winner = some w := h.ctl.winner_of w (by omega)
  have hex : s.loop = .exited := h.ctl.loopEx (by rw [wpc_of_winner hwin]; omega)
  -- every thread that is not an application thread is idle
  have hidle : ∀ t, isApp t = false → pcOf s.reg t = .idle := by
    intro t ht
    rcases tid_cases t with rfl | ⟨c, rfl⟩ | ha
    · rcases h.ctl.threads.loopThread with ⟨h1, _⟩ | ⟨_, h2⟩
      · rw [hex] at h1; cases h1
      · exact h2
    · rcases h.ctl.threads.closerThread c with ⟨h1, _⟩ | ⟨_, h2⟩
      · by_cases hc : c = w
        · subst hc; rw [h1] at hw; simp [ph] at hw
        · rcases h.ctl.others c (by rw [hwin]; intro e; exact hc (Option.some.inj e).symm) with h3 | h3 | h3 <;>
            rw [h3] at h1 <;> cases h1
      · exact h2
    · rw [ha] at ht; cases ht
  have happ : ∀ t, pcOf s.reg t ≠ .idle → isApp t = true ∧ isPassPc (pcOf s.reg t) = false := by
    intro t hne
    cases ha : isApp t with
    | false => exact absurd (hidle t ha) hne
    | true => exact ⟨rfl, h.ctl.threads.appThread t ha⟩
  intro tok hm hb
  simp only [List.mem_append] at hm
  rcases hm with ((hm | hm) | hm) | hm
  · exact Or.inl ⟨hm, delivered_once hsan hr hm⟩
  · right
    obtain ⟨sid, x, hx, hmx⟩ := Registry.mem_cells.mp hm
    have hcov := h.tok.cover w hwin sid ⟨x, tok, hx, hmx, hb⟩
    have hsw : Swapper s.reg sid := by
      unfold Cov at hcov
      cases hcw : s.closers w <;> rw [hcw] at hcov hw <;> simp [ph] at hw
      · exact hcov
      · exact absurd ⟨x, tok, hx, hmx, hb⟩
          (h.tok.base.purgedCold (by rw [h.ctl.purged_iff, wpc_of_winner hwin, hcw]; simp [ph]) sid)
      · exact absurd ⟨x, tok, hx, hmx, hb⟩
          (h.tok.base.purgedCold (by rw [h.ctl.purged_iff, wpc_of_winner hwin, hcw]; simp [ph]) sid)
      · exact absurd ⟨x, tok, hx, hmx, hb⟩
          (h.tok.base.purgedCold (by rw [h.ctl.purged_iff, wpc_of_winner hwin, hcw]; simp [ph]) sid)
    obtain ⟨t, ht⟩ := hsw
    have hne : pcOf s.reg t ≠ .idle := by intro e; rw [e] at ht; simp [swapsNext] at ht
    obtain ⟨ha, hnp⟩ := happ t hne
    refine ⟨t, ha, Or.inl ?_⟩
    cases hpc : pcOf s.reg t with
    | obtSwap r sid' =>
      rw [hpc] at ht
      have : sid' = sid := by simpa [swapsNext] using ht
      subst this
      exact ⟨r, sid', x, rfl, hx, hmx⟩
    | passSwap v k sid' c => rw [hpc] at hnp; cases hnp
    | _ => rw [hpc] at ht; simp [swapsNext] at ht
  · right
    obtain ⟨t, ht⟩ := mem_allPending (r := s.reg) h.tok.base.inv.nodup hm
    have hne : pcOf s.reg t ≠ .idle := by intro e; rw [e] at ht; simp [Registry.pendingOf] at ht
    obtain ⟨ha, hnp⟩ := happ t hne
    refine ⟨t, ha, Or.inr ?_⟩
    cases hpc : pcOf s.reg t with
    | obtDeliver r sid pd => rw [hpc] at ht; exact ⟨r, sid, pd, rfl, ht⟩
    | passDeliver v k sid c pd => rw [hpc] at hnp; cases hnp
    | _ => rw [hpc] at ht; simp [Registry.pendingOf] at ht
  · exact absurd hb (h.tok.base.dropNoB tok hm)

/-- once the registry has been purged no re-acquire visit holds a barrier token: the purge took the shard's write
lock (no visit was in flight then), and afterwards no barrier token is in a cell -/
theorem no_reacquire_after_purge {s : State} (h : LifeInv san s) (hpur : s.purged = true) : ¬ ReacquireInFlight s := by
  rintro ⟨tok, hb, t, _, ⟨r', sid, x, _, hx, hm⟩ | ⟨r', sid, pd, hpc, hm⟩⟩
  · exact h.tok.base.purgedCold hpur sid ⟨x, tok, hx, hm, hb⟩
  · exact h.tok.base.pendNoB hpur tok (Registry.mem_allPending_of_pcOf (t := t) (by rw [hpc]; exact hm)) hb

/-- **after the purge** (the winning call `w` is about to call its final `Flush`, to close the reporter, or has
returned): every barrier token is in `delivered`, exactly once, and no re-acquire visit in flight holds one.  In
particular every barrier token has reached the reporter BEFORE the final `Flush` is called (`final_flush_step`: the
entry `flush n` is logged by the very next step of `w`, with `n = delivered.length`), hence before the reporter's
`Close` (`reporter_close_step`). -/
theorem life_barrier_after_purge {s : State} {es : List Ev} (hsan : ∀ k, san (san k) = san k) {hl cl : Bool}
    {er : Option Nat} (hr : run san (init san hl cl er) es = some s) (w : Nat) (hw : 6 ≤ ph (s.closers w)) :
    (∀ tok ∈ s.reg.delivered ++ allCells s.reg ++ allPending s.reg ++ s.reg.dropped, Barrier s tok →
      tok ∈ s.reg.delivered ∧ (s.reg.delivered.map (·.id)).count tok.id = 1) ∧ ¬ ReacquireInFlight s := by
  have h := life_inv_reach hsan hr
  have hwin : s.winner = some w := h.ctl.winner_of w (by omega)
  have hpur : s.purged = true := by rw [h.ctl.purged_iff, wpc_of_winner hwin]; simpa using hw
  have hno := no_reacquire_after_purge h hpur
  refine ⟨?_, hno⟩
  intro tok hm hb
  rcases life_barrier_after_final_pass hsan hr w (by omega) tok hm hb with h1 | h1
  · exact h1
  · exact absurd ⟨tok, hb, h1⟩ hno

/-- **the final `Flush` is complete** (repaired order: the purge comes first): when the winning call is about to call
`Flush` after its final pass and the purge, every barrier token has reached the reporter (exactly once) — so the flush
covers them all — and no application thread's re-acquire visit holds one.  No side condition (before the repair this
needed `¬ ReacquireInFlight s`, and `legacy_reacquire_in_flight_delivers_after_final_flush` shows it was needed). -/
theorem life_final_flush_complete {s : State} {es : List Ev} (hsan : ∀ k, san (san k) = san k) {hl cl : Bool}
    {er : Option Nat} (hr : run san (init san hl cl er) es = some s) (w : Nat) (hpc : s.closers w = .flushPc) :
    (∀ tok ∈ s.reg.delivered ++ allCells s.reg ++ allPending s.reg ++ s.reg.dropped, Barrier s tok →
      tok ∈ s.reg.delivered ∧ (s.reg.delivered.map (·.id)).count tok.id = 1) ∧ ¬ ReacquireInFlight s :=
  life_barrier_after_purge hsan hr w (by rw [hpc]; simp [ph])

/-- the steps of the winning call after its final pass: the purge needs the shard's write lock (no reader) and writes
nothing to the log; the final `Flush` logs `flush n` and the reporter's `Close` logs `reporterClose n` with `n` = the
number of tokens delivered so far; neither of these two touches the shard -/
theorem final_purge_step {s s' : State} {t c : Nat} (hpc : s.closers t = .purgePc)
    (hs : step san s (.closer t c) = some s') :
    s.reg.readers = [] ∧ s'.reg = purgeReg s.reg ∧ s'.log = s.log ∧ s'.closers t = .flushPc := by
  simp only [step, hpc] at hs
  split at hs
  · next hrd =>
    simp only [Option.some.injEq] at hs; subst hs
    exact ⟨List.isEmpty_iff.mp hrd, rfl, rfl, by simp [setC]⟩
  · cases hs

theorem final_flush_step {s s' : State} {t c : Nat} (hpc : s.closers t = .flushPc)
    (hs : step san s (.closer t c) = some s') :
    s'.log = .flush s.reg.delivered.length :: s.log ∧ s'.closers t = .reporterClose ∧ s'.reg = s.reg := by
  simp only [step, hpc, Option.some.injEq] at hs; subst hs
  exact ⟨rfl, by simp [setC], rfl⟩

theorem reporter_close_step {s s' : State} {t c : Nat} (hpc : s.closers t = .reporterClose)
    (hs : step san s (.closer t c) = some s') :
    (s.closable = true → s'.log = .reporterClose s.reg.delivered.length :: s.log ∧ s'.closers t = .returned s.err) ∧
    (s.closable = false → s'.log = s.log ∧ s'.closers t = .returned none) ∧ s'.reg = s.reg := by
  simp only [step, hpc] at hs
  split at hs <;> (simp only [Option.some.injEq] at hs; subst hs)
  · next hcl => simp [hcl, setC]
  · next hcl => simp [hcl, setC]

/-- **the final `Flush` covers everything** (repaired order: final pass, purge, `Flush`).  In every reachable state in
which the winning `Close` call `w` has logged its final flush (it is about to close the reporter, or has returned):
* the log is `flush n :: rest`, or `reporterClose k :: flush n :: rest` (the reporter's `Close` after the flush): `flush n`
  is the LAST flush, and `n` is the number of tokens that had been delivered when it was called;
* every barrier token is in `delivered`, exactly once, and its position in `delivered` counted from the oldest delivery
  (`delivered` is most recent first, so this is the position in `delivered.reverse`) is below `n`: the token was
  delivered BEFORE the final flush.
There is no hypothesis about re-acquire visits in flight: a visit that holds a barrier token holds the shard's read
lock, the purge waits for it, and the flush comes after the purge. -/
theorem life_final_flush_covers_everything {s : State} {es : List Ev} (hsan : ∀ k, san (san k) = san k)
    {hl cl : Bool} {er : Option Nat} (hr : run san (init san hl cl er) es = some s) (w : Nat)
    (hw : s.closers w = .reporterClose ∨ ∃ r, s.closers w = .returned r) :
    ∃ n rest, (s.log = .flush n :: rest ∨ ∃ k, s.log = .reporterClose k :: .flush n :: rest) ∧
      n ≤ s.reg.delivered.length ∧
      ∀ tok ∈ s.reg.delivered ++ allCells s.reg ++ allPending s.reg ++ s.reg.dropped, Barrier s tok →
        tok ∈ s.reg.delivered ∧ (s.reg.delivered.map (·.id)).count tok.id = 1 ∧
        ∃ i, i < n ∧ s.reg.delivered.reverse[i]? = some tok := by
  have h := life_inv_reach hsan hr
  have h7 : 7 ≤ ph (s.closers w) := by
    rcases hw with hw | ⟨r, hw⟩ <;> rw [hw] <;> simp [ph]
  have hwin : s.winner = some w := h.ctl.winner_of w (by omega)
  have hwpc := wpc_of_winner hwin
  obtain ⟨n, newer, older, hlf, hdel, hlen, hnb⟩ := ffc_reach hsan hr (by rw [hwpc]; exact h7)
  have hlog : ∃ rest, s.log = .flush n :: rest ∨ ∃ k, s.log = .reporterClose k :: .flush n :: rest := by
    rcases hw with hw | ⟨r, hw⟩
    · obtain ⟨m, rest, hl⟩ := h.ctl.logFlush (by rw [hwpc, hw]; simp [ph]) (by rw [hwpc, hw]; simp [ph])
      rw [hl] at hlf
      simp only [lastFlush, Option.some.injEq] at hlf
      subst hlf
      exact ⟨rest, Or.inl hl⟩
    · obtain ⟨k, m, rest, hl⟩ := h.ctl.logRet (by rw [hwpc, hw]; simp [ph])
      cases hcl : s.closable with
      | true =>
        rw [hcl] at hl
        simp only [if_true] at hl
        rw [hl] at hlf
        simp only [lastFlush, Option.some.injEq] at hlf
        subst hlf
        exact ⟨rest, Or.inr ⟨k, hl⟩⟩
      | false =>
        rw [hcl] at hl
        simp only [Bool.false_eq_true, if_false] at hl
        rw [hl] at hlf
        simp only [lastFlush, Option.some.injEq] at hlf
        subst hlf
        exact ⟨rest, Or.inl hl⟩
  obtain ⟨rest, hlog⟩ := hlog
  refine ⟨n, rest, hlog, by rw [hdel, List.length_append]; omega, ?_⟩
  intro tok hm hb
  obtain ⟨hmd, hcnt⟩ := (life_barrier_after_purge hsan hr w (by omega)).1 tok hm hb
  refine ⟨hmd, hcnt, ?_⟩
  have hold : tok ∈ older := by
    rw [hdel] at hmd
    rcases List.mem_append.mp hmd with h1 | h1
    · exact absurd hb (hnb tok h1)
    · exact h1
  obtain ⟨i, hi⟩ := List.mem_iff_getElem?.mp (List.mem_reverse.mpr hold)
  have hilt : i < older.reverse.length := (List.getElem?_eq_some_iff.mp hi).1
  refine ⟨i, by rw [← hlen, ← List.length_reverse]; exact hilt, ?_⟩
  rw [hdel, List.reverse_append, List.getElem?_append_left hilt]
  exact hi

/-- **C08 over a live registry, barrier.**  In every reachable state in which the winning `Close` call has returned:
* no re-acquire visit in flight holds a barrier token (the purge took the shard's write lock, a visit holds the read
  lock), and every barrier token is in `delivered`, exactly once; none is in a cell, pending, or dropped;
* every id in `preRoot` is the id of an issued token (so the statement is about all of them);
* the log ends with `flush` followed — iff the reporter is closable — by `reporterClose`, the only one in the log
  (that `flush` covers every barrier token: `life_final_flush_covers_everything`);
* the loop goroutine has exited, its thread and the threads of all `Close` calls are idle (no pass of thread 0 or
  1000+ is in flight), the registry has been purged. -/
theorem life_close_barrier {s : State} {es : List Ev} (hsan : ∀ k, san (san k) = san k) {hl cl : Bool}
    {er : Option Nat} (hr : run san (init san hl cl er) es = some s) (w : Nat) (r : Option Nat)
    (hret : s.closers w = .returned r) :
    (∀ tok ∈ s.reg.delivered ++ allCells s.reg ++ allPending s.reg ++ s.reg.dropped, Barrier s tok →
      tok ∈ s.reg.delivered ∧ (s.reg.delivered.map (·.id)).count tok.id = 1) ∧
    ¬ ReacquireInFlight s ∧
    (∀ id ∈ s.preRoot, ∃ tok ∈ s.reg.delivered ++ allCells s.reg ++ allPending s.reg ++ s.reg.dropped, tok.id = id) ∧
    (∃ n m rest, s.log = if cl then .reporterClose n :: .flush m :: rest else .flush m :: rest) ∧
    countRC s.log = (if cl then 1 else 0) ∧
    s.loop = .exited ∧ pcOf s.reg loopTid = .idle ∧ (∀ c, pcOf s.reg (closerTid c) = .idle) ∧
    (∀ c, s.closers c ≠ .pass) ∧ s.purged = true ∧ s.rootClosed = true := by
  have h := life_inv_reach hsan hr
  have hwin : s.winner = some w := h.ctl.winner_of w (by rw [hret]; simp [ph])
  have hwpc : wpc s = .returned r := by rw [wpc_of_winner hwin, hret]
  have hex : s.loop = .exited := h.ctl.loopEx (by rw [hwpc]; simp [ph])
  have hpur : s.purged = true := by rw [h.ctl.purged_iff, hwpc]; simp [ph]
  have hcl : s.closable = cl := by rw [run_closable hr]; rfl
  have hnp : ∀ c, s.closers c ≠ .pass := by
    intro c hc
    by_cases he : c = w
    · subst he; rw [hret] at hc; cases hc
    · rcases h.ctl.others c (by rw [hwin]; intro e; exact he (Option.some.inj e).symm) with h3 | h3 | h3 <;>
        rw [h3] at hc <;> cases hc
  have hno : ¬ ReacquireInFlight s := no_reacquire_after_purge h hpur
  refine ⟨?_, hno, preRoot_issued hsan hr, ?_, ?_, hex, ?_, ?_, hnp, hpur, ?_⟩
  · intro tok hm hb
    rcases life_barrier_after_final_pass hsan hr w (by rw [hret]; simp [ph]) tok hm hb with h1 | h1
    · exact h1
    · exact absurd ⟨tok, hb, h1⟩ hno
  · have := h.ctl.logRet (by rw [hwpc]; simp [ph])
    rw [hcl] at this; exact this
  · have := h.ctl.rc
    rw [hwpc, hcl] at this
    rw [this]; simp [ph]
  · rcases h.ctl.threads.loopThread with ⟨h1, _⟩ | ⟨_, h2⟩
    · rw [hex] at h1; cases h1
    · exact h2
  · intro c
    rcases h.ctl.threads.closerThread c with ⟨h1, _⟩ | ⟨_, h2⟩
    · exact absurd h1 (hnp c)
    · exact h2
  · rw [h.ctl.closed_iff, hwin]; rfl

/-- **C08 over a live registry, every call is a barrier (repair D17).**  For EVERY `Close` call `t` that has
returned — the winning call (`returned r`) or a call that lost the CAS (`returnedNil`) — the whole conclusion of
`life_close_barrier` holds: a losing call returns only after `closeDone` was closed (`Ctl.nil_cd`), which only the
winning call does, as it returns (`Ctl.cd_iff`). -/
theorem life_every_close_call_is_a_barrier {s : State} {es : List Ev} (hsan : ∀ k, san (san k) = san k) {hl cl : Bool}
    {er : Option Nat} (hr : run san (init san hl cl er) es = some s) (t : Nat)
    (hret : (∃ r, s.closers t = .returned r) ∨ s.closers t = .returnedNil) :
    (∀ tok ∈ s.reg.delivered ++ allCells s.reg ++ allPending s.reg ++ s.reg.dropped, Barrier s tok →
      tok ∈ s.reg.delivered ∧ (s.reg.delivered.map (·.id)).count tok.id = 1) ∧
    ¬ ReacquireInFlight s ∧
    (∀ id ∈ s.preRoot, ∃ tok ∈ s.reg.delivered ++ allCells s.reg ++ allPending s.reg ++ s.reg.dropped, tok.id = id) ∧
    (∃ n m rest, s.log = if cl then .reporterClose n :: .flush m :: rest else .flush m :: rest) ∧
    countRC s.log = (if cl then 1 else 0) ∧
    s.loop = .exited ∧ pcOf s.reg loopTid = .idle ∧ (∀ c, pcOf s.reg (closerTid c) = .idle) ∧
    (∀ c, s.closers c ≠ .pass) ∧ s.purged = true ∧ s.rootClosed = true := by
  rcases hret with ⟨r, hret⟩ | hnil
  · exact life_close_barrier hsan hr t r hret
  · have hc := (life_inv_reach hsan hr).ctl
    have hcd := hc.nil_cd t hnil
    rw [hc.cd_iff] at hcd
    have h8 : 8 ≤ ph (wpc s) := by simpa using hcd
    cases hw : s.winner with
    | none => rw [wpc, hw] at h8; simp [ph] at h8
    | some w =>
      rw [wpc_of_winner hw] at h8
      cases hp : s.closers w with
      | returned r => exact life_close_barrier hsan hr w r hp
      | _ => rw [hp] at h8; simp [ph] at h8

/-- a losing call that has not returned yet waits: at `<-s.closeDone` its step is enabled iff the channel is closed,
and the channel is closed iff the winning call has returned -/
theorem life_wait_enabled_iff {s : State} {es : List Ev} (hsan : ∀ k, san (san k) = san k) {hl cl : Bool}
    {er : Option Nat} (hr : run san (init san hl cl er) es = some s) (t : Nat) (hpc : s.closers t = .waitWinner)
    (c : Nat) :
    ((step san s (.closer t c)).isSome = true ↔ ∃ w r, s.winner = some w ∧ s.closers w = .returned r) := by
  have hc := (life_inv_reach hsan hr).ctl
  have hen : (step san s (.closer t c)).isSome = s.closeDone := by
    simp only [step, hpc]; cases s.closeDone <;> rfl
  rw [hen, hc.cd_iff]
  constructor
  · intro hcd
    have h8 : 8 ≤ ph (wpc s) := by simpa using hcd
    cases hw : s.winner with
    | none => rw [wpc, hw] at h8; simp [ph] at h8
    | some w =>
      rw [wpc_of_winner hw] at h8
      cases hp : s.closers w with
      | returned r => exact ⟨w, r, rfl, hp⟩
      | _ => rw [hp] at h8; simp [ph] at h8
  · rintro ⟨w, r, hw, hp⟩
    rw [wpc_of_winner hw, hp]; simp [ph]


/-! ## T4 — silence of the root's own threads after the return -/

/-- one step after the winning call returned: the call stays returned, the log is untouched, and unless the event is
an application thread's (record, subscope close, step of a `Subscope` call in progress) the shard is untouched -/
theorem silent_step {s s' : State} {e : Ev} (hctl : Ctl s) {w : Nat} {r : Option Nat}
    (hret : s.closers w = .returned r) (hs : step san s e = some s') :
    s'.closers w = .returned r ∧ s'.log = s.log ∧ (e.isApp = false → s'.reg = s.reg) := by
  have hwin : s.winner = some w := hctl.winner_of w (by rw [hret]; simp [ph])
  have hex : s.loop = .exited := hctl.loopEx (by rw [wpc_of_winner hwin, hret]; simp [ph])
  have hrc : s.rootClosed = true := by rw [hctl.closed_iff, hwin]; rfl
  have hoth : ∀ t, t ≠ w → s.closers t = .start ∨ s.closers t = .returnedNil ∨ s.closers t = .waitWinner :=
    fun t ht => hctl.others t (by rw [hwin]; intro e; exact ht (Option.some.inj e).symm)
  cases e with
  | record sid =>
    simp only [step] at hs
    split at hs
    · cases hs
    · cases hs; exact ⟨hret, rfl, fun h => by cases h⟩
  | close sid =>
    simp only [step, regStep] at hs
    repeat' split at hs
    all_goals first | cases hs | skip
    exact ⟨hret, rfl, fun h => by cases h⟩
  | obtain t k => simp [step, hrc] at hs
  | step t c =>
    simp only [step, regStep] at hs
    repeat' split at hs
    all_goals first | cases hs | skip
    exact ⟨hret, rfl, fun h => by cases h⟩
  | tick => simp [step, hex] at hs
  | exit => simp [step, hex] at hs
  | loop c => simp [step, hex] at hs
  | loopEnd => simp [step, hex] at hs
  | closer t c =>
    by_cases ht : t = w
    · subst ht; simp [step, hret] at hs
    · rcases hoth t ht with h1 | h1 | h1
      · simp only [step, h1, hrc, if_true, Option.some.injEq] at hs
        subst hs
        refine ⟨?_, rfl, fun _ => rfl⟩
        show (if w = t then CPc.waitWinner else s.closers w) = _
        rw [if_neg (fun e => ht e.symm)]; exact hret
      · simp [step, h1] at hs
      · -- a call waiting at `<-s.closeDone` returns nil
        simp only [step, h1] at hs
        split at hs
        · simp only [Option.some.injEq] at hs
          subst hs
          refine ⟨?_, rfl, fun _ => rfl⟩
          show (if w = t then CPc.returnedNil else s.closers w) = _
          rw [if_neg (fun e => ht e.symm)]; exact hret
        · cases hs
  | closerEnd t =>
    by_cases ht : t = w
    · subst ht; simp [step, hret] at hs
    · rcases hoth t ht with h1 | h1 | h1 <;> simp [step, h1] at hs

/-- **C08 over a live registry, silence (partial).**  Once the winning `Close` has returned, in every later state:
the call is still returned, the loop goroutine is still gone, the log (flushes, reporter close) is what it was,
`Subscope` can never be entered again, and no event other than an application thread's event changes the shard — in
particular no event of thread 0 (the loop) or of a thread 1000+ (a `Close` call) appends to `delivered`.
PARTIAL: application threads that were inside `Subscope` at the CAS go on, and may deliver
(`reacquire_in_flight_may_deliver_after_close`). -/
theorem life_silent_after_close_partial {s s' : State} {es es' : List Ev} (hsan : ∀ k, san (san k) = san k)
    {hl cl : Bool} {er : Option Nat} (hr : run san (init san hl cl er) es = some s) (w : Nat) (r : Option Nat)
    (hret : s.closers w = .returned r) (hr' : run san s es' = some s') :
    s'.closers w = .returned r ∧ s'.loop = .exited ∧ s'.log = s.log ∧
    (∀ t k, step san s' (.obtain t k) = none) ∧
    (∀ e s'', e.isApp = false → step san s' e = some s'' →
      s''.reg = s'.reg ∧ s''.log = s'.log) := by
  have key : ∀ (es' : List Ev) (s : State), Ctl s → s.closers w = .returned r → run san s es' = some s' →
      s'.closers w = .returned r ∧ s'.log = s.log := by
    intro es'
    induction es' with
    | nil => intro s _ hret hr'; simp only [run, Option.some.injEq] at hr'; subst hr'; exact ⟨hret, rfl⟩
    | cons e es' ih =>
      intro s hc hret hr'
      simp only [run] at hr'
      split at hr'
      · cases hr'
      · next s1 h1 =>
        obtain ⟨a, b, _⟩ := silent_step hc hret h1
        obtain ⟨a', b'⟩ := ih s1 (ctl_step hc h1) a hr'
        exact ⟨a', b'.trans b⟩
  have hc := (life_inv_reach hsan hr).ctl
  obtain ⟨hret', hlog⟩ := key es' s hc hret hr'
  have hreach : run san (init san hl cl er) (es ++ es') = some s' := by rw [run_append hr]; exact hr'
  have hc' := (life_inv_reach hsan hreach).ctl
  have hwin : s'.winner = some w := hc'.winner_of w (by rw [hret']; simp [ph])
  have hex : s'.loop = .exited := hc'.loopEx (by rw [wpc_of_winner hwin, hret']; simp [ph])
  have hrc : s'.rootClosed = true := by rw [hc'.closed_iff, hwin]; rfl
  refine ⟨hret', hex, hlog, fun t k => obtain_disabled_after_cas s' hrc t k, ?_⟩
  intro e s'' he hs
  obtain ⟨_, b, c⟩ := silent_step hc' hret' hs
  exact ⟨c he, b⟩


/-! ## the recorded limitation: a `Subscope` call in flight at the CAS outlives the root's `Close` -/

theorem id_idem : ∀ k : Nat, id (id k) = id k := fun _ => rfl

/-- (no loop, closable reporter, identity sanitizer)  Thread 1 creates subscope 1 (key 7), records token 0 on it and
closes it.  Threads 2 and 3 enter `Subscope(7)` — they pass the root-closed check — and are descheduled before
taking the read lock.  Root `Close` (call 0): CAS, `close(done)`, wait, final pass (visits key 7: delivers token 0,
unregisters and clears the closed subscope 1; visits key 0: the root itself), purge, flush, reporter `Close`, return. -/
def lateRun : List Ev :=
  [.obtain 1 7, .step 1 0, .step 1 0, .step 1 0, .record 1, .close 1,
   .obtain 2 7, .obtain 3 7,
   .closer 0 0, .closer 0 0, .closer 0 0, .closer 0 0,
   .closer 0 7, .closer 0 0, .closer 0 0, .closer 0 0, .closer 0 0, .closer 0 0, .closer 0 0,
   .closer 0 0, .closer 0 0, .closer 0 0, .closer 0 0, .closer 0 0, .closer 0 0,
   .closerEnd 0, .closer 0 0, .closer 0 0, .closer 0 0]

/-- … then thread 2 goes on: it finds nothing in the purged registry and creates scope 2 there; a value is recorded
on that scope (token 1) and the scope is closed; thread 3 goes on: it finds the closed scope 2 and reports it. -/
def lateTail : List Ev :=
  [.step 2 0, .step 2 0, .step 2 0, .record 2, .close 2, .step 3 0, .step 3 0, .step 3 0]

set_option maxRecDepth 100000 in
/-- **recorded limitation.**  Application threads that entered `Subscope` before the root's CAS make the reporter
receive a delivery AFTER the winning `Close` call has returned and after the reporter was closed: when call 0 has
returned the reporter has seen token 0, a flush and its `Close` (`reporterClose 1`: one token delivered before); eight
application-thread events later `delivered` has grown by token 1 — the log is unchanged, no flush will follow.
In agreement with `life_close_barrier` the late token is NOT a barrier token (it is not in `preRoot`): with the purge
under the shard's write lock a re-acquire visit cannot straddle the purge, so the closed subscope 1 that threads 2
and 3 came for was reported by the final pass; what is reported late lives in a scope that an in-flight `Subscope`
created in the purged registry. -/
theorem reacquire_in_flight_may_deliver_after_close :
    (run id (init id false true) lateRun).map (fun s => (s.closers 0, s.log, s.reg.delivered, s.preRoot))
      = some (.returned none, [.reporterClose 1, .flush 1], [{ id := 0, scope := 1, pre := true }], [0]) ∧
    (run id (init id false true) lateRun).map (fun s => (pcOf s.reg 2, pcOf s.reg 3))
      = some (.obtProbe 7, .obtProbe 7) ∧
    (run id (init id false true) (lateRun ++ lateTail)).map
        (fun s => (s.closers 0, s.log, s.reg.delivered, s.preRoot))
      = some (.returned none, [.reporterClose 1, .flush 1],
          [{ id := 1, scope := 2, pre := true }, { id := 0, scope := 1, pre := true }], [0]) := by
  refine ⟨?_, ?_, ?_⟩ <;> decide

/-- `life_close_barrier` and `life_silent_after_close_partial` apply to that run -/
example : ∃ s, run id (init id false true) lateRun = some s ∧ ¬ ReacquireInFlight s ∧ s.purged = true ∧
    ∀ t k, step id s (.obtain t k) = none := by
  have hs : (run id (init id false true) lateRun).isSome = true := by decide
  obtain ⟨s, hr⟩ := Option.isSome_iff_exists.mp hs
  have hret : s.closers 0 = .returned none := by
    have : (run id (init id false true) lateRun).map (fun s => s.closers 0) = some (.returned none) := by decide
    rw [hr] at this; exact Option.some.inj this
  obtain ⟨_, h2, _, _, _, _, _, _, _, h3, _⟩ := life_close_barrier id_idem hr 0 none hret
  have h4 := life_silent_after_close_partial (es' := []) id_idem hr 0 none hret rfl
  exact ⟨s, hr, h2, h3, h4.2.2.2.1⟩

/-! ## before the repair the residual was real at the final flush; the repaired order removes it -/

/-- Thread 1 creates subscope 1 (key 7) and records token 0 on it (a barrier token); thread 2 enters `Subscope(7)`.
Root `Close` (call 0): CAS, `close(done)`, wait, final pass: visits key 0 (the root), then picks key 7 while
subscope 1 is still LIVE (flag read as false).  Subscope 1 is closed; thread 2 finds it closed: re-acquire visit,
swaps token 0 out (holding the read lock).  The final pass swaps nothing and ends (23 events so far).
CODE BEFORE THE REPAIR: `Flush` (nothing delivered so far); the purge is blocked by thread 2's read lock; thread 2
delivers token 0 and releases the lock; purge, reporter `Close`, return. -/
def lateFlushRun : List Ev :=
  [.obtain 1 7, .step 1 0, .step 1 0, .step 1 0, .record 1, .obtain 2 7,
   .closer 0 0, .closer 0 0, .closer 0 0, .closer 0 0,
   .closer 0 0, .closer 0 0, .closer 0 0, .closer 0 0, .closer 0 0, .closer 0 0,
   .closer 0 7,
   .close 1, .step 2 0, .step 2 0,
   .closer 0 0, .closer 0 0, .closerEnd 0, .closer 0 0,
   .step 2 0, .step 2 0,
   .closer 0 0, .closer 0 0]

set_option maxRecDepth 100000 in
/-- **before the repair a barrier token could reach the reporter after the final `Flush`** (and before the reporter's
`Close`): on the model of the code BEFORE the repair (`ScopeLife.Legacy`: final pass, `Flush`, purge), after 24 events
call 0 has flushed (`flush 0`: nothing delivered before) and is blocked at the purge, thread 2 holds the barrier token 0
pending; at the end the token is delivered — once, before `reporterClose 1` — but after the last flush. -/
theorem legacy_reacquire_in_flight_delivers_after_final_flush :
    (Legacy.run id (init id false true) (lateFlushRun.take 24)).map
        (fun s => (s.closers 0, s.log, s.reg.delivered, s.preRoot))
      = some (.purgePc, [.flush 0], [], [0]) ∧
    (Legacy.run id (init id false true) (lateFlushRun.take 24)).map
        (fun s => (pcOf s.reg 2, (Legacy.step id s (.closer 0 0)).isSome))
      = some (.obtDeliver 7 1 [{ id := 0, scope := 1, pre := true }], false) ∧
    (Legacy.run id (init id false true) lateFlushRun).map (fun s => (s.closers 0, s.log, s.reg.delivered, s.preRoot))
      = some (.returned none, [.reporterClose 1, .flush 0], [{ id := 0, scope := 1, pre := true }], [0]) := by
  refine ⟨?_, ?_, ?_⟩ <;> decide

/-- the same schedule for the REPAIRED code: the first 23 events are those of `lateFlushRun` (up to the end of the final
pass, thread 2 holding token 0 pending under the read lock).  The next action of call 0 is now the PURGE, which is
blocked by thread 2's read lock (event 24 of `lateFlushRun` is not enabled), so call 0 waits: thread 2 delivers token 0
and releases the lock; then purge, `Flush`, reporter `Close`, return.  (The same 28 events; call 0's three last
actions come after thread 2's two.) -/
def repairedFlushRun : List Ev :=
  lateFlushRun.take 23 ++ [.step 2 0, .step 2 0, .closer 0 0, .closer 0 0, .closer 0 0]

set_option maxRecDepth 100000 in
/-- **on the repaired model the same schedule delivers the token BEFORE the final flush**: after the 23 common events
call 0 is about to purge, nothing is logged or delivered, thread 2 holds the barrier token 0 pending and call 0's next
action is NOT enabled (the purge waits for thread 2's read lock) — so `lateFlushRun` itself, whose event 24 is that
action, is not a run of the repaired model; when call 0 does purge (after thread 2's delivery) and flushes, the flush
counts the delivery: the log ends `[reporterClose 1, flush 1]`. -/
theorem repaired_reacquire_in_flight_delivers_before_final_flush :
    (run id (init id false true) (lateFlushRun.take 23)).map
        (fun s => (s.closers 0, s.log, s.reg.delivered, s.preRoot))
      = some (.purgePc, [], [], [0]) ∧
    (run id (init id false true) (lateFlushRun.take 23)).map
        (fun s => (pcOf s.reg 2, (step id s (.closer 0 0)).isSome))
      = some (.obtDeliver 7 1 [{ id := 0, scope := 1, pre := true }], false) ∧
    (run id (init id false true) lateFlushRun).isSome = false ∧
    (run id (init id false true) (repairedFlushRun.take 26)).map
        (fun s => (s.closers 0, s.log, s.reg.delivered, s.purged))
      = some (.flushPc, [], [{ id := 0, scope := 1, pre := true }], true) ∧
    (run id (init id false true) repairedFlushRun).map (fun s => (s.closers 0, s.log, s.reg.delivered, s.preRoot))
      = some (.returned none, [.reporterClose 1, .flush 1], [{ id := 0, scope := 1, pre := true }], [0]) := by
  refine ⟨?_, ?_, ?_, ?_, ?_⟩ <;> decide

set_option maxRecDepth 100000 in
/-- the requested form: the schedule of the old counterexample, run on the REPAIRED model, ends with the token
delivered before the final flush (`flush 1`: the delivery is counted in the flush) -/
example :
    (run id (init id false true) repairedFlushRun).map (fun s => (s.log, s.reg.delivered))
      = some ([.reporterClose 1, .flush 1], [{ id := 0, scope := 1, pre := true }]) := by decide

set_option maxRecDepth 100000 in
/-- `life_final_flush_covers_everything` applies to that run, and what it says can be read off: the barrier token 0 is
at position 0 (counted from the oldest) of `delivered`, below the `1` of the final `flush 1` -/
example : ∃ s, run id (init id false true) repairedFlushRun = some s ∧ s.closers 0 = .returned none ∧
    ∃ n rest, (s.log = .flush n :: rest ∨ ∃ k, s.log = .reporterClose k :: .flush n :: rest) ∧ n = 1 ∧
      ∀ tok ∈ s.reg.delivered ++ allCells s.reg ++ allPending s.reg ++ s.reg.dropped, Barrier s tok →
        tok ∈ s.reg.delivered ∧ (s.reg.delivered.map (·.id)).count tok.id = 1 ∧
        ∃ i, i < n ∧ s.reg.delivered.reverse[i]? = some tok := by
  have hs : (run id (init id false true) repairedFlushRun).isSome = true := by decide
  obtain ⟨s, hr⟩ := Option.isSome_iff_exists.mp hs
  have hfin := repaired_reacquire_in_flight_delivers_before_final_flush.2.2.2.2
  rw [hr] at hfin
  simp only [Option.map_some, Option.some.injEq, Prod.mk.injEq] at hfin
  obtain ⟨hret, hlog, _, _⟩ := hfin
  obtain ⟨n, rest, hl, _, hall⟩ := life_final_flush_covers_everything id_idem hr 0 (Or.inr ⟨none, hret⟩)
  refine ⟨s, hr, hret, n, rest, hl, ?_, hall⟩
  rw [hlog] at hl
  rcases hl with hl | ⟨k, hl⟩
  · cases hl
  · simp only [List.cons.injEq, LogEv.reporterClose.injEq, LogEv.flush.injEq] at hl
    exact hl.2.1.symm

/-- the run above with a second, concurrent `Close` call (call 1) that loses the CAS while call 0 is about to purge:
call 1 waits at `<-s.closeDone` -/
def twoCallsRun : List Ev :=
  lateFlushRun.take 23 ++ [.closer 1 0, .step 2 0, .step 2 0, .closer 0 0, .closer 0 0]

set_option maxRecDepth 100000 in
/-- **repair D17 on a run**: with call 0 at its reporter close, call 1 is at `waitWinner`, `closeDone` is open and call
1's step is NOT enabled; call 0's last step closes `closeDone`; only then call 1 returns nil — the hypotheses of
`life_every_close_call_is_a_barrier` (second case) are satisfiable -/
theorem losing_close_call_waits_for_the_winner :
    (run id (init id false true) twoCallsRun).map
        (fun s => (s.closers 0, s.closers 1, s.closeDone, (step id s (.closer 1 0)).isSome))
      = some (.reporterClose, .waitWinner, false, false) ∧
    (run id (init id false true) (twoCallsRun ++ [.closer 0 0])).map
        (fun s => (s.closers 0, s.closers 1, s.closeDone, (step id s (.closer 1 0)).isSome))
      = some (.returned none, .waitWinner, true, true) ∧
    (run id (init id false true) (twoCallsRun ++ [.closer 0 0, .closer 1 0])).map
        (fun s => (s.closers 0, s.closers 1, s.log, s.reg.delivered))
      = some (.returned none, .returnedNil, [.reporterClose 1, .flush 1], [{ id := 0, scope := 1, pre := true }]) := by
  refine ⟨?_, ?_, ?_⟩ <;> decide


/-! ## non-vacuity: a subscope closed and re-acquired during a periodic pass, then root `Close`

Loop, closable reporter whose `Close` returns error 7, identity sanitizer.  Thread 1 creates subscope 1 (key 7);
token 0 is recorded on it, token 1 on the root; subscope 1 is closed.  The loop ticks and starts a periodic pass,
which picks key 7 (reads the flag: closed).  Thread 2 enters `Subscope(7)`, finds subscope 1 closed and swaps token
0 out (re-acquire visit, read lock shared with the pass); the pass swaps nothing; thread 2 delivers token 0; both
release the read lock for their removals, the pass removes and clears subscope 1, goes on to key 0, delivers token 1,
ends and flushes; thread 2 finishes its removals and creates subscope 2 (key 7); token 2 is recorded on it.
Root `Close` (call 0): CAS; token 3 is recorded on subscope 2 (after the CAS: not a barrier token); `close(done)`,
the loop exits, wait, final pass (key 7: delivers tokens 3 and 2; key 0: the closed root is removed and cleared),
purge, flush, reporter `Close`, return 7. -/
def nvRun : List Ev :=
  [.obtain 1 7, .step 1 0, .step 1 0, .step 1 0, .record 1, .record 0, .close 1,
   .tick, .loop 0, .loop 0, .loop 7,
   .obtain 2 7, .step 2 0, .step 2 0,
   .loop 0, .step 2 0, .loop 0, .step 2 0,
   .loop 0, .loop 0, .loop 0,
   .loop 0, .loop 0, .loop 0, .loop 0, .loopEnd, .loop 0,
   .step 2 0, .step 2 0, .step 2 0, .step 2 0, .step 2 0, .step 2 0, .step 2 0, .step 2 0, .step 2 0,
   .record 2,
   .closer 0 0, .record 2, .closer 0 0, .exit, .closer 0 0, .closer 0 0,
   .closer 0 7, .closer 0 0, .closer 0 0, .closer 0 0,
   .closer 0 0, .closer 0 0, .closer 0 0, .closer 0 0, .closer 0 0, .closer 0 0,
   .closerEnd 0, .closer 0 0, .closer 0 0, .closer 0 0]

set_option maxRecDepth 100000 in
/-- the run is accepted; at the end call 0 has returned 7, the log ends with flush, reporter close; the three barrier
tokens 0, 1, 2 (`preRoot`) and the late token 3 were delivered, nothing was dropped -/
theorem nvRun_final :
    (run id (init id true true (some 7)) nvRun).map (fun s => (s.closers 0, s.log, s.reg.delivered, s.preRoot))
      = some (.returned (some 7), [.reporterClose 4, .flush 4, .flush 2],
          [{ id := 3, scope := 2, pre := true }, { id := 2, scope := 2, pre := true },
           { id := 1, scope := 0, pre := true }, { id := 0, scope := 1, pre := true }], [2, 1, 0]) ∧
    (run id (init id true true (some 7)) nvRun).map (fun s => (s.reg.dropped, allCells s.reg, allPending s.reg, s.loop))
      = some ([], [], [], .exited) := by
  constructor <;> decide

set_option maxRecDepth 100000 in
/-- the re-acquire happens DURING the periodic pass: after 14 events the loop's pass is about to swap the closed
subscope 1 of key 7 while thread 2's re-acquire visit already holds its token; after 19 events the pass has removed
the subscope and is about to clear it while thread 2 waits for the write lock of its own removal -/
example :
    (run id (init id true true (some 7)) (nvRun.take 14)).map (fun s => (s.loop, pcOf s.reg 0, pcOf s.reg 2))
      = some (.pass, .passSwap [(7, 1)] 7 1 true, .obtDeliver 7 1 [{ id := 0, scope := 1, pre := true }]) ∧
    (run id (init id true true (some 7)) (nvRun.take 20)).map (fun s => (pcOf s.reg 0, pcOf s.reg 2, s.reg.reg))
      = some (.passClear [(7, 1)] 7 1, .obtUnlocked 7 1, [(0, 0)]) := by
  constructor <;> decide

set_option maxRecDepth 100000 in
/-- the hypotheses of `life_close_barrier` hold for that run, and its conclusion can be read off: the barrier tokens
0, 1, 2 are each in `delivered` exactly once -/
example : ∃ s, run id (init id true true (some 7)) nvRun = some s ∧ s.closers 0 = .returned (some 7) ∧
    (∀ tok ∈ s.reg.delivered ++ allCells s.reg ++ allPending s.reg ++ s.reg.dropped, Barrier s tok →
      tok ∈ s.reg.delivered ∧ (s.reg.delivered.map (·.id)).count tok.id = 1) ∧
    (s.reg.delivered.filter fun tok => decide (Barrier s tok)).map (·.id) = [2, 1, 0] := by
  have hs : (run id (init id true true (some 7)) nvRun).isSome = true := by decide
  obtain ⟨s, hr⟩ := Option.isSome_iff_exists.mp hs
  have hfin := nvRun_final.1
  rw [hr] at hfin
  simp only [Option.map_some, Option.some.injEq, Prod.mk.injEq] at hfin
  obtain ⟨hret, _, hdel, hpre⟩ := hfin
  refine ⟨s, hr, hret, (life_close_barrier id_idem hr 0 (some 7) hret).1, ?_⟩
  rw [hdel]
  simp [Barrier, hpre]

set_option maxRecDepth 100000 in
/-- `life_final_flush_complete` applies to that run at its final flush (after 55 events call 0 has purged and is about
to flush), and `life_final_flush_covers_everything` at its end: the final flush is `flush 4`, and the barrier tokens
0, 1, 2 are at positions below 4 of `delivered` counted from the oldest -/
example : (∃ s, run id (init id true true (some 7)) (nvRun.take 55) = some s ∧ s.closers 0 = .flushPc ∧
      ¬ ReacquireInFlight s) ∧
    ∃ s, run id (init id true true (some 7)) nvRun = some s ∧
      ∃ rest, s.log = .reporterClose 4 :: .flush 4 :: rest ∧
        ∀ tok ∈ s.reg.delivered, Barrier s tok → ∃ i, i < 4 ∧ s.reg.delivered.reverse[i]? = some tok := by
  constructor
  · have hs : (run id (init id true true (some 7)) (nvRun.take 55)).isSome = true := by decide
    obtain ⟨s, hr⟩ := Option.isSome_iff_exists.mp hs
    have h1 : (run id (init id true true (some 7)) (nvRun.take 55)).map (fun s => s.closers 0) = some .flushPc := by
      decide
    rw [hr] at h1
    have hpc : s.closers 0 = .flushPc := Option.some.inj h1
    exact ⟨s, hr, hpc, (life_final_flush_complete id_idem hr 0 hpc).2⟩
  · have hs : (run id (init id true true (some 7)) nvRun).isSome = true := by decide
    obtain ⟨s, hr⟩ := Option.isSome_iff_exists.mp hs
    have hfin := nvRun_final.1
    rw [hr] at hfin
    simp only [Option.map_some, Option.some.injEq, Prod.mk.injEq] at hfin
    obtain ⟨hret, hlog, _, _⟩ := hfin
    obtain ⟨n, rest, hl, _, hall⟩ := life_final_flush_covers_everything id_idem hr 0 (Or.inr ⟨some 7, hret⟩)
    rw [hlog] at hl
    rcases hl with hl | ⟨k, hl⟩
    · cases hl
    · simp only [List.cons.injEq, LogEv.reporterClose.injEq, LogEv.flush.injEq] at hl
      obtain ⟨_, hn, hrest⟩ := hl
      subst hn
      refine ⟨s, hr, [.flush 2], hlog, ?_⟩
      intro tok hm hb
      exact (hall tok (by simp [hm]) hb).2.2

end Tally.Props.C08Life
