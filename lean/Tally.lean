import Tally.Prelude
import Tally.Model.Buckets
import Tally.Spec.C03
import Tally.Drv.Common
import Tally.Drv.C03
