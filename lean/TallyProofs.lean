import TallyProofs.Props.C03
