import Tally.Model.Registry
/-!
# The pinned code's two racy registry steps (regression witnesses for C07)

`Legacy.step` is `Registry.step` except for
* the removal (`removeWithRLock` in the pinned code): it deletes the key whatever scope it now points to
  (`Legacy.deleteByKey`; in `Subscope` both removals, of the raw and of the sanitized key), and
* the report pass: it reads the scope's closed flag AFTER the report (`if s.closed.Load()` followed
  `s.report(...)` in the pinned code), so the flag read at `passIter` is ignored and read again at
  `passAfter`.
-/
namespace Tally.Registry.Legacy

def step (san : Nat → Nat) (s : State) : Ev → Option State
  | .step t choice =>
    match pcOf s t with
    | .passAfter v k sid _ =>
      match scopeOf s sid with
      | none => none
      | some x =>
        if x.closed then some (setPc (delReader s t) t (.passUnlocked v k sid)) else some (setPc s t (.passIter v))
    | .passUnlocked v k sid =>
      if !s.readers.isEmpty then none else some (setPc (deleteByKey s k) t (.passRelock v k sid))
    | .obtUnlocked r sid =>
      if !s.readers.isEmpty then none else some (setPc (deleteByKey s r) t (.obtRelock r sid))
    | .obtUnlocked2 r sid =>
      if !s.readers.isEmpty then none else some (setPc (deleteByKey s (san r)) t (.obtRelock2 r sid))
    | _ => Registry.step san s (.step t choice)
  | e => Registry.step san s e

def run (san : Nat → Nat) (s : State) : List Ev → Option State
  | [] => some s
  | e :: es => match step san s e with
    | none => none
    | some s' => run san s' es

end Tally.Registry.Legacy
