import Tally.Model.Registry
/-!
# The pinned code's two racy registry steps (regression witnesses for C07)

`Legacy.step` is `Registry.step` except for
* the removal (`removeWithRLock` in the pinned code): it deletes the key whatever scope it now points to
  (`Legacy.deleteByKey`), and
* the report pass: it reads the scope's closed flag AFTER the report (`if s.closed.Load()` followed
  `s.report(...)` in the pinned code), so the flag read at `passIter` is ignored and read again at
  `passAfter`.
-/
namespace Tally.Registry.Legacy

def step (s : State) : Ev → Option State
  | .step t choice =>
    match pcOf s t with
    | .passAfter v k sid _ =>
      match scopeOf s sid with
      | none => none
      | some x =>
        if x.closed then some (setPc (delReader s t) t (.passUnlocked v k sid)) else some (setPc s t (.passIter v))
    | .passUnlocked v k sid =>
      if !s.readers.isEmpty then none else some (setPc (deleteByKey s k) t (.passRelock v k sid))
    | .obtUnlocked i sid =>
      if !s.readers.isEmpty then none else some (setPc (deleteByKey s i) t (.obtRelock i sid))
    | _ => Registry.step s (.step t choice)
  | e => Registry.step s e

def run (s : State) : List Ev → Option State
  | [] => some s
  | e :: es => match step s e with
    | none => none
    | some s' => run s' es

end Tally.Registry.Legacy
