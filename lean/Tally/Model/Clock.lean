import Tally.Prelude
/-!
# Instants with a wall and a monotonic reading (Go's `time.Time`, as far as `Stopwatch` uses it)

`time.Now()` returns an instant carrying two readings: the wall clock (which an administrator, NTP or a VM resume
can step in either direction) and the process's monotonic clock.  `t.Sub(u)` uses the monotonic readings when both
instants carry one and the wall readings otherwise.  `types.go: NewStopwatch(start, r)` stores the instant it is
given, `Stopwatch.Stop()` computes `globalNow().Sub(sw.start)`.

`Tally.Instrument` abstracts the clock to one integer per reading (`now : Nat → Int`).  This file says which
integer that is: the monotonic reading (`reading`), for every clock whose instants all carry one — whatever the
wall readings do.  `stripMono` is what `t.Round(0)`, `t.UTC()`-then-marshal or `time.Unix(t.Unix(), …)` do to an
instant; a stopwatch that keeps such a start follows the wall clock instead (`Legacy`).

Durations are `wrap64` of the difference (Go saturates instead of wrapping; the two agree whenever the true
difference fits into an int64, `sub_exact`).
-/
namespace Tally.Clock

structure Instant where
  wall : Int            -- wall-clock reading, ns
  mono : Option Int     -- monotonic reading, ns (present on everything `time.Now()` returns)
deriving Repr, DecidableEq

/-- `t.Sub(u)` -/
def sub (t u : Instant) : Int :=
  match t.mono, u.mono with
  | some a, some b => wrap64 (a - b)
  | _, _ => wrap64 (t.wall - u.wall)

/-- drop the monotonic reading (`t.Round(0)`) -/
def stripMono (t : Instant) : Instant := { t with mono := none }

/-- the integer `Tally.Instrument`'s clock stands for -/
def reading (t : Instant) : Int := t.mono.getD t.wall

/-- `Stopwatch{start}` … `Stop()`: `globalNow().Sub(sw.start)` -/
def stopwatchElapsed (start stop : Instant) : Int := sub stop start

namespace Legacy
/-- a `NewStopwatch` that normalises the start instant (drops its monotonic reading) -/
def stopwatchElapsed (start stop : Instant) : Int := sub stop (stripMono start)
end Legacy

end Tally.Clock
