import Tally.Prelude
/-!
# Concurrent model of one registry shard (scope_registry.go), repaired code (D1, D4a, D4b, D4c)

One shard: a map `key ↦ scope id` protected by an RW lock, scope objects with a `closed` flag and one
counter cell each (counters of one scope do not interact; get-or-create of metrics is C09), any number of
threads.  A step is one atomic action of one thread; lock-protected regions that contain no schedule
point are single steps.  The *write* lock is therefore never held across steps; the *read* lock is
(a pass holds it while it walks the shard, the re-acquire path holds it while it reports the closed
scope), and so is the per-scope metric lock during a visit (`visiting`).

Tokens make "exactly once" literal: every increment creates a fresh token stamped `pre` iff the scope's
(and the root's) closed flag was still clear when it was recorded.  The property is about `pre` tokens.

Sanitizer aliasing: keys are natural numbers and the model is parameterised by the sanitizer on keys
`san : Nat → Nat` (an explicit argument of `step` / `run` / `initRoot`; the theorems assume it idempotent).
A scope's identity `ScopeS.ident` is the SANITIZED key; `obtain t r` carries the caller's RAW key `r`.
`Subscope` looks the raw key up under the read lock, and on the write-locked path looks `san r` up, registers a
new scope under `san r` and adds the alias `r ↦ scope` when `r` is not registered.  The re-acquire path removes
the closed scope under BOTH keys (`removeWithRLock` twice, each with its own unlock / lock / unlock / relock
hand-over).  A report pass iterates over ENTRIES `(key, scope object)`, so a scope registered under two keys is visited
once per key, and each removal removes only the entry of the key being visited, by identity.  An entry is produced at
most once per pass (the pass remembers the entries `(key, scope id)` it has produced, `Pc.passIter visited`); a key whose
entry was deleted and that was registered again for a NEW scope object is a new entry and may be produced again by the
same pass (Go: "if a map entry is created during iteration, that entry may be produced during the iteration or may be
skipped").
With `san = id` the alias is never added and the second removal finds nothing to remove.
-/
namespace Tally.Registry

structure Token where
  id : Nat
  scope : Nat
  pre : Bool
deriving Repr, DecidableEq

structure ScopeS where
  ident : Nat
  closed : Bool
  cleared : Bool
  cell : List Token
deriving Repr, DecidableEq

/-- thread-local state -/
inductive Pc
  | idle
  /- a report pass over the shard -/
  /- `visited` = the ENTRIES `(key, scope id)` this pass has produced so far.  An entry (key, scope object) is produced at
     most once per pass; a key whose entry was deleted and that was registered again for a new scope object is a NEW
     entry and may be produced again (Go: "if a map entry is created during iteration, that entry may be produced during
     the iteration or may be skipped"). -/
  | passIter (visited : List (Nat × Nat))                          -- holds RLock; about to pick the next entry and read its closed flag
  | passSwap (visited : List (Nat × Nat)) (k sid : Nat) (closed : Bool)  -- closed flag read; about to swap the cell (holds the scope's metric lock)
  | passDeliver (visited : List (Nat × Nat)) (k sid : Nat) (closed : Bool) (pend : List Token)
  | passAfter (visited : List (Nat × Nat)) (k sid : Nat) (closed : Bool)   -- visit done; holds RLock
  | passUnlocked (visited : List (Nat × Nat)) (k sid : Nat)                -- RUnlock done: about to take the write lock and delete by identity
  | passRelock (visited : List (Nat × Nat)) (k sid : Nat)                  -- write lock released: about to RLock again
  | passClear (visited : List (Nat × Nat)) (k sid : Nat)                   -- holds RLock: about to clear the scope's metrics
  /- obtain(raw key r): `registry.Subscope` -/
  | obtProbe (r : Nat)                                             -- about to RLock and look the RAW key up
  | obtSwap (r sid : Nat)                                          -- found closed `sid` (holds RLock): about to report it
  | obtDeliver (r sid : Nat) (pend : List Token)
  | obtAfter (r sid : Nat)                                         -- holds RLock: about to RUnlock for the first removal (raw key)
  | obtUnlocked (r sid : Nat)                                      -- about to take the write lock and delete `r` if it still points to `sid`
  | obtRelock (r sid : Nat)                                        -- write lock released: about to RLock again
  | obtAfter2 (r sid : Nat)                                        -- holds RLock: about to RUnlock for the second removal (sanitized key)
  | obtUnlocked2 (r sid : Nat)                                     -- about to take the write lock and delete `san r` if it still points to `sid`
  | obtRelock2 (r sid : Nat)                                       -- write lock released: about to RLock again
  | obtClear (r sid : Nat)                                         -- holds RLock: about to clear
  | obtRelease (r sid : Nat)                                       -- about to RUnlock
  | obtWantLock (r : Nat)                                          -- about to take the write lock: look `san r` up, alias / create
  | obtDone (r sid : Nat)                                          -- returned `sid`
deriving Repr, DecidableEq

structure State where
  scopes : List ScopeS                  -- scope id = index
  reg : List (Nat × Nat)                -- key ↦ scope id (the sanitized key of a scope, and raw aliases of it)
  readers : List Nat                    -- threads holding the shard's read lock
  pcs : List (Nat × Pc)
  delivered : List Token
  dropped : List Token                  -- tokens that can never be delivered (cleared with the scope, or recorded on a cleared scope)
  nextToken : Nat
  handedOut : List (Nat × Nat)          -- (thread, scope id) results of obtain, in order (ghost)
deriving Repr, DecidableEq

def init : State :=
  { scopes := [], reg := [], readers := [], pcs := [], delivered := [], dropped := [], nextToken := 0, handedOut := [] }

/-- the shard as the harness scenarios start: the root scope (identity `san 0`) registered under its identity, as
`newScopeRegistry` does -/
def initRoot (san : Nat → Nat) : State :=
  { init with scopes := [{ ident := san 0, closed := false, cleared := false, cell := [] }], reg := [(san 0, 0)] }

def pcOf (s : State) (t : Nat) : Pc := (s.pcs.lookup t).getD .idle
def setPc (s : State) (t : Nat) (p : Pc) : State := { s with pcs := (t, p) :: s.pcs.filter (·.1 != t) }
def scopeOf (s : State) (sid : Nat) : Option ScopeS := s.scopes[sid]?
def setScope (s : State) (sid : Nat) (x : ScopeS) : State := { s with scopes := s.scopes.set sid x }
def lookup (s : State) (k : Nat) : Option Nat := s.reg.lookup k
def addReader (s : State) (t : Nat) : State := { s with readers := t :: s.readers }
def delReader (s : State) (t : Nat) : State := { s with readers := s.readers.filter (· != t) }
/-- delete the entry for key `k` only if it still points to `sid` (removal by identity) -/
def deleteIfSame (s : State) (k sid : Nat) : State :=
  { s with reg := s.reg.filter fun (k', v) => !(k' == k && v == sid) }

/-- create a fresh scope of identity `i` and register it under `i` -/
def createScope (s : State) (i : Nat) : State :=
  { s with scopes := s.scopes ++ [{ ident := i, closed := false, cleared := false, cell := [] }],
           reg := (i, s.scopes.length) :: s.reg.filter (·.1 != i) }
/-- `if _, ok := bucket.s[rawKey]; !ok { bucket.s[rawKey] = s }`: register the caller's spelling `r` as an alias
of `sid` unless `r` is registered already -/
def addAlias (s : State) (r sid : Nat) : State :=
  match lookup s r with
  | none => { s with reg := (r, sid) :: s.reg }
  | some _ => s

/-- is some thread inside a visit of `sid` (holding that scope's metric read lock)? -/
def visiting (s : State) (sid : Nat) : Bool :=
  s.pcs.any fun (_, p) => match p with
    | .passSwap _ _ x _ => x == sid
    | .passDeliver _ _ x _ _ => x == sid
    | .obtSwap _ x => x == sid
    | .obtDeliver _ x _ => x == sid
    | _ => false

/-- thread `t`'s `Subscope(r)` returns `sid` -/
def handOut (s : State) (t r sid : Nat) : State :=
  { setPc s t (.obtDone r sid) with handedOut := (t, sid) :: s.handedOut }

inductive Ev
  | passBegin (t : Nat)                    -- a thread starts a pass: takes the read lock
  | step (t : Nat) (choice : Nat)          -- the thread's next atomic action; `choice` = key picked by a pass iteration (observed)
  | passEndHint (t : Nat)                  -- the pass's range loop ended (observed: Go map iteration may skip entries added meanwhile)
  | obtain (t : Nat) (r : Nat)             -- an idle thread calls Subscope with the RAW key r (identity `san r`)
  | record (sid : Nat)                     -- one atomic increment on scope `sid`'s counter
  | close (sid : Nat)                      -- `Close()` of a subscope: sets the flag
deriving Repr, DecidableEq

def clearScope (s : State) (sid : Nat) : State :=
  match scopeOf s sid with
  | some x => { setScope s sid { x with cleared := true, cell := [] } with dropped := x.cell ++ s.dropped }
  | none => s

/-- the write-locked creation at the end of `Subscope(r)` by thread `t`: a new scope of identity `i` (`= san r`),
registered under `i`, and under `r` if `r` is not registered -/
def freshS (s : State) (t r i : Nat) : State :=
  handOut (addAlias (createScope s i) r s.scopes.length) t r s.scopes.length

/-- D4c, under the write lock: report the closed scope `sid` (= `x`) still registered under the sanitized key `i`,
delete `i`, delete the raw key `r` if it points to `sid`, clear -/
def d4cS (s : State) (r i sid : Nat) (x : ScopeS) : State :=
  clearScope (deleteIfSame (deleteIfSame { setScope s sid { x with cell := [] } with delivered := x.cell ++ s.delivered }
    i sid) r sid) sid

/-- one atomic action; `none` = not enabled (blocked on a lock, or not a possible action) -/
def step (san : Nat → Nat) (s : State) : Ev → Option State
  | .record sid =>
    match scopeOf s sid with
    | none => none
    | some x =>
      let tok : Token := { id := s.nextToken, scope := sid, pre := !x.closed }
      if x.cleared then some { s with dropped := tok :: s.dropped, nextToken := s.nextToken + 1 }
      else some { setScope s sid { x with cell := tok :: x.cell } with nextToken := s.nextToken + 1 }
  | .close sid =>
    match scopeOf s sid with
    | none => none
    | some x => some (setScope s sid { x with closed := true })
  | .obtain t r => if pcOf s t != .idle then none else some (setPc s t (.obtProbe r))
  | .passBegin t => if pcOf s t != .idle then none else some (setPc (addReader s t) t (.passIter []))
  | .passEndHint t =>
    match pcOf s t with
    | .passIter _ => some (setPc (delReader s t) t .idle)
    | _ => none
  | .step t choice =>
    match pcOf s t with
    | .idle => none
    | .passIter visited =>
      -- pick a registered key whose ENTRY (key, scope id as registered NOW) this pass has not produced yet, and read
      -- the closed flag of its scope
      match lookup s choice with
      | none => none
      | some sid =>
        if visited.contains (choice, sid) then none else
        match scopeOf s sid with
        | none => none
        | some x => some (setPc s t (.passSwap ((choice, sid) :: visited) choice sid x.closed))
    | .passSwap v k sid c =>
      match scopeOf s sid with
      | none => none
      | some x => some (setPc (setScope s sid { x with cell := [] }) t
          (if x.cell.isEmpty then .passAfter v k sid c else .passDeliver v k sid c x.cell))
    | .passDeliver v k sid c pend => some (setPc { s with delivered := pend ++ s.delivered } t (.passAfter v k sid c))
    | .passAfter v k sid c =>
      if c then some (setPc (delReader s t) t (.passUnlocked v k sid)) else some (setPc s t (.passIter v))
    | .passUnlocked v k sid =>
      if !s.readers.isEmpty then none else some (setPc (deleteIfSame s k sid) t (.passRelock v k sid))
    | .passRelock v k sid => some (setPc (addReader s t) t (.passClear v k sid))
    | .passClear v _k sid => if visiting s sid then none else some (setPc (clearScope s sid) t (.passIter v))
    | .obtProbe r =>
      -- RLock, look the RAW key up
      match lookup s r with
      | none => some (setPc s t (.obtWantLock r))
      | some sid => match scopeOf s sid with
        | none => none
        | some x => if !x.closed then some (handOut s t r sid)
                    else some (setPc (addReader s t) t (.obtSwap r sid))
    | .obtSwap r sid =>
      match scopeOf s sid with
      | none => none
      | some x => some (setPc (setScope s sid { x with cell := [] }) t
          (if x.cell.isEmpty then .obtAfter r sid else .obtDeliver r sid x.cell))
    | .obtDeliver r sid pend => some (setPc { s with delivered := pend ++ s.delivered } t (.obtAfter r sid))
    -- removeWithRLock(bucket, rawKey, s)
    | .obtAfter r sid => some (setPc (delReader s t) t (.obtUnlocked r sid))
    | .obtUnlocked r sid =>
      if !s.readers.isEmpty then none else some (setPc (deleteIfSame s r sid) t (.obtRelock r sid))
    | .obtRelock r sid => some (setPc (addReader s t) t (.obtAfter2 r sid))
    -- removeWithRLock(bucket, sanKey, s)
    | .obtAfter2 r sid => some (setPc (delReader s t) t (.obtUnlocked2 r sid))
    | .obtUnlocked2 r sid =>
      if !s.readers.isEmpty then none else some (setPc (deleteIfSame s (san r) sid) t (.obtRelock2 r sid))
    | .obtRelock2 r sid => some (setPc (addReader s t) t (.obtClear r sid))
    | .obtClear r sid => if visiting s sid then none else some (setPc (clearScope s sid) t (.obtRelease r sid))
    | .obtRelease r _sid => some (setPc (delReader s t) t (.obtWantLock r))
    | .obtWantLock r =>
      if !s.readers.isEmpty then none else
      -- write-locked lookup of the SANITIZED key
      match lookup s (san r) with
      | none => some (freshS s t r (san r))
      | some sid => match scopeOf s sid with
        | none => none
        | some x =>
          if !x.closed then some (handOut (addAlias s r sid) t r sid)
          else
            -- D4c: a closed scope still registered: report it, drop it, create a fresh one (all under the write lock)
            if visiting s sid then none else some (freshS (d4cS s r (san r) sid x) t r (san r))
    | .obtDone _ _ => some (setPc s t .idle)

def run (san : Nat → Nat) (s : State) : List Ev → Option State
  | [] => some s
  | e :: es => match step san s e with
    | none => none
    | some s' => run san s' es

/-- all tokens issued so far that were recorded before their scope was closed -/
def allCells (s : State) : List Token := (s.scopes.map (·.cell)).flatten
def pendingOf : Pc → List Token
  | .passDeliver _ _ _ _ p => p
  | .obtDeliver _ _ p => p
  | _ => []
def allPending (s : State) : List Token := (s.pcs.map fun (_, p) => pendingOf p).flatten

/-! ## the pinned code's two racy steps, kept as regression witnesses -/
namespace Legacy
/-- pinned removal: delete by key whatever it points to -/
def deleteByKey (s : State) (k : Nat) : State := { s with reg := s.reg.filter (·.1 != k) }
end Legacy

end Tally.Registry
