import Tally.Prelude
/-!
# Concurrent model of one registry shard (scope_registry.go), repaired code (D1, D4a, D4b, D4c)

One shard: a map `ident ↦ scope id` protected by an RW lock, scope objects with a `closed` flag and one
counter cell each (counters of one scope do not interact; get-or-create of metrics is C09), any number of
threads.  A step is one atomic action of one thread; lock-protected regions that contain no schedule
point are single steps.  The *write* lock is therefore never held across steps; the *read* lock is
(a pass holds it while it walks the shard, the re-acquire path holds it while it reports the closed
scope), and so is the per-scope metric lock during a visit (`visiting`).

Tokens make "exactly once" literal: every increment creates a fresh token stamped `pre` iff the scope's
(and the root's) closed flag was still clear when it was recorded.  The property is about `pre` tokens.
Keys are identities (no sanitizer aliasing here: that is sequential and covered by Model.Scope).
-/
namespace Tally.Registry

structure Token where
  id : Nat
  scope : Nat
  pre : Bool
deriving Repr, DecidableEq

structure ScopeS where
  ident : Nat
  closed : Bool
  cleared : Bool
  cell : List Token
deriving Repr, DecidableEq

/-- thread-local state -/
inductive Pc
  | idle
  /- a report pass over the shard -/
  | passIter (visited : List Nat)                                  -- holds RLock; about to pick the next entry and read its closed flag
  | passSwap (visited : List Nat) (k sid : Nat) (closed : Bool)    -- closed flag read; about to swap the cell (holds the scope's metric lock)
  | passDeliver (visited : List Nat) (k sid : Nat) (closed : Bool) (pend : List Token)
  | passAfter (visited : List Nat) (k sid : Nat) (closed : Bool)   -- visit done; holds RLock
  | passUnlocked (visited : List Nat) (k sid : Nat)                -- RUnlock done: about to take the write lock and delete by identity
  | passRelock (visited : List Nat) (k sid : Nat)                  -- write lock released: about to RLock again
  | passClear (visited : List Nat) (k sid : Nat)                   -- holds RLock: about to clear the scope's metrics
  /- obtain(ident): `registry.Subscope` -/
  | obtProbe (i : Nat)                                             -- about to RLock and look the key up
  | obtSwap (i sid : Nat)                                          -- found closed `sid` (holds RLock): about to report it
  | obtDeliver (i sid : Nat) (pend : List Token)
  | obtAfter (i sid : Nat)                                         -- holds RLock: about to RUnlock for the removal
  | obtUnlocked (i sid : Nat)                                      -- about to take the write lock and delete by identity
  | obtRelock (i sid : Nat)
  | obtClear (i sid : Nat)                                         -- holds RLock: about to clear
  | obtRelease (i sid : Nat)                                       -- about to RUnlock
  | obtWantLock (i : Nat)                                          -- about to take the write lock: re-lookup, create
  | obtDone (i sid : Nat)                                          -- returned `sid`
deriving Repr, DecidableEq

structure State where
  scopes : List ScopeS                  -- scope id = index
  reg : List (Nat × Nat)                -- ident ↦ scope id
  readers : List Nat                    -- threads holding the shard's read lock
  pcs : List (Nat × Pc)
  delivered : List Token
  dropped : List Token                  -- tokens that can never be delivered (cleared with the scope, or recorded on a cleared scope)
  nextToken : Nat
  handedOut : List (Nat × Nat)          -- (thread, scope id) results of obtain, in order (ghost)
deriving Repr, DecidableEq

def init : State :=
  { scopes := [], reg := [], readers := [], pcs := [], delivered := [], dropped := [], nextToken := 0, handedOut := [] }

/-- the shard as the harness scenarios start: the root scope (identity 0) registered, as `newScopeRegistry` does -/
def initRoot : State :=
  { init with scopes := [{ ident := 0, closed := false, cleared := false, cell := [] }], reg := [(0, 0)] }

def pcOf (s : State) (t : Nat) : Pc := (s.pcs.lookup t).getD .idle
def setPc (s : State) (t : Nat) (p : Pc) : State := { s with pcs := (t, p) :: s.pcs.filter (·.1 != t) }
def scopeOf (s : State) (sid : Nat) : Option ScopeS := s.scopes[sid]?
def setScope (s : State) (sid : Nat) (x : ScopeS) : State := { s with scopes := s.scopes.set sid x }
def lookup (s : State) (k : Nat) : Option Nat := s.reg.lookup k
def addReader (s : State) (t : Nat) : State := { s with readers := t :: s.readers }
def delReader (s : State) (t : Nat) : State := { s with readers := s.readers.filter (· != t) }
/-- delete the entry for key `k` only if it still points to `sid` (removal by identity) -/
def deleteIfSame (s : State) (k sid : Nat) : State :=
  { s with reg := s.reg.filter fun (k', v) => !(k' == k && v == sid) }

/-- is some thread inside a visit of `sid` (holding that scope's metric read lock)? -/
def visiting (s : State) (sid : Nat) : Bool :=
  s.pcs.any fun (_, p) => match p with
    | .passSwap _ _ x _ => x == sid
    | .passDeliver _ _ x _ _ => x == sid
    | .obtSwap _ x => x == sid
    | .obtDeliver _ x _ => x == sid
    | _ => false

inductive Ev
  | passBegin (t : Nat)                    -- a thread starts a pass: takes the read lock
  | step (t : Nat) (choice : Nat)          -- the thread's next atomic action; `choice` = key picked by a pass iteration (observed)
  | passEndHint (t : Nat)                  -- the pass's range loop ended (observed: Go map iteration may skip entries added meanwhile)
  | obtain (t : Nat) (i : Nat)             -- an idle thread calls Subscope for identity i
  | record (sid : Nat)                     -- one atomic increment on scope `sid`'s counter
  | close (sid : Nat)                      -- `Close()` of a subscope: sets the flag
deriving Repr, DecidableEq

def clearScope (s : State) (sid : Nat) : State :=
  match scopeOf s sid with
  | some x => { setScope s sid { x with cleared := true, cell := [] } with dropped := x.cell ++ s.dropped }
  | none => s

/-- one atomic action; `none` = not enabled (blocked on a lock, or not a possible action) -/
def step (s : State) : Ev → Option State
  | .record sid =>
    match scopeOf s sid with
    | none => none
    | some x =>
      let tok : Token := { id := s.nextToken, scope := sid, pre := !x.closed }
      if x.cleared then some { s with dropped := tok :: s.dropped, nextToken := s.nextToken + 1 }
      else some { setScope s sid { x with cell := tok :: x.cell } with nextToken := s.nextToken + 1 }
  | .close sid =>
    match scopeOf s sid with
    | none => none
    | some x => some (setScope s sid { x with closed := true })
  | .obtain t i => if pcOf s t != .idle then none else some (setPc s t (.obtProbe i))
  | .passBegin t => if pcOf s t != .idle then none else some (setPc (addReader s t) t (.passIter []))
  | .passEndHint t =>
    match pcOf s t with
    | .passIter _ => some (setPc (delReader s t) t .idle)
    | _ => none
  | .step t choice =>
    match pcOf s t with
    | .idle => none
    | .passIter visited =>
      -- pick an unvisited registered key and read the closed flag of its scope
      if visited.contains choice then none else
      match lookup s choice with
      | none => none
      | some sid => match scopeOf s sid with
        | none => none
        | some x => some (setPc s t (.passSwap (choice :: visited) choice sid x.closed))
    | .passSwap v k sid c =>
      match scopeOf s sid with
      | none => none
      | some x => some (setPc (setScope s sid { x with cell := [] }) t
          (if x.cell.isEmpty then .passAfter v k sid c else .passDeliver v k sid c x.cell))
    | .passDeliver v k sid c pend => some (setPc { s with delivered := pend ++ s.delivered } t (.passAfter v k sid c))
    | .passAfter v k sid c =>
      if c then some (setPc (delReader s t) t (.passUnlocked v k sid)) else some (setPc s t (.passIter v))
    | .passUnlocked v k sid =>
      if !s.readers.isEmpty then none else some (setPc (deleteIfSame s k sid) t (.passRelock v k sid))
    | .passRelock v k sid => some (setPc (addReader s t) t (.passClear v k sid))
    | .passClear v k sid => if visiting s sid then none else some (setPc (clearScope s sid) t (.passIter v))
    | .obtProbe i =>
      match lookup s i with
      | none => some (setPc s t (.obtWantLock i))
      | some sid => match scopeOf s sid with
        | none => none
        | some x => if !x.closed then some { setPc s t (.obtDone i sid) with handedOut := (t, sid) :: s.handedOut }
                    else some (setPc (addReader s t) t (.obtSwap i sid))
    | .obtSwap i sid =>
      match scopeOf s sid with
      | none => none
      | some x => some (setPc (setScope s sid { x with cell := [] }) t
          (if x.cell.isEmpty then .obtAfter i sid else .obtDeliver i sid x.cell))
    | .obtDeliver i sid pend => some (setPc { s with delivered := pend ++ s.delivered } t (.obtAfter i sid))
    | .obtAfter i sid => some (setPc (delReader s t) t (.obtUnlocked i sid))
    | .obtUnlocked i sid =>
      if !s.readers.isEmpty then none else some (setPc (deleteIfSame s i sid) t (.obtRelock i sid))
    | .obtRelock i sid => some (setPc (addReader s t) t (.obtClear i sid))
    | .obtClear i sid => if visiting s sid then none else some (setPc (clearScope s sid) t (.obtRelease i sid))
    | .obtRelease i _sid => some (setPc (delReader s t) t (.obtWantLock i))
    | .obtWantLock i =>
      if !s.readers.isEmpty then none else
      -- write-locked re-lookup
      let fresh (s : State) : State :=
        let sid := s.scopes.length
        let s1 := { s with scopes := s.scopes ++ [{ ident := i, closed := false, cleared := false, cell := [] }],
                           reg := (i, sid) :: s.reg.filter (·.1 != i) }
        { setPc s1 t (.obtDone i sid) with handedOut := (t, sid) :: s1.handedOut }
      match lookup s i with
      | none => some (fresh s)
      | some sid => match scopeOf s sid with
        | none => none
        | some x =>
          if !x.closed then some { setPc s t (.obtDone i sid) with handedOut := (t, sid) :: s.handedOut }
          else
            -- D4c: a closed scope still registered: report it, drop it, create a fresh one (all under the write lock)
            if visiting s sid then none else
            let s1 := { setScope s sid { x with cell := [] } with delivered := x.cell ++ s.delivered }
            some (fresh (clearScope (deleteIfSame s1 i sid) sid))
    | .obtDone _ _ => some (setPc s t .idle)

def run (s : State) : List Ev → Option State
  | [] => some s
  | e :: es => match step s e with
    | none => none
    | some s' => run s' es

/-- all tokens issued so far that were recorded before their scope was closed -/
def allCells (s : State) : List Token := (s.scopes.map (·.cell)).flatten
def pendingOf : Pc → List Token
  | .passDeliver _ _ _ _ p => p
  | .obtDeliver _ _ p => p
  | _ => []
def allPending (s : State) : List Token := (s.pcs.map fun (_, p) => pendingOf p).flatten

/-! ## the pinned code's two racy steps, kept as regression witnesses -/
namespace Legacy
/-- pinned removal: delete by key whatever it points to -/
def deleteByKey (s : State) (k : Nat) : State := { s with reg := s.reg.filter (·.1 != k) }
end Legacy

end Tally.Registry
