import Tally.Model.Utf8
/-!
# Model of `(*ValidCharacters).sanitizeFn` (sanitize.go)

The Go loop keeps the input untouched until the first invalid rune; from then on it writes the
prefix seen so far followed by, for every remaining iteration, either the rune (re-encoded by
`WriteRune`) or the replacement rune.  With the items of the `range` loop made explicit this is
`sanitizeItems`.  A decoding error (width-1 U+FFFD) counts as invalid whatever the allowed
ranges say (repair D11).
-/
namespace Tally.Sanitize
open Tally Tally.Utf8

structure ValidChars where
  ranges : List (Int × Int)
  chars : List Int
deriving Repr

/-- the two loops over `Ranges` and `Characters` -/
def allowed (c : ValidChars) (r : Int) : Bool :=
  c.ranges.any (fun (lo, hi) => decide (r ≥ lo) && decide (r ≤ hi)) || c.chars.any (fun x => x == r)

/-- validity of one loop iteration -/
def okItem (c : ValidChars) (it : Item) : Bool := allowed c it.rune && !it.isError

def sanitizeItems (c : ValidChars) (rep : Int) (items : List Item) : Bytes :=
  let pre := items.takeWhile (okItem c)
  let rest := items.dropWhile (okItem c)
  (pre.map (·.raw)).flatten ++
    (rest.map fun it => if okItem c it then encodeRune it.rune else encodeRune rep).flatten

/-- the sanitize function for one character class and replacement rune -/
def sanitize (c : ValidChars) (rep : Int) (s : Bytes) : Bytes :=
  if (decodeAll s).all (okItem c) then s else sanitizeItems c rep (decodeAll s)

/-- `NoOpSanitizeFn` -/
def noop (s : Bytes) : Bytes := s

/-- what a non-scalar replacement is written as -/
def normRep (rep : Int) : Nat := if validScalar rep then rep.toNat else runeError

end Tally.Sanitize
