import Tally.Prelude
import Tally.Generated.Facts
import Tally.Model.UdpObs
/-!
# Model of `m3/thriftudp` (C15): `TUDPTransport`, `TMultiUDPTransport`, and the M3 emission layer

The model follows the repaired code (repair D9 of DESIGN.md; Go's `overflow` flag is `poisoned` here):

* a transport is `{buf, closed, poisoned}`;
* a write on a closed transport → not-open; a write that would make the message exceed
  `max` — or any write while `poisoned` — is refused (too-large), appends nothing and sets
  `poisoned` (the unedited `TestHugeWrite` requires that *further* writes keep failing);
* `Flush` on a closed transport → not-open; `Flush` while poisoned sends nothing, empties the
  buffer, clears the flag and returns too-large (the message is discarded as a whole);
  otherwise `Flush` hands exactly `buf` to the socket as one datagram and empties the buffer
  whether or not the send succeeded (`p.writeBuf.Reset()` after `p.conn.Write`);
* `Close` is idempotent (`closed.Swap(true)`), the first one returns `conn.Close()`'s result.

The socket is an input oracle: every `flush` carries what the socket does with the datagram
(`Sock.ok` delivered, `Sock.fail` send error, `Sock.lost` sent but nobody listens), every
`close` whether `conn.Close()` succeeds.  All functions take the maximum length as a parameter
so that theorems hold for every limit; the code's limit is `maxLength`, read from the
regenerated facts.

`stepPinned` is the transport as it was before the repair (no flag); it is used only for the
Legacy counter-example theorems.
-/
namespace Tally.Udp
open Tally.UdpObs

/-- `thriftudp.MaxLength`, from the regenerated facts -/
def maxLength : Nat := (Facts.udpMaxLength.getD 0).toNat

structure T where
  buf : Bytes := []
  closed : Bool := false
  poisoned : Bool := false
  deriving DecidableEq, Repr, Inhabited

def init : T := {}

/-- what the socket does with one datagram -/
inductive Sock
  | ok | fail | lost
  deriving DecidableEq, Repr, Inhabited

def Sock.env : Sock → Env
  | .ok => .ok | .fail => .sockFault | .lost => .sinkDown

inductive Op
  | write (b : Bytes)
  | writeByte (b : UInt8)
  | writeString (b : Bytes)
  | flush (sock : Sock)
  | close (connOk : Bool)
  | isOpen
  deriving DecidableEq, Repr, Inhabited

/-- result of a call: count, error class, datagrams that arrive at the sink because of it -/
structure Res where
  n : Nat := 0
  err : Err := .nil
  recv : List Bytes := []
  deriving DecidableEq, Repr, Inhabited

/-- `Write` / `WriteString` / `WriteByte`: `IsOpen` check, then the length comparison
`p.writeBuf.Len()+len(buf) > MaxLength`, then append -/
def accept (max : Nat) (s : T) (chunk : Bytes) : T × Res :=
  if s.closed then (s, { err := .notOpen })
  else if s.poisoned || decide (s.buf.length + chunk.length > max) then
    ({ s with poisoned := true }, { err := .tooLarge })
  else ({ s with buf := s.buf ++ chunk }, { n := chunk.length })

/-- `Flush`: `IsOpen`, (poisoned → discard), `conn.Write(buf)`, `Reset()` -/
def flush (s : T) (sock : Sock) : T × Res :=
  if s.closed then (s, { err := .notOpen })
  else if s.poisoned then ({ s with buf := [], poisoned := false }, { err := .tooLarge })
  else
    ({ s with buf := [] },
      match sock with
      | .ok => { recv := [s.buf] }
      | .fail => { err := .sendError }
      | .lost => {})

/-- `Close`: `closed.Swap(true)`; only the first call touches the socket -/
def close (s : T) (connOk : Bool) : T × Res :=
  if s.closed then (s, {})
  else ({ s with closed := true }, if connOk then {} else { err := .sendError })

def step (max : Nat) (s : T) : Op → T × Res
  | .write b => accept max s b
  | .writeByte b => let (s', r) := accept max s [b]; (s', { r with n := 0 })  -- WriteByte returns only an error
  | .writeString b => accept max s b
  | .flush sock => flush s sock
  | .close ok => close s ok
  | .isOpen => (s, { n := if s.closed then 0 else 1 })

/-- run a call sequence: final state and the result of every call -/
def run (max : Nat) (s : T) : List Op → T × List Res
  | [] => (s, [])
  | op :: ops =>
    let (s1, r) := step max s op
    let (s2, rs) := run max s1 ops
    (s2, r :: rs)

def Op.kind : Op → Kind
  | .write _ => .write | .writeByte _ => .writeByte | .writeString _ => .writeString
  | .flush _ => .flush | .close _ => .close | .isOpen => .isOpen

def Op.arg : Op → Bytes
  | .write b => b | .writeByte b => [b] | .writeString b => b | _ => []

def Op.env : Op → Env
  | .flush sock => sock.env
  | .close ok => if ok then .ok else .sockFault
  | _ => .ok

def toEv (op : Op) (r : Res) : Ev :=
  { kind := op.kind, arg := op.arg, env := op.env, n := r.n, err := r.err, recv := r.recv }

/-- the observable history of a call sequence -/
def trace (max : Nat) (s : T) : List Op → List Ev
  | [] => []
  | op :: ops =>
    let (s1, r) := step max s op
    toEv op r :: trace max s1 ops

/-- all datagrams that arrive, in order -/
def delivered (max : Nat) (s : T) (ops : List Op) : List Bytes :=
  (trace max s ops).flatMap (·.recv)

/-! ## Legacy: the transport before the repair (no poisoning): for counter-examples only -/

def acceptPinned (max : Nat) (s : T) (chunk : Bytes) : T × Res :=
  if s.closed then (s, { err := .notOpen })
  else if s.buf.length + chunk.length > max then (s, { err := .tooLarge })
  else ({ s with buf := s.buf ++ chunk }, { n := chunk.length })

def stepPinned (max : Nat) (s : T) : Op → T × Res
  | .write b => acceptPinned max s b
  | .writeByte b => let (s', r) := acceptPinned max s [b]; (s', { r with n := 0 })
  | .writeString b => acceptPinned max s b
  | .flush sock => flush s sock     -- `poisoned` is never set, so this is the Flush before the repair
  | .close ok => close s ok
  | .isOpen => (s, { n := if s.closed then 0 else 1 })

def tracePinned (max : Nat) (s : T) : List Op → List Ev
  | [] => []
  | op :: ops =>
    let (s1, r) := stepPinned max s op
    toEv op r :: tracePinned max s1 ops

end Tally.Udp

/-! ## `TMultiUDPTransport`: fan-out exactly as the Go loops do it (repaired: `Write` and `Flush`
visit every destination and return the first error; `Close` still returns at the first error) -/
namespace Tally.UdpMulti
open Tally.UdpObs Tally.Udp

abbrev MT := List T

def init (k : Nat) : MT := List.replicate k Udp.init

inductive MOp
  | write (b : Bytes)
  | flush (socks : List Sock)    -- one oracle entry per destination (missing entries: `ok`)
  | close (oks : List Bool)
  | isOpen
  deriving DecidableEq, Repr, Inhabited

structure MRes where
  n : Nat := 0
  err : Err := .nil
  recv : List (List Bytes) := []    -- per destination
  deriving DecidableEq, Repr, Inhabited

/-- `Write`: every destination sees every write, also after one of them failed; the first error
is returned; the count is the maximum written over the destinations before the first error:
`for trans { written, err := trans.Write(buff); if err != nil { if firstErr == nil { firstErr = err };
continue }; if firstErr == nil && written > n { n = written } }; return n, firstErr` -/
def write (max : Nat) : MT → Bytes → Nat → Err → MT × Nat × Err
  | [], _, n, fe => ([], n, fe)
  | t :: ts, b, n, fe =>
    let (t', r) := accept max t b
    let (ts', n', fe') :=
      if r.err ≠ .nil then write max ts b n (if fe = .nil then r.err else fe)
      else write max ts b (if fe = .nil ∧ r.n > n then r.n else n) fe
    (t' :: ts', n', fe')

/-- `Flush`: every destination is flushed; the first error is returned:
`for trans { if err := trans.Flush(); err != nil && firstErr == nil { firstErr = err } }; return firstErr` -/
def flush : MT → List Sock → Err → MT × Err × List (List Bytes)
  | [], _, fe => ([], fe, [])
  | t :: ts, socks, fe =>
    let (t', r) := Udp.flush t (socks.headD .ok)
    let (ts', fe', ds) := flush ts socks.tail (if fe = .nil then r.err else fe)
    (t' :: ts', fe', r.recv :: ds)

/-- `Close`: `for trans { if err := trans.Close(); err != nil { return err } }; return nil` -/
def close : MT → List Bool → MT × Err
  | [], _ => ([], .nil)
  | t :: ts, oks =>
    let (t', r) := Udp.close t (oks.headD true)
    if r.err ≠ .nil then (t' :: ts, r.err)
    else
      let (ts', e) := close ts oks.tail
      (t' :: ts', e)

/-- `IsOpen`: every destination open -/
def isOpen (m : MT) : Bool := m.all (fun t => !t.closed)

def step (max : Nat) (m : MT) : MOp → MT × MRes
  | .write b =>
    let (m', n, e) := write max m b 0 .nil
    (m', { n := n, err := e, recv := m.map (fun _ => []) })
  | .flush socks =>
    let (m', e, ds) := flush m socks .nil
    (m', { err := e, recv := ds })
  | .close oks =>
    let (m', e) := close m oks
    (m', { err := e, recv := m.map (fun _ => []) })
  | .isOpen => (m, { n := if isOpen m then 1 else 0, recv := m.map (fun _ => []) })

def MOp.kind : MOp → Kind
  | .write _ => .write | .flush _ => .flush | .close _ => .close | .isOpen => .isOpen

def MOp.arg : MOp → Bytes
  | .write b => b | _ => []

def MOp.envs (k : Nat) : MOp → List Env
  | .flush socks => (List.range k).map fun d => (socks.getD d .ok).env
  | .close oks => (List.range k).map fun d => if oks.getD d true then .ok else .sockFault
  | _ => List.replicate k .ok

def toMEv (k : Nat) (op : MOp) (r : MRes) : MEv :=
  { kind := op.kind, arg := op.arg, envs := op.envs k, n := r.n, err := r.err, recv := r.recv }

def trace (max : Nat) (m : MT) : List MOp → List MEv
  | [] => []
  | op :: ops =>
    let (m1, r) := step max m op
    toMEv m.length op r :: trace max m1 ops

/-- the same call on a single transport with a healthy socket (`WriteByte` / `WriteString` reach
the multi transport as `Write` through thrift's `RichTransport` wrapper) -/
def MOp.single : MOp → Udp.Op
  | .write b => .write b
  | .flush _ => .flush .ok
  | .close _ => .close true
  | .isOpen => .isOpen

/-- the same call as it reaches destination `d`, with that destination's socket oracle -/
def MOp.at (d : Nat) : MOp → Udp.Op
  | .write b => .write b
  | .flush socks => .flush (socks.getD d .ok)
  | .close oks => .close (oks.getD d true)
  | .isOpen => .isOpen

/-- `conn.Close()` succeeds at every destination (it fails only on a socket closed behind the
transport's back, which the multi transport gives no access to) -/
def MOp.closeOk : MOp → Bool
  | .close oks => oks.all (· = true)
  | _ => true

/-- no socket fault is injected by this call -/
def MOp.quiet : MOp → Bool
  | .flush socks => socks.all (· = .ok)
  | .close oks => oks.all (· = true)
  | _ => true

end Tally.UdpMulti

/-! ## The M3 emission layer on top of one transport

`sendEmitMetricBatchV2` writes the message piecewise and returns on the first write error
*without flushing*; the reporter then calls `Flush` once, which discards the
poisoned message; otherwise the client itself ends the message with `Flush`. -/
namespace Tally.M3Batch
open Tally.UdpObs Tally.Udp

/-- a batch: the chunks the thrift protocol writes for it, and what the socket does at its flush -/
structure Batch where
  chunks : List Bytes
  sock : Sock := .ok
  deriving DecidableEq, Repr, Inhabited

def Batch.size (b : Batch) : Nat := (b.chunks.map List.length).sum
def Batch.bytes (b : Batch) : Bytes := b.chunks.flatten

/-- the writes the client issues: up to and including the first refused one -/
def writesUntilError (max : Nat) (s : T) : List Bytes → List Op
  | [] => []
  | c :: cs =>
    let (s', r) := accept max s c
    if r.err ≠ .nil then [.write c] else .write c :: writesUntilError max s' cs

/-- calls made for one batch: the writes, then exactly one `Flush` — the client's own on
success, the reporter's discarding one after an abandoned message -/
def emitOps (max : Nat) (s : T) (b : Batch) : List Op :=
  writesUntilError max s b.chunks ++ [.flush b.sock]

/-- the calls made for a sequence of batches -/
def reporterOps (max : Nat) (s : T) : List Batch → List Op
  | [] => []
  | b :: bs =>
    let ops := emitOps max s b
    ops ++ reporterOps max (run max s ops).1 bs

/-- datagrams arriving at the sink for a sequence of batches -/
def emitted (max : Nat) (bs : List Batch) : List Bytes :=
  delivered max Udp.init (reporterOps max Udp.init bs)

/-- Legacy (before the repair): the client abandons and *nobody* flushes -/
def writesUntilErrorPinned (max : Nat) (s : T) : List Bytes → List Op × Bool
  | [] => ([], true)
  | c :: cs =>
    let (s', r) := acceptPinned max s c
    if r.err ≠ .nil then ([.write c], false)
    else
      let (ops, ok) := writesUntilErrorPinned max s' cs
      (.write c :: ops, ok)

def emitOpsPinned (max : Nat) (s : T) (b : Batch) : List Op :=
  let (ops, ok) := writesUntilErrorPinned max s b.chunks
  if ok then ops ++ [.flush b.sock] else ops

def runPinned (max : Nat) (s : T) : List Op → T
  | [] => s
  | op :: ops => runPinned max (stepPinned max s op).1 ops

def reporterOpsPinned (max : Nat) (s : T) : List Batch → List Op
  | [] => []
  | b :: bs =>
    let ops := emitOpsPinned max s b
    ops ++ reporterOpsPinned max (runPinned max s ops) bs

def emittedPinned (max : Nat) (bs : List Batch) : List Bytes :=
  (tracePinned max Udp.init (reporterOpsPinned max Udp.init bs)).flatMap (·.recv)

end Tally.M3Batch
