import Tally.Prelude
/-!
# Observation vocabulary of the UDP transport check (C15)

Pure data: what a caller of `TUDPTransport` / `TMultiUDPTransport` and a datagram sink can
observe.  No behaviour lives here; both the model (`Tally.Model.Udp`) and the oracle
(`Tally.Spec.C15`) speak in these terms, neither calls the other.
-/
namespace Tally.UdpObs

/-- error classes a transport call can return (the harness maps Go errors onto these) -/
inductive Err
  | nil        -- no error
  | notOpen    -- thrift TTransportException NOT_OPEN
  | tooLarge   -- thrift TTransportException INVALID_DATA ("does not fit within one UDP packet")
  | sendError  -- an error of the socket itself (closed socket, ECONNREFUSED …)
  | other
  deriving DecidableEq, Repr, Inhabited

def Err.toString : Err → String
  | .nil => "nil" | .notOpen => "not-open" | .tooLarge => "too-large" | .sendError => "send-error" | .other => "other"

def Err.parse : String → Option Err
  | "nil" => some .nil | "not-open" => some .notOpen | "too-large" => some .tooLarge
  | "send-error" => some .sendError | "other" => some .other | _ => none

/-- kinds of calls.  `Write`, `WriteByte`, `WriteString` are three code paths of the transport;
the oracle treats them alike (bytes offered to the current message). -/
inductive Kind
  | write | writeByte | writeString | flush | close | isOpen
  deriving DecidableEq, Repr, Inhabited

def Kind.isWrite : Kind → Bool
  | .write | .writeByte | .writeString => true
  | _ => false

/-- what the environment (the harness) did to the socket / sink; part of the *input* -/
inductive Env
  | ok         -- no fault: the socket is healthy and the sink is listening
  | sockFault  -- the socket may fail (closed through the back door, or an ICMP error may be pending)
  | sinkDown   -- nobody listens: sends may succeed (and are lost) or fail (ICMP), nothing can arrive
  deriving DecidableEq, Repr, Inhabited

/-- one observed call on a single-destination transport -/
structure Ev where
  kind : Kind
  arg : Bytes := []          -- bytes offered by a write (one byte for `WriteByte`)
  env : Env := .ok
  n : Nat := 0               -- returned count (`IsOpen`: 1 = true, 0 = false)
  err : Err := .nil
  recv : List Bytes := []    -- datagrams that arrived at the sink since the previous call
  deriving DecidableEq, Repr, Inhabited

/-- one observed call on a multi-destination transport; `recv` / `envs` have one entry per destination -/
structure MEv where
  kind : Kind
  arg : Bytes := []
  envs : List Env := []
  n : Nat := 0
  err : Err := .nil
  recv : List (List Bytes) := []
  deriving DecidableEq, Repr, Inhabited

/-- the history as seen at destination `d` -/
def MEv.proj (d : Nat) (e : MEv) : Ev :=
  { kind := e.kind, arg := e.arg, env := e.envs.getD d .ok, n := e.n, err := e.err, recv := e.recv.getD d [] }

end Tally.UdpObs
