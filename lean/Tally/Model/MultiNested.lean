import Tally.Model.Multi
/-!
# A multi reporter given to another multi reporter as a child (two levels)

In the Go code `multi` / `multiCached` implement the reporter interface themselves, so
`NewMultiCachedReporter(NewMultiCachedReporter(a, b), c)` is a legal configuration.  This file models
exactly that shape: an **outer** multi reporter whose children are **groups**; a group is

* a bare leaf: a recording reporter `Multi.Child`, or
* an **inner** multi reporter: a `Multi.State` of the same flavour over its own leaves.

Nothing of `Tally.Model.Multi` is re-implemented for the inner level: an inner multi reporter receives
a call by `Multi.step`, its capabilities are `Multi.capabilities`, its leaves are its `children`.

* **One sequence counter is shared by all leaves** (it is what makes "leaf `i` is called before leaf
  `i+1`" expressible).  A leaf stamps the call with the current value and the counter moves on by one;
  an inner multi reporter has its `seq` set to the current value, runs its own fan-out over its leaves,
  and the counter continues from the inner reporter's `seq` afterwards (so an inner reporter over `w`
  leaves consumes `w` sequence numbers, one over no leaves consumes none).
* **Handles.**  What a group returns for an `Allocate*` / `ValueBucket` / `DurationBucket` is a handle
  of *that group*: for a leaf the ordinal the leaf hands out (`Child.call`), for an inner multi reporter
  the ordinal of the `multiMetric` / `multiHistogramBucket` it hands out, i.e. the index of the new
  entry in its `metrics` / `buckets`.  The outer reporter records the list of the groups' handles, in
  group order, as its own handle; reporting through an outer handle addresses every group with its own
  handle (`Call.withHandle`), and an inner multi reporter resolves that handle against its own tables
  (`Multi.perChild`) to address its leaves.
* `step` is `none` exactly when `Multi.step` would be on the outer level (wrong flavour, handle never
  allocated / of another type) or when an inner multi reporter refuses what the outer one sends it;
  `TallyProofs/Props/C19Nested.lean` proves that the latter never happens on its own.
-/
namespace Tally.MultiNested
open Tally Tally.Multi

/-- a child of the outer multi reporter -/
inductive Group
  /-- a bare leaf reporter -/
  | leaf (c : Child)
  /-- an inner multi reporter over its own leaves -/
  | inner (m : Multi.State)
  deriving Repr

namespace Group

/-- the leaf reporters below the group, left to right -/
def leaves : Group → List Child
  | leaf c => [c]
  | inner m => m.children

/-- `Capabilities()` of the group: a leaf's own answer; an inner multi reporter's conjunction -/
def capabilities : Group → Caps
  | leaf c => c.caps
  | inner m => Multi.capabilities m

/-- the handle ordinal an inner multi reporter hands out for call `x`: the index of the entry it is
about to append to `metrics` / `buckets` (`0` for calls that return nothing, as in `Child.call`) -/
def innerHandle (m : Multi.State) (x : Call) : Nat :=
  match x.allocKind with
  | some _ => m.metrics.length
  | none => if x.makesBucket then m.buckets.length else 0

/-- the group receives call `x` when the shared sequence counter stands at `s`: the group afterwards,
the handle ordinal it returned, and the shared sequence counter afterwards.  `none`: an inner multi
reporter refused the call. -/
def call (g : Group) (s : Nat) (x : Call) : Option (Group × Nat × Nat) :=
  match g with
  | leaf c =>
    let r := c.call s x
    some (leaf r.1, r.2, s + 1)
  | inner m =>
    match Multi.step { m with seq := s } x with
    | some m' => some (inner m', innerHandle m x, m'.seq)
    | none => none

end Group

/-- the outer loop `for i, r := range reporters { … r.call(xs[i]) }` over the groups, the shared
sequence counter threaded through; same shape as `Multi.fan` -/
def fan : List Group → List Call → Nat → Option (List Group × List Nat × Nat)
  | g :: gs, x :: xs, s =>
    match g.call s x with
    | none => none
    | some r =>
      match fan gs xs r.2.2 with
      | none => none
      | some rest => some (r.1 :: rest.1, r.2.1 :: rest.2.1, rest.2.2)
  | gs, _, s => some (gs, [], s)

/-- the outer multi reporter -/
structure State where
  flavour : Flavour
  groups : List Group
  /-- next value of the sequence counter shared by all leaves -/
  seq : Nat := 0
  /-- metric handles handed out by the outer reporter: kind and the groups' handles -/
  metrics : List (Kind × List Nat) := []
  /-- bucket handles handed out by the outer reporter's histogram handles -/
  buckets : List (List Nat) := []
  deriving Repr

/-- how one child of the outer reporter is built: a bare leaf with capabilities `c`, or an inner multi
reporter over leaves with capabilities `cs` (any number of them: none, one, several).  So a group of
one leaf exists in both forms, `leaf c` and `inner [c]`. -/
inductive GroupSpec
  | leaf (c : Caps)
  | inner (cs : List Caps)
  deriving DecidableEq, Repr

namespace GroupSpec

/-- the capabilities of the leaves below the group, left to right -/
def caps : GroupSpec → List Caps
  | leaf c => [c]
  | inner cs => cs

/-- the freshly constructed group; an inner multi reporter has the flavour of the outer one -/
def start (fl : Flavour) : GroupSpec → Group
  | leaf c => Group.leaf { caps := c }
  | inner cs => Group.inner (Multi.init fl cs)

/-- a group given as the list of its leaves' capabilities.  Every list becomes an inner multi reporter
over those leaves, except that a one-element list becomes a bare leaf when `bare` is set. -/
def ofList (bare : Bool) : List Caps → GroupSpec
  | [c] => if bare then leaf c else inner [c]
  | cs => inner cs

end GroupSpec

/-- all leaves' capabilities in left-to-right order: the children of the flat multi reporter -/
def flatCaps (gs : List GroupSpec) : List Caps := gs.flatMap GroupSpec.caps

def init (fl : Flavour) (gs : List GroupSpec) : State :=
  { flavour := fl, groups := gs.map (GroupSpec.start fl) }

/-- what each group (handle) is asked to do for call `x` on the outer reporter; as `Multi.perChild` -/
def perChild (st : State) (x : Call) : Option (List Call) :=
  match x.metricRef, x.bucketRef with
  | some (h, k), _ =>
    match st.metrics[h]? with
    | some (k', ids) => if k' = k then some (ids.map fun id => x.withHandle id) else none
    | none => none
  | none, some b =>
    match st.buckets[b]? with
    | some ids => some (ids.map fun id => x.withHandle id)
    | none => none
  | none, none => some (List.replicate st.groups.length x)

def step (st : State) (x : Call) : Option State :=
  if !x.flavourOk st.flavour then none else
  match perChild st x with
  | none => none
  | some xs =>
    match fan st.groups xs st.seq with
    | none => none
    | some r =>
      let st' := { st with groups := r.1, seq := r.2.2 }
      match x.allocKind with
      | some k => some { st' with metrics := st.metrics ++ [(k, r.2.1)] }
      | none =>
        if x.makesBucket then some { st' with buckets := st.buckets ++ [r.2.1] }
        else some st'

def runFrom (st : State) : List Call → Option State
  | [] => some st
  | x :: xs => match step st x with
    | some st' => runFrom st' xs
    | none => none

/-- the outer multi reporter over the groups `gs`, after the history `hist` -/
def run (fl : Flavour) (gs : List GroupSpec) (hist : List Call) : Option State :=
  runFrom (init fl gs) hist

/-- `Capabilities()` of the outer reporter: the same loop as `Multi.capabilities`, over the groups' answers -/
def capabilities (st : State) : Caps :=
  st.groups.foldl (fun acc g => { reporting := acc.reporting && g.capabilities.reporting,
                                   tagging := acc.tagging && g.capabilities.tagging })
    { reporting := true, tagging := true }

/-- all leaf reporters, left to right -/
def leaves (st : State) : List Child := st.groups.flatMap Group.leaves

/-- the logs of all leaves, left to right (what the harness reads off the recording reporters) -/
def leafLogs (st : State) : List (List (Nat × Call)) := (leaves st).map (·.log)

end Tally.MultiNested
