import Tally.Model.BucketCache
/-!
# The bucket cache with the caller's memory made explicit (stats.go `newBucketStorage`, repair D16)

`Tally.BucketCache` models a specification as a value.  In Go it is a slice: the caller owns the backing array and
may overwrite it between two `Histogram()` calls (a scratch slice reused for successive specifications).  This
module keeps the caller's slices in a heap and compares

* `getRef` — the pinned code: the cached storage keeps a REFERENCE to the caller's slice as its specification; the
  equality re-check after a cache hit reads the slice's *current* contents;
* `getCopy` — the repaired code: `newBucketStorage` copies the specification, i.e. `BucketCache.get` on the contents
  the slice has at the time of the call.
-/
namespace Tally.BucketAlias
open Tally Tally.BucketCache

/-- the caller's slices: slice id ↦ current contents -/
abbrev Heap := Nat → BSpec

def Heap.write (h : Heap) (r : Nat) (s : BSpec) : Heap := fun r' => if r' = r then s else h r'

/-- what the application does: overwrite one of its slices, or create a histogram from one -/
inductive Op
  | write (slice : Nat) (contents : BSpec)
  | create (slice : Nat)
  deriving Repr

/-! ## pinned code: the storage aliases the caller's slice -/

structure RefStorage where
  ref : Nat            -- the caller's slice, kept as `storage.buckets`
  uppers : Uppers      -- `storage.hbuckets`, computed when the storage was built
  deriving Repr

abbrev RefCache := UInt64 → Option RefStorage

def RefCache.empty : RefCache := fun _ => none
def RefCache.set (c : RefCache) (k : UInt64) (v : RefStorage) : RefCache := fun k' => if k' = k then some v else c k'

def getRef (idf : BSpec → UInt64) (h : Heap) (c : RefCache) (r : Nat) : RefCache × Uppers :=
  let req := h r
  match c (idf req) with
  | none => (c.set (idf req) { ref := r, uppers := (build req).uppers }, (build req).uppers)
  | some st => if specEq req (h st.ref) then (c, st.uppers) else (c, (build req).uppers)

/-- the bounds every created histogram uses, in creation order -/
def runRef (idf : BSpec → UInt64) : Heap → RefCache → List Op → List Uppers
  | _, _, [] => []
  | h, c, .write r s :: ops => runRef idf (h.write r s) c ops
  | h, c, .create r :: ops =>
    let (c', u) := getRef idf h c r
    u :: runRef idf h c' ops

/-! ## repaired code: the storage keeps a private copy -/

def runCopy (idf : BSpec → UInt64) : Heap → Cache → List Op → List Uppers
  | _, _, [] => []
  | h, c, .write r s :: ops => runCopy idf (h.write r s) c ops
  | h, c, .create r :: ops =>
    let (c', st) := get idf c (h r)
    st.uppers :: runCopy idf h c' ops

/-- the specification each creation was made with: the contents of its slice at that moment -/
def createdWith : Heap → List Op → List BSpec
  | _, [] => []
  | h, .write r s :: ops => createdWith (h.write r s) ops
  | h, .create r :: ops => h r :: createdWith h ops

end Tally.BucketAlias
