import Tally.Prelude
/-!
# Lock-level model of the metric getters (scope.go: Counter, Gauge, Timer, Histogram) with a slow / panicking Allocate

One (scope, kind, sanitized name) slot with an explicit RW lock; any number of threads.  Unlike
`Tally.GetOrCreate` (which takes the write-locked "re-check, Allocate, create" as one atomic step) the write lock
is held across schedule points here: `Allocate*` is a call into a user-supplied reporter, it can take arbitrarily
long (`allocating` is a pc of its own, other threads are scheduled meanwhile) and it can panic (`allocPanic`).
The Go code releases the lock with `defer s.cm.Unlock()`, so the lock is released while the panic unwinds; the
`Legacy` namespace at the end of the file is the same machine with an explicit Unlock on the normal paths only.

A report pass reads the slot under the read lock (`passLock` / `passUnlock`).
A thread that has not done anything is at `idle`; its first `passLock` makes it a report-pass thread, which then
alternates between `passReading` and `passIdle`.
-/
namespace Tally.GetOrCreateLock

inductive Pc
  | idle
  | probing            -- inside `s.counter(name)`: holds the read lock
  | missed             -- probe found nothing, no lock held: about to take the write lock
  | locked             -- holds the write lock, before the re-check
  | allocating         -- inside the reporter's `Allocate*`, holds the write lock
  | returned (id : Nat)
  | panicked           -- the call ended in a panic (out of `Allocate*`)
  | passIdle           -- a report pass thread between two reads
  | passReading        -- a report pass thread holding the read lock
deriving Repr, DecidableEq

structure State where
  slot : Option Nat              -- the registered object
  writer : Option Nat            -- the thread holding the write lock
  readers : List Nat             -- the threads holding the read lock (a multiset, as a list)
  allocs : Nat                   -- Allocate calls started
  allocsDone : Nat               -- Allocate calls that returned normally
  nextId : Nat
  pcs : List (Nat × Pc)
  results : List (Nat × Nat)     -- (thread, returned object), newest first (as in `Tally.GetOrCreate`)
  panics : List Nat              -- threads whose call ended in a panic, in order
  seen : List (Nat × Option Nat) -- what each report pass read: (pass thread, slot), in order
deriving Repr, DecidableEq

def init : State :=
  { slot := none, writer := none, readers := [], allocs := 0, allocsDone := 0, nextId := 0, pcs := [],
    results := [], panics := [], seen := [] }

def updPcs (pcs : List (Nat × Pc)) (t : Nat) (p : Pc) : List (Nat × Pc) := (t, p) :: pcs.filter (·.1 != t)
def lookupPc (pcs : List (Nat × Pc)) (t : Nat) : Pc := (pcs.lookup t).getD .idle
def pcOf (s : State) (t : Nat) : Pc := lookupPc s.pcs t

/-- the number of threads inside `Allocate*` -/
def allocating (s : State) : Nat := (s.pcs.filter (fun x => x.2 == Pc.allocating)).length

inductive Ev
  | probeLock (t : Nat)     -- `s.cm.RLock()` of the probe
  | probeUnlock (t : Nat)   -- map lookup and `s.cm.RUnlock()` of the probe
  | lock (t : Nat)          -- `s.cm.Lock()`
  | recheck (t : Nat)       -- the re-check under the write lock: hit → unlock and return, miss → call Allocate
  | allocReturn (t : Nat)   -- Allocate returns: create, insert, (deferred) unlock, return
  | allocPanic (t : Nat)    -- Allocate panics: nothing inserted, the deferred unlock runs while unwinding
  | finish (t : Nat)        -- the call is over (returned, or the application recovered the panic)
  | passLock (p : Nat)      -- a report pass takes the read lock
  | passUnlock (p : Nat)    -- a report pass reads the slot and releases the read lock
deriving Repr, DecidableEq

def step (s : State) : Ev → Option State
  | .probeLock t =>
    if pcOf s t = .idle ∧ s.writer = none then
      some { s with readers := t :: s.readers, pcs := updPcs s.pcs t .probing }
    else none
  | .probeUnlock t =>
    if pcOf s t = .probing then
      match s.slot with
      | some id => some { s with readers := s.readers.erase t, pcs := updPcs s.pcs t (.returned id),
                                 results := (t, id) :: s.results }
      | none => some { s with readers := s.readers.erase t, pcs := updPcs s.pcs t .missed }
    else none
  | .lock t =>
    if pcOf s t = .missed ∧ s.writer = none ∧ s.readers = [] then
      some { s with writer := some t, pcs := updPcs s.pcs t .locked }
    else none
  | .recheck t =>
    if pcOf s t = .locked then
      match s.slot with
      | some id => some { s with writer := none, pcs := updPcs s.pcs t (.returned id), results := (t, id) :: s.results }
      | none => some { s with allocs := s.allocs + 1, pcs := updPcs s.pcs t .allocating }
    else none
  | .allocReturn t =>
    if pcOf s t = .allocating then
      some { s with slot := some s.nextId, nextId := s.nextId + 1, allocsDone := s.allocsDone + 1, writer := none,
                    pcs := updPcs s.pcs t (.returned s.nextId), results := (t, s.nextId) :: s.results }
    else none
  | .allocPanic t =>
    if pcOf s t = .allocating then
      some { s with writer := none, pcs := updPcs s.pcs t .panicked, panics := s.panics ++ [t] }
    else none
  | .finish t =>
    match pcOf s t with
    | .returned _ => some { s with pcs := updPcs s.pcs t .idle }
    | .panicked => some { s with pcs := updPcs s.pcs t .idle }
    | _ => none
  | .passLock p =>
    if (pcOf s p = .idle ∨ pcOf s p = .passIdle) ∧ s.writer = none then
      some { s with readers := p :: s.readers, pcs := updPcs s.pcs p .passReading }
    else none
  | .passUnlock p =>
    if pcOf s p = .passReading then
      some { s with readers := s.readers.erase p, pcs := updPcs s.pcs p .passIdle, seen := s.seen ++ [(p, s.slot)] }
    else none

def run (s : State) : List Ev → Option State
  | [] => some s
  | e :: es => match step s e with
    | none => none
    | some s' => run s' es

/-! ## the machine with an explicit `Unlock` on the normal paths only (no `defer`) -/
namespace Legacy

/-- identical to `GetOrCreateLock.step` except that a panic out of `Allocate*` does NOT release the write lock -/
def step (s : State) : Ev → Option State
  | .allocPanic t =>
    if pcOf s t = .allocating then
      some { s with pcs := updPcs s.pcs t .panicked, panics := s.panics ++ [t] }
    else none
  | e => GetOrCreateLock.step s e

def run (s : State) : List Ev → Option State
  | [] => some s
  | e :: es => match step s e with
    | none => none
    | some s' => run s' es

end Legacy

end Tally.GetOrCreateLock
