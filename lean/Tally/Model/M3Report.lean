import Tally.Model.M3Batch
import Tally.Model.Buckets
import Tally.Model.Statsd
/-!
# M3 reporter: allocation, tag conversion, reporting, the queue, Close (m3/reporter.go)

Sequential model: one history of operations.  The Go reporter is used from many goroutines; the only
shared things are the tag cache / interner (lock protected, monotone), the clock cell (one atomic
word) and the queue `metCh`, and the queue totally orders the successful sends — so a concurrent
history is represented by the order in which its sends (and cache accesses, and clock stores) took
effect.  `process()` is its own thread: `Op.consume` lets it take one item at any point of the
history, `Op.close` is `Close()` (waits for the producers, closes the queue, waits until `process`
has drained it and emitted the last batch).  The bounded capacity of `metCh` only delays senders, so
it does not appear.

The model follows the REPAIRED code:
* D7a — `convertTags` uses a cache entry only if it holds exactly the requested pairs (the cache is
  keyed by a 64-bit hash, which is a *parameter* here: the theorems hold for every hash function);
  `legacyConvertTags` is the pinned behaviour;
* D7b — the clock cell is initialised at construction (`init … t0`), not by the clock thread's first
  iteration (`legacyInitCell = 0`).
-/
namespace Tally.M3
open Tally Tally.Thrift

/-- a Go `map[string]string` as enumerated by one `range` loop: distinct keys, arbitrary order -/
abbrev TagMap := List (Bytes × Bytes)

def tagOf (kv : Bytes × Bytes) : MetricTag := { name := kv.1, value := kv.2 }
def pairOf (t : MetricTag) : Bytes × Bytes := (t.name, t.value)

def asc (s : String) : Bytes := s.toList.map fun c => UInt8.ofNat c.toNat

/-! ## tag cache (internal/cache/tag_cache.go) and `convertTags` -/

/-- `TagCache.entries`: hash ↦ stored tag slice -/
abbrev Cache := List (UInt64 × List MetricTag)

/-- the tag slice built from a map, in the order this enumeration of the map yields -/
def fresh (m : TagMap) : List MetricTag := m.map tagOf

/-- the equality re-check of the repaired `convertTags`: same number of tags and every cached tag
is an entry of the requested map -/
def tagsMatch (ts : List MetricTag) (m : TagMap) : Bool :=
  ts.length == m.length && ts.all fun t => m.lookup t.name == some t.value

/-- REPAIRED `convertTags`: on a hit the cached slice is used only if it matches; a colliding map
gets a freshly built slice (and the cache keeps its entry, as `TagCache.Set` never overwrites) -/
def convertTags (hash : TagMap → UInt64) (c : Cache) (m : TagMap) : List MetricTag × Cache :=
  match c.lookup (hash m) with
  | some ts => if tagsMatch ts m then (ts, c) else (fresh m, c)
  | none => (fresh m, (hash m, fresh m) :: c)

/-- pinned `convertTags`: whatever is stored under the hash -/
def legacyConvertTags (hash : TagMap → UInt64) (c : Cache) (m : TagMap) : List MetricTag × Cache :=
  match c.lookup (hash m) with
  | some ts => (ts, c)
  | none => (fresh m, (hash m, fresh m) :: c)

/-! ## configuration -/

structure Config where
  proto : Proto
  /-- `MaxPacketSizeBytes` -/
  maxPacket : Nat
  /-- `r.commonTags` (configured ∪ service / env / host), in the order the constructor built them -/
  commonTags : List MetricTag
  /-- `HistogramBucketIDName`, `HistogramBucketName`, `HistogramBucketTagPrecision` -/
  bucketIdName : Bytes
  bucketName : Bytes
  prec : Nat
  /-- tags of the reporter's own `tally.internal.*` metrics, as enumerated at construction -/
  internalTags : TagMap
  /-- `_emitMetricBatchOverhead` -/
  env : Nat := reservedEnvelope
deriving Repr

/-- `r.freeBytes` (positive, or the constructor fails) -/
def Config.free (c : Config) : Nat := (freeBytes c.env c.maxPacket c.proto c.commonTags).toNat

/-- `NewReporter` returns `errCommonTagSize` unless this holds -/
def Config.ok (c : Config) : Bool := decide (0 < freeBytes c.env c.maxPacket c.proto c.commonTags)

/-! ### the common tag map built by `NewReporter` -/

def setKey (m : TagMap) (k v : Bytes) : TagMap :=
  if m.any (·.1 == k) then m.map fun kv => if kv.1 == k then (k, v) else kv else m ++ [(k, v)]

/-- `tagm`: the configured tags; `service` / `env` from the options when the configured map has no
(or an empty) value for them — an error if the option is empty too; `host` likewise when
`IncludeHost` (the host name is what `os.Hostname` returned). `none` = constructor error. -/
def commonTagMap (user : TagMap) (service env : Bytes) (host : Option Bytes) : Option TagMap :=
  let needs (k : Bytes) : Bool := (user.lookup k).getD [] == []
  let m1? := if needs (asc "service") then (if service == [] then none else some (setKey user (asc "service") service)) else some user
  match m1? with
  | none => none
  | some m1 =>
    let m2? := if needs (asc "env") then (if env == [] then none else some (setKey m1 (asc "env") env)) else some m1
    match m2? with
    | none => none
    | some m2 =>
      match host with
      | none => some m2
      | some h => if needs (asc "host") then some (setKey m2 (asc "host") h) else some m2

/-! ## histogram buckets -/

inductive BucketSpec
  | values (l : List F64)
  | durations (l : List Int)
deriving DecidableEq, Repr

def BucketSpec.len : BucketSpec → Nat
  | .values l => l.length
  | .durations l => l.length

/-- `ndigits` -/
def ndigits (n : Nat) : Nat := (Statsd.natDigits n).length

/-- `max(ndigits(buckets.Len()), _minMetricBucketIDTagLength)` -/
def idWidth (specLen : Nat) : Nat := max (ndigits specLen) 4

/-- `fmt.Sprintf("%0<w>d", i)` for `i ≥ 0` -/
def bucketIdString (w i : Nat) : Bytes := Statsd.padLeft0 w (Statsd.natDigits i)

/-- `r.valueBucketString` -/
def valueBucketString (prec : Nat) (x : F64) : Bytes := Statsd.valueBucketString prec x

/-- `r.durationBucketString`: like the StatsD reporter's, but `0` renders as `"0"` -/
def durationBucketString (d : Int) : Bytes := if d = 0 then [48] else Statsd.durationBucketString d

def rangeString (lo hi : Bytes) : Bytes := lo ++ (Statsd.bDash :: hi)

/-- lower bounds of consecutive buckets: the sentinel, then the previous upper bound -/
def lowers (first : α) (uppers : List α) : List α := first :: uppers.dropLast

/-- one allocated histogram bucket (`cachedHistogramBucket`) -/
structure BucketH where
  /-- counter template carrying the histogram's converted tags (a non-nil slice) -/
  tmpl : Metric
  size : Nat
  idTag : MetricTag
  rangeTag : MetricTag
  upperV : F64
  upperD : Int
deriving DecidableEq, Repr

inductive Handle
  | metric (k : Kind) (tmpl : Metric) (size : Nat)
  | hist (isDuration : Bool) (buckets : List BucketH)
deriving DecidableEq, Repr

/-- the rendered range and the two upper bounds of every bucket, in bucket order
(`tally.BucketPairs`: sorted bounds, one more bucket up to the maximum) -/
def bucketRows (prec : Nat) : BucketSpec → List (Bytes × F64 × Int)
  | .values l =>
    let ups := Buckets.valueUppers l
    (List.zip (lowers F64.negMaxFloat ups) ups).map fun (lo, hi) =>
      (rangeString (valueBucketString prec lo) (valueBucketString prec hi), hi, 0)
  | .durations l =>
    let ups := Buckets.durationUppers l
    (List.zip (lowers minInt64 ups) ups).map fun (lo, hi) =>
      (rangeString (durationBucketString lo) (durationBucketString hi), 0, hi)

/-- `AllocateHistogram` after the tags are converted; `charge` is how a bucket is sized -/
def bucketHandles (cfg : Config) (charge : Proto → Metric → MetricTag → MetricTag → Nat)
    (name : Bytes) (mtags : List MetricTag) (spec : BucketSpec) : List BucketH :=
  let w := idWidth spec.len
  (bucketRows cfg.prec spec).zipIdx.map fun (row, i) =>
    let tmpl := template name .counter (some mtags)
    let idTag : MetricTag := { name := cfg.bucketIdName, value := bucketIdString w i }
    let rangeTag : MetricTag := { name := cfg.bucketName, value := row.1 }
    { tmpl := tmpl, size := charge cfg.proto tmpl idTag rangeTag, idTag := idTag, rangeTag := rangeTag,
      upperV := row.2.1, upperD := row.2.2 }

/-- `h.cachedValueBuckets` search of `ValueBucket(_, upper)`: `sort.Search(n, bound[i] >= upper)` -/
def findValueBucket (bs : List BucketH) (upper : F64) : Option BucketH :=
  bs[Buckets.search bs.length fun i => F64.ge ((bs.map (·.upperV)).getD i 0) upper]?

def findDurationBucket (bs : List BucketH) (upper : Int) : Option BucketH :=
  bs[Buckets.search bs.length fun i => decide ((bs.map (·.upperD)).getD i 0 ≥ upper)]?

/-! ## the reporter -/

structure State where
  cfg : Config
  cache : Cache
  /-- every handle handed out, in allocation order (0–4 are the reporter's own) -/
  handles : List Handle
  /-- `r.now` -/
  cell : Int
  /-- ghost: every value the cell has held since construction, newest first -/
  cellHist : List Int
  /-- ghost: everything sent on `metCh`, in order -/
  sent : List Item
  /-- sent and not yet received by `process()` -/
  pending : List Item
  /-- the locals of `process()` and what it has emitted -/
  bs : BState
  closed : Bool
deriving Repr

inductive Bound
  | v (x : F64)
  | d (x : Int)
deriving DecidableEq, Repr

inductive Op
  | allocMetric (k : Kind) (name : Bytes) (tags : TagMap)
  | allocHist (name : Bytes) (tags : TagMap) (spec : BucketSpec)
  /-- `ReportCount` / `ReportGauge` / `ReportTimer` on handle `h` -/
  | report (h : Nat) (v : Val)
  /-- `hist.ValueBucket(_, upper).ReportSamples(n)` resp. `DurationBucket` -/
  | reportBucket (h : Nat) (upper : Bound) (samples : Int)
  /-- `Flush()`: the five reports of `reportInternalMetrics` (values chosen by the environment:
  they are counters of what `process()` did so far), then the flush marker -/
  | flush (batchSizeUpper : F64) (nBatches nMetrics nErrors nCache : Int)
  /-- the clock thread stores the wall clock -/
  | tick (t : Int)
  /-- `process()` receives one item -/
  | consume
  | close
deriving DecidableEq, Repr

/-- `newMetric` + `calculateSize` -/
def allocMetricH (hash : TagMap → UInt64) (cfg : Config) (c : Cache) (k : Kind) (name : Bytes)
    (tags : TagMap) : Handle × Cache :=
  if tags.isEmpty then
    let t := template name k none
    (.metric k t (chargeMetric cfg.proto t), c)
  else
    let (ts, c') := convertTags hash c tags
    let t := template name k (some ts)
    (.metric k t (chargeMetric cfg.proto t), c')

def allocHistH (hash : TagMap → UInt64) (cfg : Config) (c : Cache) (name : Bytes) (tags : TagMap)
    (spec : BucketSpec) : Handle × Cache :=
  let (ts, c') := convertTags hash c tags
  let isDur := match spec with | .durations _ => true | .values _ => false
  (.hist isDur (bucketHandles cfg chargeBucket name ts spec), c')

/-- the queue item of one bucket report -/
def bucketItem (b : BucketH) (samples now : Int) : Item :=
  .met { m := withBucketTags (withValue b.tmpl (.count samples) now) b.idTag b.rangeTag, size := b.size }

/-- what `Report*` on handle `h` sends (nothing for a foreign / wrong-kind handle: the typed Go API
does not offer such a call) -/
def reportItems (s : State) (h : Nat) (v : Val) : List Item :=
  match s.handles[h]? with
  | some (.metric k t size) => if v.kind = k then [.met { m := withValue t v s.cell, size := size }] else []
  | _ => []

/-- what a bucket report sends (`noopMetric` when no bucket has a large enough bound or the
histogram is of the other kind) -/
def bucketItems (s : State) (h : Nat) (upper : Bound) (samples : Int) : List Item :=
  match s.handles[h]?, upper with
  | some (.hist false bs), .v x => ((findValueBucket bs x).map fun b => bucketItem b samples s.cell).toList
  | some (.hist true bs), .d x => ((findDurationBucket bs x).map fun b => bucketItem b samples s.cell).toList
  | _, _ => []

/-- everything operation `op` sends on the queue in state `s` -/
def enq (s : State) : Op → List Item
  | .report h v => if s.closed then [] else reportItems s h v
  | .reportBucket h u n => if s.closed then [] else bucketItems s h u n
  | .flush up a b c d =>
    if s.closed then [] else
      bucketItems s 0 (.v up) 1 ++ reportItems s 1 (.count a) ++ reportItems s 2 (.count b)
        ++ reportItems s 3 (.count c) ++ reportItems s 4 (.count d) ++ [.flush]
  | _ => []

def opStep (hash : TagMap → UInt64) (s : State) (op : Op) : State :=
  let s := { s with sent := s.sent ++ enq s op, pending := s.pending ++ enq s op }
  match op with
  | .allocMetric k name tags =>
    let (h, c) := allocMetricH hash s.cfg s.cache k name tags
    { s with handles := s.handles ++ [h], cache := c }
  | .allocHist name tags spec =>
    let (h, c) := allocHistH hash s.cfg s.cache name tags spec
    { s with handles := s.handles ++ [h], cache := c }
  | .tick t => { s with cell := t, cellHist := t :: s.cellHist }
  | .consume =>
    match s.pending with
    | [] => s
    | it :: rest => { s with pending := rest, bs := M3.step s.cfg.free s.bs it }
  | .close =>
    if s.closed then s
    else { s with closed := true, pending := [], bs := emitCur (consume s.cfg.free s.bs s.pending) }
  | _ => s

/-- bounds of the reporter's own batch-size histogram: `0`, then `2, 4, …, 2048` -/
def internalBuckets : List F64 :=
  0 :: (List.range 11).map fun k => UInt64.ofNat ((1024 + k) * 2 ^ 52)

def internalOps (cfg : Config) : List Op :=
  [ .allocHist (asc "tally.internal.batch-size") cfg.internalTags (.values internalBuckets),
    .allocMetric .counter (asc "tally.internal.num-batches") cfg.internalTags,
    .allocMetric .counter (asc "tally.internal.num-metrics") cfg.internalTags,
    .allocMetric .counter (asc "tally.internal.num-write-errors") cfg.internalTags,
    .allocMetric .counter (asc "tally.internal.num-tag-cache") cfg.internalTags ]

def run (hash : TagMap → UInt64) (s : State) (ops : List Op) : State := ops.foldl (opStep hash) s

/-- `NewReporter` at wall-clock time `t0` (REPAIRED: the cell starts at `t0`) -/
def init (hash : TagMap → UInt64) (cfg : Config) (t0 : Int) : State :=
  run hash { cfg := cfg, cache := [], handles := [], cell := t0, cellHist := [t0], sent := [], pending := [],
             bs := BState.init, closed := false } (internalOps cfg)

/-- pinned code: the cell holds 0 until the clock thread first runs -/
def legacyInitCell : Int := 0

/-- the datagrams of a finished run -/
def datagrams (s : State) : List Bytes := messages s.cfg.proto s.cfg.commonTags s.bs.out

end Tally.M3
