import Tally.Prelude
/-!
# Model of `gauge` (stats.go)

Atomic actions: the writer's two stores of `Update` (`storeValue v`, then `storeFlag`); a reporter's
`swap t` (`atomic.SwapUint64(&g.updated, 0)`), and — only when the swap returned 1 — `load t`
(`g.value()` followed by the reporter call, which the model treats as one action: see DESIGN.md C02
for the stale-visit remark).  One updating goroutine (updates are totally ordered), any number of
reporters.  Values are float64 bit patterns.
-/
namespace Tally.Gauge

inductive Ev
  | storeValue (v : UInt64)
  | storeFlag
  | swap (t : Nat)
  | load (t : Nat)
deriving Repr, DecidableEq

structure State where
  curr : UInt64
  updated : Bool
  writerMid : Bool                -- the writer is between its two stores
  swapped : List Nat              -- reporters whose swap returned 1 and that have not loaded yet
  delivered : List UInt64         -- most recent first
  updates : List UInt64           -- values passed to Update so far (value store executed), most recent first
  flagStores : Nat                -- completed Update calls
deriving Repr, DecidableEq

def init : State :=
  { curr := 0, updated := false, writerMid := false, swapped := [], delivered := [], updates := [], flagStores := 0 }

def step (s : State) : Ev → Option State
  | .storeValue v => if s.writerMid then none else
      some { s with curr := v, writerMid := true, updates := v :: s.updates }
  | .storeFlag => if !s.writerMid then none else
      some { s with updated := true, writerMid := false, flagStores := s.flagStores + 1 }
  | .swap t => if s.swapped.contains t then none else
      if s.updated then some { s with updated := false, swapped := t :: s.swapped } else some s
  | .load t => if !s.swapped.contains t then none else
      some { s with swapped := s.swapped.filter (· != t), delivered := s.curr :: s.delivered }

def run (s : State) : List Ev → Option State
  | [] => some s
  | e :: es => match step s e with
    | none => none
    | some s' => run s' es

end Tally.Gauge
