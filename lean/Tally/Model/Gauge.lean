import Tally.Prelude
/-!
# Model of `gauge` (stats.go)

```
Update(v):   atomic.StoreUint64(&g.curr, bits v)          storeValue v
             atomic.StoreUint64(&g.updated, 1)            storeFlag
report():    g.reportMu.Lock(); defer Unlock()            \  swap t   (enabled iff nobody holds the gauge's
             if atomic.SwapUint64(&g.updated, 0) == 1 {   /            report mutex; keeps it iff the flag was up)
                 v := g.value()                              load t    (the argument of the reporter call)
                 reporter.ReportGauge(…, v)                  deliver t (the reporter call; then Unlock)
             }
```

One updating goroutine (updates are totally ordered), any number of reporters (threads `t : Nat`).
Values are float64 bit patterns.  `load` and `deliver` are separate steps: a reporter can be pre-empted
between reading the value and handing it to the reporter (in the correspondence check the recording
reporter's entry is a schedule point).  The report mutex (repair D13) makes the visits of one gauge
mutually exclusive; `Legacy` below is the code before that repair, where a visit that has read an older
value can deliver it after a newer one.
-/
namespace Tally.Gauge

inductive Ev
  | storeValue (v : UInt64)
  | storeFlag
  | swap (t : Nat)
  | load (t : Nat)
  | deliver (t : Nat)
deriving Repr, DecidableEq

structure State where
  curr : UInt64
  updated : Bool
  writerMid : Bool                -- the writer is between its two stores
  holder : Option Nat             -- the reporter inside the report mutex with the flag consumed
  loaded : Option UInt64          -- the value the holder has read and not yet delivered
  delivered : List UInt64         -- most recent first
  updates : List UInt64           -- values passed to Update so far (value store executed), most recent first
  flagStores : Nat                -- completed Update calls
deriving Repr, DecidableEq

def init : State :=
  { curr := 0, updated := false, writerMid := false, holder := none, loaded := none, delivered := [], updates := [], flagStores := 0 }

def step (s : State) : Ev → Option State
  | .storeValue v => if s.writerMid then none else
      some { s with curr := v, writerMid := true, updates := v :: s.updates }
  | .storeFlag => if !s.writerMid then none else
      some { s with updated := true, writerMid := false, flagStores := s.flagStores + 1 }
  | .swap t =>
      match s.holder with
      | some _ => none                                   -- Lock() blocks
      | none => if s.updated then some { s with updated := false, holder := some t } else some s
  | .load t =>
      if s.holder = some t ∧ s.loaded = none then some { s with loaded := some s.curr } else none
  | .deliver t =>
      match s.loaded with
      | some v => if s.holder = some t then some { s with holder := none, loaded := none, delivered := v :: s.delivered } else none
      | none => none

def run (s : State) : List Ev → Option State
  | [] => some s
  | e :: es => match step s e with
    | none => none
    | some s' => run s' es

/-! ## the code before repair D13: no report mutex -/
namespace Legacy

structure State where
  curr : UInt64
  updated : Bool
  writerMid : Bool
  swapped : List Nat                  -- reporters whose swap returned 1 and that have not read the value yet
  loaded : List (Nat × UInt64)        -- reporters that have read a value and not yet delivered it
  delivered : List UInt64             -- most recent first
  updates : List UInt64               -- most recent first
deriving Repr, DecidableEq

def init : State :=
  { curr := 0, updated := false, writerMid := false, swapped := [], loaded := [], delivered := [], updates := [] }

def step (s : State) : Ev → Option State
  | .storeValue v => if s.writerMid then none else
      some { s with curr := v, writerMid := true, updates := v :: s.updates }
  | .storeFlag => if !s.writerMid then none else some { s with updated := true, writerMid := false }
  | .swap t => if s.swapped.contains t || (s.loaded.map (·.1)).contains t then none else
      if s.updated then some { s with updated := false, swapped := t :: s.swapped } else some s
  | .load t => if !s.swapped.contains t then none else
      some { s with swapped := s.swapped.filter (· != t), loaded := (t, s.curr) :: s.loaded }
  | .deliver t =>
      match s.loaded.lookup t with
      | some v => some { s with loaded := s.loaded.filter (·.1 != t), delivered := v :: s.delivered }
      | none => none

def run (s : State) : List Ev → Option State
  | [] => some s
  | e :: es => match step s e with
    | none => none
    | some s' => run s' es

end Legacy

end Tally.Gauge
