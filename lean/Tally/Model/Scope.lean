import Tally.Model.KeyGen
import Tally.Model.Sanitize
import Tally.Model.Buckets
/-!
# Sequential model of the scope tree (scope.go, scope_registry.go)

One root, a registry `key ↦ scope id` (shards only partition the key space, so one map is
equivalent for every shard count; the root is registered once per shard and therefore *visited*
`shards` times per pass), scopes with their metrics.  Every API call is one `Op`; its observable
result is an `Out` (returned object identities, reporter events).  Reporter events of one report
pass are compared as multisets by the driver.  The model follows the repaired code (D1 swap-to-zero,
D3 escaped keys, D4c closed hit under the write lock, D12 snapshot `+=`).
-/
namespace Tally.Scope
open Tally Tally.KeyGen Tally.Sanitize Tally.Buckets

inductive RKind | plain | cached | none   -- `none` = test scope without reporter
deriving DecidableEq, Repr

structure SanCfg where
  name : ValidChars
  key : ValidChars
  value : ValidChars
  rep : Int
deriving Repr

structure Cfg where
  san : Option SanCfg
  kind : RKind
  closable : Bool          -- reporter implements io.Closer
  shards : Nat
  defaultBuckets : Option (Bool × List Int × List F64)  -- (isDuration, durations, values); none = library default
deriving Repr

def sanName (c : Cfg) (s : Bytes) : Bytes := match c.san with | some x => sanitize x.name x.rep s | none => s
def sanKey (c : Cfg) (s : Bytes) : Bytes := match c.san with | some x => sanitize x.key x.rep s | none => s
def sanValue (c : Cfg) (s : Bytes) : Bytes := match c.san with | some x => sanitize x.value x.rep s | none => s

/-- histogram state: kind, stored upper bounds (as delivered), per-bucket unreported counts -/
structure Hist where
  isDur : Bool
  dUppers : List Int
  vUppers : List F64
  counts : List Int
deriving Repr

inductive Metric
  | counter (name : Bytes) (unreported : Int)
  | gauge (name : Bytes) (curr : F64) (updated : Bool)
  | timer (name : Bytes) (values : List Int)       -- values kept only by reporter-less test scopes
  | hist (name : Bytes) (h : Hist)
deriving Repr

structure ScopeS where
  pfx : Bytes
  tags : TagMap            -- canonical (sorted, distinct keys)
  closed : Bool
  isRoot : Bool
  metrics : List (Nat × Metric)   -- metric id ↦ metric, in creation order
deriving Repr

structure St where
  cfg : Cfg
  sep : Bytes
  scopes : List ScopeS                 -- scope id = index
  reg : List ((Nat × Bytes) × Nat)     -- registry: (shard, key) ↦ scope id
  timers : List (Nat × (Bytes × TagMap)) -- timer handles keep working after their scope was cleared
  nextMetric : Nat
  rootClosed : Bool
  reporterClosed : Bool
deriving Repr

/-- reporter-visible events -/
inductive Event
  | counter (name : Bytes) (tags : TagMap) (v : Int)
  | gauge (name : Bytes) (tags : TagMap) (v : F64)
  | timer (name : Bytes) (tags : TagMap) (v : Int)
  | hval (name : Bytes) (tags : TagMap) (lo hi : F64) (n : Int)
  | hdur (name : Bytes) (tags : TagMap) (lo hi : Int) (n : Int)
  | alloc (kind : String) (name : Bytes) (tags : TagMap)
  | flush
  | close
deriving Repr

def fqn (sep : Bytes) (pfx name : Bytes) : Bytes := if pfx.isEmpty then name else pfx ++ sep ++ name

def sanMap (c : Cfg) (m : TagMap) : TagMap := canon [m.map fun (k, v) => (sanKey c k, sanValue c v)]
def mergeTags (a b : TagMap) : TagMap := canon [a, b]

def regLookup (st : St) (sh : Nat) (k : Bytes) : Option Nat := st.reg.lookup (sh, k)
def regRemove (st : St) (sh : Nat) (k : Bytes) (sid : Nat) : St :=
  { st with reg := st.reg.filter fun (k', s') => !(k' == (sh, k) && s' == sid) }
def regAdd (st : St) (sh : Nat) (k : Bytes) (sid : Nat) : St :=
  if (st.reg.lookup (sh, k)).isSome then st else { st with reg := st.reg ++ [((sh, k), sid)] }

def getScope (st : St) (sid : Nat) : Option ScopeS := st.scopes[sid]?
def setScope (st : St) (sid : Nat) (s : ScopeS) : St := { st with scopes := st.scopes.set sid s }

def defaultDurations : List Int :=
  [0, 10000000, 25000000, 50000000, 75000000, 100000000, 200000000, 300000000, 400000000, 500000000,
   600000000, 800000000, 1000000000, 2000000000, 5000000000]

/-! ## reporting one scope: take every metric's unreported part -/

def histEvents (name : Bytes) (tags : TagMap) (h : Hist) : List Event :=
  (List.range h.counts.length).filterMap fun i =>
    let n := h.counts.getD i 0
    if n == 0 then none else
    if h.isDur then some (.hdur name tags (durationLower h.dUppers i) (h.dUppers.getD i 0) n)
    else some (.hval name tags (valueLower h.vUppers i) (h.vUppers.getD i 0) n)

def reportMetric (sep : Bytes) (s : ScopeS) : Metric → Metric × List Event
  | .counter n u => (.counter n 0, if u == 0 then [] else [.counter (fqn sep s.pfx n) s.tags u])
  | .gauge n c up => (.gauge n c false, if up then [.gauge (fqn sep s.pfx n) s.tags c] else [])
  | .timer n vs => (.timer n vs, [])
  | .hist n h => (.hist n { h with counts := h.counts.map fun _ => 0 }, histEvents (fqn sep s.pfx n) s.tags h)

def reportScope (sep : Bytes) (s : ScopeS) : ScopeS × List Event :=
  let r := s.metrics.map fun (i, m) => (i, reportMetric sep s m)
  ({ s with metrics := r.map fun (i, p) => (i, p.1) }, (r.map fun (_, p) => p.2).flatten)

/-- one pass over the registry entries (an entry per key: an aliased scope is visited once per key,
the root once per shard); closed scopes are unregistered and cleared after their visit -/
def passEntries (st : St) : List ((Nat × Bytes) × Nat) → St × List Event
  | [] => (st, [])
  | ((sh, k), sid) :: rest =>
    match getScope st sid with
    | none => passEntries st rest
    | some s =>
      let (s', evs) := reportScope st.sep s
      let st1 := setScope st sid s'
      let st2 := if s.closed then setScope (regRemove st1 sh k sid) sid { s' with metrics := [] } else st1
      let (st3, evs') := passEntries st2 rest
      (st3, evs ++ evs')

def reportPass (st : St) : St × List Event :=
  if st.cfg.kind == .none then (st, []) else
  let (st', evs) := passEntries st st.reg
  (st', evs ++ [.flush])

/-! ## operations -/

inductive Op
  | sub (parent : Nat) (name : Bytes) (shard : Nat)      -- `shard`: the registry shard the raw key hashed to (observed)
  | tagged (parent : Nat) (tags : TagMap) (shard : Nat)
  | counter (scope : Nat) (name : Bytes)
  | gauge (scope : Nat) (name : Bytes)
  | timer (scope : Nat) (name : Bytes)
  | hist (scope : Nat) (name : Bytes) (spec : Option (Bool × List Int × List F64))
  | inc (metric : Nat) (v : Int)
  | upd (metric : Nat) (v : F64)
  | record (metric : Nat) (d : Int)
  | recv (metric : Nat) (v : F64)
  | recd (metric : Nat) (d : Int)
  | report
  | close (scope : Nat)
deriving Repr

inductive Out
  | scope (id : Option Nat) (events : List Event)     -- `none` = the no-op scope
  | metric (id : Nat) (events : List Event)            -- allocation events for a cached reporter
  | events (es : List Event)
deriving Repr

def mkRoot (cfg : Cfg) (pfx sep : Bytes) (tags : TagMap) : St :=
  let sep' := sanName cfg (if sep.isEmpty then [46] else sep)
  let root : ScopeS := { pfx := sanName cfg pfx, tags := sanMap cfg tags, closed := false, isRoot := true, metrics := [] }
  { cfg := cfg, sep := sep', scopes := [root],
    reg := (List.range (max cfg.shards 1)).map fun sh => ((sh, key root.pfx [root.tags]), 0),
    timers := [], nextMetric := 0, rootClosed := false, reporterClosed := false }

/-- `registry.Subscope` -/
def subscope (st : St) (parent : Nat) (pfx : Bytes) (tags : TagMap) (sh : Nat) : St × Out :=
  match getScope st parent with
  | none => (st, .scope none [])
  | some p =>
    if st.rootClosed || p.closed then (st, .scope none []) else
    let rawKey := key pfx [p.tags, tags]
    let tagsS := sanMap st.cfg tags
    let sKey := key pfx [p.tags, tagsS]
    -- read-locked probe under the raw key
    let probe : Option (St × List Event) × Option Nat :=
      match regLookup st sh rawKey with
      | some sid =>
        match getScope st sid with
        | some s =>
          if !s.closed || st.cfg.kind == .none then (none, some sid)   -- live (or test scope): return it
          else
            let (s', evs) := if st.cfg.kind == .none then (s, []) else reportScope st.sep s
            let st1 := setScope st sid { s' with metrics := [] }
            (some (regRemove (regRemove st1 sh rawKey sid) sh sKey sid, evs), none)
        | none => (some (st, []), none)
      | none => (some (st, []), none)
    match probe with
    | (_, some sid) => (st, .scope (some sid) [])
    | (none, none) => (st, .scope none [])
    | (some (st1, evs1), none) =>
      -- write-locked re-lookup under the sanitized key
      let relook : Option Nat × St × List Event :=
        match regLookup st1 sh sKey with
        | some sid =>
          match getScope st1 sid with
          | some s =>
            if !s.closed || st1.cfg.kind == .none then (some sid, regAdd st1 sh rawKey sid, [])
            else
              let (s', evs) := reportScope st1.sep s
              let st2 := setScope st1 sid { s' with metrics := [] }
              (none, regRemove (regRemove st2 sh sKey sid) sh rawKey sid, evs)
          | none => (none, st1, [])
        | none => (none, st1, [])
      match relook with
      | (some sid, st2, evs2) => (st2, .scope (some sid) (evs1 ++ evs2))
      | (none, st2, evs2) =>
        let sid := st2.scopes.length
        let ns : ScopeS := { pfx := pfx, tags := mergeTags p.tags tagsS, closed := false, isRoot := false, metrics := [] }
        let st3 := { st2 with scopes := st2.scopes ++ [ns] }
        (regAdd (regAdd st3 sh sKey sid) sh rawKey sid, .scope (some sid) (evs1 ++ evs2))

def findMetric (s : ScopeS) (p : Metric → Bool) : Option Nat :=
  (s.metrics.find? fun (_, m) => p m).map (·.1)

def metricName : Metric → Bytes
  | .counter n _ => n | .gauge n _ _ => n | .timer n _ => n | .hist n _ => n
def metricKind : Metric → String
  | .counter .. => "counter" | .gauge .. => "gauge" | .timer .. => "timer" | .hist .. => "hist"

def newHist (spec : Bool × List Int × List F64) : Hist :=
  if spec.1 then
    let u := durationUppers spec.2.1
    { isDur := true, dUppers := u, vUppers := [], counts := List.replicate u.length 0 }
  else
    let u := valueUppers spec.2.2
    { isDur := false, dUppers := [], vUppers := u, counts := List.replicate u.length 0 }

/-- get-or-create of a metric of a kind on a scope (`Counter`, `Gauge`, `Timer`, `Histogram`) -/
def getMetric (st : St) (sid : Nat) (kind : String) (rawName : Bytes) (mk : Bytes → Metric) : St × Out :=
  match getScope st sid with
  | none => (st, .events [])
  | some s =>
    let n := sanName st.cfg rawName
    match findMetric s (fun m => metricKind m == kind && metricName m == n) with
    | some id => (st, .metric id [])
    | none =>
      let id := st.nextMetric
      let s' := { s with metrics := s.metrics ++ [(id, mk n)] }
      let evs := if st.cfg.kind == .cached then [Event.alloc kind (fqn st.sep s.pfx n) s.tags] else []
      ({ setScope st sid s' with nextMetric := id + 1 }, .metric id evs)

def updMetric (st : St) (mid : Nat) (f : ScopeS → Metric → Metric × List Event) : St × Out :=
  let rec go (i : Nat) (scs : List ScopeS) : Option (Nat × ScopeS × List Event) :=
    match scs with
    | [] => none
    | s :: rest =>
      match s.metrics.find? (·.1 == mid) with
      | some (_, m) =>
        let (m', evs) := f s m
        some (i, { s with metrics := s.metrics.map fun (j, x) => if j == mid then (j, m') else (j, x) }, evs)
      | none => go (i + 1) rest
  match go 0 st.scopes with
  | some (i, s', evs) => (setScope st i s', .events evs)
  | none => (st, .events [])   -- metric of a cleared scope: recording on an old handle is harmless

/-- `registry.purge`: scopes whose id is registered are closed and cleared (ids counted from `i`) -/
def purgeFrom (regd : List Nat) : Nat → List ScopeS → List ScopeS
  | _, [] => []
  | i, x :: xs =>
    (if regd.contains i then { x with closed := true, metrics := [] } else x) :: purgeFrom regd (i + 1) xs

def bump (l : List Int) (i : Nat) : List Int := l.set i (l.getD i 0 + 1)

def step (st : St) : Op → St × Out
  | .sub p name sh =>
    match getScope st p with
    | some ps => subscope st p (fqn st.sep ps.pfx (sanName st.cfg name)) [] sh
    | none => (st, .scope none [])
  | .tagged p tags sh =>
    match getScope st p with
    | some ps => subscope st p ps.pfx tags sh
    | none => (st, .scope none [])
  | .counter s n => getMetric st s "counter" n (fun n => .counter n 0)
  | .gauge s n => getMetric st s "gauge" n (fun n => .gauge n 0 false)
  | .timer s n =>
    let (st', out) := getMetric st s "timer" n (fun n => .timer n [])
    match out, getScope st s with
    | .metric id _, some sc =>
      if (st'.timers.lookup id).isSome then (st', out)
      else ({ st' with timers := (id, (fqn st.sep sc.pfx (sanName st.cfg n), sc.tags)) :: st'.timers }, out)
    | _, _ => (st', out)
  | .hist s n spec =>
    let spec' : Bool × List Int × List F64 := match spec with
      | some x => x
      | none => match st.cfg.defaultBuckets with
        | some d => d
        | none => (true, defaultDurations, [])
    getMetric st s "hist" n (fun n => .hist n (newHist spec'))
  | .inc m v => updMetric st m fun _ x => match x with
      | .counter n u => (.counter n (wrap64 (u + v)), [])
      | y => (y, [])
  | .upd m v => updMetric st m fun _ x => match x with
      | .gauge n _ _ => (.gauge n v true, [])
      | y => (y, [])
  | .record m d =>
    -- a timer forwards immediately and keeps doing so after its scope was closed and cleared
    if st.cfg.kind == .none then
      updMetric st m fun _ x => match x with
        | .timer n vs => (.timer n (vs ++ [d]), [])
        | y => (y, [])
    else match st.timers.lookup m with
      | some (nm, tg) => (st, .events [.timer nm tg d])
      | none => (st, .events [])
  | .recv m v => updMetric st m fun _ x => match x with
      | .hist n h => if h.isDur then (x, []) else (.hist n { h with counts := bump h.counts (placeValue h.vUppers v) }, [])
      | y => (y, [])
  | .recd m d => updMetric st m fun _ x => match x with
      | .hist n h => if !h.isDur then (x, []) else (.hist n { h with counts := bump h.counts (placeKey h.dUppers d) }, [])
      | y => (y, [])
  | .report =>
    if st.rootClosed then (st, .events []) else
    let (st', evs) := reportPass st
    (st', .events evs)
  | .close sid =>
    match getScope st sid with
    | none => (st, .events [])
    | some s =>
      if s.closed then (st, .events []) else
      let st1 := setScope st sid { s with closed := true }
      if !s.isRoot then (st1, .events []) else
      -- root: final pass, flush, purge everything, close the reporter
      let st2 := { st1 with rootClosed := true }
      if st.cfg.kind == .none then (st2, .events []) else   -- no reporter: no final pass, no purge
      let (st3, evs) := reportPass st2
      -- purge: every scope that is still REGISTERED is closed, cleared and unregistered; a scope that an earlier
      -- pass already collected is not reachable from the registry and keeps whatever was created on it since
      let st4 := { st3 with reg := [], scopes := purgeFrom (st3.reg.map fun (e : (Nat × Bytes) × Nat) => e.2) 0 st3.scopes }
      let closeEv := if st.cfg.closable && st.cfg.kind != .none then [Event.close] else []
      ({ st4 with reporterClosed := st.cfg.closable }, .events (evs ++ closeEv))

/-! ## snapshot of a test scope -/

inductive SnapEntry
  | counter (key name : Bytes) (tags : TagMap) (v : Int)
  | gauge (key name : Bytes) (tags : TagMap) (v : F64)
  | timer (key name : Bytes) (tags : TagMap) (vs : List Int)
  | histV (key name : Bytes) (tags : TagMap) (m : List (F64 × Int))
  | histD (key name : Bytes) (tags : TagMap) (m : List (Int × Int))
deriving Repr

/-- map upper bound ↦ samples, adding up buckets that share a bound (repair D12) -/
def sumByBound [BEq α] (bounds : List α) (counts : List Int) : List (α × Int) :=
  (bounds.zip counts).foldl (fun acc (b, c) =>
    if acc.any (·.1 == b) then acc.map fun (b', c') => if b' == b then (b', c' + c) else (b', c')
    else acc ++ [(b, c)]) []

def snapshot (st : St) : List SnapEntry :=
  -- every registered scope once (a scope may be registered under several keys)
  let sids := (st.reg.map (·.2)).eraseDups
  sids.flatMap fun sid =>
    match getScope st sid with
    | none => []
    | some s => s.metrics.map fun (_, m) =>
      match m with
      | .counter n u => let nm := fqn st.sep s.pfx n; .counter (key nm [s.tags]) nm s.tags u
      | .gauge n c _ => let nm := fqn st.sep s.pfx n; .gauge (key nm [s.tags]) nm s.tags c
      | .timer n vs => let nm := fqn st.sep s.pfx n; .timer (key nm [s.tags]) nm s.tags vs
      | .hist n h =>
        let nm := fqn st.sep s.pfx n
        if h.isDur then .histD (key nm [s.tags]) nm s.tags (sumByBound h.dUppers h.counts)
        else .histV (key nm [s.tags]) nm s.tags (sumByBound h.vUppers h.counts)

end Tally.Scope
