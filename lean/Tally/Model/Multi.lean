import Tally.Prelude
/-!
# Model of `multi/reporter.go`: a reporter that fans every call out to a list of children

* A **child** is a recording reporter: its capability flags, its log of received calls (each
  stamped with a sequence number drawn from ONE counter shared by all children, so that "child
  `i` is called before child `i+1`" is expressible), and the counters from which it numbers the
  handles it hands out (metric handles: counters, gauges, timers, histograms; bucket handles).
* The **multi reporter** (`multi` / `multiCached`) holds the children in the order given.  Every
  method body is one `for _, r := range r.reporters { r.<same method>(<same args>) }` loop
  (tied by `TallyProofs/Tie/C19.lean`), modelled by `fan`, which threads the shared sequence
  counter through the children in list order and collects what the children returned.
* A **handle** returned by a cached multi reporter (`multiMetric`, `multiHistogramBucket`) is the
  list of the children's handles, in child order.  Reporting through it zips that list with the
  children.
* `Capabilities()` starts from `{reporting: true, tagging: true}` and and-s every child in.

`step` returns `none` exactly for calls that cannot be written against the Go API (a cached call
on a plain multi reporter, a handle that was never allocated or has another type); the real
code has no other way to refuse a call.
-/
namespace Tally.Multi

/-- `nil` map is `none`; otherwise the entries sorted by key (Go maps have no order). -/
abbrev Tags := Option (List (Bytes × Bytes))

/-- the `tally.Buckets` argument of histogram calls, by content -/
inductive BucketsArg
  | nil
  | values (l : List F64)
  | durations (l : List Int)
  deriving DecidableEq, Repr

structure Caps where
  reporting : Bool
  tagging : Bool
  deriving DecidableEq, Repr

inductive Flavour
  | plain
  | cached
  deriving DecidableEq, Repr

inductive Kind
  | counter
  | gauge
  | timer
  | histogram
  deriving DecidableEq, Repr

/-- One call, as made on the multi reporter and as received by a child.  Handle arguments (`h`, `b`)
are ordinals: the `h`-th metric handle / `b`-th bucket handle handed out by the callee. -/
inductive Call
  | reportCounter (name : Bytes) (tags : Tags) (v : Int)
  | reportGauge (name : Bytes) (tags : Tags) (v : F64)
  | reportTimer (name : Bytes) (tags : Tags) (d : Int)
  | reportHistValue (name : Bytes) (tags : Tags) (bk : BucketsArg) (lo hi : F64) (n : Int)
  | reportHistDuration (name : Bytes) (tags : Tags) (bk : BucketsArg) (lo hi : Int) (n : Int)
  | flush
  | allocCounter (name : Bytes) (tags : Tags)
  | allocGauge (name : Bytes) (tags : Tags)
  | allocTimer (name : Bytes) (tags : Tags)
  | allocHistogram (name : Bytes) (tags : Tags) (bk : BucketsArg)
  | valueBucket (h : Nat) (lo hi : F64)
  | durationBucket (h : Nat) (lo hi : Int)
  | count (h : Nat) (v : Int)
  | gauge (h : Nat) (v : F64)
  | timer (h : Nat) (d : Int)
  | samples (b : Nat) (v : Int)
  deriving DecidableEq, Repr

namespace Call

/-- which kind of metric handle the call allocates, if it is an `Allocate*` -/
def allocKind : Call → Option Kind
  | allocCounter .. => some .counter
  | allocGauge .. => some .gauge
  | allocTimer .. => some .timer
  | allocHistogram .. => some .histogram
  | _ => none

/-- `ValueBucket` / `DurationBucket`: the call returns a bucket handle -/
def makesBucket : Call → Bool
  | valueBucket .. => true
  | durationBucket .. => true
  | _ => false

/-- the metric handle the call goes through, with the kind that handle must have -/
def metricRef : Call → Option (Nat × Kind)
  | valueBucket h .. => some (h, .histogram)
  | durationBucket h .. => some (h, .histogram)
  | count h _ => some (h, .counter)
  | gauge h _ => some (h, .gauge)
  | timer h _ => some (h, .timer)
  | _ => none

/-- the bucket handle the call goes through -/
def bucketRef : Call → Option Nat
  | samples b _ => some b
  | _ => none

/-- the same call addressed to handle `id` instead (what one child handle receives) -/
def withHandle (id : Nat) : Call → Call
  | valueBucket _ lo hi => valueBucket id lo hi
  | durationBucket _ lo hi => durationBucket id lo hi
  | count _ v => count id v
  | gauge _ v => gauge id v
  | timer _ d => timer id d
  | samples _ v => samples id v
  | c => c

/-- calls of `tally.StatsReporter` vs. `tally.CachedStatsReporter` (+ its handles); `Flush` is in both -/
def flavourOk : Flavour → Call → Bool
  | _, flush => true
  | .plain, reportCounter .. => true
  | .plain, reportGauge .. => true
  | .plain, reportTimer .. => true
  | .plain, reportHistValue .. => true
  | .plain, reportHistDuration .. => true
  | .plain, _ => false
  | .cached, reportCounter .. => false
  | .cached, reportGauge .. => false
  | .cached, reportTimer .. => false
  | .cached, reportHistValue .. => false
  | .cached, reportHistDuration .. => false
  | .cached, _ => true

end Call

/-- a recording child reporter -/
structure Child where
  caps : Caps
  log : List (Nat × Call) := []
  nextMetric : Nat := 0
  nextBucket : Nat := 0
  deriving Repr

/-- the child receives call `x` at global time `s`: logs it, and hands out a fresh handle ordinal if
`x` is an allocation / bucket creation (returned value; `0` for calls that return nothing). -/
def Child.call (c : Child) (s : Nat) (x : Call) : Child × Nat :=
  match x.allocKind with
  | some _ => ({ c with log := c.log ++ [(s, x)], nextMetric := c.nextMetric + 1 }, c.nextMetric)
  | none =>
    if x.makesBucket then ({ c with log := c.log ++ [(s, x)], nextBucket := c.nextBucket + 1 }, c.nextBucket)
    else ({ c with log := c.log ++ [(s, x)] }, 0)

/-- `for i, r := range children { results = append(results, r.call(xs[i])) }` with the shared
sequence counter threaded through.  Stops at the shorter of the two lists (the Go loops over a
handle range over the handle's child handles). -/
def fan : List Child → List Call → Nat → List Child × List Nat × Nat
  | c :: cs, x :: xs, s =>
    let r := c.call s x
    let rest := fan cs xs (s + 1)
    (r.1 :: rest.1, r.2 :: rest.2.1, rest.2.2)
  | cs, _, s => (cs, [], s)

structure State where
  flavour : Flavour
  children : List Child
  /-- next value of the shared sequence counter -/
  seq : Nat := 0
  /-- metric handles handed out by the multi reporter: kind and the children's handles -/
  metrics : List (Kind × List Nat) := []
  /-- bucket handles handed out by the multi reporter's histogram handles -/
  buckets : List (List Nat) := []
  deriving Repr

def init (fl : Flavour) (caps : List Caps) : State :=
  { flavour := fl, children := caps.map fun c => { caps := c } }

/-- what each child (handle) is asked to do for call `x` on the multi reporter -/
def perChild (st : State) (x : Call) : Option (List Call) :=
  match x.metricRef, x.bucketRef with
  | some (h, k), _ =>
    match st.metrics[h]? with
    | some (k', ids) => if k' = k then some (ids.map fun id => x.withHandle id) else none
    | none => none
  | none, some b =>
    match st.buckets[b]? with
    | some ids => some (ids.map fun id => x.withHandle id)
    | none => none
  | none, none => some (List.replicate st.children.length x)

def step (st : State) (x : Call) : Option State :=
  if !x.flavourOk st.flavour then none else
  match perChild st x with
  | none => none
  | some xs =>
    let r := fan st.children xs st.seq
    let st' := { st with children := r.1, seq := r.2.2 }
    match x.allocKind with
    | some k => some { st' with metrics := st.metrics ++ [(k, r.2.1)] }
    | none =>
      if x.makesBucket then some { st' with buckets := st.buckets ++ [r.2.1] }
      else some st'

def runFrom (st : State) : List Call → Option State
  | [] => some st
  | x :: xs => match step st x with
    | some st' => runFrom st' xs
    | none => none

/-- the multi reporter over children with capabilities `caps`, after the history `hist` -/
def run (fl : Flavour) (caps : List Caps) (hist : List Call) : Option State :=
  runFrom (init fl caps) hist

/-- `multiBaseReporters.Capabilities`: `c := {true, true}; for r { c.x = c.x && r.Capabilities().X() }` -/
def capabilities (st : State) : Caps :=
  st.children.foldl (fun acc c => { reporting := acc.reporting && c.caps.reporting,
                                     tagging := acc.tagging && c.caps.tagging })
    { reporting := true, tagging := true }

def logs (st : State) : List (List (Nat × Call)) := st.children.map (·.log)

/-- the children change what they are capable of (a child that reports only while its connection is up, …): not a
call on the multi reporter, which keeps no copy of the answers -/
def setCaps (st : State) (caps : List Caps) : State :=
  { st with children := (st.children.zip caps).map (fun p => { p.1 with caps := p.2 }) ++ st.children.drop caps.length }

end Tally.Multi
