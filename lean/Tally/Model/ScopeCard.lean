import Tally.Model.Scope
/-!
# The library's own cardinality metrics (scope_registry.go: `newScopeRegistryWithShardCount`,
# `reportInternalMetrics`) as a layer over `Tally.Scope`

Unless `OmitCardinalityMetrics` is set, every report pass of the registry (`Report` / `CachedReport`: the
periodic pass and the final pass of the root's `Close`; NOT the report of one closed scope on re-acquire) starts
by handing four gauges to the reporter:

    tally.internal.counter_cardinality   number of counters   \
    tally.internal.gauge_cardinality     number of gauges      } summed over the registry ENTRIES
    tally.internal.histogram_cardinality number of histograms /
    tally.internal.num_active_scopes     1 + number of entries that are not the root

with the names mapped through the name sanitizer and the tags

    {version: <Version>, host: global, instance: global}  overlaid by  CardinalityMetricsTags

every key and value mapped through the key / value sanitizer (repair D15: the pinned code sanitized only the
user-supplied entries, `cardTagsLegacy`).  With a cached reporter the four gauges are allocated once, when
the root is created.

`ForEachScope` walks the entries of every shard's map: a scope registered under two keys (its sanitized key
and a raw alias) is counted once per key, the root (registered in every shard) is special-cased and counted
once.  The model follows the code here (`cardCounts` sums over `st.reg`).

The internal gauges have no state of their own: `stepC` is `Scope.step` with these events put in front of the
events of a pass (`stepC_state`), so every theorem about the state of `Tally.Scope` carries over unchanged.
-/
namespace Tally.ScopeCard
open Tally Tally.KeyGen Tally.Scope

def asc (s : String) : Bytes := s.toList.map fun c => UInt8.ofNat c.toNat

def counterCardinalityName : Bytes := asc "tally.internal.counter_cardinality"
def gaugeCardinalityName : Bytes := asc "tally.internal.gauge_cardinality"
def histogramCardinalityName : Bytes := asc "tally.internal.histogram_cardinality"
def scopeCardinalityName : Bytes := asc "tally.internal.num_active_scopes"

/-- `tally.Version` (tie fact `version_const`) -/
def version : Bytes := asc "4.1.17"
def redact : Bytes := asc "global"

def defaultTags : TagMap := [(asc "version", version), (asc "host", redact), (asc "instance", redact)]

def sanPairs (c : Cfg) (m : TagMap) : TagMap := m.map fun (k, v) => (sanKey c k, sanValue c v)

/-- the tags of the four gauges: defaults overlaid by the user's, everything sanitized (a later entry wins) -/
def cardTags (c : Cfg) (user : TagMap) : TagMap := canon [sanPairs c defaultTags, sanPairs c user]

/-- the pinned code: the defaults are not sanitized -/
def cardTagsLegacy (c : Cfg) (user : TagMap) : TagMap := canon [defaultTags, sanPairs c user]

/-- exact float64 bit pattern of a natural number below 2^53 (every count the model can produce) -/
def natToF64 (n : Nat) : F64 :=
  if n = 0 then 0 else
  let e := Nat.log2 n
  UInt64.ofNat ((e + 1023) * 2 ^ 52 + (n * 2 ^ (52 - e)) % 2 ^ 52)

def kindCount (k : String) (s : ScopeS) : Nat := (s.metrics.filter fun (_, m) => metricKind m == k).length

structure Counts where
  counters : Nat
  gauges : Nat
  histograms : Nat
  scopes : Nat
deriving Repr, DecidableEq

/-- `reportInternalMetrics`: one walk over the registry entries; the root is counted once -/
def cardCounts (st : St) : Counts :=
  let nonRoot := st.reg.filterMap fun (_, sid) =>
    match getScope st sid with
    | some s => if s.isRoot then none else some s
    | none => none
  let root := (st.scopes.find? (·.isRoot)).toList
  let all := nonRoot ++ root
  { counters := (all.map (kindCount "counter")).sum,
    gauges := (all.map (kindCount "gauge")).sum,
    histograms := (all.map (kindCount "hist")).sum,
    scopes := 1 + nonRoot.length }

/-- what a pass hands to the reporter before it visits the scopes (`card = none`: omitted) -/
def internalEvents (card : Option TagMap) (st : St) : List Event :=
  match card with
  | none => []
  | some tags =>
    if st.cfg.kind == .none then [] else
    let c := cardCounts st
    [ .gauge (sanName st.cfg counterCardinalityName) tags (natToF64 c.counters),
      .gauge (sanName st.cfg gaugeCardinalityName) tags (natToF64 c.gauges),
      .gauge (sanName st.cfg histogramCardinalityName) tags (natToF64 c.histograms),
      .gauge (sanName st.cfg scopeCardinalityName) tags (natToF64 c.scopes) ]

/-- allocations made by the registry's constructor (cached reporter only) -/
def rootAllocs (card : Option TagMap) (cfg : Cfg) : List Event :=
  match card with
  | none => []
  | some tags =>
    if cfg.kind != .cached then [] else
    [ .alloc "gauge" (sanName cfg counterCardinalityName) tags,
      .alloc "gauge" (sanName cfg gaugeCardinalityName) tags,
      .alloc "gauge" (sanName cfg histogramCardinalityName) tags,
      .alloc "gauge" (sanName cfg scopeCardinalityName) tags ]

def addEvents (pre : List Event) : Out → Out
  | .events es => .events (pre ++ es)
  | o => o

/-- does this operation run a pass of the registry in this state? -/
def runsPass (st : St) : Op → Bool
  | .report => !st.rootClosed && st.cfg.kind != .none
  | .close sid =>
    match getScope st sid with
    | some s => !s.closed && s.isRoot && st.cfg.kind != .none
    | none => false
  | _ => false

/-- `Scope.step` with the internal gauges in front of the events of every registry pass -/
def stepC (card : Option TagMap) (st : St) (op : Op) : St × Out :=
  let r := step st op
  if runsPass st op then (r.1, addEvents (internalEvents card st) r.2) else r

end Tally.ScopeCard
