import Tally.Prelude
/-!
# Model of `counter` (stats.go), repaired form (D1): one shared cell holding the *unreported* amount

Atomic actions (each is one `sync/atomic` call or one reporter call in Go):
* `inc v`      — `atomic.AddInt64(&c.curr, v)` (wraps in int64)
* `swap t`     — thread `t` executes `atomic.SwapInt64(&c.curr, 0)` inside `value()`; a non-zero
                 result becomes the thread's pending delta, zero ends the visit silently
* `deliver t`  — thread `t` hands its pending delta to the reporter (`ReportCounter` / `ReportCount`)
Any number of threads (`Nat` ids); a thread may visit again after it delivered.
-/
namespace Tally.Counter

inductive Ev
  | inc (v : Int)
  | swap (t : Nat)
  | deliver (t : Nat)
deriving Repr, DecidableEq

structure State where
  cell : Int                      -- atomic int64: unreported amount
  pending : List (Nat × Int)      -- (thread, delta) swapped out but not yet handed to the reporter
  delivered : List Int            -- reporter calls so far (most recent first)
  incs : List Int                 -- history of increments (most recent first)
deriving Repr, DecidableEq

def init : State := { cell := 0, pending := [], delivered := [], incs := [] }

def pendingOf (s : State) (t : Nat) : Option Int := s.pending.lookup t

/-- one atomic action; `none` = the action is not enabled in this state -/
def step (s : State) : Ev → Option State
  | .inc v => some { s with cell := wrap64 (s.cell + v), incs := v :: s.incs }
  | .swap t =>
    if (s.pending.lookup t).isSome then none else
    let d := s.cell
    some { s with cell := 0, pending := if d = 0 then s.pending else (t, d) :: s.pending }
  | .deliver t =>
    match s.pending.lookup t with
    | none => none
    | some d => some { s with pending := s.pending.filter (fun p => p.1 != t), delivered := d :: s.delivered }

def run (s : State) : List Ev → Option State
  | [] => some s
  | e :: es => match step s e with
    | none => none
    | some s' => run s' es

def sum (l : List Int) : Int := l.sum
def pendingSum (s : State) : Int := sum (s.pending.map (·.2))

/-! ## the pinned (unrepaired) code, kept as a regression witness -/
namespace Legacy

inductive Pc
  | idle
  | loadedCurr (curr : Int)
  | loadedPrev (curr prev : Int)
  | pending (d : Int)
deriving Repr, DecidableEq

structure State where
  curr : Int
  prev : Int
  pcs : List (Nat × Pc)
  delivered : List Int
deriving Repr, DecidableEq

def pcOf (s : State) (t : Nat) : Pc := (s.pcs.lookup t).getD .idle
def setPc (s : State) (t : Nat) (p : Pc) : State :=
  { s with pcs := (t, p) :: s.pcs.filter (fun q => q.1 != t) }

inductive Ev
  | inc (v : Int)
  | visit (t : Nat)   -- thread t executes its next atomic action
deriving Repr, DecidableEq

def step (s : State) : Ev → State
  | .inc v => { s with curr := s.curr + v }
  | .visit t =>
    match pcOf s t with
    | .idle => setPc s t (.loadedCurr s.curr)
    | .loadedCurr c => if s.prev = c then setPc s t .idle else setPc s t (.loadedPrev c s.prev)
    | .loadedPrev c p => setPc { s with prev := c } t (.pending (c - p))
    | .pending d => setPc { s with delivered := d :: s.delivered } t .idle

def run (s : State) (es : List Ev) : State := es.foldl step s
def init : State := { curr := 0, prev := 0, pcs := [], delivered := [] }

end Legacy
end Tally.Counter
