import Tally.Prelude
import Tally.Model.Buckets
/-!
# Model of `BucketPairs` / `newBucketStorage` / `bucketCache.Get` (histogram.go, stats.go) and of
the commutative identity hash (internal/identity/accumulator.go)

* `pairsD` / `pairsV`: `BucketPairs` with the caller's slice made explicit (`callerAfter`): the
  code sorts a *copy* (`copyAndSortDurations` / `copyAndSortValues`).
* `build`: `newBucketStorage` — keeps the spec it was given and the upper bounds of the pairs.
* `get`: one sequential `bucketCache.Get`, the identity function being a **parameter**.
* `Conc`: the same protocol as atomic steps of any number of threads: the read-locked probe, the
  write-locked build-and-store after a miss (which *overwrites* whatever another thread stored in
  between), and the lock-free comparison after a hit.
* `identity`: `identity.Durations` / `identity.Float64s` (seed + Σ fold·element, wrapping uint64).
-/
namespace Tally.BucketCache
open Tally Tally.Buckets

/-- a bucket specification as handed to `Histogram()`: `DurationBuckets` or `ValueBuckets` -/
inductive BSpec
  | dur (l : List Int)
  | val (l : List F64)
  deriving DecidableEq, Repr

/-- upper bounds of the buckets a histogram uses -/
inductive Uppers
  | dur (l : List Int)
  | val (l : List F64)
  deriving DecidableEq, Repr

/-- integer keys of a spec (int64 itself; `F64.key` for floats) -/
def BSpec.keys : BSpec → List Int
  | .dur l => l
  | .val l => l.map F64.key

def Uppers.keys : Uppers → List Int
  | .dur l => l
  | .val l => l.map F64.key

/-- key of the last upper bound: `MaxInt64` resp. `MaxFloat64` -/
def BSpec.hiKey : BSpec → Int
  | .dur _ => maxInt64
  | .val _ => F64.key F64.maxFloat

/-! ## BucketPairs -/

structure PairsOut (α : Type) where
  /-- contents of the caller's slice when `BucketPairs` returns -/
  callerAfter : List α
  /-- the derived `(lower, upper)` pairs -/
  pairs : List (α × α)

/-- `BucketPairs(DurationBuckets)`: `make` + `copy` + `sort.Sort` on the copy, then the pairs. -/
def pairsD (caller : List Int) : PairsOut Int :=
  let copy := caller                      -- durationsCopy := make(..); copy(durationsCopy, durations)
  let sorted := sortByKey id copy         -- sort.Sort(DurationBuckets(durationsCopy))
  let ups := sorted ++ [maxInt64]
  { callerAfter := caller
    pairs := (List.range ups.length).map fun i => (durationLower ups i, ups.getD i 0) }

def pairsV (caller : List F64) : PairsOut F64 :=
  let copy := caller
  let sorted := sortByKey F64.key copy
  let ups := sorted ++ [F64.maxFloat]
  { callerAfter := caller
    pairs := (List.range ups.length).map fun i => (valueLower ups i, ups.getD i 0) }

/-! ## storage and the sequential cache -/

/-- `bucketStorage{buckets, hbuckets}` -/
structure Storage where
  spec : BSpec
  uppers : Uppers
  deriving DecidableEq, Repr

/-- `newBucketStorage(htype, buckets)` (`htype` is not used by the code) -/
def build (s : BSpec) : Storage :=
  match s with
  | .dur l => { spec := s, uppers := .dur ((pairsD l).pairs.map (·.2)) }
  | .val l => { spec := s, uppers := .val ((pairsV l).pairs.map (·.2)) }

/-- element-wise `!=` loop of `bucketsEqual` on two equally long lists -/
def allEq (eq : α → α → Bool) : List α → List α → Bool
  | [], [] => true
  | a :: as, b :: bs => eq a b && allEq eq as bs
  | _, _ => false

/-- `bucketsEqual(requested, stored)`: same dynamic type, same length, element-wise `==`
(IEEE `==` on floats: `+0 == -0`, `NaN != NaN`). -/
def specEq (requested stored : BSpec) : Bool :=
  match requested, stored with
  | .dur a, .dur b => allEq (fun x y => x == y) a b
  | .val a, .val b => allEq F64.eq a b
  | _, _ => false

/-- `map[uint64]bucketStorage` -/
abbrev Cache := UInt64 → Option Storage

def Cache.empty : Cache := fun _ => none
def Cache.set (c : Cache) (k : UInt64) (v : Storage) : Cache := fun k' => if k' = k then some v else c k'

/-- one sequential `bucketCache.Get` under the identity function `idf` -/
def get (idf : BSpec → UInt64) (c : Cache) (req : BSpec) : Cache × Storage :=
  match c (idf req) with
  | none => let st := build req; (c.set (idf req) st, st)
  | some st => if specEq req st.spec then (c, st) else (c, build req)

/-- a history of `Get` calls; returns the final cache and the storages handed out -/
def getAll (idf : BSpec → UInt64) (c : Cache) : List BSpec → Cache × List Storage
  | [] => (c, [])
  | r :: rs =>
    let (c', st) := get idf c r
    let (c'', sts) := getAll idf c' rs
    (c'', st :: sts)

/-! ## the concurrent protocol -/
namespace Conc

/-- program counter of one thread inside `Get` -/
inductive Pc
  | idle
  /-- probe missed (read lock released), about to take the write lock -/
  | missed (req : BSpec)
  /-- probe hit and copied the stored storage out (read lock released), about to compare -/
  | hit (req : BSpec) (found : Storage)
  /-- `Get` returned `ret` for `req` -/
  | done (req : BSpec) (ret : Storage)
  deriving DecidableEq, Repr

structure State where
  cache : Cache
  pc : Nat → Pc

def init : State := { cache := Cache.empty, pc := fun _ => .idle }

inductive Event
  /-- thread `t` enters `Get(req)`: `RLock; storage, ok := cache[id]; RUnlock` -/
  | probe (t : Nat) (req : BSpec)
  /-- after a miss: `Lock; storage = newBucketStorage(..); cache[id] = storage; Unlock` -/
  | fill (t : Nat)
  /-- after a hit: `if !bucketsEqual(..) { storage = newBucketStorage(..) }` -/
  | compare (t : Nat)
  deriving Repr

def setPc (s : State) (t : Nat) (p : Pc) : State :=
  { s with pc := fun t' => if t' = t then p else s.pc t' }

/-- one atomic step; `none` when the event is not enabled in `s` -/
def step (idf : BSpec → UInt64) (s : State) : Event → Option State
  | .probe t req =>
    match s.pc t with
    | .idle | .done _ _ =>
      match s.cache (idf req) with
      | none => some (setPc s t (.missed req))
      | some st => some (setPc s t (.hit req st))
    | _ => none
  | .fill t =>
    match s.pc t with
    | .missed req =>
      let st := build req
      some (setPc { s with cache := s.cache.set (idf req) st } t (.done req st))
    | _ => none
  | .compare t =>
    match s.pc t with
    | .hit req found =>
      some (setPc s t (.done req (if specEq req found.spec then found else build req)))
    | _ => none

def run (idf : BSpec → UInt64) (s : State) : List Event → Option State
  | [] => some s
  | e :: es => match step idf s e with
    | some s' => run idf s' es
    | none => none

end Conc

/-! ## the identity hash -/

def hashSeed : UInt64 := 23
def hashFold : UInt64 := 31

/-- `uint64(d)` of an int64 -/
def u64OfInt (d : Int) : UInt64 := UInt64.ofNat (d % two64).toNat

/-- `NewAccumulator()` then `AddUint64` per element; `0` for the empty slice -/
def identityU64s (l : List UInt64) : UInt64 :=
  if l.isEmpty then 0 else l.foldl (fun acc u => acc + u * hashFold) hashSeed

/-- `getBucketsIdentity` -/
def identity : BSpec → UInt64
  | .dur l => identityU64s (l.map u64OfInt)
  | .val l => identityU64s l

end Tally.BucketCache
