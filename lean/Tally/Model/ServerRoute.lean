import Tally.Model.Thrift
/-!
# The receiving side as a server runs it (m3/customtransports `TBufferedReadTransport`, m3/thrift/v2 `M3Processor`)

One long-lived read transport, one argument struct per call.  Two facts of the Go code carry the statement "what the
handler is given is the batch that was sent, whatever arrived before":

* `TBufferedReadTransport.Write(buf)` REPLACES the read buffer (`p.readBuf = bytes.NewBuffer(buf)`): bytes of an earlier
  datagram that were never consumed are gone;
* `m3ProcessorEmitMetricBatchV2.Process` reads into a FRESH `M3EmitMetricBatchV2Args{}` and `readField1` starts from
  `p.Batch = MetricBatch{}`: an optional field that is absent on the wire (the common tags) is absent in the result.

`Legacy` is the same machine with an appending `Write`; `LegacyArgs` the same processor with a recycled argument
struct whose batch is not zeroed (the generated `MetricBatch.Read` assigns `CommonTags` only when the field is present).
-/
namespace Tally.ServerRoute
open Tally Tally.Thrift

/-- the server's state between datagrams: what is left in the read buffer, and the argument struct of the last call -/
structure Server where
  buf : Bytes := []
  last : Option MetricBatch := none
deriving Repr

/-- `trans.Write(datagram)` -/
def write (s : Server) (d : Bytes) : Server := { s with buf := d }

/-- `processor.Process`: decode one message from the buffer into a fresh argument struct; what the handler is given.
On a decode error the bytes consumed so far are gone and the rest stays in the buffer (modelled: all stays - the next
`write` replaces it either way). -/
def process (p : Proto) (s : Server) : Server × Option (Int × MetricBatch) :=
  match decMessage p s.buf with
  | some (seq, b, rest) => ({ buf := rest, last := some b }, some (seq, b))
  | none => (s, none)

/-- one datagram arriving: `Write` then `Process` -/
def receive (p : Proto) (s : Server) (d : Bytes) : Server × Option (Int × MetricBatch) := process p (write s d)

namespace Legacy
/-- `Write` appends to the read buffer instead of replacing it -/
def write (s : Server) (d : Bytes) : Server := { s with buf := s.buf ++ d }
def receive (p : Proto) (s : Server) (d : Bytes) : Server × Option (Int × MetricBatch) := process p (write s d)
end Legacy

namespace LegacyArgs
/-- the argument struct comes from a pool and its batch is not zeroed: an absent optional field keeps the value the
struct had from the previous call -/
def process (p : Proto) (s : Server) : Server × Option (Int × MetricBatch) :=
  match decMessage p s.buf with
  | some (seq, b, rest) =>
    let b' : MetricBatch := match b.commonTags, s.last with
      | none, some prev => { b with commonTags := prev.commonTags }
      | _, _ => b
    ({ buf := rest, last := some b' }, some (seq, b'))
  | none => (s, none)
def receive (p : Proto) (s : Server) (d : Bytes) : Server × Option (Int × MetricBatch) := process p (ServerRoute.write s d)
end LegacyArgs

end Tally.ServerRoute
