import Tally.Prelude
/-!
# Model of a histogram report pass (stats.go `histogram.report` / `cachedReport`) against records

A histogram is a list of buckets; each bucket holds one counter cell (`samples *counter`, the repaired
one-cell form of `Tally.Counter`).  Atomic actions (each is one `sync/atomic` call or one reporter call):
* `record b`   — `RecordValue` found bucket `b` (the binary search over the bounds is not modelled here:
                 see `Tally.Buckets`) and executes `bucket.samples.Inc(1)`
* `swap t b`   — thread `t`, walking the buckets in a report pass, executes `bucket.samples.value()` on
                 bucket `b` (the atomic swap to 0); a non-zero result becomes the thread's pending
                 (bucket, count), zero moves on silently
* `deliver t`  — thread `t` hands its pending (bucket, count) to the reporter
                 (`ReportHistogramValueSamples` / `ReportHistogramDurationSamples` / `ReportSamples`)
Any number of threads (`Nat` ids), any number of passes, any interleaving; the model does not even force a
thread to walk the buckets in order (the theorems hold for every order, the in-order pass is `fullPass`).

Every sample is `+1`, so the cells are `Nat`: the int64 wrap-around of a cell (more than 2^63 - 1 samples
in one bucket between two passes) is out of scope here — `Tally.Counter` / C01 treat the wrap of a cell.
-/
namespace Tally.HistPass

inductive Ev
  | record (b : Nat)
  | swap (t b : Nat)
  | deliver (t : Nat)
deriving Repr, DecidableEq

structure State where
  cells : List Nat                    -- per bucket: the unreported count (atomic cell)
  pending : List (Nat × Nat × Nat)    -- (thread, bucket, count) swapped out but not yet handed to the reporter
  delivered : List (Nat × Nat)        -- reporter calls so far, (bucket, count), most recent first
  recorded : List Nat                 -- bucket index of every recorded sample, most recent first
deriving Repr, DecidableEq

def init (n : Nat) : State := { cells := List.replicate n 0, pending := [], delivered := [], recorded := [] }

/-- one atomic action; `none` = the action is not enabled in this state -/
def step (s : State) : Ev → Option State
  | .record b =>
    if b < s.cells.length then
      some { s with cells := s.cells.set b (s.cells.getD b 0 + 1), recorded := b :: s.recorded }
    else none
  | .swap t b =>
    if b < s.cells.length then
      if (s.pending.lookup t).isSome then none else
      let c := s.cells.getD b 0
      some { s with cells := s.cells.set b 0, pending := if c = 0 then s.pending else (t, b, c) :: s.pending }
    else none
  | .deliver t =>
    match s.pending.lookup t with
    | none => none
    | some d => some { s with pending := s.pending.filter (fun p => p.1 != t), delivered := d :: s.delivered }

def run (s : State) : List Ev → Option State
  | [] => some s
  | e :: es => match step s e with
    | none => none
    | some s' => run s' es

/-- sum of the counts listed for bucket `b` in a list of (bucket, count) -/
def countIn (b : Nat) : List (Nat × Nat) → Nat
  | [] => 0
  | p :: l => (if p.1 = b then p.2 else 0) + countIn b l

/-- number of samples the reporter has received for bucket `b` -/
def deliveredIn (s : State) (b : Nat) : Nat := countIn b s.delivered
/-- number of samples of bucket `b` swapped out by some thread and not yet delivered -/
def pendingIn (s : State) (b : Nat) : Nat := countIn b (s.pending.map (·.2))
/-- number of samples recorded into bucket `b` -/
def recordedIn (s : State) (b : Nat) : Nat := s.recorded.count b

/-- the events of one visit of bucket `b` holding `c`: the swap, then the delivery if something was swapped out -/
def visit (t b c : Nat) : List Ev := if c = 0 then [.swap t b] else [.swap t b, .deliver t]

/-- the events of a pass over the buckets `b, b+1, …` holding `cs`, with no other action in between -/
def passFrom (t : Nat) : List Nat → Nat → List Ev
  | [], _ => []
  | c :: cs, b => visit t b c ++ passFrom t cs (b + 1)

/-- one complete report pass by thread `t` from state `s`, all buckets in order, nothing in between -/
def fullPass (t : Nat) (s : State) : List Ev := passFrom t s.cells 0

/-! ## a broken optimisation, kept as a regression witness: "updated mark cleared late"

The histogram carries a flag `updated`; `RecordValue` sets it after the `Inc(1)`; a report pass reads it
first and skips the whole histogram when it is false, and clears it only *after* it walked the buckets.
A sample that lands in a bucket the pass has already swapped has its mark erased by that pass. -/
namespace Legacy

inductive Ev
  | record (b : Nat)
  | begin (t : Nat)      -- thread t reads the flag: false → the pass is over, true → t walks the buckets
  | swap (t b : Nat)
  | deliver (t : Nat)
  | finish (t : Nat)     -- thread t ends its walk and clears the flag
deriving Repr, DecidableEq

structure State where
  cells : List Nat
  pending : List (Nat × Nat × Nat)
  delivered : List (Nat × Nat)
  recorded : List Nat
  updated : Bool
  passing : List Nat                 -- threads that have begun a walk and not finished it
deriving Repr, DecidableEq

def init (n : Nat) : State :=
  { cells := List.replicate n 0, pending := [], delivered := [], recorded := [], updated := false, passing := [] }

def step (s : State) : Ev → Option State
  | .record b =>
    if b < s.cells.length then
      some { s with cells := s.cells.set b (s.cells.getD b 0 + 1), recorded := b :: s.recorded, updated := true }
    else none
  | .begin t =>
    if s.passing.contains t then none else
    if s.updated then some { s with passing := t :: s.passing } else some s
  | .swap t b =>
    if s.passing.contains t && decide (b < s.cells.length) then
      if (s.pending.lookup t).isSome then none else
      let c := s.cells.getD b 0
      some { s with cells := s.cells.set b 0, pending := if c = 0 then s.pending else (t, b, c) :: s.pending }
    else none
  | .deliver t =>
    match s.pending.lookup t with
    | none => none
    | some d => some { s with pending := s.pending.filter (fun p => p.1 != t), delivered := d :: s.delivered }
  | .finish t =>
    if s.passing.contains t && !(s.pending.lookup t).isSome then
      some { s with passing := s.passing.filter (fun u => u != t), updated := false }
    else none

def run (s : State) : List Ev → Option State
  | [] => some s
  | e :: es => match step s e with
    | none => none
    | some s' => run s' es

def deliveredIn (s : State) (b : Nat) : Nat := countIn b s.delivered
def pendingIn (s : State) (b : Nat) : Nat := countIn b (s.pending.map (·.2))
def recordedIn (s : State) (b : Nat) : Nat := s.recorded.count b

end Legacy
/-- thread `t`, scheduled alone, runs on until it stands in front of its next reporter call (`some b`: it has just
swapped the non-zero cell of bucket `b`) or has walked all buckets (`none`): it first makes the reporter call it
was parked in front of, then visits the buckets in order from `pos` (`histogram.report`: `for i := range h.buckets`) -/
def walk (t : Nat) : Nat → State → Nat → List Ev → Option (State × List Ev × Nat × Option Nat)
  | 0, _, _, _ => none
  | fuel + 1, s, b, acc =>
    if b < s.cells.length then
      let c := s.cells.getD b 0
      match step s (.swap t b) with
      | none => none
      | some s' => if c = 0 then walk t fuel s' (b + 1) (acc ++ [.swap t b]) else some (s', acc ++ [.swap t b], b + 1, some b)
    else some (s, acc, b, none)


end Tally.HistPass
