import Tally.Prelude
/-!
# Apache Thrift serialisation of the M3 `MetricBatch` (compact and binary protocols)

Byte-exact executable model of what `m3/thrift/v2/ttypes.go` + `m3.go` write through the vendored
`thrift.TCompactProtocol` and `thrift.TBinaryProtocol` (factory `NewTBinaryProtocolFactoryDefault`:
`strictRead = false`, `strictWrite = true`), and of what the generated readers accept.

Modelling conventions
* numbers are `Nat` / `Int`; bytes are produced only at the emission boundary (`UInt8.ofNat`, which
  reduces modulo 256).  Go's fixed-width conversions (`int32(len(s))`, `uint32(n)`, `int16(v)` …)
  appear as explicit `% 2^k` / `sN` wraps, so the encoders are total and agree with Go on every
  representable input; the well-formedness predicates `wf*` say that no wrap actually happens.
* a `float64` is its IEEE-754 bit pattern (`UInt64`).
* the compact protocol's `lastField` stack is the `last` argument of `fieldBegin` / `readFieldBegin`:
  every struct encoder starts at `last = 0` (`WriteStructBegin` pushes and resets) and the enclosing
  struct simply continues with its own `last` afterwards (`WriteStructEnd` pops).
* all recursion is structural (fuel for the varint writer: the Go buffers are 5 resp. 10 bytes, and
  10 groups of 7 bits cover every `uint64`), so `decide` / `rfl` evaluate everything.
* the primitive readers (`readVarint`, `readI32`, `readString`, `readListBegin`, `readFieldBegin`,
  `readMessageBegin` …) follow the Go readers literally, including the truncating conversions.  The
  struct decoders are specialised: they expect exactly the fields the writers emit, in that order and
  with the declared wire types, and reject everything else (the Go readers would accept any order,
  ignore the wire type and skip unknown fields).
-/
namespace Tally.Thrift

inductive Proto | compact | binary
deriving DecidableEq, Repr

/-! ## Thrift type ids (`type.go`), message types, compact type ids -/

abbrev T_STOP : Nat := 0
abbrev T_BOOL : Nat := 2
abbrev T_BYTE : Nat := 3
abbrev T_DOUBLE : Nat := 4
abbrev T_I16 : Nat := 6
abbrev T_I32 : Nat := 8
abbrev T_I64 : Nat := 10
abbrev T_STRING : Nat := 11
abbrev T_STRUCT : Nat := 12
abbrev T_MAP : Nat := 13
abbrev T_SET : Nat := 14
abbrev T_LIST : Nat := 15

/-- `thrift.ONEWAY` -/
abbrev M_ONEWAY : Nat := 4

/-- `ttypeToCompactType` (a Go map: a missing key yields 0) -/
def compactType (t : Nat) : Nat :=
  if t = 2 then 1 else if t = 3 then 3 else if t = 6 then 4 else if t = 8 then 5
  else if t = 10 then 6 else if t = 4 then 7 else if t = 11 then 8 else if t = 15 then 9
  else if t = 14 then 10 else if t = 13 then 11 else if t = 12 then 12 else 0

/-- `TCompactProtocol.getTType` on the low nibble -/
def ttypeOfCompact (c : Nat) : Option Nat :=
  if c = 0 then some 0 else if c = 1 then some 2 else if c = 2 then some 2 else if c = 3 then some 3
  else if c = 4 then some 6 else if c = 5 then some 8 else if c = 6 then some 10
  else if c = 7 then some 4 else if c = 8 then some 11 else if c = 9 then some 15
  else if c = 10 then some 14 else if c = 11 then some 13 else if c = 12 then some 12 else none

/-! ## fixed-width conversions -/

/-- `uint16(int16 i)` -/
def u16 (i : Int) : Nat := (i % 65536).toNat
/-- `uint32(int32 i)` -/
def u32 (i : Int) : Nat := (i % 4294967296).toNat
/-- `uint64(int64 i)` -/
def u64 (i : Int) : Nat := (i % 18446744073709551616).toNat
/-- `int16(n)` : two's complement reading of the low 16 bits -/
def s16 (n : Nat) : Int :=
  if n % 65536 < 32768 then ((n % 65536 : Nat) : Int) else ((n % 65536 : Nat) : Int) - 65536
/-- `int32(n)` -/
def s32 (n : Nat) : Int :=
  if n % 4294967296 < 2147483648 then ((n % 4294967296 : Nat) : Int)
  else ((n % 4294967296 : Nat) : Int) - 4294967296
/-- `int64(n)` -/
def s64 (n : Nat) : Int :=
  if n % 18446744073709551616 < 9223372036854775808 then ((n % 18446744073709551616 : Nat) : Int)
  else ((n % 18446744073709551616 : Nat) : Int) - 18446744073709551616

def inI16 (i : Int) : Bool := decide (-32768 ≤ i) && decide (i < 32768)
def inI32 (i : Int) : Bool := decide (-2147483648 ≤ i) && decide (i < 2147483648)
def inI64 (i : Int) : Bool :=
  decide (-9223372036854775808 ≤ i) && decide (i < 9223372036854775808)

/-! ## varints and zigzag (compact protocol) -/

/-- `writeVarint32` / `writeVarint64` on the unsigned value: 7 bits per byte, least significant
group first, high bit = "more follows".  `fuel` = number of continuation bytes still allowed. -/
def varintAux : Nat → Nat → Bytes
  | 0, n => [UInt8.ofNat n]
  | f + 1, n =>
    if n < 128 then [UInt8.ofNat n] else UInt8.ofNat (n % 128 + 128) :: varintAux f (n / 128)

/-- at most 10 bytes: enough for every `n < 2^70`, in particular for every `uint64` -/
def varint (n : Nat) : Bytes := varintAux 9 n

/-- `int32ToZigzag` / `int64ToZigzag`, as the unsigned value that is then written as a varint -/
def zz (i : Int) : Nat := if 0 ≤ i then (2 * i).toNat else (-2 * i - 1).toNat

/-- `zigzagToInt32` / `zigzagToInt64` -/
def unzz (n : Nat) : Int := if n % 2 = 0 then ((n / 2 : Nat) : Int) else -((n / 2 : Nat) : Int) - 1

/-- `readVarint64` before the truncation to 64 bits: no length limit in this Go version -/
def readVarint : Bytes → Option (Nat × Bytes)
  | [] => none
  | b :: rest =>
    if b.toNat < 128 then some (b.toNat, rest)
    else match readVarint rest with
      | some (v, r) => some (b.toNat - 128 + 128 * v, r)
      | none => none

/-- `readVarint64`: bits shifted beyond position 63 are lost -/
def readVarint64 (bs : Bytes) : Option (Nat × Bytes) :=
  match readVarint bs with
  | some (v, r) => some (v % 18446744073709551616, r)
  | none => none

/-- `readVarint32` = `int32(readVarint64())` -/
def readVarint32 (bs : Bytes) : Option (Int × Bytes) :=
  match readVarint64 bs with
  | some (v, r) => some (s32 v, r)
  | none => none

/-! ## fixed-width byte strings -/

def leBytes : Nat → Nat → Bytes
  | 0, _ => []
  | k + 1, n => UInt8.ofNat n :: leBytes k (n / 256)

/-- `binary.BigEndian.PutUintN` for `N = 8k` (value reduced modulo `256^k`) -/
def beBytes (k n : Nat) : Bytes := (leBytes k n).reverse

def leVal : Bytes → Nat
  | [] => 0
  | b :: r => b.toNat + 256 * leVal r

def beVal (bs : Bytes) : Nat := leVal bs.reverse

/-- `io.ReadFull` of `k` bytes -/
def takeN (k : Nat) (bs : Bytes) : Option (Bytes × Bytes) :=
  if bs.length < k then none else some (bs.take k, bs.drop k)

/-- one-pass implementation of `takeN` for compiled code (`takeN` itself measures the whole
remaining input at every read, which is quadratic on a 65000-byte datagram) -/
def takeNFast : Nat → Bytes → Option (Bytes × Bytes)
  | 0, bs => some ([], bs)
  | _ + 1, [] => none
  | k + 1, b :: bs =>
    match takeNFast k bs with
    | some (x, r) => some (b :: x, r)
    | none => none

@[csimp] theorem takeN_eq_takeNFast : @takeN = @takeNFast := by
  funext k bs
  induction k generalizing bs with
  | zero => simp [takeN, takeNFast]
  | succ k ih =>
    cases bs with
    | nil => simp [takeN, takeNFast]
    | cons b bs =>
      have h := ih bs
      unfold takeN at h
      unfold takeN takeNFast
      rw [← h]
      by_cases hk : bs.length < k <;> simp [hk]

def readByte : Bytes → Option (Nat × Bytes)
  | [] => none
  | b :: r => some (b.toNat, r)

/-! ## scalar writers / readers -/

/-- `WriteI16(v)` -/
def encI16 (p : Proto) (i : Int) : Bytes :=
  match p with
  | .compact => varint (zz (s16 (u16 i)))
  | .binary => beBytes 2 (u16 i)

/-- `WriteI32(int32(v))` -/
def encI32 (p : Proto) (i : Int) : Bytes :=
  match p with
  | .compact => varint (zz (s32 (u32 i)))
  | .binary => beBytes 4 (u32 i)

/-- `WriteI64(v)` -/
def encI64 (p : Proto) (i : Int) : Bytes :=
  match p with
  | .compact => varint (zz (s64 (u64 i)))
  | .binary => beBytes 8 (u64 i)

/-- `WriteDouble`: compact = 8 bytes LITTLE endian (this Go version), binary = big endian -/
def encDouble (p : Proto) (g : UInt64) : Bytes :=
  match p with
  | .compact => leBytes 8 g.toNat
  | .binary => beBytes 8 g.toNat

/-- `WriteString`: `int32(len(s))` as varint32 resp. big-endian i32, then the bytes -/
def encString (p : Proto) (s : Bytes) : Bytes :=
  match p with
  | .compact => varint (s.length % 4294967296) ++ s
  | .binary => beBytes 4 s.length ++ s

/-- compact `ReadI32`: `zigzagToInt32(int32(readVarint64()))`; binary: 4 bytes big endian -/
def readI32 (p : Proto) (bs : Bytes) : Option (Int × Bytes) :=
  match p with
  | .compact =>
    match readVarint64 bs with
    | some (v, r) => some (unzz (v % 4294967296), r)
    | none => none
  | .binary =>
    match takeN 4 bs with
    | some (x, r) => some (s32 (beVal x), r)
    | none => none

/-- compact `ReadI16` = `int16(ReadI32())` -/
def readI16 (p : Proto) (bs : Bytes) : Option (Int × Bytes) :=
  match p with
  | .compact =>
    match readI32 .compact bs with
    | some (v, r) => some (s16 (u32 v), r)
    | none => none
  | .binary =>
    match takeN 2 bs with
    | some (x, r) => some (s16 (beVal x), r)
    | none => none

def readI64 (p : Proto) (bs : Bytes) : Option (Int × Bytes) :=
  match p with
  | .compact =>
    match readVarint64 bs with
    | some (v, r) => some (unzz v, r)
    | none => none
  | .binary =>
    match takeN 8 bs with
    | some (x, r) => some (s64 (beVal x), r)
    | none => none

def readDouble (p : Proto) (bs : Bytes) : Option (UInt64 × Bytes) :=
  match takeN 8 bs with
  | some (x, r) =>
    some (UInt64.ofNat (match p with | .compact => leVal x | .binary => beVal x), r)
  | none => none

/-- the string body: `length > RemainingBytes()` is `invalidDataLength` -/
def readStringBody (len : Int) (bs : Bytes) : Option (Bytes × Bytes) :=
  if len < 0 then none else takeN len.toNat bs

def readString (p : Proto) (bs : Bytes) : Option (Bytes × Bytes) :=
  match p with
  | .compact =>
    match readVarint32 bs with
    | some (len, r) => readStringBody len r
    | none => none
  | .binary =>
    match readI32 .binary bs with
    | some (len, r) => readStringBody len r
    | none => none

/-! ## field and list headers -/

/-- `WriteFieldBegin(_, ty, id)` when the previous field id of the current struct is `last`
(`ty ≠ BOOL`) -/
def fieldBegin (p : Proto) (last : Int) (ty : Nat) (id : Int) : Bytes :=
  match p with
  | .compact =>
    if id > last ∧ id - last ≤ 15 then
      [UInt8.ofNat ((id - last).toNat * 16 + compactType ty)]
    else UInt8.ofNat (compactType ty) :: encI16 .compact id
  | .binary => UInt8.ofNat ty :: encI16 .binary id

/-- `WriteFieldStop` -/
def fieldStop : Bytes := [0]

/-- `ReadFieldBegin`: `(type, id, rest)`; `type = 0` is STOP (then `id = 0`) -/
def readFieldBegin (p : Proto) (last : Int) (bs : Bytes) : Option (Nat × Int × Bytes) :=
  match p with
  | .compact =>
    match readByte bs with
    | none => none
    | some (t, r) =>
      if t % 16 = 0 then some (0, 0, r)
      else
        let idr : Option (Int × Bytes) :=
          if t / 16 = 0 then readI16 .compact r else some (s16 (u16 (last + (t / 16 : Nat))), r)
        match idr with
        | none => none
        | some (id, r') =>
          match ttypeOfCompact (t % 16) with
          | none => none
          | some ty => some (ty, id, r')
  | .binary =>
    match readByte bs with
    | none => none
    | some (t, r) =>
      if t = 0 then some (0, 0, r)
      else match readI16 .binary r with
        | none => none
        | some (id, r') => some (t, id, r')

/-- read a field header and insist on the given type and id (specialised struct readers) -/
def expectField (p : Proto) (last : Int) (ty : Nat) (id : Int) (bs : Bytes) : Option Bytes :=
  match readFieldBegin p last bs with
  | some (t, i, r) => if t = ty ∧ i = id then some r else none
  | none => none

/-- read a field header and insist on STOP -/
def expectStop (p : Proto) (last : Int) (bs : Bytes) : Option Bytes :=
  match readFieldBegin p last bs with
  | some (t, _, r) => if t = 0 then some r else none
  | none => none

/-- `WriteListBegin(elemType, size)` -/
def listBegin (p : Proto) (ty : Nat) (size : Nat) : Bytes :=
  match p with
  | .compact =>
    if size ≤ 14 then [UInt8.ofNat (size * 16 + compactType ty)]
    else UInt8.ofNat (240 + compactType ty) :: varint (size % 4294967296)
  | .binary => UInt8.ofNat ty :: beBytes 4 size

/-- `ReadListBegin`: `(elemType, size, rest)` -/
def readListBegin (p : Proto) (bs : Bytes) : Option (Nat × Nat × Bytes) :=
  match p with
  | .compact =>
    match readByte bs with
    | none => none
    | some (b, r) =>
      let szr : Option (Nat × Bytes) :=
        if b / 16 = 15 then
          match readVarint32 r with
          | some (n, r') => if n < 0 then none else some (n.toNat, r')
          | none => none
        else some (b / 16, r)
      match szr with
      | none => none
      | some (n, r') =>
        match ttypeOfCompact (b % 16) with
        | none => none
        | some ty => some (ty, n, r')
  | .binary =>
    match readByte bs with
    | none => none
    | some (t, r) =>
      match readI32 .binary r with
      | none => none
      | some (n, r') => if n < 0 then none else some (t, n.toNat, r')

/-- `for i := 0; i < size; i++ { elem.Read(iprot) }` -/
def decList {α : Type} (dec : Bytes → Option (α × Bytes)) : Nat → Bytes → Option (List α × Bytes)
  | 0, bs => some ([], bs)
  | n + 1, bs =>
    match dec bs with
    | none => none
    | some (x, r) =>
      match decList dec n r with
      | none => none
      | some (xs, r') => some (x :: xs, r')

/-! ## the four structs -/

structure MetricValue where
  mtype : Int      -- i32 enum value
  count : Int      -- i64
  gauge : UInt64   -- float64 bit pattern
  timer : Int      -- i64
deriving DecidableEq, Repr

structure MetricTag where
  name : Bytes
  value : Bytes
deriving DecidableEq, Repr

structure Metric where
  name : Bytes
  value : MetricValue
  timestamp : Int  -- i64
  tags : Option (List MetricTag)   -- none = nil slice (field omitted)
deriving DecidableEq, Repr

structure MetricBatch where
  metrics : List Metric
  commonTags : Option (List MetricTag)
deriving DecidableEq, Repr

/-- `MetricTag.Write` -/
def encTag (p : Proto) (t : MetricTag) : Bytes :=
  fieldBegin p 0 T_STRING 1 ++ encString p t.name ++
  fieldBegin p 1 T_STRING 2 ++ encString p t.value ++ fieldStop

/-- `MetricValue.Write` -/
def encValue (p : Proto) (v : MetricValue) : Bytes :=
  fieldBegin p 0 T_I32 1 ++ encI32 p v.mtype ++
  fieldBegin p 1 T_I64 2 ++ encI64 p v.count ++
  fieldBegin p 2 T_DOUBLE 3 ++ encDouble p v.gauge ++
  fieldBegin p 3 T_I64 4 ++ encI64 p v.timer ++ fieldStop

/-- an optional `list<MetricTag>` field with id `id` following field `last`: written iff the slice
is non-nil (an empty non-nil slice is written as an empty list) -/
def encTagsField (p : Proto) (last id : Int) : Option (List MetricTag) → Bytes
  | none => []
  | some ts => fieldBegin p last T_LIST id ++ listBegin p T_STRUCT ts.length ++ ts.flatMap (encTag p)

/-- `Metric.Write` -/
def encMetric (p : Proto) (m : Metric) : Bytes :=
  fieldBegin p 0 T_STRING 1 ++ encString p m.name ++
  fieldBegin p 1 T_STRUCT 2 ++ encValue p m.value ++
  fieldBegin p 2 T_I64 3 ++ encI64 p m.timestamp ++
  encTagsField p 3 4 m.tags ++ fieldStop

/-- `MetricBatch.Write` -/
def encBatch (p : Proto) (b : MetricBatch) : Bytes :=
  fieldBegin p 0 T_LIST 1 ++ listBegin p T_STRUCT b.metrics.length ++ b.metrics.flatMap (encMetric p) ++
  encTagsField p 1 2 b.commonTags ++ fieldStop

/-- the method name `"emitMetricBatchV2"` -/
def methodName : Bytes :=
  [101, 109, 105, 116, 77, 101, 116, 114, 105, 99, 66, 97, 116, 99, 104, 86, 50]

/-- `WriteMessageBegin(name, typeId, seqid)`.
compact: `0x82`, `(1 & 0x1f) | ((typeId << 5) & 0xe0)`, varint32 of `uint32(seqid)`, string;
binary (strict write): i32 `0x80010000 | typeId`, string, i32 seqid -/
def messageBegin (p : Proto) (name : Bytes) (ty : Nat) (seq : Int) : Bytes :=
  match p with
  | .compact => [130, UInt8.ofNat (1 + ty % 8 * 32)] ++ varint (u32 seq) ++ encString .compact name
  | .binary => beBytes 4 (2147549184 + ty % 256) ++ encString .binary name ++ beBytes 4 (u32 seq)

/-- `sendEmitMetricBatchV2`: message begin, the args struct (field 1 `batch`, STRUCT), message end -/
def encMessage (p : Proto) (seqId : Int) (b : MetricBatch) : Bytes :=
  messageBegin p methodName M_ONEWAY seqId ++
  fieldBegin p 0 T_STRUCT 1 ++ encBatch p b ++ fieldStop

/-! ### decoders (specialised: fields in writer order, declared wire types) -/

def decTag (p : Proto) (bs : Bytes) : Option (MetricTag × Bytes) :=
  match expectField p 0 T_STRING 1 bs with
  | none => none
  | some r1 =>
  match readString p r1 with
  | none => none
  | some (name, r2) =>
  match expectField p 1 T_STRING 2 r2 with
  | none => none
  | some r3 =>
  match readString p r3 with
  | none => none
  | some (value, r4) =>
  match expectStop p 2 r4 with
  | none => none
  | some r5 => some ({ name := name, value := value }, r5)

def decValue (p : Proto) (bs : Bytes) : Option (MetricValue × Bytes) :=
  match expectField p 0 T_I32 1 bs with
  | none => none
  | some r1 =>
  match readI32 p r1 with
  | none => none
  | some (mtype, r2) =>
  match expectField p 1 T_I64 2 r2 with
  | none => none
  | some r3 =>
  match readI64 p r3 with
  | none => none
  | some (count, r4) =>
  match expectField p 2 T_DOUBLE 3 r4 with
  | none => none
  | some r5 =>
  match readDouble p r5 with
  | none => none
  | some (gauge, r6) =>
  match expectField p 3 T_I64 4 r6 with
  | none => none
  | some r7 =>
  match readI64 p r7 with
  | none => none
  | some (timer, r8) =>
  match expectStop p 4 r8 with
  | none => none
  | some r9 => some ({ mtype := mtype, count := count, gauge := gauge, timer := timer }, r9)

/-- the list of tag structs after a LIST field header -/
def decTagList (p : Proto) (bs : Bytes) : Option (List MetricTag × Bytes) :=
  match readListBegin p bs with
  | none => none
  | some (ety, n, r) => if ety = T_STRUCT then decList (decTag p) n r else none

/-- the tail of a struct whose last, optional field is a `list<MetricTag>` with id `id` (previous
field id `last`): either STOP (`none`: the slice stays nil) or the list field followed by STOP
(`some`: `make([]MetricTag, 0, size)` is non-nil even for size 0) -/
def decTagsTail (p : Proto) (last id : Int) (bs : Bytes) : Option (Option (List MetricTag) × Bytes) :=
  match readFieldBegin p last bs with
  | none => none
  | some (ty, i, r) =>
    if ty = 0 then some (none, r)
    else if ty = T_LIST ∧ i = id then
      match decTagList p r with
      | none => none
      | some (ts, r') =>
        match expectStop p id r' with
        | none => none
        | some r'' => some (some ts, r'')
    else none

def decMetric (p : Proto) (bs : Bytes) : Option (Metric × Bytes) :=
  match expectField p 0 T_STRING 1 bs with
  | none => none
  | some r1 =>
  match readString p r1 with
  | none => none
  | some (name, r2) =>
  match expectField p 1 T_STRUCT 2 r2 with
  | none => none
  | some r3 =>
  match decValue p r3 with
  | none => none
  | some (value, r4) =>
  match expectField p 2 T_I64 3 r4 with
  | none => none
  | some r5 =>
  match readI64 p r5 with
  | none => none
  | some (ts, r6) =>
  match decTagsTail p 3 4 r6 with
  | none => none
  | some (tags, r7) => some ({ name := name, value := value, timestamp := ts, tags := tags }, r7)

def decBatch (p : Proto) (bs : Bytes) : Option (MetricBatch × Bytes) :=
  match expectField p 0 T_LIST 1 bs with
  | none => none
  | some r1 =>
  match readListBegin p r1 with
  | none => none
  | some (ety, n, r2) =>
  if ety ≠ T_STRUCT then none else
  match decList (decMetric p) n r2 with
  | none => none
  | some (ms, r3) =>
  match decTagsTail p 1 2 r3 with
  | none => none
  | some (ct, r4) => some ({ metrics := ms, commonTags := ct }, r4)

/-- `ReadMessageBegin`: `(name, typeId, seqId, rest)`.
binary with `strictRead = false`: a non-negative first word is the length of an unversioned header
(name, type byte, seqid) -/
def readMessageBegin (p : Proto) (bs : Bytes) : Option (Bytes × Nat × Int × Bytes) :=
  match p with
  | .compact =>
    match readByte bs with
    | none => none
    | some (pid, r1) =>
    if pid ≠ 130 then none else
    match readByte r1 with
    | none => none
    | some (vt, r2) =>
    if vt % 32 ≠ 1 then none else
    match readVarint32 r2 with
    | none => none
    | some (seq, r3) =>
    match readString .compact r3 with
    | none => none
    | some (name, r4) => some (name, vt / 32 % 8, seq, r4)
  | .binary =>
    match readI32 .binary bs with
    | none => none
    | some (size, r1) =>
    if size < 0 then
      -- `version := int64(size) & 0xffff0000`, must be `0x80010000`; `typeId = size & 0xff`
      if u32 size / 65536 ≠ 32769 then none else
      match readString .binary r1 with
      | none => none
      | some (name, r2) =>
      match readI32 .binary r2 with
      | none => none
      | some (seq, r3) => some (name, u32 size % 256, seq, r3)
    else
      match readStringBody size r1 with
      | none => none
      | some (name, r2) =>
      match readByte r2 with
      | none => none
      | some (ty, r3) =>
      match readI32 .binary r3 with
      | none => none
      | some (seq, r4) => some (name, ty, seq, r4)

/-- the whole one-way message: `(seqId, batch, rest)`.  Rejects a wrong protocol id / version, a
message type other than ONEWAY, and a method name other than `emitMetricBatchV2`. -/
def decMessage (p : Proto) (bs : Bytes) : Option (Int × MetricBatch × Bytes) :=
  match readMessageBegin p bs with
  | none => none
  | some (name, ty, seq, r1) =>
  if name ≠ methodName ∨ ty ≠ M_ONEWAY then none else
  match expectField p 0 T_STRUCT 1 r1 with
  | none => none
  | some r2 =>
  match decBatch p r2 with
  | none => none
  | some (b, r3) =>
  match expectStop p 1 r3 with
  | none => none
  | some r4 => some (seq, b, r4)

/-! ## well-formedness: nothing wraps -/

def lenOk (n : Nat) : Bool := decide (n < 2147483648)

def wfTag (t : MetricTag) : Bool := lenOk t.name.length && lenOk t.value.length

def wfTags : Option (List MetricTag) → Bool
  | none => true
  | some ts => lenOk ts.length && ts.all wfTag

def wfValue (v : MetricValue) : Bool := inI32 v.mtype && inI64 v.count && inI64 v.timer

def wfMetric (m : Metric) : Bool :=
  lenOk m.name.length && wfValue m.value && inI64 m.timestamp && wfTags m.tags

def wfBatch (b : MetricBatch) : Bool :=
  lenOk b.metrics.length && b.metrics.all wfMetric && wfTags b.commonTags

/-! ## the reporter's "max placeholder" -/

def maxI64 : Int := 9223372036854775807

/-- same name / tags / metric type, but `count = timer = timestamp = math.MaxInt64` and
`gauge = math.MaxFloat64` -/
def maxed (m : Metric) : Metric :=
  { m with
    value := { m.value with count := maxI64, gauge := 0x7FEFFFFFFFFFFFFF, timer := maxI64 }
    timestamp := maxI64 }

/-! ## framing overheads -/

/-- bytes of `encBatch` that are not metric encodings: the `metrics` field header, its list header
(which depends on the number of metrics), the optional common-tags field, and the STOP byte -/
def batchOverhead (p : Proto) (n : Nat) (ct : Option (List MetricTag)) : Nat :=
  (fieldBegin p 0 T_LIST 1).length + (listBegin p T_STRUCT n).length +
  (encTagsField p 1 2 ct).length + 1

/-- bytes of `encMessage` that are not the batch encoding: message header, the `batch` field header
of the args struct, and the args struct's STOP byte -/
def messageOverhead (p : Proto) (seq : Int) : Nat :=
  (messageBegin p methodName M_ONEWAY seq).length + (fieldBegin p 0 T_STRUCT 1).length + 1

end Tally.Thrift
