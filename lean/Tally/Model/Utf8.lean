import Tally.Prelude
/-!
# Go's UTF-8 decoding and encoding (unicode/utf8), as used by `for _, ch := range s` and
`bytes.Buffer.WriteRune`

`decodeRune` mirrors `utf8.DecodeRuneInString`: an invalid or truncated sequence decodes as
`(U+FFFD, width 1)`; the empty string as `(U+FFFD, 0)`.  `encodeRune` mirrors
`bytes.Buffer.WriteRune` / `utf8.AppendRune`: a rune that is not a Unicode scalar value
(negative, surrogate, above U+10FFFF) is written as U+FFFD.
-/
namespace Tally.Utf8

def runeError : Nat := 0xFFFD

def isCont (b : Nat) : Bool := 0x80 ≤ b && b ≤ 0xBF

/-- `(rune, width)` of the first rune of a byte string given as naturals `< 256` -/
def decodeNat : List Nat → Nat × Nat
  | [] => (runeError, 0)
  | b0 :: t =>
    if b0 < 0x80 then (b0, 1)
    else if b0 < 0xC2 then (runeError, 1)
    else if b0 < 0xE0 then
      match t with
      | b1 :: _ => if isCont b1 then ((b0 - 0xC0) * 64 + (b1 - 0x80), 2) else (runeError, 1)
      | _ => (runeError, 1)
    else if b0 < 0xF0 then
      match t with
      | b1 :: b2 :: _ =>
        let lo := if b0 = 0xE0 then 0xA0 else 0x80
        let hi := if b0 = 0xED then 0x9F else 0xBF
        if lo ≤ b1 && b1 ≤ hi && isCont b2 then
          ((b0 - 0xE0) * 4096 + (b1 - 0x80) * 64 + (b2 - 0x80), 3)
        else (runeError, 1)
      | _ => (runeError, 1)
    else if b0 < 0xF5 then
      match t with
      | b1 :: b2 :: b3 :: _ =>
        let lo := if b0 = 0xF0 then 0x90 else 0x80
        let hi := if b0 = 0xF4 then 0x8F else 0xBF
        if lo ≤ b1 && b1 ≤ hi && isCont b2 && isCont b3 then
          ((b0 - 0xF0) * 262144 + (b1 - 0x80) * 4096 + (b2 - 0x80) * 64 + (b3 - 0x80), 4)
        else (runeError, 1)
      | _ => (runeError, 1)
    else (runeError, 1)

def decodeRune (s : Bytes) : Nat × Nat := decodeNat ((s.take 4).map UInt8.toNat)

def validScalar (r : Int) : Bool := (0 ≤ r && r < 0xD800) || (0xE000 ≤ r && r ≤ 0x10FFFF)

def encodeNat (r : Nat) : List Nat :=
  if r < 0x80 then [r]
  else if r < 0x800 then [0xC0 + r / 64, 0x80 + r % 64]
  else if r < 0x10000 then [0xE0 + r / 4096, 0x80 + r / 64 % 64, 0x80 + r % 64]
  else [0xF0 + r / 262144, 0x80 + r / 4096 % 64, 0x80 + r / 64 % 64, 0x80 + r % 64]

/-- `bytes.Buffer.WriteRune(r)` for an `int32` rune `r` -/
def encodeRune (r : Int) : Bytes :=
  if validScalar r then (encodeNat r.toNat).map UInt8.ofNat else [0xEF, 0xBF, 0xBD]

/-- one step of a `range` loop: the rune, and the raw bytes it consumed -/
structure Item where
  rune : Nat
  raw : Bytes
deriving Repr, BEq, DecidableEq

/-- all iterations of `for idx, ch := range s` -/
def decodeAll (s : Bytes) : List Item :=
  if h : s = [] then [] else
    let w := max 1 (decodeRune s).2
    { rune := (decodeRune s).1, raw := s.take w } :: decodeAll (s.drop w)
termination_by s.length
decreasing_by
  have : 0 < s.length := List.length_pos_iff.mpr h
  simp only [List.length_drop]; omega

/-- an item produced by a decoding error (invalid or truncated sequence) -/
def Item.isError (it : Item) : Bool := it.rune == runeError && it.raw.length == 1

end Tally.Utf8
