import Tally.Prelude
/-!
# Model of the double-checked get-or-create paths (scope.go: Counter, Gauge, Timer, Histogram)

One (scope, kind, sanitized name) slot.  A call is: a read-locked probe (one atomic step), and on a
miss a write-locked re-check-and-create (one atomic step: the write lock is not held across schedule
points).  Between the two steps the thread holds no lock — that is the window the property is about.
A cached reporter's `Allocate*` is called inside the create step.  Any number of threads.
-/
namespace Tally.GetOrCreate

inductive Pc
  | idle
  | missed            -- probe found nothing: about to take the write lock
  | returned (id : Nat)
deriving Repr, DecidableEq

structure State where
  slot : Option Nat            -- the registered object
  allocs : Nat                 -- calls of the cached reporter's Allocate for this slot
  nextId : Nat
  pcs : List (Nat × Pc)
  results : List (Nat × Nat)   -- (thread, returned object) in order
deriving Repr, DecidableEq

def init : State := { slot := none, allocs := 0, nextId := 0, pcs := [], results := [] }
def updPcs (pcs : List (Nat × Pc)) (t : Nat) (p : Pc) : List (Nat × Pc) := (t, p) :: pcs.filter (·.1 != t)
def lookupPc (pcs : List (Nat × Pc)) (t : Nat) : Pc := (pcs.lookup t).getD .idle
def pcOf (s : State) (t : Nat) : Pc := lookupPc s.pcs t

inductive Ev
  | probe (t : Nat)      -- an idle thread calls the getter: read-locked lookup
  | create (t : Nat)     -- a thread that missed takes the write lock: re-check, maybe allocate and insert
  | finish (t : Nat)     -- the call returns (the thread may call again)
deriving Repr, DecidableEq

def step (s : State) : Ev → Option State
  | .probe t =>
    if pcOf s t != .idle then none else
    match s.slot with
    | some id => some { s with pcs := updPcs s.pcs t (.returned id), results := (t, id) :: s.results }
    | none => some { s with pcs := updPcs s.pcs t .missed }
  | .create t =>
    if pcOf s t != .missed then none else
    match s.slot with
    | some id => some { s with pcs := updPcs s.pcs t (.returned id), results := (t, id) :: s.results }
    | none =>
      some { slot := some s.nextId, allocs := s.allocs + 1, nextId := s.nextId + 1,
             pcs := updPcs s.pcs t (.returned s.nextId), results := (t, s.nextId) :: s.results }
  | .finish t =>
    match pcOf s t with
    | .returned _ => some { s with pcs := updPcs s.pcs t .idle }
    | _ => none

def run (s : State) : List Ev → Option State
  | [] => some s
  | e :: es => match step s e with
    | none => none
    | some s' => run s' es

end Tally.GetOrCreate
