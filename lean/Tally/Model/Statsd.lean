import Tally.Prelude
import Tally.F64Val
/-!
# Model of the StatsD reporter (statsd/reporter.go)

The reporter is a function from one report call to the list of calls it makes on the underlying
`statsd.Statter` (always exactly one).  Strings are byte lists.  The sample rate is a `float32`
carried as its bit pattern; a float64 is its bit pattern (`F64`).

Two Go library functions are re-implemented exactly and executably on integers:

* `fmt.Sprintf("%.Nf", x)` (`fmtFixed`): `strconv`'s `'f'` formatting with a fixed precision is the
  correctly rounded decimal (round half to even on the exact binary value) with `N` fractional
  digits; here `|x|·10^N = num·10^N / den` is rounded with exact `Nat` arithmetic.  `-0` and
  negative values that round to zero keep their sign (`"-0.000000"`); NaN, +Inf, -Inf render as
  `NaN`, `+Inf`, `-Inf`.
* `time.Duration.String()` (`durationString`): Go's integer algorithm (`fmtFrac`, `fmtInt`;
  sub-second values in `ns`/`µs`/`ms`, otherwise `h`/`m`/`s`; `"0s"`; `MinInt64` through the
  unsigned magnitude `2^63`).

Domain restriction: Go's `int64(v)` for a `float64` `v` is defined only when the truncated value
fits (`gaugeInDomain`); outside it (NaN, ±Inf, `|v| ≥ 2^63`) the result is implementation
specific and the model's `truncInt` is not claimed to agree.
-/
namespace Tally.Statsd
open Tally

/-! ## fixed byte strings -/

def bDash : UInt8 := 45   -- '-'
def bDot : UInt8 := 46    -- '.'
/-- `"infinity"` -/
def sInfinity : Bytes := [105, 110, 102, 105, 110, 105, 116, 121]
/-- `"-infinity"` -/
def sNegInfinity : Bytes := bDash :: sInfinity
/-- `"NaN"` -/
def sNaN : Bytes := [78, 97, 78]
/-- `"+Inf"` -/
def sPosInf : Bytes := [43, 73, 110, 102]
/-- `"-Inf"` -/
def sNegInf : Bytes := [45, 73, 110, 102]

/-! ## decimal digits of a natural number -/

def digitByte (d : Nat) : UInt8 := UInt8.ofNat (48 + d % 10)

/-- digits of `n`, most significant first, in front of `acc`; `fuel > number of digits` -/
def digitsCore : Nat → Nat → Bytes → Bytes
  | 0, _, acc => acc
  | fuel + 1, n, acc =>
    if n < 10 then digitByte n :: acc else digitsCore fuel (n / 10) (digitByte n :: acc)

/-- `strconv.Itoa` / `fmtInt` for a non-negative number: no leading zeros, `"0"` for zero -/
def natDigits (n : Nat) : Bytes := digitsCore (n + 1) n []

def zeros (k : Nat) : Bytes := List.replicate k 48

/-- left-pad with `'0'` to width `w` -/
def padLeft0 (w : Nat) (s : Bytes) : Bytes := zeros (w - s.length) ++ s

/-! ## `%.Nf` -/

/-- nearest integer to `num / den`, ties to even (`den > 0`) -/
def roundHalfEven (num den : Nat) : Nat :=
  let q := num / den
  let r := num % den
  if 2 * r < den then q else if den < 2 * r then q + 1 else q + q % 2

/-- `|x|·10^N` rounded half-even to an integer -/
def scaled (N : Nat) (x : F64) : Nat := roundHalfEven (F64.num x * 10^N) (F64.den x)

/-- the digits of a scaled magnitude `q = round(|x|·10^N)`: integer part, point, `N` digits -/
def fixedDigits (N q : Nat) : Bytes :=
  natDigits (q / 10^N) ++ (if N = 0 then [] else bDot :: padLeft0 N (natDigits (q % 10^N)))

/-- `fmt.Sprintf("%.Nf", x)` -/
def fmtFixed (N : Nat) (x : F64) : Bytes :=
  if F64.isNaN x then sNaN
  else if F64.isInf x then (if F64.signBit x then sNegInf else sPosInf)
  else (if F64.signBit x then [bDash] else []) ++ fixedDigits N (scaled N x)

/-! ## `time.Duration.String` -/

/-- the loop of `fmtFrac`: `i` remaining digits, value `v`, the `print` flag, digits so far -/
def fracLoop : Nat → Nat → Bool → Bytes → Bytes × Nat × Bool
  | 0, v, pr, acc => (acc, v, pr)
  | i + 1, v, pr, acc =>
    let d := v % 10
    let pr' := pr || d != 0
    fracLoop i (v / 10) pr' (if pr' then digitByte d :: acc else acc)

/-- `fmtFrac(buf, v, prec)`: the fraction text (`""` or `".ddd"` without trailing zeros) and `v / 10^prec` -/
def fmtFrac (v prec : Nat) : Bytes × Nat :=
  let (acc, v', pr) := fracLoop prec v false []
  (if pr then bDot :: acc else acc, v')

def uS : UInt8 := 115  -- 's'
def uM : UInt8 := 109  -- 'm'
def uH : UInt8 := 104  -- 'h'
def uN : UInt8 := 110  -- 'n'
/-- UTF-8 of U+00B5 'µ' -/
def uMicro : Bytes := [0xC2, 0xB5]

/-- text of the magnitude `u` nanoseconds -/
def durationMag (u : Nat) : Bytes :=
  if u < 1000000000 then
    if u = 0 then [48, uS]
    else if u < 1000 then
      let (f, v) := fmtFrac u 0
      natDigits v ++ f ++ [uN, uS]
    else if u < 1000000 then
      let (f, v) := fmtFrac u 3
      natDigits v ++ f ++ uMicro ++ [uS]
    else
      let (f, v) := fmtFrac u 6
      natDigits v ++ f ++ [uM, uS]
  else
    let (f, v) := fmtFrac u 9
    let secs := natDigits (v % 60) ++ f ++ [uS]
    let mins := v / 60
    if mins > 0 then
      let ms := natDigits (mins % 60) ++ [uM] ++ secs
      let hours := mins / 60
      if hours > 0 then natDigits hours ++ [uH] ++ ms else ms
    else secs

/-- `time.Duration(d).String()` for an int64 `d` -/
def durationString (d : Int) : Bytes :=
  if d < 0 then bDash :: durationMag d.natAbs else durationMag d.natAbs

/-! ## `int64(v)` on a float64 -/

/-- truncation toward zero of a finite float -/
def truncInt (x : F64) : Int :=
  let m : Int := (F64.num x / F64.den x : Nat)
  if F64.signBit x then -m else m

/-- where Go defines `int64(v)`: finite and the truncated value is an int64 -/
def gaugeInDomain (x : F64) : Bool := F64.isFinite x && inInt64 (truncInt x)

/-! ## the reporter -/

structure Options where
  /-- `Options.SampleRate` as float32 bits -/
  rate : UInt32
  /-- `Options.HistogramBucketNamePrecision` -/
  prec : Nat
deriving DecidableEq, Repr

/-- float32 `1.0` -/
def rateOne : UInt32 := 0x3F800000
/-- `opts.SampleRate == 0` as a float32 comparison: `+0` and `-0` -/
def rateIsZero (r : UInt32) : Bool := r.toNat % 2^31 == 0
def effRate (o : Options) : UInt32 := if rateIsZero o.rate then rateOne else o.rate

/-- `DefaultHistogramBucketNamePrecision` (tied to the source in `TallyProofs/Tie/C18.lean`) -/
def defaultPrecision : Nat := 6
def effPrec (o : Options) : Nat := if o.prec = 0 then defaultPrecision else o.prec

def valueBucketString (N : Nat) (x : F64) : Bytes :=
  if x == F64.maxFloat then sInfinity
  else if x == F64.negMaxFloat then sNegInfinity
  else fmtFixed N x

def durationBucketString (d : Int) : Bytes :=
  if d = maxInt64 then sInfinity
  else if d = minInt64 then sNegInfinity
  else durationString d

/-- `fmt.Sprintf("%s.%s-%s", name, lo, hi)` -/
def bucketName (name lo hi : Bytes) : Bytes := name ++ (bDot :: (lo ++ (bDash :: hi)))

inductive Kind
  | inc | gauge | timing
  /-- any other `Statter` method (never called by the reporter) -/
  | other
deriving DecidableEq, Repr

/-- one call on the `statsd.Statter` -/
structure Call where
  kind : Kind
  name : Bytes
  value : Int
  rate : UInt32
  /-- number of `statsd.Tag` arguments passed -/
  ntags : Nat
deriving DecidableEq, Repr

abbrev Tags := List (Bytes × Bytes)

inductive Report
  | counter (name : Bytes) (tags : Tags) (v : Int)
  | gauge (name : Bytes) (tags : Tags) (v : F64)
  | timer (name : Bytes) (tags : Tags) (d : Int)
  | histValue (name : Bytes) (tags : Tags) (lo hi : F64) (samples : Int)
  | histDuration (name : Bytes) (tags : Tags) (lo hi : Int) (samples : Int)
deriving DecidableEq, Repr

def Report.withTags : Report → Tags → Report
  | .counter n _ v, t => .counter n t v
  | .gauge n _ v, t => .gauge n t v
  | .timer n _ d, t => .timer n t d
  | .histValue n _ lo hi s, t => .histValue n t lo hi s
  | .histDuration n _ lo hi s, t => .histDuration n t lo hi s

/-- the statter calls made for one report call -/
def run (o : Options) : Report → List Call
  | .counter n _ v => [⟨.inc, n, v, effRate o, 0⟩]
  | .gauge n _ v => [⟨.gauge, n, truncInt v, effRate o, 0⟩]
  | .timer n _ d => [⟨.timing, n, d, effRate o, 0⟩]
  | .histValue n _ lo hi s =>
    [⟨.inc, bucketName n (valueBucketString (effPrec o) lo) (valueBucketString (effPrec o) hi), s, effRate o, 0⟩]
  | .histDuration n _ lo hi s =>
    [⟨.inc, bucketName n (durationBucketString lo) (durationBucketString hi), s, effRate o, 0⟩]

/-- `Capabilities()`: `Reporting()`, `Tagging()` -/
def reporting : Bool := true
def tagging : Bool := false

end Tally.Statsd
