import Tally.Model.M3Batch
/-!
# M3 reporter: `process()` with its memory — the recycled tag slices of histogram bucket samples

`Tally/Model/M3Batch.lean` treats a queue item as a metric that already carries the tags it is sent
with.  The Go loop does not: a histogram bucket sample borrows a slice from a `sync.Pool`, writes the
metric's own tags and the two bucket tags into its backing array, and lets the open batch point at
that array until the batch is flushed; the flush returns every borrowed slice to the pool.

```
for smet := range r.metCh {
    flush := !smet.set && len(mets) > 0
    if flush || bytes+smet.size > r.freeBytes {
        mets = r.flush(mets)                       // reads every mets[i].Tags now      (`emit`)
        bytes = 0
        for i := range borrowedTags { extraTags.Put(borrowedTags[i][:0]) }             (`recycle`)
        borrowedTags = borrowedTags[:0]
    }
    if !smet.set { continue }
    m := smet.m
    if len(smet.bucket) > 0 {
        tags := extraTags.Get()                    // any pooled slice, or a new one    (`get`)
        tags = append(append(tags, m.Tags...), idTag, bucketTag)   // in place          (`overwrite`)
        borrowedTags = append(borrowedTags, tags); m.Tags = tags
    }
    mets = append(mets, m); bytes += smet.size
}
r.flush(mets)
```

Here the memory is explicit: a heap of backing arrays indexed by array id, the pool and the borrowed
list as lists of array ids, and batch entries whose tags are either the metric's own immutable slice
or a view `(array id, length)` of a heap array.  `sync.Pool`'s freedom is a `Choice` per `Get`.
Capacities are ignored — every write is in place from index 0, whatever the length — which is the
adversarial reading (reuse is maximal; an `append` that reallocates only makes sharing rarer).

`Mutant` is the seeded defect "c13-hist-tags-recycled-early": the sample's tags are built before the
flush-if-needed block, so the array just borrowed is handed back to the pool while the open batch
still points at it.
-/
namespace Tally.M3.Pool
open Tally Tally.Thrift Tally.M3

/-- the backing arrays, indexed by array id -/
abbrev Heap := List (List MetricTag)

/-- `Get`: `none` = the pool allocates (`New`), `some k` = it hands out the `k`-th pooled array
(allocates when there is no such array) -/
abbrev Choice := Option Nat

/-- `Metric.Tags` of a batch entry -/
inductive TagsView
  /-- the metric's own slice (`nil` when `none`); nobody writes to it -/
  | own (ts : Option (List MetricTag))
  /-- the first `len` elements of heap array `id` -/
  | ref (id : Nat) (len : Nat)
deriving DecidableEq, Repr

/-- an element of `mets` -/
structure Entry where
  /-- name, value, timestamp; `hdr.tags` = the metric's OWN tags -/
  hdr : Metric
  size : Nat
  /-- where `Tags` points -/
  tags : TagsView
  /-- ghost: `(bucket-id tag, bucket tag)` of the sample this entry was made from.  No transition and
  no read ever looks at it; it only lets the invariant say what the array must contain. -/
  bucket : Option (MetricTag × MetricTag)
deriving DecidableEq, Repr

/-- a queue item (`sizedMetric`) -/
inductive PItem
  /-- `set = true`: the metric with its own tags in `m.tags`, what it is charged, and for a histogram
  bucket sample (`len(smet.bucket) > 0`) the two extra tags -/
  | met (m : Metric) (size : Nat) (bucket : Option (MetricTag × MetricTag))
  /-- `set = false`: a flush marker (size 0) -/
  | flush
deriving DecidableEq, Repr

structure PState where
  heap : Heap
  /-- `extraTags`: ids of the arrays in the pool -/
  pool : List Nat
  /-- `borrowedTags` -/
  borrowed : List Nat
  /-- `mets` -/
  cur : List Entry
  bytes : Nat
  /-- batches emitted so far, oldest first, as they were read at their flush -/
  out : List (List Sized)
deriving DecidableEq, Repr

def PState.init : PState := { heap := [], pool := [], borrowed := [], cur := [], bytes := 0, out := [] }

/-- the content of array `id` -/
def arr (heap : Heap) (id : Nat) : List MetricTag := heap.getD id []

/-- what a reader of `Tags` sees -/
def readTags (heap : Heap) : TagsView → Option (List MetricTag)
  | .own ts => ts
  | .ref id len => some ((arr heap id).take len)

/-- the metric as the thrift writer sees it at this moment -/
def resolve (heap : Heap) (e : Entry) : Sized :=
  { m := { e.hdr with tags := readTags heap e.tags }, size := e.size }

/-- `mets = r.flush(mets); bytes = 0`: the batch is read from the heap NOW -/
def emit (s : PState) : PState :=
  if s.cur.isEmpty then { s with bytes := 0 }
  else { s with cur := [], bytes := 0, out := s.out ++ [s.cur.map (resolve s.heap)] }

/-- every borrowed array goes back to the pool -/
def recycle (s : PState) : PState := { s with pool := s.pool ++ s.borrowed, borrowed := [] }

/-- the body of `if flush || bytes+smet.size > r.freeBytes { … }` -/
def flushBlock (s : PState) : PState := recycle (emit s)

/-- `New`: a fresh array (empty: capacity is not modelled) at the next free id -/
def alloc (s : PState) : Nat × PState := (s.heap.length, { s with heap := s.heap ++ [[]] })

/-- `extraTags.Get()`: the array id handed out, and the state without it -/
def get (s : PState) : Choice → Nat × PState
  | none => alloc s
  | some k =>
    match s.pool[k]? with
    | some id => (id, { s with pool := s.pool.eraseIdx k })
    | none => alloc s

/-- `append(tags[:0], new...)` without reallocation: the first `new.length` cells are overwritten,
the rest of the array keeps what it held -/
def overwrite (old new : List MetricTag) : List MetricTag := new ++ old.drop new.length

/-- the tags a bucket sample is sent with (`withBucketTags`) -/
def bucketTags (own : Option (List MetricTag)) (b : MetricTag × MetricTag) : List MetricTag :=
  own.getD [] ++ [b.1, b.2]

/-- `m := smet.m; if len(smet.bucket) > 0 { … }`: the entry for the sample, and the state after the
borrow -/
def mkEntry (s : PState) (m : Metric) (size : Nat) (bucket : Option (MetricTag × MetricTag))
    (c : Choice) : Entry × PState :=
  match bucket with
  | none => ({ hdr := m, size := size, tags := .own m.tags, bucket := none }, s)
  | some b =>
    let g := get s c                        -- `g.1` the array, `g.2` the state without it
    let new := bucketTags m.tags b
    ({ hdr := m, size := size, tags := .ref g.1 new.length, bucket := some b },
     { g.2 with heap := g.2.heap.set g.1 (overwrite (arr g.2.heap g.1) new),
                borrowed := g.2.borrowed ++ [g.1] })

/-- `mets = append(mets, m); bytes += smet.size` -/
def push (s : PState) (e : Entry) : PState := { s with cur := s.cur ++ [e], bytes := s.bytes + e.size }

/-- one iteration of the loop -/
def step (free : Nat) (s : PState) : PItem → Choice → PState
  | .flush, _ => if !s.cur.isEmpty || decide (s.bytes + 0 > free) then flushBlock s else s
  | .met m size bucket, c =>
    let s1 := if s.bytes + size > free then flushBlock s else s
    let r := mkEntry s1 m size bucket c      -- `r.1` the entry, `r.2` the state after the borrow
    push r.2 r.1

/-- the choice for the next item; the pool allocates once the list is exhausted -/
def nextChoice (cs : List Choice) : Choice := cs.head?.getD none

/-- the loop: item `i` is processed with choice `i` (only bucket samples look at theirs) -/
def consume (free : Nat) : PState → List PItem → List Choice → PState
  | s, [], _ => s
  | s, it :: rest, cs => consume free (step free s it (nextChoice cs)) rest cs.tail

/-- the final `r.flush(mets)` -/
def finish (s : PState) : PState := emit s

/-- the state `process()` ends in -/
def runState (free : Nat) (items : List PItem) (cs : List Choice) : PState :=
  finish (consume free PState.init items cs)

/-- the batches `process()` emits -/
def runPool (free : Nat) (items : List PItem) (cs : List Choice) : List (List Sized) :=
  (runState free items cs).out

/-- the item of the abstract batching model: the metric in the form it is to be sent in -/
def abs : PItem → Item
  | .met m size none => .met { m := m, size := size }
  | .met m size (some b) => .met { m := withBucketTags m b.1 b.2, size := size }
  | .flush => .flush

/-! ### the seeded defect: the sample's tags are built before the flush-if-needed block -/
namespace Mutant

def step (free : Nat) (s : PState) : PItem → Choice → PState
  | .flush, _ => if !s.cur.isEmpty || decide (s.bytes + 0 > free) then flushBlock s else s
  | .met m size bucket, c =>
    let r := mkEntry s m size bucket c
    let s2 := if r.2.bytes + size > free then flushBlock r.2 else r.2
    push s2 r.1

def consume (free : Nat) : PState → List PItem → List Choice → PState
  | s, [], _ => s
  | s, it :: rest, cs => consume free (step free s it (nextChoice cs)) rest cs.tail

def runState (free : Nat) (items : List PItem) (cs : List Choice) : PState :=
  finish (consume free PState.init items cs)

def runPool (free : Nat) (items : List PItem) (cs : List Choice) : List (List Sized) :=
  (runState free items cs).out

end Mutant

end Tally.M3.Pool
