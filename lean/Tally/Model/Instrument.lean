import Tally.Model.Scope
/-!
# Stopwatches and instrumented calls (types.go `Stopwatch`, stats.go `timer.Start/RecordStopwatch`,
histogram.go `histogram.Start/RecordStopwatch`, instrument/call.go `call.Exec`)

Core Lean only.  The process clock is a function `now : Nat → Int` (int64 nanoseconds): the
`k`-th call of `globalNow` returns `now k`; the world carries the number of calls made so far.
Elapsed time is `t₁ - t₀` in int64 arithmetic (`wrap64`).  Every scope operation performed is
appended to `trace` and its output to `outs`, so "exactly one" statements can be read off.
-/
namespace Tally.Instrument
open Tally Tally.Scope

structure World where
  st : St
  tick : Nat            -- number of `globalNow()` calls so far
  calls : Nat           -- number of invocations of instrumented functions so far
  trace : List Op       -- scope operations performed, oldest first
  outs : List Out       -- their outputs

/-- `globalNow()` -/
def globalNow (now : Nat → Int) (w : World) : Int × World := (now w.tick, { w with tick := w.tick + 1 })

/-- perform one scope operation -/
def doOp (w : World) (op : Op) : World :=
  { w with st := (step w.st op).1, trace := w.trace ++ [op], outs := w.outs ++ [(step w.st op).2] }

/-- what a stopwatch reports to: a timer handle or a (duration) histogram handle -/
inductive Recorder
  | timer (m : Nat)
  | hist (m : Nat)

/-- `Stopwatch{start, recorder}` -/
structure Stopwatch where
  start : Int
  recorder : Recorder

/-- `Timer.Start()` / `Histogram.Start()`: `NewStopwatch(globalNow(), r)` -/
def start (now : Nat → Int) (r : Recorder) (w : World) : Stopwatch × World :=
  ({ start := (globalNow now w).1, recorder := r }, (globalNow now w).2)

/-- the operation `RecordStopwatch` ends in: `t.Record(d)` resp. `h.RecordDuration(d)` -/
def recOp (r : Recorder) (d : Int) : Op :=
  match r with
  | .timer m => .record m d
  | .hist m => .recd m d

/-- `Stopwatch.Stop()`: `d := globalNow().Sub(start)`, then record `d` -/
def stop (now : Nat → Int) (sw : Stopwatch) (w : World) : World :=
  doOp (globalNow now w).2 (recOp sw.recorder (wrap64 ((globalNow now w).1 - sw.start)))

abbrev ErrId := Nat

/-- the instrumented function `f ExecFn`: its result (`none` = `nil` error) and the number of clock
readings that happen while it runs (time passing) -/
structure Fn where
  result : Option ErrId
  ticks : Nat

/-- calling `f()` -/
def callFn (f : Fn) (w : World) : Option ErrId × World :=
  (f.result, { w with calls := w.calls + 1, tick := w.tick + f.ticks })

/-- `call{success, err, timing}` -/
structure Call where
  success : Nat
  err : Nat
  timing : Nat

/-- `call.Exec(f)` -/
def exec (now : Nat → Int) (c : Call) (f : Fn) (w : World) : Option ErrId × World :=
  let sw := start now (.timer c.timing) w
  let r := callFn f sw.2
  let w3 := stop now sw.1 r.2
  match r.1 with
  | some e => (some e, doOp w3 (.inc c.err 1))
  | none => (none, doOp w3 (.inc c.success 1))

end Tally.Instrument
