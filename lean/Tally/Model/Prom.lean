import Tally.Prelude
import Tally.Model.Buckets
/-!
# Model of tally's Prometheus reporter (prometheus/reporter.go) on top of a model of the slice of
# the client_golang v1.11.0 contract it relies on, driven by a model of a tally scope's buffering

Layers, bottom up:

* **client contract** (`register`, `Val`, `Val.add/set/observe`): a registry is the list of
  registered families; with no constant labels the descriptor id is a function of the
  fully-qualified name alone and the dimension hash a function of help string + label-name set, so
  `Register` fails exactly when the name is already registered — as `AlreadyRegisteredError` when
  help and label names agree, otherwise as "a previously registered descriptor with the same
  fully-qualified name … has different label names or a different help string".  A histogram series
  keeps non-cumulative bucket counters indexed by `sort.SearchFloat64s(upperBounds, v)` (the same
  least-index search as tally's, un-clamped: index `len` is the implicit `+Inf` bucket) and a total
  count; a summary keeps a count; a counter an exact non-negative integer (domain: integer
  increments, sums `< 2^53`, where float addition is exact); a gauge the bits last `Set`.
* **reporter**: the three by-id caches (`counters`, `gauges`, `timers`; the id
  `canonicalMetricID(name, tagKeys)` is represented by the pair `(name, tagKeys)` it is an injective
  image of for Prometheus-valid names — C05), the nil-able fields of `promTimerVec` as `Option`,
  the error callback as the list of errors it was given, `noopMetric` as `Handle.noop`.
  "Dereference of a nil vec" is the explicit outcome `Outcome.nilDeref`.
  `Variant.repaired` is what the property demands (D10: a cache hit on an entry of the other timer
  flavour is an error); `Variant.legacy` is the pinned code (returns the entry's nil field, no error).
* **scope buffering** (`Metric`, `localStep`): counters accumulate a pending delta delivered by a
  report pass, gauges remember the last value and an `updated` flag, timers report immediately,
  histograms count per tally bucket (C03 placement) and a pass observes the bucket's upper bound
  `pending` times.  The vectors handed out by `RegisterCounter` / `RegisterGauge` / `RegisterTimer`
  are used by the caller directly (`rawCounter`, `rawGauge`, `timer`): every `Add` / `Set` /
  `Observe` reaches the series at once and a report pass has nothing to deliver.  `RegisterCounter`
  / `RegisterGauge` take the help text from the caller (`counterAsD desc`, `gaugeAsD desc`;
  `counterAs` / `gaugeAs` are the uses with tally's default text): the same text for a counter and a
  gauge of one name and one label set makes the two descriptors equal, so the client answers the
  second registration with `AlreadyRegisteredError` rather than with "previously registered".

Tags are association lists sorted by key with distinct keys (obligation of the caller; the driver
rejects anything else), so `(name, tags)` is the canonical identity of a series.
-/
namespace Tally.Prom
open Tally

/-! ## client contract -/

inductive Kind | counter | gauge | summary | histogram
  deriving DecidableEq, Repr

/-- the help strings tally registers with are `name ++ helpSuffix kind` -/
def helpSuffix : Kind → Bytes
  | .counter => [32, 99, 111, 117, 110, 116, 101, 114]
  | .gauge => [32, 103, 97, 117, 103, 101]
  | .summary => [32, 115, 117, 109, 109, 97, 114, 121]
  | .histogram => [32, 104, 105, 115, 116, 111, 103, 114, 97, 109]

abbrev Tags := List (Bytes × Bytes)

/-- a registered collector: one descriptor (no constant labels) plus what a new series starts from -/
structure Family where
  name : Bytes
  help : Bytes
  labels : List Bytes
  kind : Kind
  bounds : List F64
  deriving DecidableEq, Repr

inductive RegErr | already | inconsistent | flavour
  deriving DecidableEq, Repr

inductive RegResult
  | ok (reg : List Family)
  | err (e : RegErr)

def findFamily : List Family → Bytes → Option Family
  | [], _ => none
  | g :: t, n => if g.name = n then some g else findFamily t n

/-- `(*Registry).Register` for a collector with a single valid descriptor without constant labels -/
def register (reg : List Family) (f : Family) : RegResult :=
  match findFamily reg f.name with
  | none => .ok (reg ++ [f])
  | some g => if g.help = f.help ∧ g.labels = f.labels then .err .already else .err .inconsistent

structure SeriesKey where
  name : Bytes
  labels : Tags
  deriving DecidableEq, Repr

inductive Val
  | counter (n : Nat)
  | gauge (bits : F64)
  | summary (count : Nat)
  | histogram (bounds : List F64) (buckets : List Nat) (count : Nat)
  deriving DecidableEq, Repr

/-- state of a series freshly created by `vec.With(labels)` -/
def Val.zero (f : Family) : Val :=
  match f.kind with
  | .counter => .counter 0
  | .gauge => .gauge 0
  | .summary => .summary 0
  | .histogram => .histogram f.bounds (f.bounds.map fun _ => 0) 0

/-- `Counter.Add` of a non-negative integer -/
def Val.add (v : Val) (n : Nat) : Val :=
  match v with
  | .counter m => .counter (m + n)
  | v => v

/-- `Gauge.Set` -/
def Val.set (v : Val) (b : F64) : Val :=
  match v with
  | .gauge _ => .gauge b
  | v => v

def bump : List Nat → Nat → List Nat
  | [], _ => []
  | x :: t, 0 => (x + 1) :: t
  | x :: t, i + 1 => x :: bump t i

/-- `Observe`: histogram — `counts[SearchFloat64s(upperBounds, v)]++` unless that is the implicit
`+Inf` bucket, `count++`; summary — `count++` (sum and quantiles are not modelled) -/
def Val.observe (v : Val) (x : F64) : Val :=
  match v with
  | .summary c => .summary (c + 1)
  | .histogram bs bk c =>
    let i := Buckets.rawPlaceValue bs x
    .histogram bs (if i < bs.length then bump bk i else bk) (c + 1)
  | v => v

/-- the loop of `cachedHistogramBucket.ReportSamples` -/
def Val.observeN (v : Val) (x : F64) : Nat → Val
  | 0 => v
  | n + 1 => (v.observe x).observeN x n

def getS : List (SeriesKey × Val) → SeriesKey → Option Val
  | [], _ => none
  | (k', v') :: t, k => if k' = k then some v' else getS t k

def setS : List (SeriesKey × Val) → SeriesKey → Val → List (SeriesKey × Val)
  | [], k, v => [(k, v)]
  | (k', v') :: t, k, v => if k' = k then (k, v) :: t else (k', v') :: setS t k v

/-! ## tally's reporter -/

/-- `promTimerVec`: two nil-able vector pointers; a vector is identified with its family -/
structure TimerVec where
  summary : Option Family
  histogram : Option Family
  deriving DecidableEq, Repr

/-- stands for `canonicalMetricID(name, tagKeys)` -/
abbrev MetricKey := Bytes × List Bytes

def lookupKey : List (MetricKey × α) → MetricKey → Option α
  | [], _ => none
  | (k', a) :: t, k => if k' = k then some a else lookupKey t k

structure Reporter where
  reg : List Family := []
  counters : List (MetricKey × Family) := []
  gauges : List (MetricKey × Family) := []
  timers : List (MetricKey × TimerVec) := []
  series : List (SeriesKey × Val) := []
  /-- every error handed to `OnRegisterError`, in order -/
  errors : List RegErr := []

inductive Variant | repaired | legacy
  deriving DecidableEq, Repr

structure Cfg where
  variant : Variant := .repaired
  /-- `DefaultTimerType == HistogramTimerType` -/
  histTimers : Bool := false
  /-- the configured `OnRegisterError` panics -/
  cbPanics : Bool := false
  /-- `DefaultHistogramBuckets` -/
  defaultBounds : List F64 := []

/-- result of `counterVec` / `gaugeVec` / `summaryVec` / `histogramVec`: a (possibly nil) vector
pointer with a nil error, or an error -/
inductive VecResult
  | vec (f : Option Family)
  | err (e : RegErr)

def mkFamily (name : Bytes) (keys : List Bytes) (kind : Kind) (bounds : List F64) : Family :=
  { name := name, help := name ++ helpSuffix kind, labels := keys, kind := kind, bounds := bounds }

def counterVec (r : Reporter) (name : Bytes) (keys : List Bytes) : Reporter × VecResult :=
  match lookupKey r.counters (name, keys) with
  | some f => (r, .vec (some f))
  | none =>
    let f := mkFamily name keys .counter []
    match register r.reg f with
    | .err e => (r, .err e)
    | .ok reg' => ({ r with reg := reg', counters := ((name, keys), f) :: r.counters }, .vec (some f))

def gaugeVec (r : Reporter) (name : Bytes) (keys : List Bytes) : Reporter × VecResult :=
  match lookupKey r.gauges (name, keys) with
  | some f => (r, .vec (some f))
  | none =>
    let f := mkFamily name keys .gauge []
    match register r.reg f with
    | .err e => (r, .err e)
    | .ok reg' => ({ r with reg := reg', gauges := ((name, keys), f) :: r.gauges }, .vec (some f))

/-- the family `counterVec` / `gaugeVec` build when the caller supplies the help string:
`prom.CounterOpts{Name: name, Help: desc}` / `prom.GaugeOpts{Name: name, Help: desc}` with `tagKeys`
(`mkFamily name keys kind bounds = mkFamilyD name keys kind bounds (name ++ helpSuffix kind)`) -/
def mkFamilyD (name : Bytes) (keys : List Bytes) (kind : Kind) (bounds : List F64) (desc : Bytes) : Family :=
  { name := name, help := desc, labels := keys, kind := kind, bounds := bounds }

/-- `r.counterVec(name, tagKeys, desc)` with the caller's `desc` (`RegisterCounter`): the Go code is
`id := canonicalMetricID(name, tagKeys); if ctr, ok := r.counters[id]; ok { return ctr, nil };
ctr := prom.NewCounterVec(prom.CounterOpts{Name: name, Help: desc}, tagKeys);
if err := r.registerer.Register(ctr); err != nil { return nil, err }; r.counters[id] = ctr; return ctr, nil`
— the cache lookup by `(name, keys)` comes first (a hit ignores `desc`); `counterVec` is the instance
`desc = name ++ helpSuffix .counter` -/
def counterVecD (r : Reporter) (name : Bytes) (keys : List Bytes) (desc : Bytes) : Reporter × VecResult :=
  match lookupKey r.counters (name, keys) with
  | some f => (r, .vec (some f))
  | none =>
    let f := mkFamilyD name keys .counter [] desc
    match register r.reg f with
    | .err e => (r, .err e)
    | .ok reg' => ({ r with reg := reg', counters := ((name, keys), f) :: r.counters }, .vec (some f))

/-- `r.gaugeVec(name, tagKeys, desc)` with the caller's `desc` (`RegisterGauge`); `gaugeVec` is the
instance `desc = name ++ helpSuffix .gauge` -/
def gaugeVecD (r : Reporter) (name : Bytes) (keys : List Bytes) (desc : Bytes) : Reporter × VecResult :=
  match lookupKey r.gauges (name, keys) with
  | some f => (r, .vec (some f))
  | none =>
    let f := mkFamilyD name keys .gauge [] desc
    match register r.reg f with
    | .err e => (r, .err e)
    | .ok reg' => ({ r with reg := reg', gauges := ((name, keys), f) :: r.gauges }, .vec (some f))

/-- what a cache hit hands back: the pinned code returns the field as it is; the repaired code
turns a nil field into an error -/
def hitResult (v : Variant) (field : Option Family) : VecResult :=
  match v, field with
  | .legacy, f => .vec f
  | .repaired, some f => .vec (some f)
  | .repaired, none => .err .flavour

def summaryVec (v : Variant) (r : Reporter) (name : Bytes) (keys : List Bytes) : Reporter × VecResult :=
  match lookupKey r.timers (name, keys) with
  | some e => (r, hitResult v e.summary)
  | none =>
    let f := mkFamily name keys .summary []
    match register r.reg f with
    | .err e => (r, .err e)
    | .ok reg' =>
      ({ r with reg := reg', timers := ((name, keys), { summary := some f, histogram := none }) :: r.timers },
        .vec (some f))

def histogramVec (v : Variant) (r : Reporter) (name : Bytes) (keys : List Bytes) (bounds : List F64) :
    Reporter × VecResult :=
  match lookupKey r.timers (name, keys) with
  | some e => (r, hitResult v e.histogram)
  | none =>
    let f := mkFamily name keys .histogram bounds
    match register r.reg f with
    | .err e => (r, .err e)
    | .ok reg' =>
      ({ r with reg := reg', timers := ((name, keys), { summary := none, histogram := some f }) :: r.timers },
        .vec (some f))

/-- `vec.With(tags)`: get or create the series -/
def withSeries (r : Reporter) (f : Family) (tags : Tags) : Reporter :=
  let k : SeriesKey := ⟨f.name, tags⟩
  match getS r.series k with
  | some _ => r
  | none => { r with series := setS r.series k (Val.zero f) }

inductive Outcome
  | usable (k : SeriesKey)
  | noop
  | callbackPanic
  | regError (e : RegErr)
  | nilDeref
  deriving DecidableEq, Repr

/-- the tail of every `Allocate*`: error → callback → no-op; otherwise `vec.With(tags)` -/
def finishAlloc (cfg : Cfg) (p : Reporter × VecResult) (tags : Tags) : Reporter × Outcome :=
  match p with
  | (r, .err e) =>
    ({ r with errors := r.errors ++ [e] }, if cfg.cbPanics then .callbackPanic else .noop)
  | (r, .vec none) => (r, .nilDeref)
  | (r, .vec (some f)) => (withSeries r f tags, .usable ⟨f.name, tags⟩)

/-- the caller of `RegisterTimer` / `RegisterCounter` / `RegisterGauge`: an error comes back to the caller, a non-nil vector is used
with `With(tags)`, a nil vector with a nil error is a nil dereference waiting to happen -/
def finishRegister (p : Reporter × VecResult) (tags : Tags) : Reporter × Outcome :=
  match p with
  | (r, .err e) => (r, .regError e)
  | (r, .vec none) => (r, .nilDeref)
  | (r, .vec (some f)) => (withSeries r f tags, .usable ⟨f.name, tags⟩)

/-! ## bucket specifications as a tally histogram and as Prometheus bounds -/

inductive HSpec
  /-- `ValueBuckets` -/
  | values (spec : List F64)
  /-- `DurationBuckets`: each bound with `float64(d)/float64(time.Second)` as computed by Go, and
  that conversion of `MaxInt64` -/
  | durations (spec : List (Int × F64)) (maxSecs : F64)
  deriving DecidableEq, Repr

inductive Sample
  | value (v : F64)
  | duration (d : Int)
  deriving DecidableEq, Repr

/-- `buckets.AsValues()`: the bounds the Prometheus histogram is created with -/
def HSpec.promBounds : HSpec → List F64
  | .values s => s
  | .durations s _ => s.map (·.2)

/-- per tally bucket, the float `ValueBucket` / `DurationBucket` keep as `upperBound` -/
def HSpec.obs : HSpec → List F64
  | .values s => Buckets.valueUppers s
  | .durations s m => (Buckets.sortByKey (fun p => p.1) s).map (·.2) ++ [m]

/-- `RecordValue` / `RecordDuration` (each is a no-op on a histogram of the other type) -/
def HSpec.place : HSpec → Sample → Option Nat
  | .values s, .value v => some (Buckets.placeValue (Buckets.valueUppers s) v)
  | .durations s _, .duration d => some (Buckets.placeKey (Buckets.durationUppers (s.map (·.1))) d)
  | _, _ => none

inductive UseKind
  | counter
  | gauge
  /-- `AllocateTimer`: the reporter's default flavour -/
  | timer
  /-- `RegisterTimer` with an explicit flavour, then `With(tags)` by the caller -/
  | timerAs (hist : Bool)
  | histogram (spec : HSpec)
  /-- `RegisterCounter`, then `With(tags)` by the caller, who `Add`s to the Prometheus counter directly -/
  | counterAs
  /-- `RegisterGauge`, then `With(tags)` by the caller, who `Set`s the Prometheus gauge directly -/
  | gaugeAs
  /-- `RegisterCounter(name, keys, desc)` with the caller's own help text, then `With(tags)` by the
  caller (`counterAs` behaves as `counterAsD (name ++ helpSuffix .counter)`) -/
  | counterAsD (desc : Bytes)
  /-- `RegisterGauge(name, keys, desc)` with the caller's own help text, then `With(tags)` by the caller -/
  | gaugeAsD (desc : Bytes)
  deriving DecidableEq, Repr

def keysOf (tags : Tags) : List Bytes := tags.map (·.1)

/-- one first use through the reporter -/
def useMetric (cfg : Cfg) (r : Reporter) (kind : UseKind) (name : Bytes) (tags : Tags) : Reporter × Outcome :=
  match kind with
  | .counter => finishAlloc cfg (counterVec r name (keysOf tags)) tags
  | .gauge => finishAlloc cfg (gaugeVec r name (keysOf tags)) tags
  | .timer =>
    if cfg.histTimers then finishAlloc cfg (histogramVec cfg.variant r name (keysOf tags) cfg.defaultBounds) tags
    else finishAlloc cfg (summaryVec cfg.variant r name (keysOf tags)) tags
  | .timerAs true => finishRegister (histogramVec cfg.variant r name (keysOf tags) cfg.defaultBounds) tags
  | .timerAs false => finishRegister (summaryVec cfg.variant r name (keysOf tags)) tags
  | .histogram spec => finishAlloc cfg (histogramVec cfg.variant r name (keysOf tags) spec.promBounds) tags
  | .counterAs => finishRegister (counterVec r name (keysOf tags)) tags
  | .gaugeAs => finishRegister (gaugeVec r name (keysOf tags)) tags
  | .counterAsD desc => finishRegister (counterVecD r name (keysOf tags) desc) tags
  | .gaugeAsD desc => finishRegister (gaugeVecD r name (keysOf tags) desc) tags

/-! ## a tally scope's metric objects -/

inductive Handle
  | series (k : SeriesKey)
  | noop
  deriving DecidableEq, Repr

inductive Metric
  | counter (h : Handle) (pending : Nat)
  | gauge (h : Handle) (curr : F64) (updated : Bool)
  | timer (h : Handle)
  | histogram (h : Handle) (spec : HSpec) (pending : List Nat)
  /-- the Prometheus counter handed out by `RegisterCounter(…).With(tags)`: no tally-side buffering -/
  | rawCounter (h : Handle)
  /-- the Prometheus gauge handed out by `RegisterGauge(…).With(tags)`: no tally-side buffering -/
  | rawGauge (h : Handle)
  /-- the first use panicked or returned an error: the caller holds nothing -/
  | dead
  deriving DecidableEq, Repr

def Metric.handle : Metric → Handle
  | .counter h _ => h
  | .gauge h _ _ => h
  | .timer h => h
  | .histogram h _ _ => h
  | .rawCounter h => h
  | .rawGauge h => h
  | .dead => .noop

/-- events on one metric object -/
inductive LEv
  | inc (n : Nat)
  | update (bits : F64)
  /-- `Timer.Record(d)` with `float64(d)/float64(time.Second)` as computed by Go -/
  | record (secs : F64)
  | sample (s : Sample)
  | pass
  deriving DecidableEq, Repr

/-- deliver the pending per-bucket counts: bucket `i` observes its upper bound `pending[i]` times -/
def flushBuckets (v : Val) : List F64 → List Nat → Val
  | x :: xs, n :: ns => flushBuckets (v.observeN x n) xs ns
  | _, _ => v

/-- one event on one metric object and the series it reports into -/
def localStep (m : Metric) (v : Val) (e : LEv) : Metric × Val :=
  match m, e with
  | .counter h p, .inc n => (.counter h (p + n), v)
  | .counter h p, .pass => if p = 0 then (m, v) else (.counter h 0, v.add p)
  | .gauge h _ _, .update b => (.gauge h b true, v)
  | .gauge h c u, .pass => if u then (.gauge h c false, v.set c) else (m, v)
  | .timer _, .record secs => (m, v.observe secs)
  | .histogram h spec pend, .sample s =>
    match spec.place s with
    | some idx => (.histogram h spec (bump pend idx), v)
    | none => (m, v)
  | .histogram h spec pend, .pass => (.histogram h spec (pend.map fun _ => 0), flushBuckets v spec.obs pend)
  | .rawCounter _, .inc n => (m, v.add n)
  | .rawGauge _, .update b => (m, v.set b)
  | m, _ => (m, v)

def newMetric (kind : UseKind) (h : Handle) : Metric :=
  match kind with
  | .counter => .counter h 0
  | .gauge => .gauge h 0 false
  | .timer => .timer h
  | .timerAs _ => .timer h
  | .histogram spec => .histogram h spec (spec.obs.map fun _ => 0)
  | .counterAs => .rawCounter h
  | .gaugeAs => .rawGauge h
  | .counterAsD _ => .rawCounter h
  | .gaugeAsD _ => .rawGauge h

/-- what is recorded about every first use -/
structure UseObs where
  kind : UseKind
  outcome : Outcome
  /-- number of `OnRegisterError` invocations during the call -/
  callbacks : Nat
  deriving DecidableEq, Repr

structure World where
  rep : Reporter := {}
  metrics : List Metric := []
  trace : List UseObs := []

inductive Ev
  | use (kind : UseKind) (name : Bytes) (tags : Tags)
  /-- an event other than `pass` on metric object `i` (index of its `use` among the `use` events) -/
  | op (i : Nat) (e : LEv)
  | pass
  deriving DecidableEq, Repr

def setAt : List α → Nat → α → List α
  | [], _, _ => []
  | _ :: t, 0, a => a :: t
  | x :: t, i + 1, a => x :: setAt t i a

/-- a unit `Val` for reports into `noopMetric` (results are discarded) -/
def Val.dummy : Val := .summary 0

def World.apply (w : World) (i : Nat) (e : LEv) : World :=
  match w.metrics[i]? with
  | none => w
  | some m =>
    match m.handle with
    | .series k =>
      match getS w.rep.series k with
      | some v =>
        let (m', v') := localStep m v e
        { w with metrics := setAt w.metrics i m', rep := { w.rep with series := setS w.rep.series k v' } }
      | none => w
    | .noop => { w with metrics := setAt w.metrics i (localStep m Val.dummy e).1 }

def World.passFrom (w : World) : List Nat → World
  | [] => w
  | i :: t => World.passFrom (w.apply i .pass) t

def step (cfg : Cfg) (w : World) : Ev → World
  | .use kind name tags =>
    let (r', o) := useMetric cfg w.rep kind name tags
    let m := match o with
      | .usable k => newMetric kind (.series k)
      | .noop => newMetric kind .noop
      | _ => .dead
    { rep := r', metrics := w.metrics ++ [m],
      trace := w.trace ++ [{ kind := kind, outcome := o, callbacks := r'.errors.length - w.rep.errors.length }] }
  | .op i e => if e = .pass then w else w.apply i e
  | .pass => w.passFrom (List.range w.metrics.length)

def run (cfg : Cfg) (evs : List Ev) : World := evs.foldl (step cfg) {}

/-! ## `Gather()` -/

inductive GVal
  | counter (n : Nat)
  | gauge (bits : F64)
  | summary (count : Nat)
  /-- `(upper bound, cumulative count)` per finite bound, and the sample count -/
  | histogram (buckets : List (F64 × Nat)) (count : Nat)
  deriving DecidableEq, Repr

structure GEntry where
  key : SeriesKey
  help : Bytes
  val : GVal
  deriving DecidableEq, Repr

def cumulate : Nat → List Nat → List Nat
  | _, [] => []
  | acc, x :: t => (acc + x) :: cumulate (acc + x) t

def Val.export : Val → GVal
  | .counter n => .counter n
  | .gauge b => .gauge b
  | .summary c => .summary c
  | .histogram bs bk c => .histogram (bs.zip (cumulate 0 bk)) c

def bytesLe : Bytes → Bytes → Bool
  | [], _ => true
  | _ :: _, [] => false
  | a :: s, b :: t => if a < b then true else if b < a then false else bytesLe s t

def tagsLe : Tags → Tags → Bool
  | [], _ => true
  | _ :: _, [] => false
  | (k, v) :: s, (k', v') :: t =>
    if k = k' then (if v = v' then tagsLe s t else bytesLe v v') else bytesLe k k'

def keyLe (a b : SeriesKey) : Bool :=
  if a.name = b.name then tagsLe a.labels b.labels else bytesLe a.name b.name

def entriesOf (r : Reporter) : List GEntry :=
  r.series.map fun (k, v) =>
    { key := k, help := ((findFamily r.reg k.name).map (·.help)).getD [], val := v.export }

/-- canonical listing: sorted by family name, then label pairs -/
def gather (r : Reporter) : List GEntry :=
  (entriesOf r).mergeSort (fun a b => keyLe a.key b.key)

end Tally.Prom
