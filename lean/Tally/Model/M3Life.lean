import Tally.Prelude
import Tally.Spec.C14
/-!
# Model of the M3 reporter's life-cycle protocol (m3/reporter.go)

Shared state: `done` (atomic.Bool), `pending` (atomic.Uint64), `donech` (closed or not), `metCh`
(buffered channel: `queue`, capacity `cap`, closed or not).  Threads:

* one thread per **call** of `reportCopyMetric` (through `ReportCount/Gauge/Timer/Samples`), `Flush` or
  `Close`; any number of them, created at any time (`Ev.spawn`).  A call thread executes the atomic
  actions of its function in program order, one per `Ev.act`:
  - report: `pending.Inc` · `done.Load` (→ return when set) · `select {metCh <- m | <-donech}` ·
    deferred `pending.Dec`
  - flush: `pending.Inc` · `done.Load` · `nInternal` nested report calls (`reportInternalMetrics`;
    each again Inc · Load · select · Dec) · the **blocking** `metCh <- marker` · `pending.Dec`
  - close: `done.CAS(false,true)` (lost → return errAlreadyClosed) · spin until `pending.Load() = 0` ·
    `close(donech)` · `close(metCh)` · `wg.Wait()`
* the consumer (`process`): receives one item at a time, exits when the queue is closed and empty
* the clock (`timeLoop`): exits when it sees `done` or the closed `donech`

A send on the closed `metCh` and a second `close` of a channel are explicit `panic` outcomes of the
step function (the theorems show them unreachable).  `sent`, `consumed`, `lateSent` are ghost
histories.
-/
namespace Tally.M3Life

inductive Kind | producer | flusher | closer
deriving DecidableEq, Repr

/-- program counter of one `reportCopyMetric` call (named by what it has executed) -/
inductive PPc | start | afterInc | afterCheck | finishing | returned
deriving DecidableEq, Repr

/-- program counter of a report call nested in Flush (it returns into the flusher's next pc) -/
inductive NPc | start | afterInc | afterCheck | finishing
deriving DecidableEq, Repr

/-- program counter of a call thread -/
inductive Pc
  | prod (p : PPc)
  | fStart | fAfterInc
  | fNested (left : Nat) (p : NPc)   -- inside reportInternalMetrics: `left` nested calls remain incl. this one
  | fSending | fFinishing | fReturned
  | cStart | cAfterCas | cSpun | cClosedDonech | cClosedMetch
  | cReturned (err : Bool)           -- err = true: errAlreadyClosed
deriving DecidableEq, Repr

inductive Item | metric (t : Nat) | marker (t : Nat)
deriving DecidableEq, Repr

inductive WPc | running | exited
deriving DecidableEq, Repr

structure State where
  cap : Nat
  nInternal : Nat
  done : Bool
  pending : Nat
  donechClosed : Bool
  metChClosed : Bool
  queue : List Item          -- oldest first
  thr : List Pc              -- call threads, by id
  cons : WPc
  clock : WPc
  sent : List Item           -- ghost: every item ever put on the queue, oldest first
  consumed : List Item       -- ghost: every item the consumer received, oldest first
  lateSent : Nat             -- ghost: sends executed after some Close call had returned nil
deriving DecidableEq, Repr

def init (cap nInternal : Nat) : State :=
  { cap := cap, nInternal := nInternal, done := false, pending := 0, donechClosed := false,
    metChClosed := false, queue := [], thr := [], cons := .running, clock := .running,
    sent := [], consumed := [], lateSent := 0 }

inductive Outcome
  | ok (s : State)
  | disabled
  | panic (why : String)
deriving DecidableEq, Repr

/-- the shared-memory action a call thread performs next -/
inductive Act
  | inc | load | send (it : Item) | bail | dec | cas | spin | closeDonech | closeMetch | wait
deriving DecidableEq, Repr

def startPc : Kind → Pc
  | .producer => .prod .start
  | .flusher => .fStart
  | .closer => .cStart

/-- after the outer done-check / after a nested call returned: the next nested call, or the marker send -/
def nextNested (n : Nat) : Pc := if n = 0 then .fSending else .fNested n .start

/-- program order: the next action of a thread at `pc` and where it is afterwards
(`done` is the value its `done.Load()` / CAS observes) -/
def next (done : Bool) (nInt : Nat) (t : Nat) : Pc → Option (Act × Pc)
  | .prod .start => some (.inc, .prod .afterInc)
  | .prod .afterInc => some (.load, .prod (if done then .finishing else .afterCheck))
  | .prod .afterCheck => some (.send (.metric t), .prod .finishing)
  | .prod .finishing => some (.dec, .prod .returned)
  | .prod .returned => none
  | .fStart => some (.inc, .fAfterInc)
  | .fAfterInc => some (.load, if done then .fFinishing else nextNested nInt)
  | .fNested n .start => some (.inc, .fNested n .afterInc)
  | .fNested n .afterInc => some (.load, .fNested n (if done then .finishing else .afterCheck))
  | .fNested n .afterCheck => some (.send (.metric t), .fNested n .finishing)
  | .fNested n .finishing => some (.dec, nextNested (n - 1))
  | .fSending => some (.send (.marker t), .fFinishing)
  | .fFinishing => some (.dec, .fReturned)
  | .fReturned => none
  | .cStart => some (.cas, if done then .cReturned true else .cAfterCas)
  | .cAfterCas => some (.spin, .cSpun)
  | .cSpun => some (.closeDonech, .cClosedDonech)
  | .cClosedDonech => some (.closeMetch, .cClosedMetch)
  | .cClosedMetch => some (.wait, .cReturned false)
  | .cReturned _ => none

/-- the other branch of the producer's `select`: `<-donech` -/
def nextBail : Pc → Option Pc
  | .prod .afterCheck => some (.prod .finishing)
  | .fNested n .afterCheck => some (.fNested n .finishing)
  | _ => none

/-- number of Close calls that have returned nil -/
def retOk : Pc → Nat
  | .cReturned false => 1
  | _ => 0

def closeReturned (s : State) : Bool := decide ((s.thr.map retOk).sum ≥ 1)

/-- effect of an action on the shared state -/
def applyAct (s : State) : Act → Outcome
  | .inc => .ok { s with pending := s.pending + 1 }
  | .load => .ok s
  | .send it =>
    if s.metChClosed then .panic "send on closed channel"
    else if s.queue.length < s.cap then
      .ok { s with queue := s.queue ++ [it], sent := s.sent ++ [it],
                   lateSent := if closeReturned s then s.lateSent + 1 else s.lateSent }
    else .disabled
  | .bail => if s.donechClosed then .ok s else .disabled
  | .dec => .ok { s with pending := s.pending - 1 }
  | .cas => .ok { s with done := true }
  | .spin => if s.pending = 0 then .ok s else .disabled
  | .closeDonech => if s.donechClosed then .panic "close of closed channel" else .ok { s with donechClosed := true }
  | .closeMetch => if s.metChClosed then .panic "close of closed channel" else .ok { s with metChClosed := true }
  | .wait => if s.cons = .exited ∧ s.clock = .exited then .ok s else .disabled

inductive Ev
  | spawn (k : Kind)     -- a new call begins
  | act (t : Nat)        -- call thread `t` executes its next action
  | bail (t : Nat)       -- call thread `t`, in its select, takes the `<-donech` branch
  | consume              -- the consumer receives one item
  | consExit             -- the consumer finds the queue closed and empty, flushes, returns
  | clockExit            -- the clock goroutine sees done / closed donech and returns
deriving DecidableEq, Repr

def isSpawn : Ev → Bool
  | .spawn _ => true
  | _ => false

def step (s : State) : Ev → Outcome
  | .spawn k => .ok { s with thr := s.thr ++ [startPc k] }
  | .act t =>
    match s.thr[t]? with
    | none => .disabled
    | some pc =>
      match next s.done s.nInternal t pc with
      | none => .disabled
      | some (a, pc') =>
        match applyAct s a with
        | .ok s' => .ok { s' with thr := s'.thr.set t pc' }
        | o => o
  | .bail t =>
    match s.thr[t]? with
    | none => .disabled
    | some pc =>
      match nextBail pc with
      | none => .disabled
      | some pc' =>
        match applyAct s .bail with
        | .ok s' => .ok { s' with thr := s'.thr.set t pc' }
        | o => o
  | .consume =>
    match s.cons, s.queue with
    | .running, it :: q => .ok { s with queue := q, consumed := s.consumed ++ [it] }
    | _, _ => .disabled
  | .consExit =>
    if s.cons = .running ∧ s.metChClosed = true ∧ s.queue = [] then .ok { s with cons := .exited } else .disabled
  | .clockExit =>
    if s.clock = .running ∧ (s.done = true ∨ s.donechClosed = true) then .ok { s with clock := .exited } else .disabled

def run (s : State) : List Ev → Outcome
  | [] => .ok s
  | e :: es =>
    match step s e with
    | .ok s' => run s' es
    | o => o

/-- a call thread that has not returned -/
def finished : Pc → Bool
  | .prod .returned | .fReturned | .cReturned _ => true
  | _ => false

def allReturned (s : State) : Bool := s.thr.all finished

def isMetric : Item → Bool
  | .metric _ => true
  | .marker _ => false

def retErr : Pc → Nat
  | .cReturned true => 1
  | _ => 0

def wleft : WPc → Nat
  | .running => 1
  | .exited => 0

/-- what the harness would count if it watched this model state (see `Tally.Spec.C14.Obs`) -/
def observe (s : State) : Spec.C14.Obs :=
  { panics := 0
    hangs := (s.thr.filter (fun p => !finished p)).length
    closeNil := (s.thr.map retOk).sum
    closeAlready := (s.thr.map retErr).sum
    closeOther := 0
    lateItems := s.lateSent
    workersLeft := wleft s.cons + wleft s.clock
    must := (s.sent.filter isMetric).length
    charged := (s.consumed.filter isMetric).length
    may := (s.sent.filter isMetric).length
    races := 0 }

end Tally.M3Life
