import Tally.Prelude
/-!
# Model of `keyForPrefixedStringMapsAsKey` (key_gen.go), repaired form (D3)

Maps are association lists with unique keys in an arbitrary enumeration order.  The writer
collects all keys, sorts them with `insertionSort` (byte-wise `<`), skips repeated keys with a
"first key" flag, looks the value up from the rightmost map that has the key, and escapes the
three delimiters and the escape byte in prefix, keys and values.
-/
namespace Tally.KeyGen
open Tally

abbrev TagMap := List (Bytes × Bytes)

def plus : UInt8 := 43   -- '+'
def comma : UInt8 := 44  -- ','
def eqSign : UInt8 := 61 -- '='
def bslash : UInt8 := 92 -- '\\'

def isSpecial (b : UInt8) : Bool := b == plus || b == comma || b == eqSign || b == bslash

/-- `appendEscaped`: every delimiter and the escape byte is preceded by a backslash -/
def esc : Bytes → Bytes
  | [] => []
  | b :: t => if isSpecial b then bslash :: b :: esc t else b :: esc t

/-- Go's `<` on strings: lexicographic on bytes -/
def bytesLt : Bytes → Bytes → Bool
  | [], [] => false
  | [], _ :: _ => true
  | _ :: _, [] => false
  | a :: s, b :: t => if a < b then true else if b < a then false else bytesLt s t

/-- `insertionSort` processes the keys left to right, inserting each into the sorted prefix;
expressed with the prefix kept in reverse insertion direction: sorting `l` is folding `insertBack`. -/
def insertBack (sorted : List Bytes) (k : Bytes) : List Bytes :=
  -- element moves left past every strictly greater element: lands after the last element `≤ k`
  let (le, gt) := sorted.span (fun x => !bytesLt k x)
  le ++ k :: gt

def insertionSort (keys : List Bytes) : List Bytes := keys.foldl insertBack []

/-- value of `k` from the rightmost map that has it -/
def lookupRight (maps : List TagMap) (k : Bytes) : Option Bytes :=
  maps.reverse.findSome? (fun m => m.lookup k)

/-- the writer loop over the sorted keys; `first` is the repaired boolean flag, `last` the last key written -/
def writeKeys (maps : List TagMap) : List Bytes → Bool → Bytes → Bytes
  | [], _, _ => []
  | k :: ks, first, last =>
    if !first && k == last then writeKeys maps ks first last
    else
      (if first then [] else [comma]) ++ esc k ++ [eqSign] ++ esc ((lookupRight maps k).getD [])
        ++ writeKeys maps ks false k

def key (pfx : Bytes) (maps : List TagMap) : Bytes :=
  let keys := insertionSort (maps.flatMap (fun m => m.map (·.1)))
  (if pfx.isEmpty then [] else esc pfx ++ [plus]) ++ writeKeys maps keys true []

/-- overlay of maps, later maps win: the merged map as a function -/
def merged (maps : List TagMap) (k : Bytes) : Option Bytes := lookupRight maps k

/-- canonical form of a tag assignment: sorted distinct keys with their values -/
def canon (maps : List TagMap) : List (Bytes × Bytes) :=
  let keys := (insertionSort (maps.flatMap (fun m => m.map (·.1)))).eraseDups
  keys.map fun k => (k, (lookupRight maps k).getD [])

/-- the key written directly from a canonical assignment -/
def render (pfx : Bytes) (kvs : List (Bytes × Bytes)) : Bytes :=
  (if pfx.isEmpty then [] else esc pfx ++ [plus]) ++
    [comma].intercalate (kvs.map fun kv => esc kv.1 ++ [eqSign] ++ esc kv.2)

end Tally.KeyGen
