import Tally.Model.M3Size
/-!
# M3 reporter: the batching loop of `process()` (m3/reporter.go)

```
for smet := range r.metCh {
    flush := !smet.set && len(mets) > 0
    if flush || bytes+smet.size > r.freeBytes { emit(mets) /* nothing when empty */; mets = mets[:0]; bytes = 0 }
    if !smet.set { continue }
    mets = append(mets, m /* with the bucket tags appended */); bytes += smet.size
}
emit(mets)   // final flush when the queue is closed
```
A queue item is a sized metric (already in the form it is sent in) or a flush marker (size 0).  The
loop is a left fold; `emit` number `i` (from 1) is the thrift message with sequence id `i`.
-/
namespace Tally.M3
open Tally Tally.Thrift

/-- a queued metric with the size it is charged -/
structure Sized where
  m : Metric
  size : Nat
deriving DecidableEq, Repr

inductive Item
  | met (x : Sized)
  | flush
deriving DecidableEq, Repr

structure BState where
  /-- `mets`: the open batch -/
  cur : List Sized
  /-- `bytes`: what the open batch has been charged -/
  bytes : Nat
  /-- batches emitted so far, oldest first -/
  out : List (List Sized)
deriving DecidableEq, Repr

def BState.init : BState := { cur := [], bytes := 0, out := [] }

/-- `mets = r.flush(mets); bytes = 0` -/
def emitCur (s : BState) : BState :=
  if s.cur.isEmpty then { s with bytes := 0 }
  else { cur := [], bytes := 0, out := s.out ++ [s.cur] }

/-- one iteration of the loop -/
def step (free : Nat) (s : BState) : Item → BState
  | .flush => if !s.cur.isEmpty || decide (s.bytes + 0 > free) then emitCur s else s
  | .met x =>
    let s' := if s.bytes + x.size > free then emitCur s else s
    { s' with cur := s'.cur ++ [x], bytes := s'.bytes + x.size }

def consume (free : Nat) (s : BState) (items : List Item) : BState := items.foldl (step free) s

/-- the whole run: consume the queue, then the final flush -/
def batches (free : Nat) (items : List Item) : List (List Sized) :=
  (emitCur (consume free BState.init items)).out

def Item.metric? : Item → Option Sized
  | .met x => some x
  | .flush => none

/-- the metrics of a queue, in order -/
def queued (items : List Item) : List Sized := items.filterMap Item.metric?

def batchOf (ct : List MetricTag) (b : List Sized) : MetricBatch :=
  { metrics := b.map (·.m), commonTags := some ct }

/-- the datagrams: batch `i` (from 0) is sent as message `firstSeq + i` -/
def messagesFrom (p : Proto) (ct : List MetricTag) : Int → List (List Sized) → List Bytes
  | _, [] => []
  | seq, b :: rest => encMessage p seq (batchOf ct b) :: messagesFrom p ct (seq + 1) rest

/-- `M3Client.SeqId` starts at 0 and is incremented before each send -/
def messages (p : Proto) (ct : List MetricTag) (bs : List (List Sized)) : List Bytes :=
  messagesFrom p ct 1 bs

/-! the three sanity mutants of the loop (used only by counter-examples in `Props/C12.lean`) -/

/-- pinned-code shape is `step`; this variant compares with `>=` -/
def stepGe (free : Nat) (s : BState) : Item → BState
  | .flush => if !s.cur.isEmpty || decide (s.bytes + 0 ≥ free) then emitCur s else s
  | .met x =>
    let s' := if s.bytes + x.size ≥ free then emitCur s else s
    { s' with cur := s'.cur ++ [x], bytes := s'.bytes + x.size }

end Tally.M3
