import Tally.Prelude
/-!
# Model of histogram bucket derivation and sample placement (histogram.go, stats.go)

`BucketPairs`, `newBucketStorage`, `RecordValue`, `RecordDuration`.  Bounds are compared through
an integer *key*: for durations the int64 itself, for float64 values `F64.key` (sign-magnitude
order, `-0 = +0`).  `sort.Search` is modelled by its real binary-search loop.
-/
namespace Tally.Buckets

/-- Go's `sort.Search(n, f)`: binary search for the least index in `[i, j)` with `f` true. -/
def searchFrom (f : Nat → Bool) (i j : Nat) : Nat :=
  if h : i < j then
    let m := (i + j) / 2
    if f m then searchFrom f i m else searchFrom f (m + 1) j
  else i
termination_by j - i
decreasing_by all_goals omega

def search (n : Nat) (f : Nat → Bool) : Nat := searchFrom f 0 n

/-- what `sort.Sort` is assumed to produce: some ordering by key; executable instance. -/
def sortByKey (key : α → Int) (l : List α) : List α :=
  l.mergeSort (fun a b => decide (key a ≤ key b))

/-! ## durations -/

/-- stored upper bounds of a duration histogram: sorted spec followed by MaxInt64;
the empty spec gives the single bucket. -/
def durationUppers (spec : List Int) : List Int :=
  sortByKey id spec ++ [maxInt64]

/-- lower bound of bucket `i` (`durationLowerBound`) -/
def durationLower (uppers : List Int) (i : Nat) : Int :=
  if i = 0 then minInt64 else uppers.getD (i - 1) 0

/-- `RecordDuration`: index whose counter is incremented.  The clamp is the repaired
behaviour (an index equal to `len` would be a Go panic). -/
def placeKey (uppers : List Int) (v : Int) : Nat :=
  let idx := search uppers.length (fun i => decide (uppers.getD i 0 ≥ v))
  if idx ≥ uppers.length then uppers.length - 1 else idx

/-! ## values -/

def valueUppers (spec : List F64) : List F64 :=
  sortByKey F64.key spec ++ [F64.maxFloat]

def valueLower (uppers : List F64) (i : Nat) : F64 :=
  if i = 0 then F64.negMaxFloat else uppers.getD (i - 1) 0

/-- `RecordValue`: `sort.Search(len, upper[i] >= v)` with IEEE comparison, clamped. -/
def placeValue (uppers : List F64) (v : F64) : Nat :=
  let idx := search uppers.length (fun i => F64.ge (uppers.getD i 0) v)
  if idx ≥ uppers.length then uppers.length - 1 else idx

/-- the raw (unclamped) search result, used to tell a would-be panic apart -/
def rawPlaceValue (uppers : List F64) (v : F64) : Nat :=
  search uppers.length (fun i => F64.ge (uppers.getD i 0) v)

/-- counts per bucket after recording the samples -/
def countsValue (uppers : List F64) (samples : List F64) : List Nat :=
  (List.range uppers.length).map fun i => (samples.filter fun v => placeValue uppers v == i).length

def countsDuration (uppers : List Int) (samples : List Int) : List Nat :=
  (List.range uppers.length).map fun i => (samples.filter fun v => placeKey uppers v == i).length

end Tally.Buckets
