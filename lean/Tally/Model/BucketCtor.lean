import Tally.Prelude
import Tally.F64Val
/-!
# Model of the bucket constructors (histogram.go)

`LinearValueBuckets`, `LinearDurationBuckets`, `ExponentialValueBuckets`,
`ExponentialDurationBuckets` and their `MustMake…` variants.

A `float64` is its bit pattern (`F64 = UInt64`), a `time.Duration` / `int64` an `Int` kept in
range by `wrap64`.  The float *operations* the constructors use are a parameter (`FOps`):

* theorems (TallyProofs/Props/C20.lean) are stated for **every** `FOps` and never mention Lean's
  native `Float`;
* the executable instance `FOps.native` (used only by the driver) computes with Lean's native
  `Float` (IEEE-754 binary64, round to nearest even — the same hardware operations Go uses on
  amd64; Go does not fuse `x*y + z` on amd64 at the default `GOAMD64=v1`).

Go's `float64 → int64` conversion is exact truncation towards zero for results that fit; for
NaN and out-of-range results it is implementation-defined (amd64: `MinInt64`).  The executable
model implements the truncation exactly on the bit pattern (`F64.truncInt?`) and uses the amd64
value otherwise; the harness restricts `ExponentialDurationBuckets` cases to those whose every
product that becomes an element stays within ±2^62 (`inDomainED`), and the driver refuses lines
outside that domain.
-/
namespace Tally

namespace F64

def one : F64 := 0x3FF0000000000000
def zero : F64 := 0

/-- NaN-insensitive bit equality: equal patterns, or both NaN (payloads are not compared:
Lean's `Float.toBits` canonicalises NaN, and the payload of `NaN*NaN` depends on operand order). -/
def same (a b : F64) : Bool := a == b || (isNaN a && isNaN b)

-- `expField` / `fracField` (biased exponent and fraction fields) come from Tally.F64Val

/-- exact truncation towards zero of a finite float, as a mathematical integer; `none` for
NaN / ±Inf.  value = (-1)^s · m · 2^(e-1075) with the implicit bit for normal numbers. -/
def truncInt? (x : F64) : Option Int :=
  if !isFinite x then none else
  let e := expField x
  let m : Nat := if e == 0 then fracField x else fracField x + 2^52
  let e' : Nat := if e == 0 then 1 else e
  -- value = m * 2^(e' - 1075)
  let a : Nat := if e' ≥ 1075 then m <<< (e' - 1075) else m >>> (1075 - e')
  some (if signBit x then -(a : Int) else (a : Int))

/-- Go `int64(f)` on amd64 (`CVTTSD2SQ`): truncation when the result fits, else `MinInt64`. -/
def toInt64Amd64 (x : F64) : Int :=
  match truncInt? x with
  | some i => if inInt64 i then i else minInt64
  | none => minInt64

end F64

/-- the float operations used by the constructors -/
structure FOps where
  /-- `x + y` on float64 -/
  fadd : F64 → F64 → F64
  /-- `x * y` on float64 -/
  fmul : F64 → F64 → F64
  /-- `float64(i)` for an `int` / `int64` / `time.Duration` -/
  ofInt : Int → F64
  /-- `time.Duration(f)` (float64 → int64) -/
  toInt : F64 → Int

namespace FOps

/-- `float64(i)` for `|i| < 2^64` through the C conversion `uint64 → double` (round to nearest
even), sign applied afterwards (exact: negation only flips the sign bit). -/
def nativeOfInt (i : Int) : F64 :=
  let m := (UInt64.ofNat i.natAbs).toFloat.toBits
  if i < 0 then m ||| 0x8000000000000000 else m

/-- executable instance on Lean's native `Float`; never used in a theorem -/
def native : FOps where
  fadd a b := (Float.ofBits a + Float.ofBits b).toBits
  fmul a b := (Float.ofBits a * Float.ofBits b).toBits
  ofInt := nativeOfInt
  toInt := F64.toInt64Amd64

end FOps

namespace BucketCtor

/-- the three sentinel errors of histogram.go, in the order the guards are tested -/
inductive CtorErr
  | count   -- errBucketsCountNeedsGreaterThanZero   "n needs to be > 0"
  | start   -- errBucketsStartNeedsGreaterThanZero   "start needs to be > 0"
  | factor  -- errBucketsFactorNeedsGreaterThanOne   "factor needs to be > 1"
  deriving DecidableEq, Repr

/-- one constructor call with its arguments (`n` is a Go `int`) -/
inductive Call
  | linV (start width : F64) (n : Int)
  | linD (start width : Int) (n : Int)
  | expV (start factor : F64) (n : Int)
  | expD (start : Int) (factor : F64) (n : Int)
  deriving DecidableEq, Repr

/-- what a constructor returns on success -/
inductive Bounds
  | vals (l : List F64)
  | durs (l : List Int)
  deriving DecidableEq, Repr

abbrev Res := Except CtorErr Bounds

/-- `curr, f curr, f (f curr), …` (`k` elements): the loop `buckets[i] = curr; curr = f curr` -/
def iter (f : α → α) (curr : α) : Nat → List α
  | 0 => []
  | k + 1 => curr :: iter f (f curr) k

/-- `buckets[i] = start + (float64(i) * width)` for `i = 0 … n-1` -/
def linearValue (ops : FOps) (start width : F64) (n : Int) : Except CtorErr (List F64) :=
  if n ≤ 0 then .error .count else
  .ok ((List.range n.toNat).map fun (i : Nat) => ops.fadd start (ops.fmul (ops.ofInt (i : Int)) width))

/-- `buckets[i] = start + (time.Duration(i) * width)` in wrap-around int64 arithmetic -/
def linearDuration (start width : Int) (n : Int) : Except CtorErr (List Int) :=
  if n ≤ 0 then .error .count else
  .ok ((List.range n.toNat).map fun (i : Nat) => wrap64 (start + wrap64 ((i : Int) * width)))

/-- guards `n <= 0`, `start <= 0`, `factor <= 1` (IEEE comparisons: a NaN start or factor passes),
then `buckets[i] = curr; curr *= factor` -/
def exponentialValue (ops : FOps) (start factor : F64) (n : Int) : Except CtorErr (List F64) :=
  if n ≤ 0 then .error .count else
  if F64.le start F64.zero then .error .start else
  if F64.le factor F64.one then .error .factor else
  .ok (iter (fun curr => ops.fmul curr factor) start n.toNat)

/-- as above with `curr = time.Duration(float64(curr) * factor)`; `start` is an int64 -/
def exponentialDuration (ops : FOps) (start : Int) (factor : F64) (n : Int) : Except CtorErr (List Int) :=
  if n ≤ 0 then .error .count else
  if start ≤ 0 then .error .start else
  if F64.le factor F64.one then .error .factor else
  .ok (iter (fun curr => ops.toInt (ops.fmul (ops.ofInt curr) factor)) start n.toNat)

def run (ops : FOps) : Call → Res
  | .linV s w n => (linearValue ops s w n).map .vals
  | .linD s w n => (linearDuration s w n).map .durs
  | .expV s f n => (exponentialValue ops s f n).map .vals
  | .expD s f n => (exponentialDuration ops s f n).map .durs

/-- outcome of a `MustMake…` call -/
inductive MustRes
  | value (b : Bounds)
  | panic (e : CtorErr)
  deriving DecidableEq, Repr

/-- `buckets, err := X(…); if err != nil { panic(err) }; return buckets` -/
def must (r : Res) : MustRes :=
  match r with
  | .ok b => .value b
  | .error e => .panic e

/-- stated domain of the `ExponentialDurationBuckets` differential: every product that becomes an
element is finite and within ±2^62 (so the float → int conversion is the exact truncation). -/
def inDomainED (ops : FOps) (start : Int) (factor : F64) (n : Int) : Bool :=
  let rec go (curr : Int) : Nat → Bool
    | 0 => true
    | k + 1 =>
      let p := ops.fmul (ops.ofInt curr) factor
      match F64.truncInt? p with
      | some i => decide (-(2:Int)^62 ≤ i) && decide (i ≤ (2:Int)^62) && go i k
      | none => false
  decide (n ≤ 1) || go start (n.toNat - 1)

end BucketCtor
end Tally
