import Tally.Model.Thrift
/-!
# M3 reporter: what a queued metric is charged, and how many bytes a batch may hold (m3/reporter.go)

`newMetric` builds a *template*: name, metric type, tags, and `math.MaxInt64` / `math.MaxFloat64` in
the slot of the metric's own kind and in the timestamp (the other two numeric slots stay 0).
`calculateSize` serialises the template into the counting transport: the charge is the length of the
template's encoding (`chargeMetric`).  A report copies the template and overwrites the kind's slot
and the timestamp (`withValue`).

The model follows the REPAIRED accounting:
* D6b — a histogram bucket is charged the size of its template *with the two bucket tags appended*
  (`chargeBucket`); the pinned code charged the template without them plus the four string lengths
  (`legacyChargeBucket`);
* D6a — the envelope allowance is `reservedEnvelope = 33` (pinned: `legacyEnvelope = 19`).
-/
namespace Tally.M3
open Tally Tally.Thrift

inductive Kind | counter | gauge | timer
deriving DecidableEq, Repr

/-- `m3thrift.MetricType_COUNTER / GAUGE / TIMER` -/
def Kind.mtype : Kind → Int
  | .counter => 1
  | .gauge => 2
  | .timer => 3

/-- `math.Float64bits(math.MaxFloat64)` -/
def maxF64 : UInt64 := 0x7FEFFFFFFFFFFFFF

/-- `newMetric(name, tags, t)` once the tags are converted -/
def template (name : Bytes) (k : Kind) (tags : Option (List MetricTag)) : Metric :=
  { name := name
    value := { mtype := k.mtype
               count := if k = .counter then maxI64 else 0
               gauge := if k = .gauge then maxF64 else 0
               timer := if k = .timer then maxI64 else 0 }
    timestamp := maxI64
    tags := tags }

/-- the value a report carries -/
inductive Val
  | count (v : Int)
  | gauge (bits : UInt64)
  | timer (v : Int)
deriving DecidableEq, Repr

def Val.kind : Val → Kind
  | .count _ => .counter
  | .gauge _ => .gauge
  | .timer _ => .timer

def Val.inRange : Val → Bool
  | .count v => inI64 v
  | .gauge _ => true
  | .timer v => inI64 v

/-- `cachedMetric.Report*` + `reportCopyMetric`: the copy with the value and `Timestamp = now` -/
def withValue (t : Metric) (v : Val) (now : Int) : Metric :=
  match v with
  | .count c => { t with value := { t.value with count := c }, timestamp := now }
  | .gauge g => { t with value := { t.value with gauge := g }, timestamp := now }
  | .timer d => { t with value := { t.value with timer := d }, timestamp := now }

/-- `calculateSize(m)` -/
def chargeMetric (p : Proto) (t : Metric) : Nat := (encMetric p t).length

/-- what `process()` does to a histogram bucket metric: the metric's own tags, then the bucket-id
and the bucket-range tag (always a non-nil slice) -/
def withBucketTags (t : Metric) (idTag bucketTag : MetricTag) : Metric :=
  { t with tags := some (t.tags.getD [] ++ [idTag, bucketTag]) }

/-- REPAIRED charge of a histogram bucket: `calculateSize` of the template as it will be sent -/
def chargeBucket (p : Proto) (t : Metric) (idTag bucketTag : MetricTag) : Nat :=
  chargeMetric p (withBucketTags t idTag bucketTag)

/-- pinned code: `calculateSize(template) + len(idName) + len(bucketName) + len(id) + len(bucket)` -/
def legacyChargeBucket (p : Proto) (t : Metric) (idTag bucketTag : MetricTag) : Nat :=
  chargeMetric p t + idTag.name.length + bucketTag.name.length + idTag.value.length
    + bucketTag.value.length

/-- repaired `_emitMetricBatchOverhead` -/
def reservedEnvelope : Nat := 33
/-- pinned `_emitMetricBatchOverhead` -/
def legacyEnvelope : Nat := 19

/-- the batch `NewReporter` measures: no metrics (an empty, non-nil slice), the common tags -/
def emptyBatch (ct : List MetricTag) : MetricBatch := { metrics := [], commonTags := some ct }

/-- `numOverheadBytes = _emitMetricBatchOverhead + calc.GetCount()` -/
def overhead (env : Nat) (p : Proto) (ct : List MetricTag) : Nat :=
  env + (encBatch p (emptyBatch ct)).length

/-- `freeBytes = MaxPacketSizeBytes - numOverheadBytes` (`NewReporter` fails unless it is positive) -/
def freeBytes (env : Nat) (max : Nat) (p : Proto) (ct : List MetricTag) : Int :=
  (max : Int) - (overhead env p ct : Nat)

end Tally.M3
