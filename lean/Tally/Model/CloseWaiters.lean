/-!
# `n` callers of an idempotent `Close`: one winner, the others wait for its completion signal

A small, self-contained companion of `Tally.RootClose` (which models the whole shutdown).  Here the shutdown
itself is ONE step (`finish`); what is modelled is only how the callers that lose `closed.CAS(false, true)`
learn that the winner is through, in two variants:

```
release-all (scope.go, repair D17)                      wake-one (what `sync.Cond.Signal` would give)
Close:  if !closed.CAS(false,true) {                    Close:  if !closed.CAS(false,true) {
            <-s.closeDone                                           mu.Lock(); for !ended { cond.Wait() }; mu.Unlock()
            return nil }                                            return nil }
        defer close(s.closeDone)                                defer func() { mu.Lock(); ended = true; mu.Unlock(); cond.Signal() }()
        … shutdown …                                            … shutdown …
```

Closing a channel (as `cond.Broadcast()` would) releases ALL receivers, present and future; `cond.Signal()` wakes
ONE goroutine blocked in `cond.Wait()` (none if there is none) and is forgotten.

Threads are `Nat` ids, any number of them; a thread absent from `pcs` is `idle` (has not called `Close` yet).

* `call t` (t idle): the CAS.  `closed = false`: t wins, `working`.  Otherwise t lost; the CAS and the first look
  at the completion flag are one step (the flags only ever go from `false` to `true`, so an execution in which
  another thread moves between t's failed CAS and t's look at the flag is the execution in which t's `call`
  comes after that move): if `done` holds already the wait falls through (`<-closeDone` on a closed channel,
  `for !ended` not entered) and t is `returned false` at once; else t is `waiting` (blocked in the receive /
  inside `cond.Wait()`).
* `finish t` (t `working`): the shutdown is over, `done := true`, t is `returned true`.  Release-all: nothing
  else, the waiters look at `done`.  Wake-one: `Signal()` picks one thread that is `waiting` now — the first in
  `pcs` order, i.e. the one that has waited longest, as Go's `notifyList` does; none if nobody waits — and puts it
  into `wakeups`.
* `wake t`.  Release-all: enabled iff t is `waiting` and `done`.  Wake-one: enabled iff t is `waiting` and
  `t ∈ wakeups` (t is taken out of `wakeups`; it re-reads `ended`, which holds, and leaves the loop).  Go's
  `sync.Cond` has no spurious wake-ups, so a waiting thread that has not been signalled never runs.
  In both variants t is `returned false` afterwards.
-/
namespace Tally.CloseWaiters

inductive Pc
  | idle                          -- has not called `Close`
  | working                       -- won the CAS; shutdown in progress
  | waiting                       -- lost the CAS; blocked in `<-closeDone` / `cond.Wait()`
  | returned (isWinner : Bool)    -- `Close` has returned
deriving Repr, DecidableEq

inductive Variant
  | broadcast                     -- `close(closeDone)` / `cond.Broadcast()`: releases all waiters
  | signalOne                     -- `cond.Signal()`: wakes one waiter
deriving Repr, DecidableEq

structure State where
  closed : Bool                   -- the CAS flag
  done : Bool                     -- the completion flag: `closeDone` is closed / `ended`
  pcs : List (Nat × Pc)           -- absent = idle; in order of arrival
  wakeups : List Nat              -- wake-one variant only: signalled, may proceed
deriving Repr, DecidableEq

inductive Ev
  | call (t : Nat)
  | finish (t : Nat)
  | wake (t : Nat)
deriving Repr, DecidableEq

def init : State := { closed := false, done := false, pcs := [], wakeups := [] }

/-- the pc recorded for `t` (first entry), `idle` if there is none -/
def lookup : List (Nat × Pc) → Nat → Pc
  | [], _ => .idle
  | (u, p) :: r, t => if u = t then p else lookup r t

/-- overwrite `t`'s entry in place; a new thread goes to the END (`pcs` is in order of arrival) -/
def update : List (Nat × Pc) → Nat → Pc → List (Nat × Pc)
  | [], t, p => [(t, p)]
  | (u, q) :: r, t, p => if u = t then (u, p) :: r else (u, q) :: update r t p

/-- the thread `Signal()` wakes: the first one that is `waiting` -/
def firstWaiting : List (Nat × Pc) → Option Nat
  | [] => none
  | (u, p) :: r => if p = .waiting then some u else firstWaiting r

def pcOf (s : State) (t : Nat) : Pc := lookup s.pcs t

def setPc (s : State) (t : Nat) (p : Pc) : State := { s with pcs := update s.pcs t p }

/-- what `finish` does to `wakeups` -/
def signal (v : Variant) (s : State) : List Nat :=
  match v with
  | .broadcast => s.wakeups
  | .signalOne =>
    match firstWaiting s.pcs with
    | some u => s.wakeups ++ [u]
    | none => s.wakeups

/-- may the waiting thread `t` proceed? -/
def released (v : Variant) (s : State) (t : Nat) : Bool :=
  match v with
  | .broadcast => s.done
  | .signalOne => decide (t ∈ s.wakeups)

/-- what `wake t` does to `wakeups` -/
def consume (v : Variant) (s : State) (t : Nat) : List Nat :=
  match v with
  | .broadcast => s.wakeups
  | .signalOne => s.wakeups.erase t

def step (v : Variant) (s : State) : Ev → Option State
  | .call t =>
    match pcOf s t with
    | .idle =>
      if s.closed = false then some { setPc s t .working with closed := true }   -- CAS succeeded
      else if s.done = true then some (setPc s t (.returned false))              -- the wait falls through
      else some (setPc s t .waiting)
    | _ => none
  | .finish t =>
    match pcOf s t with
    | .working => some { setPc s t (.returned true) with done := true, wakeups := signal v s }
    | _ => none
  | .wake t =>
    match pcOf s t with
    | .waiting =>
      if released v s t = true then some { setPc s t (.returned false) with wakeups := consume v s t }
      else none
    | _ => none

def run (v : Variant) (s : State) : List Ev → Option State
  | [] => some s
  | e :: es => match step v s e with
    | none => none
    | some s' => run v s' es

end Tally.CloseWaiters
