import Tally.Prelude
/-!
# Interleaving model of the root scope's `Close` against the report loop (scope.go, repaired code, D5)

Threads: the report-loop goroutine (present iff an interval was given), any number of `Close` *calls*
(an id `t : Nat` is one invocation of `Close`; a goroutine calling `Close` twice is two ids), and
recorders.  A step is one atomic action of one thread (one `sync/atomic` call, one channel operation,
one reporter call, or a lock-protected region without schedule point).

```
Close:  if !closed.CAS(false,true) {                      start  → won | waitWinner
            <-closeDone ; return nil }                    waitWinner → returnedNil   (enabled iff `closeDone` is closed)
        close(done) ; defer close(closeDone)              won    → doneClosedPc
        wg.Wait()                                         doneClosedPc → pass begin   (enabled iff the loop has exited / never existed)
        registry.Report / CachedReport  (final pass)      pass begin → pick [] → [deliver c] → pick [c] … → purgePc   (NO flush here)
        registry.purge()                                  purgePc → flushPc
        baseReporter.Flush()                              flushPc → reporterClose     (log entry `flush`)
        if io.Closer: return reporter.Close()             reporterClose → returned r  (and the deferred `close(closeDone)` runs)
loop:   for { select { case <-ticker.C: reportLoopRun()   waiting → ticked        (event `tick`)
                       case <-done: return } }            waiting → exited        (event `exit`, needs doneClosed)
        reportLoopRun: if closed.Load() { return }        ticked → waiting | pass begin
                       reportRegistry() = pass; Flush     pass begin → pick … → flush → waiting
```

The final pass of `Close` and the periodic pass share `passStep`; the periodic pass ends with `PassPc.flush`
(`reportRegistry()` = pass, then `Flush`).  `Close` does not flush at the end of its pass: when its range loops are
over (`passStep` yields the next pc `flush`) the call is about to purge (`afterPass`), the purge drops whatever was
recorded into a cell after the pass swapped it (never a `pre` token), and only then `Flush` is called (`flushPc`).
A `Close` call is therefore never at `pass flush` (from that pc — unreachable — the model would flush and purge).

Concurrent `Close` calls (repair D17).  A call that loses the CAS does not return at once any more: it receives from
the channel `closeDone` (pc `waitWinner`), which the winning call closes by a `defer` — that is, as it returns, AFTER
the reporter's `Close`.  In the model the winner's last step (`reporterClose → returned r`, closable reporter or not)
sets `closeDone := true` in the same atomic action (nothing observable lies between the reporter's `Close` returning
and the deferred `close(closeDone)`), and a call at `waitWinner` is enabled iff `closeDone = true`; its step goes to
`returnedNil` and appends `(t, none)` to `returns`.  Hence EVERY call that has returned — winner or not — has
returned after the complete shutdown (`Props.C08.every_close_call_is_a_barrier`).  The old behaviour ("a losing
call returns nil at once", limitation D5b) is kept in `Legacy.step` only.

The `select` is nondeterministic: from `waiting` both `tick` and (once `done` is closed) `exit` are
possible.  A slow reporter call is the scheduler not running that thread for a while (the thread sits
in `pass (deliver i pend vis)` or `pass flush`).  Plain and cached reporters have the same shape
(`Report`/`CachedReport`, then `Flush`), so one model covers both.

A pass visits every cell `0 … K-1` once, in an ARBITRARY order (the range loops of `registry.Report` run
over Go maps): the order is chosen by the event (`Ev.loop choice` / `Ev.closer t choice`), afresh at every
`pick` pc, so it may differ from pass to pass.  `pick vis` is "inside the range loops, the cells in `vis`
have been visited"; a choice `c < K` not yet in `vis` visits cell `c`, a choice `c ≥ K` says "the range
loops are over" and is possible only when every cell has been visited; every other choice is not enabled.
At every other pc the choice is ignored.  A visit is the atomic swap of the cell's unreported
content (C01/C02) followed — if it was not empty — by the reporter call.  `begin` is the start of
`registry.Report` (which reports the internal cardinality gauges: log entry `internal`, so that even
an empty pass is visible in the log).  There is no separate `waited` pc: a closer for which
`wg.Wait()` has returned is at `pass begin` (no schedule point lies between the two in the code).
The subscope life-cycle inside a pass (closed subscopes being unregistered, C07) is not repeated
here: the K cells are whatever scopes are registered when Close is called (a scope registered by a
`Subscope` call that raced with the CAS can only ever hold tokens that are not `pre`).
Cells stand for the *buffered* metrics (counters, gauges, histograms).  Timers are not buffered: a
`timer.Record` calls the reporter directly and never goes through a cell, a pass or the registry, so
it is outside this model (see the observation in TallyProofs/Props/C08.lean).

Ghost tokens make "exactly once" literal: every record creates a fresh token, stamped `pre` iff the
root's closed flag was still false at that moment.  `purge` is one step: it runs after the final pass
(and before the final flush) with the loop gone, the only other threads that touch cells then are recorders,
whose tokens are not `pre` either way.  After the purge the scopes are unregistered and cleared: a record on an old handle
goes to `dropped` at once (it can never be delivered).
-/
namespace Tally.RootClose

structure Token where
  id : Nat
  cell : Nat
  pre : Bool
deriving Repr, DecidableEq

/-- what the reporter sees, most recent first -/
inductive LogEv
  | internal                      -- start of a pass: internal cardinality gauges
  | deliver (toks : List Token)   -- one reporter call carrying what one swap took out of a cell
  | flush
  | reporterClose
deriving Repr, DecidableEq

/-- program counter inside `reportRegistry()` (shared by the loop and by `Close`) -/
inductive PassPc
  | begin                                   -- about to start `registry.Report` (= `waited` for a closer)
  | pick (vis : List Nat)                   -- inside the range loops: cells in `vis` have been visited by this pass
  | deliver (i : Nat) (pend : List Token) (vis : List Nat)   -- swapped `pend` out of cell i (i ∈ vis); about to call the reporter
  | flush                                   -- registry walked; about to call `Flush`
deriving Repr, DecidableEq

inductive LoopPc
  | waiting                 -- blocked in `select`
  | ticked                  -- received from `ticker.C`; about to load `closed`
  | pass (p : PassPc)
  | exited                  -- returned: `wg.Done()` has run (also: no loop was ever started)
deriving Repr, DecidableEq

inductive CPc
  | start                   -- about to CAS
  | won                     -- CAS succeeded; about to `close(done)`
  | doneClosedPc            -- `done` closed; about to `wg.Wait()`
  | pass (p : PassPc)       -- `wg.Wait()` returned (`pass begin` = "waited"); inside the final report
  | purgePc                 -- final pass done (its range loops are over, nothing flushed yet); about to purge the registry
  | flushPc                 -- registry purged; about to call `Flush` on the reporter
  | reporterClose           -- final flush done; about to close the reporter if it is an `io.Closer`
  | returned (err : Option Nat)   -- the winning call returned `err`
  | returnedNil             -- CAS failed, the winning call has returned: returned nil
  | waitWinner              -- CAS failed; at `<-s.closeDone` (blocked until the winning call has returned)
deriving Repr, DecidableEq

structure State where
  cells : List (List Token)         -- K scope cells: unreported tokens, most recent first
  closed : Bool                     -- root's `closed` flag
  doneClosed : Bool                 -- `done` channel closed
  purged : Bool                     -- registry purged (scopes unregistered and cleared)
  hasLoop : Bool                    -- an interval was given
  closable : Bool                   -- the reporter implements `io.Closer`
  err : Option Nat                  -- what the reporter's `Close` returns (`none` = nil)
  loop : LoopPc
  closers : Nat → CPc
  log : List LogEv                  -- most recent first
  dropped : List Token              -- tokens that can never be delivered
  issued : List Token               -- ghost: every token ever created
  nextId : Nat
  winner : Option Nat               -- ghost: the call whose CAS succeeded
  returns : List (Nat × Option Nat) -- ghost: (call, result) in order of return, most recent first
  handed : List (Option Nat)        -- ghost: results of `Subscope` calls (`none` = the inert NoopScope)
  closeDone : Bool                  -- `closeDone` channel closed (the winning `Close` call has returned)

def init (k : Nat) (hasLoop closable : Bool) (err : Option Nat := none) : State :=
  { cells := List.replicate k [], closed := false, doneClosed := false, purged := false,
    hasLoop := hasLoop, closable := closable, err := err,
    loop := if hasLoop then .waiting else .exited,
    closers := fun _ => .start, log := [], dropped := [], issued := [], nextId := 0,
    winner := none, returns := [], handed := [], closeDone := false }

inductive Ev
  | record (cell : Nat)     -- one atomic record on a handle of scope `cell`
  | obtain (cell : Nat)     -- `Subscope`: inert once the root is closed
  | tick                    -- the loop's `select` takes the ticker case
  | exit                    -- the loop's `select` takes the `done` case
  | loop (choice : Nat)     -- the loop's next atomic action inside `reportLoopRun`; `choice` is used only at a `pick` pc
  | closer (t : Nat) (choice : Nat)   -- the next atomic action of `Close` call `t`; `choice` used only at a `pick` pc
deriving Repr, DecidableEq

def setC (s : State) (t : Nat) (p : CPc) : State :=
  { s with closers := fun u => if u = t then p else s.closers u }

/-- one atomic action of a report pass; `none` = this choice is not possible; next pc `none` = `reportRegistry` returned -/
def passStep (s : State) (c : Nat) : PassPc → Option (State × Option PassPc)
  | .begin => some ({ s with log := .internal :: s.log }, some (.pick []))
  | .pick vis =>
    if c < s.cells.length then
      if c ∈ vis then none                         -- a range loop visits every entry once
      else match s.cells[c]? with
        | some (x :: r) => some ({ s with cells := s.cells.set c [] }, some (.deliver c (x :: r) (c :: vis)))
        | _ => some (s, some (.pick (c :: vis)))  -- nothing unreported in that scope
    else                                           -- c ≥ K: "the range loops are over"
      if (List.range s.cells.length).all (fun i => vis.contains i) then some (s, some .flush) else none
  | .deliver _ pend vis => some ({ s with log := .deliver pend :: s.log }, some (.pick vis))
  | .flush => some ({ s with log := .flush :: s.log }, none)

/-- `registry.purge()`: everything still unreported is dropped, every scope unregistered -/
def purgeAll (s : State) : State :=
  { s with purged := true, dropped := s.cells.flatten ++ s.dropped, cells := s.cells.map fun _ => [] }

/-- where a `Close` call is after a step of its final pass: once the range loops are over (the shared
`passStep` says "next: flush") it is about to purge — the final flush comes after the purge (`flushPc`) -/
def afterPass : Option PassPc → CPc
  | some .flush => .purgePc
  | some q => .pass q
  | none => .purgePc

/-- one atomic action; `none` = not enabled -/
def step (s : State) : Ev → Option State
  | .record c =>
    match s.cells[c]? with
    | none => none
    | some x =>
      let tok : Token := { id := s.nextId, cell := c, pre := !s.closed }
      if s.purged then
        some { s with nextId := s.nextId + 1, issued := tok :: s.issued, dropped := tok :: s.dropped }
      else
        some { s with nextId := s.nextId + 1, issued := tok :: s.issued, cells := s.cells.set c (tok :: x) }
  | .obtain c =>
    if s.closed then some { s with handed := none :: s.handed }
    else if c < s.cells.length then some { s with handed := some c :: s.handed } else none
  | .tick =>
    match s.loop with
    | .waiting => some { s with loop := .ticked }
    | _ => none
  | .exit =>
    match s.loop with
    | .waiting => if s.doneClosed then some { s with loop := .exited } else none
    | _ => none
  | .loop choice =>
    match s.loop with
    | .ticked => if s.closed then some { s with loop := .waiting } else some { s with loop := .pass .begin }
    | .pass p =>
      match passStep s choice p with
      | some (s1, some q) => some { s1 with loop := .pass q }
      | some (s1, none) => some { s1 with loop := .waiting }
      | none => none
    | _ => none
  | .closer t choice =>
    match s.closers t with
    | .start =>
      if s.closed then some (setC s t .waitWinner)                 -- CAS failed: no return yet
      else some { setC s t .won with closed := true, winner := some t }
    | .won => some { setC s t .doneClosedPc with doneClosed := true }
    | .doneClosedPc => if s.loop = .exited then some (setC s t (.pass .begin)) else none
    | .pass p =>
      match passStep s choice p with
      | some (s1, oq) => some (setC s1 t (afterPass oq))
      | none => none
    | .purgePc => some (setC (purgeAll s) t .flushPc)
    | .flushPc => some { setC s t .reporterClose with log := .flush :: s.log }
    | .reporterClose =>
      if s.closable then
        some { setC s t (.returned s.err) with log := .reporterClose :: s.log, returns := (t, s.err) :: s.returns,
                                               closeDone := true }
      else
        some { setC s t (.returned none) with returns := (t, none) :: s.returns, closeDone := true }
    | .returned _ => none
    | .returnedNil => none
    | .waitWinner =>                                               -- `<-s.closeDone`
      if s.closeDone then some { setC s t .returnedNil with returns := (t, none) :: s.returns } else none

def run (s : State) : List Ev → Option State
  | [] => some s
  | e :: es => match step s e with
    | none => none
    | some s' => run s' es

/-! ## observations -/

/-- the tokens handed to the reporter, most recent call first -/
def delivered : List LogEv → List Token
  | [] => []
  | .deliver ts :: l => ts ++ delivered l
  | _ :: l => delivered l

def countRC : List LogEv → Nat
  | [] => 0
  | .reporterClose :: l => countRC l + 1
  | _ :: l => countRC l

def PassPc.pend : PassPc → List Token
  | .deliver _ p _ => p
  | _ => []
def LoopPc.pend : LoopPc → List Token
  | .pass p => p.pend
  | _ => []
def CPc.pend : CPc → List Token
  | .pass p => p.pend
  | _ => []

def LoopPc.inPass : LoopPc → Bool
  | .pass _ => true
  | _ => false
def CPc.inPass : CPc → Bool
  | .pass _ => true
  | _ => false
/-- inside a `Close` call that has passed the CAS and not yet returned -/
def CPc.midCall : CPc → Bool
  | .won | .doneClosedPc | .pass _ | .purgePc | .flushPc | .reporterClose => true
  | _ => false

/-- a printable / comparable snapshot (the closers of calls `0 … n-1`) -/
structure View where
  cells : List (List Token)
  closed : Bool
  doneClosed : Bool
  purged : Bool
  loop : LoopPc
  closers : List CPc
  log : List LogEv
  dropped : List Token
  returns : List (Nat × Option Nat)
  closeDone : Bool
deriving Repr, DecidableEq

def State.view (s : State) (n : Nat) : View :=
  { cells := s.cells, closed := s.closed, doneClosed := s.doneClosed, purged := s.purged, loop := s.loop,
    closers := (List.range n).map s.closers, log := s.log, dropped := s.dropped, returns := s.returns,
    closeDone := s.closeDone }

/-! ## the pinned code, kept as a regression witness

`Close` did not wait for the loop goroutine, and every pass ended with `defer r.purgeIfRootClosed()`:
a pass that finds the root closed when its range loop ends purges the whole registry.  The pinned `Close`
keeps the OLD order: `reportRegistry()` (pass — which purges — then `Flush`: the closer goes through
`pass flush`), then the reporter's `Close`; it never is at `purgePc` / `flushPc`.  And a call that lost the
CAS returned nil AT ONCE (it never is at `waitWinner`): the old limitation D5b, see
`Props.C08.legacy_concurrent_close_returns_early`. -/
namespace Legacy

def passStep (s : State) (c : Nat) : PassPc → Option (State × Option PassPc)
  | .pick vis =>
    if c < s.cells.length then
      if c ∈ vis then none
      else match s.cells[c]? with
        | some (x :: r) => some ({ s with cells := s.cells.set c [] }, some (.deliver c (x :: r) (c :: vis)))
        | _ => some (s, some (.pick (c :: vis)))
    else
      if (List.range s.cells.length).all (fun i => vis.contains i) then
        some (if s.closed then purgeAll s else s, some .flush)     -- `defer r.purgeIfRootClosed()`
      else none
  | p => RootClose.passStep s c p

def step (s : State) : Ev → Option State
  | .loop choice =>
    match s.loop with
    | .ticked => if s.closed then some { s with loop := .waiting } else some { s with loop := .pass .begin }
    | .pass p =>
      match passStep s choice p with
      | some (s1, some q) => some { s1 with loop := .pass q }
      | some (s1, none) => some { s1 with loop := .waiting }
      | none => none
    | _ => none
  | .closer t choice =>
    match s.closers t with
    | .start =>                                                     -- a losing call returned nil at once
      if s.closed then some { setC s t .returnedNil with returns := (t, none) :: s.returns }
      else RootClose.step s (.closer t choice)
    | .doneClosedPc => some (setC s t (.pass .begin))               -- no `wg.Wait()`
    | .pass p =>
      match passStep s choice p with
      | some (s1, some q) => some (setC s1 t (.pass q))
      | some (s1, none) => some (setC s1 t .reporterClose)          -- the pass purged already
      | none => none
    | _ => RootClose.step s (.closer t choice)
  | e => RootClose.step s e

def run (s : State) : List Ev → Option State
  | [] => some s
  | e :: es => match step s e with
    | none => none
    | some s' => run s' es

end Legacy

end Tally.RootClose
