import Tally.Model.Registry
/-!
# Combined model: the root's `Close` over a LIVE registry shard (scope.go + scope_registry.go, repaired code:
  final pass, purge, THEN flush)

`Tally.RootClose` abstracts the registry to K fixed cells; `Tally.Registry` has no root life-cycle.  This model puts
the root's control skeleton (CAS, `close(done)`, `wg.Wait()`, final pass, `purge`, `Flush`, reporter `Close`, and
the report-loop goroutine) ON TOP of the registry shard model: the shard is the component `reg : Registry.State`,
and every step of the combined model either

* is ONE `Registry.step` on `reg` (possibly together with a change of the control part), or
* leaves `reg` alone (control only), or
* is the `purge` (the only new action on the shard, `purgeReg`).

Threads.  The loop goroutine is the Registry thread `loopTid = 0`, the final pass of `Close` call `c` runs as the
Registry thread `closerTid c = 1000 + c`; application threads are the ids `0 < t < 1000` (`isApp`).  Application
threads use `record`, `close sid` (a SUBSCOPE: `sid ≠ 0`; scope 0 is the root, its flag is set by the CAS of the
root's `Close`), `obtain t r` (= `registry.Subscope`; its root-closed check is at ENTRY, so it is enabled only while
`rootClosed = false` — an obtain already under way continues after the CAS) and `step t c` of an obtain in
progress.  A report pass is a Registry pass (`passBegin … step … passEndHint`), but can be STARTED only by the loop
(after a tick whose `closed.Load()` returned false) or by the winning `Close` call (after `wg.Wait()`).  A PERIODIC
pass is followed by a `flush` log entry.  The FINAL pass of the winning `Close` call is followed by the `purge` and
only THEN by the final `flush` (repaired order: `registry.Report`, `registry.purge()`, `reporter.Flush()`, reporter
`Close`): the purge takes the shard's write lock, so it waits for every re-acquire visit that still holds the read
lock — and whatever such a visit delivers is delivered BEFORE the final flush.  The order of the code before that
repair (final pass, `Flush`, purge) is kept as `Legacy.step` / `Legacy.run`: there a value recorded before `Close`
can reach the reporter after the last `Flush` (`C08Life.legacy_reacquire_in_flight_delivers_after_final_flush`).

The log.  Deliveries are `reg.delivered` (most recent first); the log records `flush n` / `reporterClose n` where
`n = reg.delivered.length` at that moment, so the interleaving of deliveries with flushes and the reporter's
`Close` can be read off (a delivery "after the reporter was closed" is `reg.delivered.length > n`).

End of a pass.  `Registry.Ev.passEndHint` is enabled at every `passIter` pc (a Go map iteration may skip entries
added meanwhile); that over-approximation is kept for the PERIODIC passes (sound for safety properties).  For the
FINAL pass the model is exact: Go guarantees that an entry that was in the map when the range loop started and has
not been deleted is visited, so `closerEnd` is enabled only when every entry `(k, sid)` of the snapshot `snap`
(taken at the pass's `RLock`) that is still registered is among the visited ENTRIES `(key, scope id)` of the pass.  (An
entry, once deleted, is never re-inserted with the same scope: deletions are of closed scopes, insertions of live ones;
a key registered again for a new scope object is a new entry, which the pass may produce or skip.)

`purge` takes the shard's WRITE lock: enabled only when `reg.readers = []`; every registered scope gets
`closed := true`, is cleared (its cell goes to `dropped`) and unregistered, in one step.

Concurrent `Close` calls (repair D17).  A call that loses the CAS goes to `waitWinner` (`<-s.closeDone`) and can
return nil (`returnedNil`) only once `closeDone = true`; the winning call sets `closeDone` in its last step
(`reporterClose → returned r`: the deferred `close(s.closeDone)` runs as it returns, after the reporter's `Close`).
So every call that has returned has returned after the complete shutdown
(`C08Life.life_every_close_call_is_a_barrier`).

Tokens.  `Registry.Token.pre` = "recorded before the SUBSCOPE's Close".  The ghost list `preRoot` holds the ids of
the tokens recorded while `rootClosed = false`.  A token counts for the root's barrier iff
`tok.pre ∧ tok.id ∈ preRoot` (`Barrier`).
-/
namespace Tally.ScopeLife
open Tally.Registry (Token ScopeS Pc)

/-- what the reporter sees besides the deliveries (`reg.delivered`); `n` = number of tokens delivered before -/
inductive LogEv
  | flush (n : Nat)
  | reporterClose (n : Nat)
deriving Repr, DecidableEq

inductive LoopPc
  | waiting                 -- blocked in `select`
  | ticked                  -- received from `ticker.C`; about to load `closed`
  | begin                   -- `closed` was false: about to start `reportRegistry` (RLock)
  | pass                    -- inside the Registry pass (thread `loopTid`)
  | flushPc                 -- registry walked; about to call `Flush`
  | exited                  -- returned: `wg.Done()` has run (also: no loop was ever started)
deriving Repr, DecidableEq

inductive CPc
  | start                   -- about to CAS
  | won                     -- CAS succeeded; about to `close(done)`
  | doneClosedPc            -- `done` closed; about to `wg.Wait()`
  | waited                  -- `wg.Wait()` returned; about to start the final `reportRegistry` (RLock)
  | pass                    -- inside the final Registry pass (thread `closerTid call`)
  | purgePc                 -- registry walked; about to purge the registry (write lock)
  | flushPc                 -- registry purged; about to call the final `Flush`
  | reporterClose           -- final flush done; about to close the reporter if it is an `io.Closer`
  | returned (err : Option Nat)   -- the winning call returned `err`
  | returnedNil             -- CAS failed, the winning call has returned: returned nil
  | waitWinner              -- CAS failed; at `<-s.closeDone` (blocked until the winning call has returned)
deriving Repr, DecidableEq

structure State where
  reg : Registry.State              -- the shard
  rootClosed : Bool                 -- the root's `closed` flag (also the `closed` flag of scope 0 in `reg`)
  doneClosed : Bool                 -- `done` channel closed
  purged : Bool                     -- registry purged
  closable : Bool                   -- the reporter implements `io.Closer`
  err : Option Nat                  -- what the reporter's `Close` returns
  loop : LoopPc
  closers : Nat → CPc
  log : List LogEv                  -- most recent first
  preRoot : List Nat                -- ghost: ids of the tokens recorded while `rootClosed = false`
  snap : List (Nat × Nat)           -- ghost: the map as it was when the final pass took its read lock
  winner : Option Nat               -- ghost: the call whose CAS succeeded
  closeDone : Bool                  -- `closeDone` channel closed (the winning `Close` call has returned)

def loopTid : Nat := 0
def closerTid (call : Nat) : Nat := 1000 + call
/-- application thread ids -/
def isApp (t : Nat) : Bool := decide (0 < t) && decide (t < 1000)

def init (san : Nat → Nat) (hasLoop closable : Bool) (err : Option Nat := none) : State :=
  { reg := Registry.initRoot san, rootClosed := false, doneClosed := false, purged := false,
    closable := closable, err := err, loop := if hasLoop then .waiting else .exited,
    closers := fun _ => .start, log := [], preRoot := [], snap := [], winner := none,
    closeDone := false }

inductive Ev
  | record (sid : Nat)            -- one atomic increment on a handle of scope `sid`
  | close (sid : Nat)             -- `Close()` of the SUBSCOPE `sid` (`sid ≠ 0`)
  | obtain (t : Nat) (r : Nat)    -- application thread `t` enters `Subscope(r)`: passes the root-closed check
  | step (t : Nat) (c : Nat)      -- application thread `t`: next atomic action of its obtain in progress
  | tick                          -- the loop's `select` takes the ticker case
  | exit                          -- the loop's `select` takes the `done` case
  | loop (c : Nat)                -- the loop's next atomic action; `c` = key picked at a `passIter` pc
  | loopEnd                       -- the range loop of the loop's pass ended
  | closer (t : Nat) (c : Nat)    -- next atomic action of `Close` call `t`; `c` = key picked at a `passIter` pc
  | closerEnd (t : Nat)           -- the range loop of call `t`'s final pass ended
deriving Repr, DecidableEq

def setC (s : State) (t : Nat) (p : CPc) : State :=
  { s with closers := fun u => if u = t then p else s.closers u }

/-- one `Registry.step` on the shard, control unchanged -/
def regStep (san : Nat → Nat) (s : State) (e : Registry.Ev) : Option State :=
  match Registry.step san s.reg e with
  | none => none
  | some r => some { s with reg := r }

/-! ## purge -/

/-- is scope `sid` registered (under any key)? -/
def isReg (reg : List (Nat × Nat)) (sid : Nat) : Bool := reg.any fun q => q.2 == sid

def purgeScope (x : ScopeS) : ScopeS := { x with closed := true, cleared := true, cell := [] }

/-- the scopes after the purge (`i` = id of the head of the list) -/
def purgeScopes (reg : List (Nat × Nat)) : Nat → List ScopeS → List ScopeS
  | _, [] => []
  | i, x :: l => (if isReg reg i then purgeScope x else x) :: purgeScopes reg (i + 1) l

/-- the tokens the purge clears away -/
def purgedToks (reg : List (Nat × Nat)) : Nat → List ScopeS → List Token
  | _, [] => []
  | i, x :: l => (if isReg reg i then x.cell else []) ++ purgedToks reg (i + 1) l

/-- `registry.purge()` under the write lock: every registered scope is closed, cleared and unregistered -/
def purgeReg (r : Registry.State) : Registry.State :=
  { r with scopes := purgeScopes r.reg 0 r.scopes, reg := [],
           dropped := purgedToks r.reg 0 r.scopes ++ r.dropped }

/-- the entries `(key, scope id)` a pass at this pc has visited (or is visiting) -/
def visitedOf : Pc → List (Nat × Nat)
  | .passIter v | .passSwap v .. | .passDeliver v .. | .passAfter v .. => v
  | .passUnlocked v .. | .passRelock v .. | .passClear v .. => v
  | _ => []

/-- Go's range-loop guarantee for the final pass: every entry of the snapshot that is still in the map has been
visited -/
def finalPassComplete (s : State) (t : Nat) : Bool :=
  s.reg.reg.all fun q => !(s.snap.contains q) || (visitedOf (Registry.pcOf s.reg (closerTid t))).contains q

/-- one atomic action; `none` = not enabled -/
def step (san : Nat → Nat) (s : State) : Ev → Option State
  | .record sid =>
    match Registry.step san s.reg (.record sid) with
    | none => none
    | some r => some { s with reg := r,
                              preRoot := if s.rootClosed then s.preRoot else s.reg.nextToken :: s.preRoot }
  | .close sid => if sid = 0 then none else regStep san s (.close sid)
  | .obtain t r => if isApp t && !s.rootClosed then regStep san s (.obtain t r) else none
  | .step t c => if isApp t then regStep san s (.step t c) else none
  | .tick =>
    match s.loop with
    | .waiting => some { s with loop := .ticked }
    | _ => none
  | .exit =>
    match s.loop with
    | .waiting => if s.doneClosed then some { s with loop := .exited } else none
    | _ => none
  | .loop c =>
    match s.loop with
    | .ticked => if s.rootClosed then some { s with loop := .waiting } else some { s with loop := .begin }
    | .begin =>
      match Registry.step san s.reg (.passBegin loopTid) with
      | none => none
      | some r => some { s with reg := r, loop := .pass }
    | .pass => regStep san s (.step loopTid c)
    | .flushPc => some { s with log := .flush s.reg.delivered.length :: s.log, loop := .waiting }
    | _ => none
  | .loopEnd =>
    match s.loop with
    | .pass =>
      match Registry.step san s.reg (.passEndHint loopTid) with
      | none => none
      | some r => some { s with reg := r, loop := .flushPc }
    | _ => none
  | .closer t c =>
    match s.closers t with
    | .start =>
      if s.rootClosed then some (setC s t .waitWinner)              -- CAS failed: no return yet
      else
        match Registry.step san s.reg (.close 0) with
        | none => none
        | some r => some { setC s t .won with reg := r, rootClosed := true, winner := some t }
    | .won => some { setC s t .doneClosedPc with doneClosed := true }
    | .doneClosedPc => if s.loop = .exited then some (setC s t .waited) else none
    | .waited =>
      match Registry.step san s.reg (.passBegin (closerTid t)) with
      | none => none
      | some r => some { setC s t .pass with reg := r, snap := s.reg.reg }
    | .pass => regStep san s (.step (closerTid t) c)
    | .purgePc =>
      if s.reg.readers.isEmpty then some { setC s t .flushPc with reg := purgeReg s.reg, purged := true }
      else none
    | .flushPc => some { setC s t .reporterClose with log := .flush s.reg.delivered.length :: s.log }
    | .reporterClose =>
      if s.closable then
        some { setC s t (.returned s.err) with log := .reporterClose s.reg.delivered.length :: s.log,
                                               closeDone := true }
      else some { setC s t (.returned none) with closeDone := true }
    | .returned _ => none
    | .returnedNil => none
    | .waitWinner => if s.closeDone then some (setC s t .returnedNil) else none     -- `<-s.closeDone`
  | .closerEnd t =>
    match s.closers t with
    | .pass =>
      if finalPassComplete s t then
        match Registry.step san s.reg (.passEndHint (closerTid t)) with
        | none => none
        | some r => some { setC s t .purgePc with reg := r }
      else none
    | _ => none

def run (san : Nat → Nat) (s : State) : List Ev → Option State
  | [] => some s
  | e :: es => match step san s e with
    | none => none
    | some s' => run san s' es

/-! ## the code BEFORE the repair: final pass, `Flush`, purge -/

namespace Legacy

/-- the root's `Close` as it was before the repair: the winning call goes final pass → `flushPc` (final `Flush`) →
`purgePc` (purge) → `reporterClose` → `returned`.  Everything else is `ScopeLife.step`. -/
def step (san : Nat → Nat) (s : State) : Ev → Option State
  | .closer t c =>
    match s.closers t with
    | .flushPc => some { setC s t .purgePc with log := .flush s.reg.delivered.length :: s.log }
    | .purgePc =>
      if s.reg.readers.isEmpty then some { setC s t .reporterClose with reg := purgeReg s.reg, purged := true }
      else none
    | _ => ScopeLife.step san s (.closer t c)
  | .closerEnd t =>
    match s.closers t with
    | .pass =>
      if finalPassComplete s t then
        match Registry.step san s.reg (.passEndHint (closerTid t)) with
        | none => none
        | some r => some { setC s t .flushPc with reg := r }
      else none
    | _ => none
  | e => ScopeLife.step san s e

def run (san : Nat → Nat) (s : State) : List Ev → Option State
  | [] => some s
  | e :: es => match step san s e with
    | none => none
    | some s' => run san s' es

end Legacy

/-! ## observations -/

/-- a token counts for the root's barrier: recorded before its scope's Close AND before the root's CAS -/
def Barrier (s : State) (tok : Token) : Prop := tok.pre = true ∧ tok.id ∈ s.preRoot

instance (s : State) (tok : Token) : Decidable (Barrier s tok) := by unfold Barrier; exact inferInstance

/-- the events of the application threads -/
def Ev.isApp : Ev → Bool
  | .record _ | .close _ | .obtain .. | .step .. => true
  | _ => false

/-- a printable / comparable snapshot (the closers of calls `0 … n-1`) -/
structure View where
  reg : Registry.State
  rootClosed : Bool
  doneClosed : Bool
  purged : Bool
  loop : LoopPc
  closers : List CPc
  log : List LogEv
  preRoot : List Nat
  closeDone : Bool
deriving Repr, DecidableEq

def State.view (s : State) (n : Nat) : View :=
  { reg := s.reg, rootClosed := s.rootClosed, doneClosed := s.doneClosed, purged := s.purged, loop := s.loop,
    closers := (List.range n).map s.closers, log := s.log, preRoot := s.preRoot,
    closeDone := s.closeDone }

end Tally.ScopeLife
