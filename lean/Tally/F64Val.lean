import Tally.Prelude
/-!
# The number a finite float64 bit pattern denotes, as a dyadic rational over `Nat`

`|x| = mant x * 2^(expUp x) / 2^(expDown x)` (one of the two exponents is always `0`), the sign is
`F64.signBit x`.  This is IEEE-754 binary64: 1 sign bit, 11 exponent bits (bias 1023), 52 fraction
bits, subnormals for exponent field `0`.  Shared by models and spec predicates that talk about
the *value* of a float (C18: `%.Nf` rendering, `int64(v)` truncation); it is what a bit pattern
means, not something a property judges.
-/
namespace Tally.F64

def expField (x : F64) : Nat := (x.toNat / 2^52) % 2048
def fracField (x : F64) : Nat := x.toNat % 2^52

/-- integer significand (with the hidden bit for normal numbers) -/
def mant (x : F64) : Nat := if expField x = 0 then fracField x else fracField x + 2^52
/-- non-negative part of the binary exponent -/
def expUp (x : F64) : Nat := expField x - 1075
/-- negated negative part of the binary exponent (`1074` for subnormals) -/
def expDown (x : F64) : Nat := if expField x = 0 then 1074 else 1075 - expField x

/-- numerator of `|x|` over the denominator `den x` -/
def num (x : F64) : Nat := mant x * 2^(expUp x)
def den (x : F64) : Nat := 2^(expDown x)

end Tally.F64
