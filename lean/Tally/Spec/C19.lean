import Tally.Model.Multi
/-!
# C19 as a decidable predicate over what was observed

Uses only the *data types* of `Tally.Model.Multi` (`Call`, `Caps`, `Flavour`, `Kind`); none of the
model's functions (`Child.call`, `fan`, `perChild`, `step`, `run`, `capabilities`) is called here.
The syntactic classifiers of `Call` (`flavourOk`, `allocKind`, `makesBucket`, `metricRef`,
`bucketRef`) are used by the precondition `wellFormed` only, never by the verdict `holds`.

An observation of one multi reporter:
* `caps`      the capabilities of the children, in the order they were given to the constructor;
* `calls`     the calls made on the multi reporter (and on handles obtained from it), in order.
              Handle arguments are ordinals of the handles the multi reporter handed out;
* `returned`  per call, whether it returned normally (`false`: it panicked);
* `logs`      per child, in child order, what that child received: `(seq, call)` where `seq` is
              drawn from one counter shared by all children, and handle arguments are ordinals of
              the handles *that child* handed out;
* `reported`  every answer the multi reporter gave to `Capabilities()` during the history.
-/
namespace Tally.Spec.C19
open Tally Tally.Multi

structure Obs where
  caps : List Caps
  calls : List Call := []
  returned : List Bool := []
  logs : List (List (Nat × Call))
  reported : List Caps := []
  deriving Repr

/-! ### which histories can be written against the Go API (precondition, not part of the verdict) -/

/-- walks the history keeping the kinds of the metric handles and the number of bucket handles
allocated so far; a call must belong to the flavour and go through a handle of the right kind
that already exists. -/
def wellFormedFrom (fl : Flavour) : List Kind → Nat → List Call → Bool
  | _, _, [] => true
  | ms, nb, x :: xs =>
    x.flavourOk fl
    && (match x.metricRef with
        | some (h, k) => ms[h]? == some k
        | none => true)
    && (match x.bucketRef with
        | some b => decide (b < nb)
        | none => true)
    && wellFormedFrom fl
        (match x.allocKind with | some k => ms ++ [k] | none => ms)
        (if x.makesBucket then nb + 1 else nb)
        xs

def wellFormed (fl : Flavour) (hist : List Call) : Bool := wellFormedFrom fl [] 0 hist

/-! ### the clauses -/

/-- one log per child -/
def childCount (o : Obs) : Bool := o.logs.length == o.caps.length

/-- **exactly once, identical, same order**: every child's log, sequence numbers dropped, *is* the
list of calls made on the multi reporter (this covers values reported through handles and through
histogram bucket handles: the child sees them on the handle with the same ordinal, i.e. on the
handle it returned for the corresponding allocation). -/
def childLogEq (calls : List Call) (logs : List (List (Nat × Call))) : Bool :=
  logs.all fun l => l.map Prod.snd == calls

/-- the sequence numbers read call by call and, within one call, child by child -/
def seqMatrix (ncalls : Nat) (logs : List (List (Nat × Call))) : List Nat :=
  (List.range ncalls).flatMap fun j => logs.filterMap fun l => l[j]?.map Prod.fst

def strictlyIncreasing : List Nat → Bool
  | a :: b :: t => decide (a < b) && strictlyIncreasing (b :: t)
  | _ => true

/-- **children are called in the order given** (and one call is finished on all children before the
next call reaches any child): the sequence numbers in (call, child) order strictly increase. -/
def inOrder (calls : List Call) (logs : List (List (Nat × Call))) : Bool :=
  strictlyIncreasing (seqMatrix calls.length logs)

/-- conjunction of the children's capabilities; `true, true` for no children -/
def conj (caps : List Caps) : Caps :=
  { reporting := caps.all (·.reporting), tagging := caps.all (·.tagging) }

def capsConjunction (caps : List Caps) (reported : List Caps) : Bool :=
  reported.all fun r => r == conj caps

/-- every call returned normally.  For no children this is "a multi reporter with no children
accepts all calls"; with (non-panicking) children a panic is not "exactly one call on each child"
either. -/
def acceptsAll (calls : List Call) (returned : List Bool) : Bool :=
  returned.length == calls.length && returned.all id

/-- the verdict: `none` when the property holds on the observation, else the first failing clause -/
def holds (o : Obs) : Option String :=
  if !childCount o then some "child-count"
  else if !acceptsAll o.calls o.returned then
    some (if o.caps.isEmpty then "empty-accepts-all" else "accepts-all-calls")
  else if !childLogEq o.calls o.logs then some "child-log-eq"
  else if !inOrder o.calls o.logs then some "children-in-order"
  else if !capsConjunction o.caps o.reported then some "capabilities-conjunction"
  else none

end Tally.Spec.C19
