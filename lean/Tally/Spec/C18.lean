import Tally.Prelude
import Tally.F64Val
import Tally.Model.Statsd
/-!
# C18 as a decidable predicate over the statter calls the implementation was observed to make

Only the *data types* (`Options`, `Report`, `Call`, `Kind`) come from `Tally.Model.Statsd`; no
function of the model is used.  In particular the rendered bucket bounds are not recomputed:
the observed stat name is *parsed back* (`stripPrefix`, `splitBounds`, `parseFixed`,
`parseDuration`) and the parsed numbers are judged declaratively:

* a value bound text `-?ddd.ddd` with `N` fractional digits denotes the integer `q` (its digits
  without the point); it is right iff `q` is a nearest integer to `|x|·10^N`, even on a tie
  (`isRounded`), the sign character is the float's sign bit, and the integer part has no leading
  zeros;
* a duration bound text is right iff it parses, in Go duration syntax, to exactly the bound;
* a gauge value `t` is right iff `|t| ≤ |v| < |t| + 1` with the sign of `v` (`isTrunc`), required
  only where Go defines `int64(v)` (`gaugeDomain`).
-/
namespace Tally.Spec.C18
open Tally Tally.Statsd

def dash : UInt8 := 45
def dot : UInt8 := 46
/-- `"infinity"` -/
def infinity : Bytes := [105, 110, 102, 105, 110, 105, 116, 121]
/-- `"-infinity"` -/
def negInfinity : Bytes := [45, 105, 110, 102, 105, 110, 105, 116, 121]

def isDigit (b : UInt8) : Bool := decide (48 ≤ b.toNat) && decide (b.toNat ≤ 57)

/-! ## shape of a rendered bound and the unique split of `lo-hi` -/

/-- a rendered bound: at least one byte other than a leading `-`, and no `-` after index 0 -/
def shapeOk (s : Bytes) : Bool :=
  match s with
  | [] => false
  | b :: t => t.all (· != dash) && (b != dash || !t.isEmpty)

/-- split `lo ++ "-" ++ hi` at the first `-` that is not at index 0 -/
def splitBounds (s : Bytes) : Option (Bytes × Bytes) :=
  match s with
  | [] => none
  | b :: t =>
    match t.dropWhile (· != dash) with
    | [] => none
    | _ :: hi => some (b :: t.takeWhile (· != dash), hi)

def stripPrefix : Bytes → Bytes → Option Bytes
  | [], s => some s
  | _ :: _, [] => none
  | a :: p, b :: s => if a == b then stripPrefix p s else none

/-! ## decimal numbers -/

def parseDigitsAux : Bytes → Nat → Option Nat
  | [], acc => some acc
  | b :: t, acc => if isDigit b then parseDigitsAux t (acc * 10 + (b.toNat - 48)) else none

/-- a non-empty string of decimal digits -/
def parseDigits (s : Bytes) : Option Nat := if s.isEmpty then none else parseDigitsAux s 0

/-- no leading zeros (`"0"` itself is fine) -/
def canonicalInt (s : Bytes) : Bool := s.length == 1 || s.head? != some 48

/-- `-?ddd.ddd` with exactly `N ≥ 1` fractional digits ↦ (sign, the digits as one integer) -/
def parseFixed (N : Nat) (s : Bytes) : Option (Bool × Nat) :=
  let neg := s.head? == some dash
  let body := if neg then s.drop 1 else s
  let ip := body.takeWhile (· != dot)
  match body.dropWhile (· != dot) with
  | [] => none
  | _ :: fp =>
    if fp.length != N || !canonicalInt ip then none
    else match parseDigits ip, parseDigits fp with
      | some a, some b => some (neg, a * 10^N + b)
      | _, _ => none

/-- `q` is a nearest integer to `|x|·10^N = num·10^N / den`, and even if there are two -/
def isRounded (N : Nat) (x : F64) (q : Nat) : Bool :=
  let n2 := 2 * (F64.num x * 10^N)
  let d := F64.den x
  let q2 := 2 * (q * d)
  decide (q2 ≤ n2 + d) && decide (n2 ≤ q2 + d)
    && ((q2 != n2 + d && n2 != q2 + d) || q % 2 == 0)

def isExtremeValue (x : F64) : Bool := x == F64.maxFloat || x == F64.negMaxFloat

/-- is `s` the right text for the value bound `x` at precision `N`? -/
def valueBoundOk (N : Nat) (x : F64) (s : Bytes) : Bool :=
  if x == F64.maxFloat then s == infinity
  else if x == F64.negMaxFloat then s == negInfinity
  else if !F64.isFinite x then shapeOk s  -- non-finite bounds are outside the property; only the shape
  else match parseFixed N s with
    | some (neg, q) => neg == F64.signBit x && isRounded N x q
    | none => false

/-! ## Go duration syntax -/

/-- a unit at the head of the text: nanoseconds per unit and the rest -/
def parseUnit : Bytes → Option (Nat × Bytes)
  | 110 :: 115 :: r => some (1, r)                 -- ns
  | 0xC2 :: 0xB5 :: 115 :: r => some (1000, r)     -- µs
  | 109 :: 115 :: r => some (1000000, r)           -- ms
  | 115 :: r => some (1000000000, r)               -- s
  | 109 :: r => some (60000000000, r)              -- m
  | 104 :: r => some (3600000000000, r)            -- h
  | _ => none

/-- optional `.ddd` -/
def parseFrac (r : Bytes) : Option (Bytes × Bytes) :=
  match r with
  | 46 :: r' =>
    let fp := r'.takeWhile isDigit
    if fp.isEmpty then none else some (fp, r'.dropWhile isDigit)
  | _ => some ([], r)

/-- one or more `ddd(.ddd)?unit` segments; the value in nanoseconds must be an integer -/
def parseSegs : Nat → Bytes → Nat → Option Nat
  | 0, _, _ => none
  | fuel + 1, s, acc =>
    match parseDigits (s.takeWhile isDigit), parseFrac (s.dropWhile isDigit) with
    | some a, some (fp, r2) =>
      match parseUnit r2 with
      | some (u, r3) =>
        let fv := (parseDigitsAux fp 0).getD 0
        let scale := 10 ^ fp.length
        if (fv * u) % scale != 0 then none
        else
          let acc' := acc + a * u + fv * u / scale
          if r3.isEmpty then some acc' else parseSegs fuel r3 acc'
      | none => none
    | _, _ => none

def parseDuration (s : Bytes) : Option Int :=
  match s with
  | 45 :: t => (parseSegs t.length t 0).map fun (n : Nat) => -(n : Int)
  | _ => (parseSegs s.length s 0).map fun (n : Nat) => (n : Int)

def isExtremeDuration (d : Int) : Bool := d == maxInt64 || d == minInt64

def durationBoundOk (d : Int) (s : Bytes) : Bool :=
  if d == maxInt64 then s == infinity
  else if d == minInt64 then s == negInfinity
  else shapeOk s && parseDuration s == some d

/-! ## gauge truncation -/

/-- `t` is `v` truncated toward zero -/
def isTrunc (x : F64) (t : Int) : Bool :=
  decide (t.natAbs * F64.den x ≤ F64.num x) && decide (F64.num x < (t.natAbs + 1) * F64.den x)
    && (if F64.signBit x then decide (t ≤ 0) else decide (0 ≤ t))

/-- where Go defines `int64(v)`: finite, and `-2^63 ≤ trunc v ≤ 2^63 - 1` -/
def gaugeDomain (x : F64) : Bool :=
  F64.isFinite x && decide (F64.num x < (2^63 + (if F64.signBit x then 1 else 0)) * F64.den x)

/-! ## the property -/

def expRate (o : Options) : UInt32 := if o.rate.toNat % 2^31 == 0 then 0x3F800000 else o.rate
def expPrec (o : Options) : Nat := if o.prec = 0 then 6 else o.prec

/-- the bucket part of a stat name: `name ++ "." ++ lo ++ "-" ++ hi` parsed back into `(lo, hi)` -/
def bucketBounds (name stat : Bytes) : Option (Bytes × Bytes) :=
  match stripPrefix name stat with
  | some (46 :: rest) => splitBounds rest
  | _ => none

/-- `none`: the observed calls satisfy C18 for this report call; `some clause`: first clause violated -/
def check (o : Options) (rep : Report) (calls : List Call) : Option String :=
  match calls with
  | [c] =>
    if c.kind == .other then some "kind"  -- a client method the reporter has no business calling
    else if c.rate != expRate o then some "sample-rate"
    else if c.ntags != 0 then some "tags-ignored"
    else match rep with
      | .counter n _ v =>
        if c.kind != .inc then some "kind" else if c.name != n then some "name"
        else if c.value != v then some "value" else none
      | .gauge n _ v =>
        if c.kind != .gauge then some "kind" else if c.name != n then some "name"
        else if gaugeDomain v && !isTrunc v c.value then some "gauge-truncated" else none
      | .timer n _ d =>
        if c.kind != .timing then some "kind" else if c.name != n then some "name"
        else if c.value != d then some "value" else none
      | .histValue n _ lo hi s =>
        if c.kind != .inc then some "kind" else if c.value != s then some "value"
        else match bucketBounds n c.name with
          | none => some "bucket-name-format"
          | some (l, h) =>
            if !valueBoundOk (expPrec o) lo l then
              some (if isExtremeValue lo then "extremes-rendered" else "lower-bound")
            else if !valueBoundOk (expPrec o) hi h then
              some (if isExtremeValue hi then "extremes-rendered" else "upper-bound")
            else none
      | .histDuration n _ lo hi s =>
        if c.kind != .inc then some "kind" else if c.value != s then some "value"
        else match bucketBounds n c.name with
          | none => some "bucket-name-format"
          | some (l, h) =>
            if !durationBoundOk lo l then
              some (if isExtremeDuration lo then "extremes-rendered" else "lower-bound")
            else if !durationBoundOk hi h then
              some (if isExtremeDuration hi then "extremes-rendered" else "upper-bound")
            else none
  | _ => some "one-call"

def holds (o : Options) (rep : Report) (calls : List Call) : Bool := (check o rep calls).isNone

/-- capabilities: reporting without tagging -/
def capsOk (reporting tagging : Bool) : Bool := reporting && !tagging

end Tally.Spec.C18
