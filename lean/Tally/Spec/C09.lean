import Tally.Prelude
/-!
# C09 as a decidable predicate over an observed trace
`results`: identity classes of the objects returned to the callers; `allocs`: number of Allocate calls the
cached reporter saw for the name; `recorded` / `delivered`: increments made through any returned handle
and the sum delivered under the name after quiescence.
-/
namespace Tally.Spec.C09

def holds (results : List Nat) (allocs : Nat) (recorded delivered : Int) : Option String :=
  if !(results.all fun r => some r == results.head?) then some "all-callers-same-object"
  else if allocs > 1 then some "allocate-at-most-once"
  else if recorded != delivered then some "recorded-through-any-handle-delivered"
  else none

end Tally.Spec.C09
