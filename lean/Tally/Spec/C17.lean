import Tally.Model.Prom
/-!
# C17 as a decidable predicate over what was recorded and what was observed

Inputs are plain data (the data *types* `UseKind`, `HSpec`, `Sample`, `LEv`, `SeriesKey`, `GVal`,
`GEntry` are shared with the model; none of the model's functions is called):

* the recorded history at the tally Scope API level — every first use with its observed outcome
  (usable / no-op / the callback panicked / an error came back from `RegisterTimer`,
  `RegisterCounter` or `RegisterGauge` / a nil vector was dereferenced or handed out / some other
  panic) and the number of error-callback invocations during the call; every increment, gauge update, timer record, histogram sample with whether the
  call panicked; every report pass;
* the canonicalised `Gather()` output observed after a report pass.

Clauses: `firstUseOk` (no panic unless the callback itself panicked; a rejected registration is
reported to the callback exactly once and yields a no-op), `opOk` (no recording call panics — in
particular not on a no-op metric), `gatherOk`: every series listed belongs to a first use that
returned a usable metric and has that kind's Prometheus type; every such first use is listed;
series of one name form one family (same type, help, label names); and — for histories that do not
reuse a name for two kinds — counter = Σ increments, gauge = last update, summary/histogram timer
count = number of records, histogram bounds = the spec's bounds, cumulative count at each bound =
number of samples `≤` it (IEEE `≤` for values, integer `≤` on nanoseconds for durations), total =
number of samples.  Anything recorded on a no-op metric must therefore be invisible.
-/
namespace Tally.Spec.C17
open Tally Tally.Prom

inductive ObsOutcome | usable | noop | callbackPanic | regError | nilDeref | otherPanic
  deriving DecidableEq, Repr

/-- the model's outcome seen as an observation (drops the series key) -/
def obsOf : Outcome → ObsOutcome
  | .usable _ => .usable
  | .noop => .noop
  | .callbackPanic => .callbackPanic
  | .regError _ => .regError
  | .nilDeref => .nilDeref

structure UseRec where
  kind : UseKind
  name : Bytes
  tags : Tags
  outcome : ObsOutcome
  callbacks : Nat
  deriving DecidableEq, Repr

inductive Rec
  | use (u : UseRec)
  | op (i : Nat) (e : LEv) (panicked : Bool)
  | pass (panicked : Bool)
  deriving DecidableEq, Repr

/-! ## first uses -/

def viaRegister : UseKind → Bool
  | .timerAs _ => true
  | .counterAs => true
  | .gaugeAs => true
  | .counterAsD _ => true
  | .gaugeAsD _ => true
  | _ => false

/-- the caller gets a usable metric; or Prometheus' rejection went to the callback (once) and the
caller gets a no-op — or the panic of the callback itself, if it is a panicking one; through
`RegisterTimer` / `RegisterCounter` / `RegisterGauge` the error comes back instead.  Nothing else. -/
def firstUseOk (cbPanics : Bool) (kind : UseKind) (o : ObsOutcome) (callbacks : Nat) : Bool :=
  if viaRegister kind then
    (o == .usable || o == .regError) && callbacks == 0
  else
    (o == .usable && callbacks == 0)
    || (o == .noop && callbacks == 1)
    || (o == .callbackPanic && callbacks == 1 && cbPanics)

def opOk (panicked : Bool) : Bool := !panicked

/-! ## expected values, computed from the recorded history alone -/

def usesOf : List Rec → List UseRec
  | [] => []
  | .use u :: t => u :: usesOf t
  | _ :: t => usesOf t

def opsOf : List Rec → List (Nat × LEv)
  | [] => []
  | .op i e _ :: t => (i, e) :: opsOf t
  | _ :: t => opsOf t

/-- ids (index among the first uses) of the uses satisfying `p` -/
def idsWhere (p : UseRec → Bool) : List UseRec → Nat → List Nat
  | [], _ => []
  | u :: t, i => if p u then i :: idsWhere p t (i + 1) else idsWhere p t (i + 1)

def eventsOn (ops : List (Nat × LEv)) (ids : List Nat) : List LEv :=
  (ops.filter fun p => ids.contains p.1).map (·.2)

def incSum : List LEv → Nat
  | [] => 0
  | .inc n :: t => n + incSum t
  | _ :: t => incSum t

def lastUpdate : List LEv → F64 → F64
  | [], d => d
  | .update b :: t, _ => lastUpdate t b
  | _ :: t, d => lastUpdate t d

def recordCount : List LEv → Nat
  | [] => 0
  | .record _ :: t => recordCount t + 1
  | _ :: t => recordCount t

def samplesIn : List LEv → List Sample
  | [] => []
  | .sample s :: t => s :: samplesIn t
  | _ :: t => samplesIn t

/-- the sample is of the histogram's type (the other type is ignored by tally) -/
def sampleFits : HSpec → Sample → Bool
  | .values _, .value _ => true
  | .durations _ _, .duration _ => true
  | _, _ => false

/-- the bounds Prometheus must list: the spec's, durations in seconds -/
def boundsOf : HSpec → List F64
  | .values s => s
  | .durations s _ => s.map (·.2)

/-- sample `≤` the `j`-th bound: IEEE for values, on nanoseconds for durations -/
def sampleLe : HSpec → Nat → Sample → Bool
  | .values sp, j, .value v => F64.le v (sp.getD j 0)
  | .durations sp _, j, .duration d => decide (d ≤ (sp.getD j (0, 0)).1)
  | _, _, _ => false

def expectedHistogram (spec : HSpec) (samples : List Sample) : GVal :=
  let fit := samples.filter (sampleFits spec)
  let bs := boundsOf spec
  .histogram ((List.range bs.length).map fun j => (bs.getD j 0, (fit.filter (sampleLe spec j)).length)) fit.length

/-! ## the gather clause -/

/-- `AllocateTimer` is `RegisterTimer` with the default flavour as far as the kind of metric goes,
and a counter obtained through `RegisterCounter` adds into the same series as an `AllocateCounter`
one (sums do not depend on when a buffered delta is delivered).  A gauge written directly
(`RegisterGauge`) and a buffered one (`AllocateGauge`) under one name are the excluded reuse: the
buffered value is delivered by the next report pass, over a later direct `Set`.  The help text a
caller passes to `RegisterCounter` / `RegisterGauge` is no part of the kind: a vector found in the
cache is handed out whatever text the call carries, and all direct writers share the series. -/
def normKind (histTimers : Bool) : UseKind → UseKind
  | .timer => .timerAs histTimers
  | .counterAs => .counter
  | .counterAsD _ => .counter
  | .gaugeAsD _ => .gaugeAs
  | k => k

def typeOf (histTimers : Bool) : UseKind → Kind
  | .counter => .counter
  | .gauge => .gauge
  | .timer => if histTimers then .histogram else .summary
  | .timerAs h => if h then .histogram else .summary
  | .histogram _ => .histogram
  | .counterAs => .counter
  | .gaugeAs => .gauge
  | .counterAsD _ => .counter
  | .gaugeAsD _ => .gauge

def gkind : GVal → Kind
  | .counter _ => .counter
  | .gauge _ => .gauge
  | .summary _ => .summary
  | .histogram _ _ => .histogram

/-- no name is used for two kinds of metric (a histogram's bucket spec is part of its kind) -/
def kindConsistent (histTimers : Bool) (uses : List UseRec) : Bool :=
  uses.all fun a => uses.all fun b => a.name != b.name || normKind histTimers a.kind == normKind histTimers b.kind

def live (u : UseRec) : Bool := u.outcome == .usable

def histCount : GVal → Option Nat
  | .histogram _ c => some c
  | _ => none

/-- the value clause for one listed series; `kind` is the (common) kind of the live uses of it -/
def valueOk (kind : UseKind) (evs : List LEv) (v : GVal) : Bool :=
  match kind with
  | .counter | .counterAs | .counterAsD _ => v == .counter (incSum evs)
  | .gauge | .gaugeAs | .gaugeAsD _ => v == .gauge (lastUpdate evs 0)
  | .timer | .timerAs _ =>
    (match v with
     | .summary c => c == recordCount evs
     | .histogram _ c => c == recordCount evs
     | _ => false)
  | .histogram spec => v == expectedHistogram spec (samplesIn evs)

def labelNames (k : SeriesKey) : List Bytes := k.labels.map (·.1)

/-- `none` if the observed listing is what the history demands, else the failing clause -/
def gatherOk (histTimers : Bool) (hist : List Rec) (entries : List GEntry) : Option String :=
  let uses := usesOf hist
  let ops := opsOf hist
  let keyOf (u : UseRec) : SeriesKey := ⟨u.name, u.tags⟩
  if !(entries.map (·.key)).Nodup then some "series-listed-twice"
  else if !(uses.all fun u => !live u || entries.any fun e => e.key == keyOf u && gkind e.val == typeOf histTimers u.kind)
    then some "series-missing"
  else if !(entries.all fun e => uses.any fun u => live u && keyOf u == e.key && typeOf histTimers u.kind == gkind e.val)
    then some "series-unaccounted"
  else if !(entries.all fun a => entries.all fun b => a.key.name != b.key.name
      || (gkind a.val == gkind b.val && a.help == b.help && labelNames a.key == labelNames b.key))
    then some "series-separate"
  else if !kindConsistent histTimers uses then none
  else
    let bad := entries.find? fun e =>
      match uses.find? (fun u => live u && keyOf u == e.key) with
      | none => true
      | some u =>
        let ids := idsWhere (fun u' => live u' && keyOf u' == e.key) uses 0
        !valueOk u.kind (eventsOn ops ids) e.val
    match bad with
    | none => none
    | some e =>
      some (match e.val with
        | .counter _ => "counter-sum"
        | .gauge _ => "gauge-last"
        | .summary _ => "timer-count"
        | .histogram _ _ =>
          if (uses.any fun u => live u && keyOf u == e.key && viaRegister u.kind) || (uses.any fun u => live u && keyOf u == e.key && u.kind == .timer)
          then "timer-count" else "histogram-cumulative")

end Tally.Spec.C17
