import Tally.Prelude
/-!
# C14 as a decidable predicate over what was observed of one reporter's life

The harness runs calls against one real M3 reporter (under the cooperative scheduler or free-running),
always ending with at least one `Close`, and counts:

* `panics`        calls that panicked (recovered)
* `hangs`         calls that had not returned when the watchdog fired
* `closeNil`      `Close` calls that returned nil
* `closeAlready`  `Close` calls that returned the "already closed" error
* `closeOther`    `Close` calls that returned anything else
* `lateItems`     queue items / datagrams observed to be caused by calls begun after a `Close` had returned nil
* `workersLeft`   reporter goroutines (`process`, `timeLoop`) still alive after the winning `Close` returned
* `must`          report calls that are known to have been accepted (returned before any `Close` began, or
                  observed to pass the done-check under the scheduler)
* `charged`       metrics the batching goroutine took off the queue by the time the winning `Close` returned
* `may`           report calls attempted in total
* `races`         data races reported by the Go race detector (0 when it was not run)
-/
namespace Tally.Spec.C14

structure Obs where
  panics : Nat
  hangs : Nat
  closeNil : Nat
  closeAlready : Nat
  closeOther : Nat
  lateItems : Nat
  workersLeft : Nat
  must : Nat
  charged : Nat
  may : Nat
  races : Nat
deriving Repr, DecidableEq

/-- `none` = the property holds of the observation; `some clause` = the clause that is violated -/
def holds (o : Obs) : Option String :=
  if o.panics ≠ 0 then some "no-panic"
  else if o.hangs ≠ 0 then some "no-hang"
  else if o.races ≠ 0 then some "no-data-race"
  else if o.closeOther ≠ 0 then some "second-close-errors"
  else if o.closeNil + o.closeAlready ≠ 0 ∧ o.closeNil ≠ 1 then some "second-close-errors"
  else if o.lateItems ≠ 0 then some "noop-after-close"
  else if o.closeNil = 1 ∧ o.workersLeft ≠ 0 then some "no-leak"
  else if o.closeNil = 1 ∧ ¬ (o.must ≤ o.charged ∧ o.charged ≤ o.may) then some "queue-conservation"
  else none

end Tally.Spec.C14
