import Tally.Prelude
/-!
# C03 as a decidable predicate over what the implementation delivered

Independent of the model: takes the delivered `(lower, upper)` pairs as integer keys (floats
through `F64.key`; the caller guarantees no delivered bound is NaN) and the observed bucket index
of a sample.
-/
namespace Tally.Spec.C03

/-- the delivered pairs tile the line from `lo` to `hi` -/
def tiles (lo hi : Int) (pairs : List (Int × Int)) : Bool :=
  match pairs with
  | [] => false
  | (l0, _) :: _ =>
    l0 == lo
    && (pairs.getLast?.map (·.2) == some hi)
    && (pairs.zip pairs.tail).all (fun (p, q) => q.1 == p.2 && decide (p.2 ≤ q.2))
    && pairs.all (fun p => decide (p.1 ≤ p.2))

/-- the upper bounds are exactly the sorted spec followed by `hi` (as multisets: counts agree) -/
def boundsAreSpec (hi : Int) (spec : List Int) (pairs : List (Int × Int)) : Bool :=
  let ups := pairs.map (·.2)
  ups.length == spec.length + 1
  && ups.getLast? == some hi
  && (spec.all fun s => ups.dropLast.count s == spec.count s)

/-- index `idx` is the least one whose upper bound is `≥ v` -/
def placed (uppers : List Int) (v : Int) (idx : Nat) : Bool :=
  idx < uppers.length
  && decide (uppers.getD idx 0 ≥ v)
  && (List.range idx).all (fun j => decide (uppers.getD j 0 < v))

/-- non-finite samples: +Inf last, -Inf first, NaN anywhere in range -/
def placedNonFinite (n : Nat) (v : F64) (idx : Nat) : Bool :=
  if F64.isNaN v then idx < n
  else if v == F64.posInf then idx + 1 == n
  else if v == F64.negInf then idx == 0
  else true

/-- conservation of bucket counts -/
def conserved (counts : List Int) (nSamples nNaN : Nat) : Bool :=
  let total := counts.foldl (· + ·) 0
  counts.all (· ≥ 0) && decide ((nSamples : Int) - nNaN ≤ total) && decide (total ≤ nSamples)

end Tally.Spec.C03
