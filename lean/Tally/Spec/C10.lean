import Tally.Prelude
/-!
# C10 oracle for instrumented calls and stopwatches (decidable, over what was observed)
-/
namespace Tally.Spec.C10

/-- `Call.Exec f`: f ran once, its error came back unchanged, one latency equal to the clock difference
was recorded, exactly one of the two counters went up by one (the one matching the outcome). -/
def execHolds (fCalls : Nat) (errIn errOut : Option Nat) (latencies : List Int) (elapsed : Int)
    (succDelta errDelta : Int) : Option String :=
  if fCalls != 1 then some "function-invoked-exactly-once"
  else if errIn != errOut then some "error-returned-unchanged"
  else if latencies != [elapsed] then some "one-latency-recorded"
  else if errIn.isSome && !(succDelta == 0 && errDelta == 1) then some "exactly-one-counter"
  else if errIn.isNone && !(succDelta == 1 && errDelta == 0) then some "exactly-one-counter"
  else none

/-- a stopwatch records `stop - start` of the scripted clock -/
def stopwatchHolds (start stop : Int) (recorded : List Int) : Option String :=
  if recorded == [wrap64 (stop - start)] then none else some "stopwatch-elapsed"

end Tally.Spec.C10
