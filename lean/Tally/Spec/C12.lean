import Tally.Model.Thrift
/-!
# C12 as a decidable predicate over what the M3 reporter was observed to do

Observation: the datagrams a loopback sink received (in sequence-number order), the configured
`MaxPacketSizeBytes`, the reporter's `freeBytes` / `overheadBytes` (shims), and the size each metric
was charged when `process()` added it to a batch (charge hook), in that order.

Clauses, per datagram (all byte counts are measured on the *received bytes* with the thrift codec of
`Tally.Thrift`, not with anything from the reporter model):
* `decodes`             — it is exactly one canonical one-way `emitMetricBatchV2` message;
* `datagram-le-max`     — its length is at most the maximum, unless it holds a single metric whose
                          charge alone exceeds `freeBytes` (the property's proviso);
* `charged-ge-actual`   — every metric was charged at least the bytes it occupies in the datagram;
* `charged-ge-worst`    — … and at least the bytes it would occupy with any other value of its kind
                          and any other timestamp (the charge is fixed at allocation, the property
                          quantifies over all values);
* `overhead-ge-envelope`— the reserved overhead covers everything in the datagram that is not a
                          metric (message header, args framing, batch framing, common tags);
* `batch-charge-le-free`— the charges of the batch add up to at most `freeBytes` (same proviso).
The last four imply the second for every composition of a batch.  (That nothing is dropped,
duplicated or reordered when a packet fills up is the `delivery` clause shared with C13,
`Tally.Spec.M3.align`.)

A violated clause comes with a *cause* naming the class of the offender, so that one defect has one
stable signature: `bucket` (a histogram bucket metric: its last two tags are the bucket-id and
bucket-range tags), `plain` (any other metric), `envelope`, `batch-sum`.
-/
namespace Tally.Spec.C12
open Tally Tally.Thrift

structure Obs where
  proto : Proto
  maxPacket : Nat
  free : Int
  overhead : Int
  bucketIdName : Bytes
  bucketName : Bytes
  datagrams : List Bytes
  /-- one per metric, in the order `process()` added them to batches -/
  charges : List Nat

abbrev Verdict := String × String

/-- the metric with the largest encoding among all values of its kind: the kind's slot and the
timestamp at their maxima -/
def worst (m : Metric) : Metric :=
  { m with
    value := { m.value with
               count := if m.value.mtype = 1 then maxI64 else m.value.count
               gauge := if m.value.mtype = 2 then 0x7FEFFFFFFFFFFFFF else m.value.gauge
               timer := if m.value.mtype = 3 then maxI64 else m.value.timer }
    timestamp := maxI64 }

/-- a histogram bucket metric as sent: the last two tags are named like the bucket tags -/
def isBucket (idName rangeName : Bytes) (m : Metric) : Bool :=
  match (m.tags.getD []).reverse with
  | r :: i :: _ => i.name == idName && r.name == rangeName
  | _ => false

def causeOf (o : Obs) (m : Metric) : String := if isBucket o.bucketIdName o.bucketName m then "bucket" else "plain"

/-- decode one datagram canonically -/
def decodeOne (p : Proto) (bytes : Bytes) : Option (Int × MetricBatch) :=
  match decMessage p bytes with
  | some (seq, b, []) => if wfBatch b && encMessage p seq b == bytes then some (seq, b) else none
  | _ => none

def addV (vs : List Verdict) (v : Verdict) : List Verdict := if vs.contains v then vs else vs ++ [v]

/-- per-metric clauses of one datagram: metrics with their charges -/
def metricVerdicts (o : Obs) : List Metric → List Nat → List Verdict → List Verdict
  | m :: ms, c :: cs, vs =>
    let len := (encMetric o.proto m).length
    let wlen := (encMetric o.proto (worst m)).length
    let vs := if c < len then addV vs ("charged-ge-actual", causeOf o m) else vs
    let vs := if c < wlen then addV vs ("charged-ge-worst", causeOf o m) else vs
    metricVerdicts o ms cs vs
  | _, _, vs => vs

/-- the cause attributed to an oversize datagram: the first of batch-sum, plain, bucket, envelope
that is itself violated in this datagram -/
def oversizeCause (o : Obs) (ms : List Metric) (cs : List Nat) (envelope : Int) : String :=
  let under := (List.zip ms cs).filter fun (m, c) => decide (c < (encMetric o.proto (worst m)).length)
  if ((cs.sum : Nat) : Int) > o.free then "batch-sum"
  else if under.any fun (m, _) => !isBucket o.bucketIdName o.bucketName m then "plain"
  else if !under.isEmpty then "bucket"
  else if envelope > o.overhead then "envelope"
  else "unexplained"

abbrev Decoded := Bytes × Option (Int × MetricBatch)

def datagramVerdicts (o : Obs) (d : Decoded) (cs : List Nat) (vs : List Verdict) : List Verdict :=
  match d.2 with
  | none => addV vs ("decodes", "datagram")
  | some (_, b) =>
    let bytes := d.1
    let ms := b.metrics
    let lens := ms.map fun m => (encMetric o.proto m).length
    let envelope : Int := (bytes.length : Int) - (lens.sum : Nat)
    let exempt := match cs with | [c] => decide ((c : Int) > o.free) | _ => false
    let vs := metricVerdicts o ms cs vs
    let vs := if envelope > o.overhead then addV vs ("overhead-ge-envelope", "envelope") else vs
    let vs := if !exempt && decide (((cs.sum : Nat) : Int) > o.free) then addV vs ("batch-charge-le-free", "batch-sum") else vs
    if !exempt && decide (bytes.length > o.maxPacket) then
      addV vs ("datagram-le-max", oversizeCause o ms cs envelope)
    else vs

/-- number of metrics of a datagram (0 if it does not decode) -/
def metricCount (d : Decoded) : Nat :=
  match d.2 with
  | some (_, b) => b.metrics.length
  | none => 0

def go (o : Obs) : List Decoded → List Nat → List Verdict → List Verdict
  | [], _, vs => vs
  | d :: ds, cs, vs =>
    let n := metricCount d
    go o ds (cs.drop n) (datagramVerdicts o d (cs.take n) vs)

/-- each datagram with its canonical decoding -/
def decodeAll (o : Obs) : List Decoded := o.datagrams.map fun d => (d, decodeOne o.proto d)

/-- all violated (clause, cause) pairs, given `decodeAll o`; `charges` must have one entry per
received metric -/
def verdictsOn (o : Obs) (dec : List Decoded) : List Verdict := go o dec o.charges []

def verdicts (o : Obs) : List Verdict := verdictsOn o (decodeAll o)

def chargesAlignedOn (o : Obs) (dec : List Decoded) : Bool := (dec.map metricCount).sum == o.charges.length

def chargesAligned (o : Obs) : Bool := chargesAlignedOn o (decodeAll o)

def holds (o : Obs) : Bool := chargesAligned o && (verdicts o).isEmpty

/-- the size clause on its own (what `datagram_le_max` proves of the model): every datagram is at
most `maxPacket` long -/
def allWithin (maxPacket : Nat) (datagrams : List Bytes) : Bool :=
  datagrams.all fun d => decide (d.length ≤ maxPacket)

end Tally.Spec.C12
