import Tally.Prelude
/-!
# C01 as a decidable predicate over an observed trace

The trace is what the harness saw: increments applied, deltas handed to the reporter (per counter),
and a marker after which the harness ran two further solo passes.
-/
namespace Tally.Spec.C01

def sum (l : List Int) : Int := l.sum

/-- at quiescence (no visit in flight, one more pass has run): delivered deltas add up to the
increments (in int64 wrap-around arithmetic) -/
def conserved (incs delivered : List Int) : Bool := wrap64 (sum delivered) == wrap64 (sum incs)

/-- no negative (and no zero) delta when every increment is non-negative — under the explicit guard
that the unreported amount cannot leave the int64 range (the increments add up to at most MaxInt64) -/
def signOk (incs delivered : List Int) : Bool :=
  !(incs.all (· ≥ 0) && decide (sum incs ≤ maxInt64)) || delivered.all (· > 0)

/-- a pass with no new increments delivers nothing: `idleDelivered` are the deltas seen during the
second of two consecutive solo passes made after all activity stopped -/
def idleSilent (idleDelivered : List Int) : Bool := idleDelivered.isEmpty

def holds (incs delivered idleDelivered : List Int) : Option String :=
  if !conserved incs delivered then some "conservation"
  else if !signOk incs delivered then some "no-negative-delta"
  else if !idleSilent idleDelivered then some "idle-silent"
  else none

end Tally.Spec.C01
