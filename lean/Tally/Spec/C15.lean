import Tally.Prelude
import Tally.Model.UdpObs
/-!
# C15 as a decidable predicate over an observed history

Input: the calls made on a transport, each with the result the caller saw (`n`, error class) and
the datagrams that arrived at the sink(s) since the previous call; the maximum datagram length;
and what the environment did to the socket (`Env`).  The predicate keeps only the *caller's*
bookkeeping — the concatenation `cur` of the writes that were accepted since the last `Flush`,
whether one of them was refused (`dirty`), whether `Close` was called — and knows nothing of
buffers or flags inside the transport.  A message is the writes between two flushes.

Clauses (the names are what the driver prints after `violated`):

* (a) `flush-not-exact`: a successful flush of a message none of whose writes was refused
  delivers exactly one datagram, equal to the concatenation of its writes; `write-sent`,
  `failed-flush-sent`, `close-sent`: nothing else ever delivers anything — so every datagram is
  one such message and each successfully flushed message arrives exactly once, in order
  (`delivered_eq` below states this globally); `clean-flush-failed`: without an injected socket
  fault such a flush succeeds;
* (b) `datagram-too-large`;
* (c) `dirty-message-sent`: a message that had a refused write delivers nothing — neither the
  refused bytes nor the accepted ones; `oversize-accepted`: a write that would make the message
  exceed the maximum is refused; `fitting-write-refused`: a write that fits into a message
  without refusals is accepted — in particular the first writes after *any* flush, failed or
  not, which is how "the buffer is empty after a failed send" and "the next message is
  complete" are observable; `short-write`, `refused-write-n`: accepted wholly or not at all;
* (d) `use-after-close`: after `Close` every call returns not-open and nothing is delivered;
  `close-not-idempotent`: a further `Close` returns nil; `close-failed`, `is-open`;
* (e) `fanout-unequal` (multi): as long as the history has neither faults nor errors every
  destination receives the same datagrams at every call; and every destination's projection satisfies
  (a)–(d) as long as no *socket* fault was injected (the property promises the fan-out only
  "when no destination fails"; after a socket fault only (b) and (d) are judged per destination).
-/
namespace Tally.Spec.C15
open Tally Tally.UdpObs

structure St where
  cur : Bytes := []
  dirty : Bool := false
  closed : Bool := false
  deriving DecidableEq, Repr, Inhabited

/-- the clause violated by one observed call, if any -/
def checkEv (max : Nat) (st : St) (e : Ev) : Option String :=
  if e.recv.any (fun d => decide (d.length > max)) then some "datagram-too-large"
  else if st.closed then
    match e.kind with
    | .close => if e.err = .nil ∧ e.recv = [] then none else some "close-not-idempotent"
    | .isOpen => if e.n = 0 ∧ e.recv = [] then none else some "use-after-close"
    | _ => if e.err = .notOpen ∧ e.n = 0 ∧ e.recv = [] then none else some "use-after-close"
  else
    match e.kind with
    | .write | .writeString | .writeByte =>
      if e.recv ≠ [] then some "write-sent"
      else if e.err = .nil then
        if e.kind ≠ .writeByte ∧ e.n ≠ e.arg.length then some "short-write"
        else if st.cur.length + e.arg.length > max then some "oversize-accepted"
        else none
      else if e.n ≠ 0 then some "refused-write-n"
      else if st.dirty = false ∧ st.cur.length + e.arg.length ≤ max then some "fitting-write-refused"
      else none
    | .flush =>
      if st.dirty then (if e.recv = [] then none else some "dirty-message-sent")
      else if e.err = .nil then
        if e.env = .sinkDown then (if e.recv = [] then none else some "flush-not-exact")
        else if e.recv = [st.cur] then none else some "flush-not-exact"
      else if e.recv ≠ [] then some "failed-flush-sent"
      else if e.env = .ok then some "clean-flush-failed"
      else none
    | .close =>
      if e.recv ≠ [] then some "close-sent"
      else if e.err ≠ .nil ∧ e.env = .ok then some "close-failed"
      else none
    | .isOpen => if e.n = 1 ∧ e.recv = [] then none else some "is-open"

/-- the caller's bookkeeping after one observed call -/
def next (st : St) (e : Ev) : St :=
  if st.closed then st
  else
    match e.kind with
    | .write | .writeString | .writeByte =>
      if e.err = .nil then { st with cur := st.cur ++ e.arg } else { st with dirty := true }
    | .flush => { st with cur := [], dirty := false }
    | .close => { st with closed := true }
    | .isOpen => st

/-- first violated clause of a history -/
def checkFrom (max : Nat) (st : St) : List Ev → Option String
  | [] => none
  | e :: es =>
    match checkEv max st e with
    | some c => some c
    | none => checkFrom max (next st e) es

def check (max : Nat) (evs : List Ev) : Option String := checkFrom max {} evs

/-- **the property**, single destination -/
def holds (max : Nat) (evs : List Ev) : Bool := (check max evs).isNone

/-- the messages the history says were delivered: `cur` at every successful flush of a message
without refusals while the sink was listening -/
def messagesFrom (st : St) : List Ev → List Bytes
  | [] => []
  | e :: es =>
    let rest := messagesFrom (next st e) es
    if !st.closed && e.kind = .flush && !st.dirty && e.err = .nil && e.env ≠ .sinkDown then st.cur :: rest
    else rest

/-- global form of (a): the sink's datagram sequence is exactly the sequence of successfully
flushed refusal-free messages, each once, in order -/
def deliveredExactly (evs : List Ev) : Bool :=
  decide (evs.flatMap (·.recv) = messagesFrom {} evs)

/-! ## multi-destination -/

/-- only the clauses that do not depend on delivery: (b) and (d) -/
def checkEvWeak (max : Nat) (st : St) (e : Ev) : Option String :=
  if e.recv.any (fun d => decide (d.length > max)) then some "datagram-too-large"
  else if st.closed ∧ e.recv ≠ [] then some "use-after-close"
  else none

def allEqual : List (List Bytes) → Bool
  | [] => true
  | x :: xs => xs.all (· = x)

/-- bookkeeping for `k` destinations: one caller's view per destination (they differ only in what
arrived), whether a socket fault was injected so far, whether the history so far is free of
faults and errors -/
structure MSt where
  dests : List St
  faulted : Bool := false
  quiet : Bool := true
  deriving DecidableEq, Repr, Inhabited

def MSt.init (k : Nat) : MSt := { dests := List.replicate k {} }

/-- per destination: strict (a)–(d) until the first injected socket fault anywhere, then (b), (d) -/
def checkDests (max : Nat) (weak : Bool) (e : MEv) : Nat → List St → Option String
  | _, [] => none
  | d, st :: sts =>
    match (if weak then checkEvWeak max st (e.proj d) else checkEv max st (e.proj d)) with
    | some c => some c
    | none => checkDests max weak e (d + 1) sts

def nextDests (e : MEv) : Nat → List St → List St
  | _, [] => []
  | d, st :: sts => next st (e.proj d) :: nextDests e (d + 1) sts

def checkMEv (max : Nat) (ms : MSt) (e : MEv) : Option String :=
  let faulted' := ms.faulted || e.envs.any (· ≠ .ok)
  let quiet' := ms.quiet && !faulted' && e.err = .nil
  if e.recv.length ≠ ms.dests.length then some "shape"
  else if quiet' && !allEqual e.recv then some "fanout-unequal"
  else checkDests max faulted' e 0 ms.dests

def nextM (ms : MSt) (e : MEv) : MSt :=
  let faulted' := ms.faulted || e.envs.any (· ≠ .ok)
  { dests := nextDests e 0 ms.dests, faulted := faulted', quiet := ms.quiet && !faulted' && e.err = .nil }

def checkMultiFrom (max : Nat) (ms : MSt) : List MEv → Option String
  | [] => none
  | e :: es =>
    match checkMEv max ms e with
    | some c => some c
    | none => checkMultiFrom max (nextM ms e) es

def checkMulti (max k : Nat) (evs : List MEv) : Option String := checkMultiFrom max (MSt.init k) evs

/-- **the property**, `k` destinations -/
def holdsMulti (max k : Nat) (evs : List MEv) : Bool := (checkMulti max k evs).isNone

/-! ## the M3 reporter end to end

A scenario is a list of batches (the metric names reported before one `reporter.Flush()`, and
whether the batch can fit into one datagram) and the datagrams the sink received, each either
decoded cleanly into the names it carries or not decodable as exactly one thrift message. -/

structure RBatch where
  names : List Bytes
  fits : Bool
  deriving DecidableEq, Repr, Inhabited

inductive RDgram
  | clean (len : Nat) (names : List Bytes)
  | garbled (len : Nat)
  deriving DecidableEq, Repr, Inhabited

def RDgram.len : RDgram → Nat
  | .clean l _ => l | .garbled l => l

def RDgram.names : RDgram → List Bytes
  | .clean _ ns => ns | .garbled _ => []

/-- clauses: `datagram-too-large`; `garbled-datagram` (a datagram that is not exactly one
message: stale bytes of an abandoned message in front of it); `batch-lost` (a batch that fits was
not delivered: the reporter stopped emitting); `batch-mangled` (names of a fitting batch arrive
other than once, in order, in one datagram); `foreign-name` (a datagram mixes batches or carries
names of a batch that cannot fit) -/
def checkReporter (max : Nat) (batches : List RBatch) (got : List RDgram) : Option String :=
  if got.any (fun d => decide (d.len > max)) then some "datagram-too-large"
  else if got.any (fun d => match d with | .garbled _ => true | _ => false) then some "garbled-datagram"
  else
    let carrying := got.filter (fun d => !d.names.isEmpty)
    let expected := (batches.filter (fun b => b.fits && !b.names.isEmpty)).map (·.names)
    if expected.any (fun ns => ns.all (fun n => !carrying.any (fun d => d.names.contains n))) then some "batch-lost"
    else if decide (carrying.map (·.names) = expected) then none
    else if carrying.any (fun d => d.names.any (fun n => !expected.any (fun ns => ns.contains n))) then some "foreign-name"
    else some "batch-mangled"

def holdsReporter (max : Nat) (batches : List RBatch) (got : List RDgram) : Bool :=
  (checkReporter max batches got).isNone

end Tally.Spec.C15
