import Tally.Model.Sanitize
/-!
# C06 as a decidable predicate over (options, input, output of the implementation)
Uses only the UTF-8 reader (to look at the runes of a string) and the allowed-set test.
-/
namespace Tally.Spec.C06
open Tally Tally.Utf8 Tally.Sanitize

/-- every rune of `out` is allowed or is the replacement, and no invalid byte passed through -/
def outputClean (c : ValidChars) (rep : Int) (out : Bytes) : Bool :=
  (decodeAll out).all fun it => okItem c it || (it.rune == normRep rep && !it.isError)

def runeCountKept (inp out : Bytes) : Bool := (decodeAll inp).length == (decodeAll out).length

def validUnchanged (c : ValidChars) (inp out : Bytes) : Bool :=
  !((decodeAll inp).all (okItem c)) || inp == out

def holds (c : ValidChars) (rep : Int) (inp out : Bytes) : Option String :=
  if !outputClean c rep out then some "output-allowed-or-replacement"
  else if !runeCountKept inp out then some "rune-count-preserved"
  else if !validUnchanged c inp out then some "valid-unchanged"
  else none

end Tally.Spec.C06
