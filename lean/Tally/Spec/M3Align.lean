import Tally.Model.Thrift
import Tally.Model.Statsd
/-!
# Matching the metrics found in the datagrams with the harness's log of reports (C12 and C13)

The harness logs, per producer goroutine, every report it made (name, kind, the full value triple it
expects on the wire, the tag map it allocated the handle with, for histogram buckets the bucket
specification and the bound it asked for, the wall clock before and after the call).  The datagrams
give the flat sequence of metrics `process()` emitted.  The queue is FIFO and a producer's calls are
sequential, so the emitted sequence must be an interleaving of the producers' logs: `align` walks
the emitted sequence and pairs every metric with the first not yet matched log entry of some
producer that has the same name and metric type (log entries skipped on the way were *dropped*,
emitted metrics that no producer is waiting for are *unexpected*: duplicates or fabrications).
Names and kinds only decide the pairing; values, tags and timestamps of the pairs are judged
afterwards, clause by clause.  The reporter's own telemetry (`tally.internal.*`, sent by `Flush`) is
not part of the log and is left out before matching.

Expected bucket tags are computed here from the specification alone (no sorting, no search):
the bucket that a bound `u` falls into has upper bound `hi = min {b ∈ spec ∪ {max} | b ≥ u}`, index
`#{b ∈ spec | b < hi}` and lower bound `max {b ∈ spec ∪ {-max} | b < hi}`.
-/
namespace Tally.Spec.M3
open Tally Tally.Thrift

structure Expected where
  producer : Nat
  /-- position in the producer's log -/
  seqNo : Nat
  /-- ordinal of the handle (groups the buckets of one histogram) -/
  handle : Nat
  name : Bytes
  mtype : Int
  count : Int
  gauge : UInt64
  timer : Int
  /-- the tag map the handle was allocated with (sorted by key) -/
  allocTags : List (Bytes × Bytes)
  /-- allocated tags followed, for a histogram bucket, by the bucket-id and bucket-range tag -/
  tags : List (Bytes × Bytes)
  /-- for a bucket report: sortable key of the bucket's upper bound and the expected index -/
  bucket : Option (Int × Nat)
  /-- wall clock (ns) before and after the call -/
  tBegin : Int
  tEnd : Int
deriving Repr

def internalPrefix : Bytes := [116, 97, 108, 108, 121, 46, 105, 110, 116, 101, 114, 110, 97, 108, 46]

def isInternal (m : Metric) : Bool := internalPrefix.isPrefixOf m.name

def weakMatch (e : Expected) (m : Metric) : Bool := e.name == m.name && e.mtype == m.value.mtype

structure Aligned where
  pairs : List (Expected × Metric)
  dropped : List Expected
  unexpected : List Metric

/-- how far behind a producer's next expected entry a match is still looked for -/
def lookahead : Nat := 256

/-- position of the first weakly matching entry of every producer's pending log -/
def candidates (pending : List (List Expected)) (m : Metric) : List (Nat × Nat) :=
  (pending.zipIdx.filterMap fun (l, pi) => ((l.take lookahead).findIdx? fun e => weakMatch e m).map fun j => (pi, j))

def best : List (Nat × Nat) → Option (Nat × Nat)
  | [] => none
  | c :: cs => some (cs.foldl (fun b x => if x.2 < b.2 then x else b) c)

def align (logs : List (List Expected)) (emitted : List Metric) : Aligned :=
  let rec go (pending : List (List Expected)) (ms : List Metric) (acc : Aligned) : Aligned :=
    match ms with
    | [] => { acc with dropped := acc.dropped ++ pending.flatten }
    | m :: rest =>
      match best (candidates pending m) with
      | none => go pending rest { acc with unexpected := acc.unexpected ++ [m] }
      | some (pi, j) =>
        let l := pending.getD pi []
        match l.drop j with
        | [] => go pending rest acc
        | e :: l' =>
          go (pending.set pi l') rest
            { acc with pairs := (e, m) :: acc.pairs, dropped := acc.dropped ++ l.take j }
  let a := go logs (emitted.filter fun m => !isInternal m) { pairs := [], dropped := [], unexpected := [] }
  { a with pairs := a.pairs.reverse }

/-! ## expected bucket tags -/

def minBy (key : α → Int) : List α → Option α
  | [] => none
  | x :: xs => some (xs.foldl (fun b y => if key y < key b then y else b) x)

def maxBy (key : α → Int) : List α → Option α
  | [] => none
  | x :: xs => some (xs.foldl (fun b y => if key y > key b then y else b) x)

def ndigits (n : Nat) : Nat := (Statsd.natDigits n).length

def idText (specLen idx : Nat) : Bytes := Statsd.padLeft0 (max (ndigits specLen) 4) (Statsd.natDigits idx)

def valueText (prec : Nat) (x : F64) : Bytes := Statsd.valueBucketString prec x

def durationText (d : Int) : Bytes := if d = 0 then [48] else Statsd.durationBucketString d

/-- `(key of the bucket's upper bound, index, id text, range text)` for a value histogram with
bounds `spec` (finite, not NaN) asked for the bucket of `u`; `none`: no bucket (the handle is a
no-op) -/
def valueBucket (prec : Nat) (spec : List F64) (u : F64) : Option (Int × Nat × Bytes × Bytes) :=
  if F64.isNaN u || !F64.ge F64.maxFloat u then none else
  let hi := (minBy F64.key (spec.filter fun b => F64.ge b u)).getD F64.maxFloat
  let below := spec.filter fun b => F64.lt b hi
  let lo := (maxBy F64.key below).getD F64.negMaxFloat
  some (F64.key hi, below.length, idText spec.length below.length,
        valueText prec lo ++ (45 :: valueText prec hi))

def durationBucket (spec : List Int) (u : Int) : Option (Int × Nat × Bytes × Bytes) :=
  let hi := (minBy id (spec.filter fun b => decide (b ≥ u))).getD maxInt64
  let below := spec.filter fun b => decide (b < hi)
  let lo := (maxBy id below).getD minInt64
  some (hi, below.length, idText spec.length below.length, durationText lo ++ (45 :: durationText hi))

/-! ## delivery clause (shared by C12 and C13) -/

abbrev Verdict := String × String

def addV (vs : List Verdict) (v : Verdict) : List Verdict := if vs.contains v then vs else vs ++ [v]

def deliveryVerdicts (a : Aligned) (vs : List Verdict) : List Verdict :=
  let vs := if a.dropped.isEmpty then vs else addV vs ("delivery", "dropped")
  if a.unexpected.isEmpty then vs else addV vs ("delivery", "unexpected")

end Tally.Spec.M3
