import Tally.Prelude
import Tally.Model.BucketCtor
/-!
# C20 as decidable predicates over what the implementation was observed to do

Only the *data types* of the constructor model (`Call`, `CtorErr`, `Bounds`, `MustRes`, `FOps`)
are shared with it; nothing here calls a model function.

* `ctorHolds`: a constructor call, what the plain variant returned and what the `Must` variant
  did: error iff a guard fires (first guard in source order decides which), otherwise exactly `n`
  bounds following the recurrence; `Must` panics with that error iff the plain variant errs and
  otherwise returns the same bounds.
* `callerUnchanged`: the caller's slice before / after a call, bit for bit.
* `boundsKept`: the upper bounds a histogram uses are the creating spec in non-decreasing order
  followed by the maximum (as integer keys: int64 itself, `F64.key` for floats, so `-0 = +0`).
-/
namespace Tally.Spec.C20
open Tally Tally.BucketCtor

/-- which guard fires, tested in the order `n <= 0`, `start <= 0`, `factor <= 1` -/
def guardErr : Call → Option CtorErr
  | .linV _ _ n => if n ≤ 0 then some .count else none
  | .linD _ _ n => if n ≤ 0 then some .count else none
  | .expV s f n =>
    if n ≤ 0 then some .count
    else if F64.le s 0 then some .start
    else if F64.le f 0x3FF0000000000000 then some .factor
    else none
  | .expD s f n =>
    if n ≤ 0 then some .count
    else if s ≤ 0 then some .start
    else if F64.le f 0x3FF0000000000000 then some .factor
    else none

def countOf : Call → Int
  | .linV _ _ n | .linD _ _ n | .expV _ _ n | .expD _ _ n => n

/-- consecutive elements are related by `next` -/
def chain (eq : α → α → Bool) (next : α → α) : List α → Bool
  | [] => true
  | [_] => true
  | a :: b :: rest => eq b (next a) && chain eq next (b :: rest)

/-- element `i` is `elem i` -/
def indexed (eq : α → α → Bool) (elem : Nat → α) (l : List α) (dflt : α) : Bool :=
  (List.range l.length).all fun i => eq (l.getD i dflt) (elem i)

/-- exactly `n` bounds, following the constructor's recurrence (float operations through `ops`) -/
def recurrence (ops : FOps) (c : Call) (b : Bounds) : Bool :=
  match c, b with
  | .linV s w n, .vals l =>
    decide ((l.length : Int) = n)
    && indexed F64.same (fun (i : Nat) => ops.fadd s (ops.fmul (ops.ofInt (i : Int)) w)) l 0
  | .linD s w n, .durs l =>
    decide ((l.length : Int) = n)
    && indexed (fun a b => a == b) (fun (i : Nat) => wrap64 (s + wrap64 ((i : Int) * w))) l 0
  | .expV s f n, .vals l =>
    decide ((l.length : Int) = n)
    && (match l.head? with | some h => F64.same h s | none => false)
    && chain F64.same (fun a => ops.fmul a f) l
  | .expD s f n, .durs l =>
    decide ((l.length : Int) = n)
    && l.head? == some s
    && chain (fun a b => a == b) (fun a => ops.toInt (ops.fmul (ops.ofInt a) f)) l
  | _, _ => false

def sameBounds : Bounds → Bounds → Bool
  | .vals a, .vals b => a.length == b.length && (a.zip b).all fun (x, y) => F64.same x y
  | .durs a, .durs b => a == b
  | _, _ => false

/-- the whole constructor clause -/
def ctorHolds (ops : FOps) (c : Call) (plain : Res) (mustR : MustRes) : Bool :=
  match guardErr c, plain, mustR with
  | some e, .error e', .panic e'' => e == e' && e == e''
  | none, .ok b, .value b' => decide (0 < countOf c) && recurrence ops c b && sameBounds b b'
  | _, _, _ => false

/-- clause name for the first failing part (for `violated <clause>`) -/
def ctorClause (ops : FOps) (c : Call) (plain : Res) (mustR : MustRes) : String :=
  match guardErr c, plain, mustR with
  | some _, .error _, .panic _ => "error-kind"
  | some _, .ok _, _ => "error-guard"
  | none, .error _, _ => "error-guard"
  | some _, .error _, .value _ => "must-panics-iff-error"
  | none, .ok _, .panic _ => "must-panics-iff-error"
  | none, .ok b, .value b' => if recurrence ops c b then (if sameBounds b b' then "count" else "must-same-bounds") else "recurrence"

/-- the caller's slice is bit-for-bit what it was -/
def callerUnchanged (before after : List UInt64) : Bool := before == after
def callerUnchangedInt (before after : List Int) : Bool := before == after

/-- `obs` (keys of the upper bounds in bucket order) is `spec` in non-decreasing order followed by
`hi`: right length, last is `hi`, never decreasing before it, and every spec key occurs equally
often (the step to `hi` itself is not tested: `+Inf` is a legal, if useless, spec element). -/
def boundsKept (hi : Int) (spec obs : List Int) : Bool :=
  obs.length == spec.length + 1
  && obs.getLast? == some hi
  && (obs.dropLast.zip obs.dropLast.tail).all (fun (a, b) => decide (a ≤ b))
  && (spec.all fun s => obs.dropLast.count s == spec.count s)

end Tally.Spec.C20
