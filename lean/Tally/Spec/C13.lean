import Tally.Spec.M3Align
/-!
# C13 as a decidable predicate over what the M3 reporter was observed to do

Observation: the harness's log of reports (per producer goroutine, `Tally.Spec.M3.Expected`), the
wall clock just before `NewReporter` was called, the expected common tags, and the datagrams a
loopback sink received after `Close` returned, in sequence-number order.

Clauses (violations are reported as `(clause, cause)`):
* `decodes`            — every datagram is exactly one canonical, well-formed ONEWAY
                         `emitMetricBatchV2` message without trailing bytes;
* `common-tags`        — every batch carries exactly the expected common tags (as a set);
* `delivery`           — `dropped`: a logged report is in no datagram (this is also "Close returns
                         only after everything queued was emitted": the datagrams are collected
                         after Close); `unexpected`: an emitted metric matches no log entry
                         (duplicate, fabrication, or out of order within a producer);
* `value-intact`       — the metric type and the three numeric slots are exactly the logged ones
                         (floats by bit pattern);
* `tags-intact`        — the tags are, as a set, the allocated pairs (plus, for histogram buckets,
                         the expected bucket-id and bucket-range tags); cause `other-allocation`
                         when the observed tags are exactly the pairs some *other* logged handle
                         was allocated with (what a cache keyed by a colliding hash produces),
                         `bucket-tags` when only the two bucket tags are wrong, else `corrupt`;
* `bucket-ids-increase`— among the emitted buckets of one histogram the bucket-id texts increase
                         strictly with the bucket bounds (equal bound ⇒ equal id);
* `timestamp-bracket`  — construction time ≤ timestamp ≤ the wall clock after the call; cause `zero`
                         for timestamp 0, `early`, `late`;
* `timestamp-monotone` — within one producer timestamps never decrease (the clock cell is monotone
                         and each report reads it at the call).
-/
namespace Tally.Spec.C13
open Tally Tally.Thrift Tally.Spec.M3

structure Obs where
  proto : Proto
  /-- wall clock (ns) just before the constructor was called -/
  tConstruct : Int
  commonTags : List (Bytes × Bytes)
  bucketIdName : Bytes
  bucketName : Bytes
  /-- every allocated handle with its tag map (used only to name the cause of a tag mismatch) -/
  allocated : List (Nat × List (Bytes × Bytes))
  /-- one log per producer -/
  logs : List (List Expected)
  datagrams : List Bytes

/-- the common tags `NewReporter` must attach: the configured ones, with `service` / `env` taken
from the options when the configured map has no (or an empty) value, and `host` when requested -/
def expectedCommon (user : List (Bytes × Bytes)) (service env : Bytes) (host : Option Bytes) :
    List (Bytes × Bytes) :=
  let put (m : List (Bytes × Bytes)) (k v : Bytes) : List (Bytes × Bytes) :=
    if (user.lookup k).getD [] == [] then (m.filter fun kv => kv.1 != k) ++ [(k, v)] else m
  let m := put user [115, 101, 114, 118, 105, 99, 101] service
  let m := put m [101, 110, 118] env
  match host with
  | some h => put m [104, 111, 115, 116] h
  | none => m

def pairsOfTags (ts : Option (List MetricTag)) : List (Bytes × Bytes) := (ts.getD []).map fun t => (t.name, t.value)

def decodeOne (p : Proto) (bytes : Bytes) : Option (Int × MetricBatch) :=
  match decMessage p bytes with
  | some (seq, b, []) => if wfBatch b && encMessage p seq b == bytes then some (seq, b) else none
  | _ => none

def decodeAll (p : Proto) (ds : List Bytes) : List (Option (Int × MetricBatch)) := ds.map (decodeOne p)

def metricsOf : Option (Int × MetricBatch) → List Metric
  | some (_, b) => b.metrics
  | none => []

def emitted (p : Proto) (ds : List Bytes) : List Metric := (decodeAll p ds).flatMap metricsOf

def valueOk (e : Expected) (m : Metric) : Bool :=
  m.value.mtype == e.mtype && m.value.count == e.count && m.value.gauge == e.gauge && m.value.timer == e.timer

def tagsOk (e : Expected) (m : Metric) : Bool := (pairsOfTags m.tags).isPerm e.tags

/-- classify a tag mismatch -/
def tagCause (o : Obs) (e : Expected) (m : Metric) : String :=
  let got := pairsOfTags m.tags
  let isB (kv : Bytes × Bytes) : Bool := kv.1 == o.bucketIdName || kv.1 == o.bucketName
  let extra := e.tags.drop e.allocTags.length
  let others := o.allocated.filter fun x => x.1 != e.handle && !(x.2.isPerm e.allocTags)
  if others.any fun x => got.isPerm (x.2 ++ extra) then "other-allocation"
  else if e.bucket.isSome && (got.filter fun kv => !isB kv).isPerm (e.tags.filter fun kv => !isB kv) then "bucket-tags"
  else "corrupt"

def tsCause (o : Obs) (e : Expected) (m : Metric) : Option String :=
  if m.timestamp = 0 && decide (o.tConstruct > 0) then some "zero"
  else if m.timestamp < o.tConstruct then some "early"
  else if m.timestamp > e.tEnd then some "late"
  else none

def pairVerdicts (o : Obs) : List (Expected × Metric) → List Verdict → List Verdict
  | [], vs => vs
  | (e, m) :: rest, vs =>
    let vs := if valueOk e m then vs else addV vs ("value-intact", "value")
    let vs := if tagsOk e m then vs else addV vs ("tags-intact", tagCause o e m)
    let vs := match tsCause o e m with | some c => addV vs ("timestamp-bracket", c) | none => vs
    pairVerdicts o rest vs

/-- timestamps of one producer's matched metrics, in emission order, never decrease -/
def monotoneFrom : Int → List Int → Bool
  | _, [] => true
  | prev, t :: ts => decide (prev ≤ t) && monotoneFrom t ts

def monotoneOk (pairs : List (Expected × Metric)) (producers : Nat) : Bool :=
  (List.range producers).all fun p =>
    match (pairs.filter fun (e, _) => e.producer == p).map fun (_, m) => m.timestamp with
    | [] => true
    | t :: ts => monotoneFrom t ts

/-- the bucket-id tag value of an emitted metric -/
def idOf (o : Obs) (m : Metric) : Option Bytes :=
  -- the reporter appends the bucket tags AFTER the histogram's own tags: when an own tag carries the same name, the
  -- bucket id is the last tag of that name
  ((pairsOfTags m.tags).filter fun kv => kv.1 == o.bucketIdName).getLast?.map (·.2)

def bytesLt : Bytes → Bytes → Bool
  | [], [] => false
  | [], _ :: _ => true
  | _ :: _, [] => false
  | a :: as, b :: bs => if a < b then true else if b < a then false else bytesLt as bs

/-- distinct `(handle, bound key, id text)` triples of the emitted buckets -/
def bucketTriples (o : Obs) (pairs : List (Expected × Metric)) : List (Nat × Int × Bytes) :=
  pairs.foldl (fun acc (e, m) =>
    match e.bucket, idOf o m with
    | some (k, _), some id => if acc.contains (e.handle, k, id) then acc else (e.handle, k, id) :: acc
    | _, _ => acc) []

def idsIncrease (ts : List (Nat × Int × Bytes)) : Bool :=
  ts.all fun (h1, k1, id1) => ts.all fun (h2, k2, id2) =>
    h1 != h2 || (if k1 < k2 then id1.length == id2.length && bytesLt id1 id2
                 else if k1 = k2 then id1 == id2 else true)

def commonOk (o : Obs) (b : MetricBatch) : Bool := (pairsOfTags b.commonTags).isPerm o.commonTags

/-- all violated (clause, cause) pairs, given `decodeAll o.proto o.datagrams` -/
def verdictsOn (o : Obs) (dec : List (Option (Int × MetricBatch))) : List Verdict :=
  let vs : List Verdict := if dec.all (·.isSome) then [] else [("decodes", "datagram")]
  let vs := if dec.all (fun r => match r with | some (_, b) => commonOk o b | none => true) then vs
            else addV vs ("common-tags", "batch")
  let a := align o.logs (dec.flatMap metricsOf)
  let vs := deliveryVerdicts a vs
  let vs := pairVerdicts o a.pairs vs
  let vs := if monotoneOk a.pairs o.logs.length then vs else addV vs ("timestamp-monotone", "decrease")
  if idsIncrease (bucketTriples o a.pairs) then vs else addV vs ("bucket-ids-increase", "order")

def verdicts (o : Obs) : List Verdict := verdictsOn o (decodeAll o.proto o.datagrams)

def holds (o : Obs) : Bool := (verdicts o).isEmpty

/-! the simple clauses on their own (what the theorems of `Props/C13.lean` state of the model) -/

/-- every datagram decodes and carries exactly (as a list) these common tags -/
def allCarry (p : Proto) (ct : List MetricTag) (ds : List Bytes) : Bool :=
  ds.all fun d => match decodeOne p d with
    | some (_, b) => b.commonTags == some ct
    | none => false

/-- strict form of `delivery` for one log: the emitted metrics are exactly these, in order -/
def deliveredExactly (p : Proto) (expected : List Metric) (ds : List Bytes) : Bool :=
  (decodeAll p ds).all (·.isSome) && emitted p ds == expected

end Tally.Spec.C13
