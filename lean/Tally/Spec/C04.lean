import Tally.Model.Sanitize
import Tally.Model.KeyGen
/-!
# C04 / C05 oracle pieces: the name and tags a derivation must produce

Independent of the scope model: folds over the derivation program.
-/
namespace Tally.Spec.C04
open Tally Tally.KeyGen

/-- join of prefix and component with the separator; an empty prefix contributes no separator -/
def join (sep pfx name : Bytes) : Bytes := if pfx.isEmpty then name else pfx ++ sep ++ name

/-- overlay: later value for a key wins; result sorted by key -/
def overlay (base over : TagMap) : TagMap := canon [base, over]

def sameTags (a b : TagMap) : Bool := canon [a] == canon [b]

end Tally.Spec.C04
