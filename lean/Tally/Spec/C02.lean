import Tally.Prelude
/-!
# C02 as a decidable predicate over an observed trace
`updates`: values passed to Update in order (oldest first); `delivered`: values handed to the
reporter in order (oldest first), taken at quiescence after one more solo pass; `idle`: values
delivered by a further solo pass with no update in between.
-/
namespace Tally.Spec.C02

def holds (updates delivered idle : List UInt64) : Option String :=
  if !(delivered.all fun v => updates.contains v) then some "delivered-is-an-update"
  else if !(decide (delivered.length ≤ updates.length)) then some "count-le-updates"
  else if !(updates.isEmpty || delivered.getLast? == updates.getLast?) then some "latest-value"
  else if !idle.isEmpty then some "no-redelivery"
  else none

end Tally.Spec.C02
