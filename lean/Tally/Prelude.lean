/-!
# Prelude: byte strings, wire tokens of the line protocol, int64 / float64 helpers

Core Lean only. A Go `string` / `[]byte` is `List UInt8` here (`Bytes`); an `int64` is an
`Int` together with the explicit wrap function `wrap64`; a `float64` is the `UInt64` of its
IEEE-754 bit pattern (`F64` below) — no theorem mentions Lean's native `Float`.
-/
namespace Tally

abbrev Bytes := List UInt8

/-! ## hex tokens -/

def hexDigit (n : Nat) : Char :=
  if n < 10 then Char.ofNat (48 + n) else Char.ofNat (87 + n)

def hexVal (c : Char) : Option Nat :=
  if '0' ≤ c ∧ c ≤ '9' then some (c.toNat - 48)
  else if 'a' ≤ c ∧ c ≤ 'f' then some (c.toNat - 87)
  else none

def toHex (b : Bytes) : String :=
  if b.isEmpty then "-" else
  String.ofList (b.flatMap fun x => [hexDigit (x.toNat / 16), hexDigit (x.toNat % 16)])

def ofHexChars : List Char → Option Bytes
  | [] => some []
  | [_] => none
  | a :: b :: rest => do
    let x ← hexVal a
    let y ← hexVal b
    let r ← ofHexChars rest
    pure (UInt8.ofNat (x * 16 + y) :: r)

def ofHex (s : String) : Option Bytes :=
  if s == "-" then some [] else ofHexChars s.toList

def u64ToHex (v : UInt64) : String :=
  String.ofList ((List.range 16).map fun i => hexDigit ((v.toNat >>> (4 * (15 - i))) % 16))

def u64OfHex (s : String) : Option UInt64 :=
  if s.length ≠ 16 then none else
  s.toList.foldlM (fun (acc : Nat) c => do let d ← hexVal c; pure (acc * 16 + d)) 0 |>.map UInt64.ofNat

/-! ## int64 -/

def two63 : Int := 9223372036854775808
def two64 : Int := 18446744073709551616
def minInt64 : Int := -two63
def maxInt64 : Int := two63 - 1

def inInt64 (i : Int) : Bool := decide (minInt64 ≤ i) && decide (i ≤ maxInt64)

/-- two's complement wrap-around of an arbitrary integer into the int64 range -/
def wrap64 (i : Int) : Int :=
  let m := i % two64
  if m ≥ two63 then m - two64 else m

/-! ## float64 as bit patterns -/

abbrev F64 := UInt64

namespace F64

def signBit (x : F64) : Bool := x.toNat ≥ 2^63
def mag (x : F64) : Nat := x.toNat % 2^63
def expInf : Nat := 0x7FF0000000000000
def isNaN (x : F64) : Bool := mag x > expInf
def isInf (x : F64) : Bool := mag x == expInf
def isFinite (x : F64) : Bool := mag x < expInf
def posInf : F64 := 0x7FF0000000000000
def negInf : F64 := 0xFFF0000000000000
def maxFloat : F64 := 0x7FEFFFFFFFFFFFFF
def negMaxFloat : F64 := 0xFFEFFFFFFFFFFFFF

/-- total order key of a non-NaN float: `-0` and `+0` both map to `0`. -/
def key (x : F64) : Int := if signBit x then -(mag x : Int) else (mag x : Int)

/-- IEEE `x <= y` (false when either is NaN) -/
def le (x y : F64) : Bool := !isNaN x && !isNaN y && decide (key x ≤ key y)
/-- IEEE `x < y` -/
def lt (x y : F64) : Bool := !isNaN x && !isNaN y && decide (key x < key y)
/-- IEEE `x >= y` -/
def ge (x y : F64) : Bool := le y x
/-- IEEE `x == y` -/
def eq (x y : F64) : Bool := !isNaN x && !isNaN y && decide (key x = key y)

end F64

/-! ## parsing helpers for the line protocol -/

def parseInt (s : String) : Option Int := s.toInt?
def parseNat (s : String) : Option Nat := s.toNat?

def splitTokens (s : String) : List String :=
  (s.splitOn " ").filter (· ≠ "")

/-- `a;b;c` lists, `-` for the empty list -/
def parseList (f : String → Option α) (s : String) : Option (List α) :=
  if s == "-" then some [] else (s.splitOn ";").mapM f

def showList (f : α → String) (l : List α) : String :=
  if l.isEmpty then "-" else ";".intercalate (l.map f)

end Tally
