import Tally.Drv.Common
import Tally.Model.Thrift
/-!
Driver for C16 (and batch parsing shared with C12/C13).  Tokens:
  tags    : `~` (nil slice) | `-` (empty list) | `k:v,k:v` (hex, ORDERED)
  metric  : `name|mtype|count|gaugebits|timer|timestamp|tags`
  metrics : `-` | metric;metric;…
Lines:
  `enc <c|b> <seq> <commonTags> <metrics> => <hex of the message the Go client wrote>`
  `size <c|b> <metric> => <calc transport count> <real encoder length>`
  `maxsize <c|b> <metric> => <calc count of the metric with max placeholders>`
  `dec <c|b> <hex> => <seq> <commonTags> <metrics>` (what the Go reader decoded from these bytes)
-/
namespace Tally.Drv.Thrift
open Tally Tally.Thrift

def parseProto (s : String) : Option Proto :=
  if s == "c" then some .compact else if s == "b" then some .binary else none

def parseTag (s : String) : Option MetricTag :=
  match s.splitOn ":" with
  | [a, b] => do pure { name := (← ofHex a), value := (← ofHex b) }
  | _ => none

def parseTags (s : String) : Option (Option (List MetricTag)) :=
  if s == "~" then some none
  else if s == "-" then some (some [])
  else ((s.splitOn ",").mapM parseTag).map some

def showTags : Option (List MetricTag) → String
  | none => "~"
  | some [] => "-"
  | some l => ",".intercalate (l.map fun t => toHex t.name ++ ":" ++ toHex t.value)

def parseMetric (s : String) : Option Metric :=
  match s.splitOn "|" with
  | [n, ty, c, g, t, ts, tags] => do
    pure { name := (← ofHex n),
           value := { mtype := (← parseInt ty), count := (← parseInt c), gauge := (← u64OfHex g), timer := (← parseInt t) },
           timestamp := (← parseInt ts), tags := (← parseTags tags) }
  | _ => none

def showMetric (m : Metric) : String :=
  s!"{toHex m.name}|{m.value.mtype}|{m.value.count}|{u64ToHex m.value.gauge}|{m.value.timer}|{m.timestamp}|{showTags m.tags}"

def parseMetrics (s : String) : Option (List Metric) :=
  if s == "-" then some [] else (s.splitOn ";").mapM parseMetric

def showMetrics (l : List Metric) : String := if l.isEmpty then "-" else ";".intercalate (l.map showMetric)

def handle (toks : List String) : String :=
  let (req, obs) := splitObserved toks
  match req, obs with
  | ["enc", p, seq, ct, ms], [hex] =>
    match parseProto p, parseInt seq, parseTags ct, parseMetrics ms, ofHex hex with
    | some p, some seq, some ct, some ms, some bytes =>
      let b : MetricBatch := { metrics := ms, commonTags := ct }
      if !wfBatch b then "bad-op not-wf" else
      let exp := encMessage p seq b
      -- oracle: the bytes the Go encoder produced decode (by the Lean reader) to exactly the batch that was encoded
      match decMessage p bytes with
      | some (seq', b', rest) =>
        if !(seq' == seq && b' == b && rest.isEmpty) then s!"violated roundtrip decoded-seq={seq'} metrics={b'.metrics.length}"
        else if exp == bytes then "ok" else s!"differ {toHex exp}"
      | none => s!"violated roundtrip undecodable model={toHex exp}"
    | _, _, _, _, _ => "bad-op parse"
  | ["size", p, m], [calcS, realS] =>
    match parseProto p, parseMetric m, calcS.toNat?, realS.toNat? with
    | some p, some m, some cnt, some rl =>
      let exp := (encMetric p m).length
      if cnt != rl then s!"violated calc-eq-length model={exp}"
      else if exp == cnt then "ok" else s!"differ {exp}"
    | _, _, _, _ => "bad-op parse"
  | ["maxsize", p, m], [calcMax, calcReal] =>
    match parseProto p, parseMetric m, calcMax.toNat?, calcReal.toNat? with
    | some p, some m, some calcMax, some calcReal =>
      let expMax := (encMetric p (maxed m)).length
      if calcMax < calcReal then s!"violated max-is-upper-bound model={expMax}"
      else if expMax == calcMax then "ok" else s!"differ {expMax}"
    | _, _, _, _ => "bad-op parse"
  | ["dec", p, hex], [seq, ct, ms] =>
    match parseProto p, ofHex hex, parseInt seq, parseTags ct, parseMetrics ms with
    | some p, some bytes, some seq, some ct, some ms =>
      match decMessage p bytes with
      | some (seq', b', _) =>
        let exp := s!"{seq'} {showTags b'.commonTags} {showMetrics b'.metrics}"
        if exp == s!"{seq} {showTags ct} {showMetrics ms}" then "ok" else s!"differ {exp}"
      | none => "differ undecodable"
    | _, _, _, _, _ => "bad-op parse"
  | _, _ => "bad-op shape"

def suite : Suite := stateless handle
end Tally.Drv.Thrift
