import Tally.Drv.Common
import Tally.Model.RootClose
/-!
Driver for the lock-step suite of the root's `Close` (C08).  The harness drives the real `scope.Close`,
the real report-loop goroutine and recording application threads one hook-to-hook transition at a time
and translates every transition into events of `Model.RootClose`; the driver applies them, rejects what
the model does not allow, tells which `Close` calls would block (the winner in `wg.Wait()`, a call that lost the
CAS in `<-s.closeDone` until the winning call has returned — repair D17), and at the end compares
the model's reporter log with the log of the real reporter and evaluates the barrier clauses.

Lines:
  `begin <k> <hasLoop 0|1> <closable 0|1> <reporter Close fails 0|1>`   → ok
  `result <t> => err|nil`                          → ok | differ <model>     (what Close call t returned)
  `ev record <cell>` | `ev tick` | `ev exit`       → ok | reject …
  `ev obtain <cell> => live|noop`                  → ok | reject … | differ <model result>
  `adv loop <target> [<c1,c2,…>]` | `adv closer <t> <target> [<c1,c2,…>]`  → ok [pend=<n>] | reject …
        applies `loop c` / `closer t c` events (at least one, at most k+6) until the thread's pc is <target>;
        targets: waiting ticked begin deliver:<cell> flush exited   (loop)
                 won doneClosed begin deliver:<cell> purge flush reporterClose returned
                 wait-winner returnedNil   (closer)
        (a pc inside the range loops is shown as `pick:<number of cells visited>`; for a closer `purge` =
        the final pass is over, about to purge, and `flush` = purged, about to call Flush: the final flush
        comes AFTER the purge; `wait-winner` = the call lost the CAS and is at `<-s.closeDone`: its next step,
        to `returnedNil`, is enabled only once the winning call is at `returned`.  `adv closer <t> returnedNil`
        from `start` therefore takes two steps and is rejected while the winner has not returned)
        the optional last token `c1,c2,…` (`-` = none; may be written `<c1,c2,…>`) lists the cells the pass
        visits during this advance, in order: the choices of the successive `pick` steps; when the list is
        exhausted and a `pick` step is still needed the choice is k ("the range loops are over").  Without
        the token the visiting order is 0,1,…,k-1 as far as needed (first unvisited index; k when all are
        visited).  The registry is Go maps: the real visiting order is arbitrary and differs between passes.
  `blocked`                                        → blocked <t,t,…>   (Close calls that cannot move now: the winner at
        `doneClosed` waiting for the loop goroutine, and every call at `wait-winner` while the winner has not returned)
  `final <observed reporter log>`                  → ok | differ <model log> | violated <clause>
        log tokens, oldest first, `;`-separated: `d<cell>:<n>` (a delivery of n increments of cell), `f`, `c`
-/
namespace Tally.Drv.RootClose
open Tally Tally.RootClose

structure DState where
  st : State
  k : Nat
  nClosers : Nat
  steps : Nat

def init : DState := { st := Tally.RootClose.init 0 false false, k := 0, nClosers := 0, steps := 0 }

def passName : PassPc → String
  | .begin => "begin" | .pick vis => s!"pick:{vis.length}" | .deliver i _ _ => s!"deliver:{i}" | .flush => "flush"

def loopName : LoopPc → String
  | .waiting => "waiting" | .ticked => "ticked" | .exited => "exited"
  | .pass p => passName p

def closerName : CPc → String
  | .start => "start" | .won => "won" | .doneClosedPc => "doneClosed" | .purgePc => "purge" | .flushPc => "flush"
  | .reporterClose => "reporterClose" | .returned _ => "returned" | .returnedNil => "returnedNil"
  | .waitWinner => "wait-winner"
  | .pass p => passName p

def applyEv (d : DState) (e : Ev) : Option DState :=
  (step d.st e).map fun s' => { d with st := s', steps := d.steps + 1 }

/-- the default visiting order: the first index not visited yet, `k` ("the range loops are over") when all are -/
def firstUnvisited (k : Nat) (vis : List Nat) : Nat :=
  ((List.range k).find? fun i => !vis.contains i).getD k

/-- the choice for the thread's next step and what is left of the given visiting order: at a `pick` pc
the next given cell (`k` when the given list is exhausted), or the default order when none was given;
at every other pc the choice is not read -/
def nextChoice (k : Nat) (pc : Option PassPc) (order : Option (List Nat)) : Nat × Option (List Nat) :=
  match pc with
  | some (.pick vis) =>
    match order with
    | none => (firstUnvisited k vis, none)
    | some [] => (k, some [])
    | some (c :: cs) => (c, some cs)
  | _ => (0, order)

/-- `c1,c2,…` (optionally in angle brackets), `-` for the empty list -/
def parseOrder (s : String) : Option (List Nat) :=
  let s := if s.startsWith "<" && s.endsWith ">" then ((s.drop 1).dropEnd 1).toString else s
  if s == "-" || s == "" then some [] else (s.splitOn ",").mapM parseNat

/-- apply the thread's event (`mk choice`) repeatedly (at least once) until `done` holds of the state;
`none` if a step is not enabled or the target is not reached within `fuel` steps -/
def advance (d : DState) (mk : Nat → Ev) (pcOf : State → Option PassPc) (done : State → Bool)
    (order : Option (List Nat)) : Nat → Option DState
  | 0 => none
  | fuel + 1 =>
    let (c, order') := nextChoice d.k (pcOf d.st) order
    match applyEv d (mk c) with
    | none => none
    | some d' => if done d'.st then some d' else advance d' mk pcOf done order' fuel

def loopPass (s : State) : Option PassPc :=
  match s.loop with | .pass p => some p | _ => none

def closerPass (t : Nat) (s : State) : Option PassPc :=
  match s.closers t with | .pass p => some p | _ => none

def advLoop (d : DState) (target : String) (order : Option (List Nat)) : DState × String :=
  match advance d .loop loopPass (fun s => loopName s.loop == target) order (d.k + 6) with
  | some d' => (d', s!"ok pend={d'.st.loop.pend.length}")
  | none => (d, s!"reject loop-cannot-reach {target} from {loopName d.st.loop}")

def advCloser (d : DState) (t : Nat) (target : String) (order : Option (List Nat)) : DState × String :=
  match advance d (.closer t) (closerPass t) (fun s => closerName (s.closers t) == target) order (d.k + 6) with
  | some d' => ({ d' with nClosers := max d'.nClosers (t + 1) }, s!"ok pend={(d'.st.closers t).pend.length}")
  | none => (d, s!"reject closer-{t}-cannot-reach {target} from {closerName (d.st.closers t)} loop={loopName d.st.loop} closeDone={d.st.closeDone}")

/-- the `Close` call `t` cannot move now: the winner in `wg.Wait()` while the loop goroutine is alive, or a call
that lost the CAS in `<-s.closeDone` while the winning call has not returned -/
def closerBlocked (s : State) (t : Nat) : Bool :=
  (s.closers t == .doneClosedPc && s.loop != .exited) || (s.closers t == .waitWinner && !s.closeDone)

def showLog (l : List LogEv) : String :=
  let toks := l.reverse.filterMap fun
    | .internal => none
    | .deliver ts => some s!"d{(ts.headD { id := 0, cell := 0, pre := false }).cell}:{ts.length}"
    | .flush => some "f"
    | .reporterClose => some "c"
  if toks.isEmpty then "-" else ";".intercalate toks

/-- the clauses of the property evaluated on the model's final state (what the theorems of
TallyProofs/Props/C08.lean establish for every reachable state) -/
def finalCheck (d : DState) : Option String :=
  let s := d.st
  let del := delivered s.log
  let winnerReturned := match s.winner with
    | some t => (match s.closers t with | .returned _ => true | _ => false)
    | none => false
  if !(del.map (·.id)).eraseDups.length == del.length then some "token-delivered-twice"
  else if s.dropped.any (·.pre) then some "recorded-before-close-dropped"
  else if winnerReturned && s.issued.any (fun tk => tk.pre && !del.contains tk) then some "recorded-before-close-not-delivered-at-return"
  else if winnerReturned && s.closable && countRC s.log != 1 then some "reporter-closed-exactly-once"
  else if countRC s.log > 1 then some "reporter-closed-exactly-once"
  else if winnerReturned && (match s.log with
      | .reporterClose :: .flush :: _ => !s.closable
      | .flush :: _ => s.closable
      | _ => true) then some "flush-then-close"
  else if winnerReturned && s.loop != .exited then some "report-goroutine-ended"
  else if !winnerReturned && (s.closeDone || (List.range (max d.nClosers 4)).any fun t => s.closers t == .returnedNil) then
    some "close-call-returned-before-shutdown-complete"
  else none

def handle (d : DState) (toks : List String) : DState × String :=
  let (req, obs) := splitObserved toks
  match req, obs with
  | ["begin", k, hl, cl, er], [] =>
    match k.toNat? with
    | some k => ({ st := Tally.RootClose.init k (hl == "1") (cl == "1") (if er == "1" then some 1 else none), k := k, nClosers := 0, steps := 0 }, "ok")
    | none => (d, "bad-op parse")
  | ["result", t], [res] =>
    match t.toNat? with
    | some t =>
      let m := match d.st.closers t with
        | .returned (some _) => "err" | .returned none => "nil" | .returnedNil => "nil" | _ => "not-returned"
      if m == res then (d, "ok") else (d, s!"differ {m}")
    | none => (d, "bad-op parse")
  | ["ev", "record", c], [] =>
    match c.toNat? with
    | some c => (match applyEv d (.record c) with | some d' => (d', "ok") | none => (d, "reject record-not-enabled"))
    | none => (d, "bad-op parse")
  | ["ev", "tick"], [] =>
    (match applyEv d .tick with | some d' => (d', "ok") | none => (d, s!"reject tick-not-enabled loop={loopName d.st.loop}"))
  | ["ev", "exit"], [] =>
    (match applyEv d .exit with | some d' => (d', "ok") | none => (d, s!"reject exit-not-enabled loop={loopName d.st.loop} doneClosed={d.st.doneClosed}"))
  | ["ev", "obtain", c], [res] =>
    match c.toNat? with
    | some c =>
      (match applyEv d (.obtain c) with
       | some d' =>
         let m := match d'.st.handed with | (some _) :: _ => "live" | _ => "noop"
         if m == res then (d', "ok") else (d', s!"differ {m}")
       | none => (d, "reject obtain-not-enabled"))
    | none => (d, "bad-op parse")
  | ["adv", "loop", target], [] => advLoop d target none
  | ["adv", "loop", target, order], [] =>
    match parseOrder order with
    | some o => advLoop d target (some o)
    | none => (d, "bad-op parse")
  | ["adv", "closer", t, target], [] =>
    match t.toNat? with
    | some t => advCloser d t target none
    | none => (d, "bad-op parse")
  | ["adv", "closer", t, target, order], [] =>
    match t.toNat?, parseOrder order with
    | some t, some o => advCloser d t target (some o)
    | _, _ => (d, "bad-op parse")
  | ["blocked"], [] =>
    let ts := (List.range (max d.nClosers 4)).filter fun t => closerBlocked d.st t
    (d, "blocked " ++ ",".intercalate (ts.map toString))
  | ["final"], [olog] =>
    let m := showLog d.st.log
    if m != olog then (d, s!"differ {m}")
    else match finalCheck d with
      | some c => (d, s!"violated {c}")
      | none => (d, "ok")
  | ["end"], [] => (d, s!"ok steps={d.steps}")
  | _, _ => (d, "bad-op shape")

def suite : Suite := { σ := DState, init := init, step := handle }
end Tally.Drv.RootClose
