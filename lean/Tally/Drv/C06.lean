import Tally.Drv.Common
import Tally.Spec.C06
/-!
Driver for C06.  Lines:
  `san <ranges lo:hi;..> <chars c;..> <rep> <input hex> => <output hex>`
  `noop <input hex> => <output hex>`
-/
namespace Tally.Drv.C06
open Tally Tally.Sanitize

def parseRange (s : String) : Option (Int × Int) :=
  match s.splitOn ":" with
  | [a, b] => do pure ((← parseInt a), (← parseInt b))
  | _ => none

def parseChars (rs cs : String) : Option ValidChars := do
  let r ← parseList parseRange rs
  let c ← parseList parseInt cs
  pure { ranges := r, chars := c }

def handle (toks : List String) : String :=
  let (req, obs) := splitObserved toks
  match req, obs with
  | ["san", rs, cs, rep, inp], [out] =>
    match parseChars rs cs, parseInt rep, ofHex inp, ofHex out with
    | some c, some rep, some inp, some out =>
      let exp := sanitize c rep inp
      match Spec.C06.holds c rep inp out with
      | some clause => s!"violated {clause} model={toHex exp}"
      | none => if exp == out then "ok" else s!"differ {toHex exp}"
    | _, _, _, _ => "bad-op parse"
  | ["noop", inp], [out] => if inp == out then "ok" else "violated noop-identity"
  | _, _ => "bad-op shape"

def suite : Suite := stateless handle
end Tally.Drv.C06
