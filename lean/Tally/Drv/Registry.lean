import Tally.Drv.Common
import Tally.Model.Registry
/-!
Driver for the lock-step registry suites (C07; C09's subscope part).  The harness translates each
hook-to-hook transition of a real thread into the model events below; the driver applies them, rejects
what the model does not allow, and answers which threads can take their next step without blocking.
Lines:
  `begin`                                      → ok      (identity sanitizer, root scope registered under key 0)
  `san <k1:v1,k2:v2,…>` | `san -`              → ok | reject not-idempotent | reject not-at-start | bad-op parse
                                               (only right after `begin`: fixes the sanitizer on keys as a finite map,
                                               identity elsewhere, and restarts the shard from `initRoot san`)
  `ev passBegin <t>` | `ev step <t> <choice>` | `ev passEnd <t>` | `ev obtain <t> <rawkey>` | `ev record <sid>` | `ev close <sid>`
                                               → ok | reject <why>
  `expect <t> <pcname>`                        → ok | reject at=<pcname>
  `pending <t> <n>`                            → ok | differ <n'>     (tokens thread t is about to hand to the reporter)
  `result <t>`                                 → sid <n> | reject     (scope id the model returned for t's obtain)
  `enabled`                                    → enabled <t,t,…>
  `final <delivered-count>`                    → ok | violated <clause> | differ …
-/
namespace Tally.Drv.Registry
open Tally Tally.Registry

def pcName : Pc → String
  | .idle => "idle" | .passIter _ => "passIter" | .passSwap .. => "passSwap" | .passDeliver .. => "passDeliver"
  | .passAfter .. => "passAfter" | .passUnlocked .. => "passUnlocked" | .passRelock .. => "passRelock"
  | .passClear .. => "passClear" | .obtProbe _ => "obtProbe" | .obtSwap .. => "obtSwap" | .obtDeliver .. => "obtDeliver"
  | .obtAfter .. => "obtAfter" | .obtUnlocked .. => "obtUnlocked" | .obtRelock .. => "obtRelock"
  | .obtAfter2 .. => "obtAfter2" | .obtUnlocked2 .. => "obtUnlocked2" | .obtRelock2 .. => "obtRelock2" | .obtClear .. => "obtClear"
  | .obtRelease .. => "obtRelease" | .obtWantLock _ => "obtWantLock" | .obtDone .. => "obtDone"

structure DState where
  st : State
  steps : Nat
  sanMap : List (Nat × Nat)            -- the sanitizer on keys as a finite map (identity elsewhere)

/-- the sanitizer denoted by a finite map -/
def sanOf (m : List (Nat × Nat)) (k : Nat) : Nat := (m.lookup k).getD k

/-- `sanOf m` is idempotent iff every value of the map is a fixed point -/
def sanIdempotent (m : List (Nat × Nat)) : Bool := m.all fun (_, v) => sanOf m v == v

def init : DState := { st := initRoot id, steps := 0, sanMap := [] }

def parseSanPair (s : String) : Option (Nat × Nat) :=
  match s.splitOn ":" with
  | [a, b] => match a.toNat?, b.toNat? with
    | some a, some b => some (a, b)
    | _, _ => none
  | _ => none

def parseSan (s : String) : Option (List (Nat × Nat)) :=
  if s == "-" then some [] else (s.splitOn ",").mapM parseSanPair

def apply (d : DState) (e : Ev) : DState × String :=
  match step (sanOf d.sanMap) d.st e with
  | some s' => ({ d with st := s', steps := d.steps + 1 }, "ok")
  | none => (d, s!"reject not-enabled pcs={d.st.pcs.map fun (t, p) => (t, pcName p)} readers={d.st.readers}")

/-- can thread `t` run to its next schedule point without blocking in the runtime? -/
def canRun (san : Nat → Nat) (s : State) (t : Nat) (p : Pc) : Bool :=
  match p with
  | .idle => false
  | .passUnlocked _ _ sid => (s.readers.filter (· != t)).isEmpty && !visiting s sid
  | .obtUnlocked _ _ => (s.readers.filter (· != t)).isEmpty
  | .obtUnlocked2 _ sid => (s.readers.filter (· != t)).isEmpty && !visiting s sid
  | .passClear _ _ sid => !visiting s sid
  | .obtClear _ sid => !visiting s sid
  | .obtWantLock r =>
    (s.readers.filter (· != t)).isEmpty &&
      (match lookup s (san r) with
       | some sid => match scopeOf s sid with
         | some x => !x.closed || !visiting s sid
         | none => true
       | none => true)
  | _ => true

/-- the oracle on the final model state (all threads idle): the invariants the theorems establish, evaluated -/
def finalCheck (s : State) (deliveredObserved : Nat) : String :=
  let all := s.delivered ++ allCells s ++ allPending s ++ s.dropped
  if all.length != s.nextToken then "violated token-conservation"
  else if !(all.map (·.id)).eraseDups.length == all.length then "violated token-delivered-twice"
  else if s.dropped.any (·.pre) then "violated recorded-before-close-dropped"
  else if s.handedOut.any (fun (_, sid) => match scopeOf s sid with
      | some x => !x.closed && lookup s x.ident != some sid
      | none => true) then "violated live-scope-unregistered"
  else if s.delivered.length != deliveredObserved then s!"differ model-delivered={s.delivered.length}"
  else "ok"

def handle (d : DState) (toks : List String) : DState × String :=
  match toks with
  | ["begin"] => (init, "ok")
  | ["ev", "passBegin", t] => match t.toNat? with
    | some t => apply d (.passBegin t) | none => (d, "bad-op parse")
  | ["ev", "passEnd", t] => match t.toNat? with
    | some t => apply d (.passEndHint t) | none => (d, "bad-op parse")
  | ["ev", "step", t, c] => match t.toNat?, c.toNat? with
    | some t, some c => apply d (.step t c) | _, _ => (d, "bad-op parse")
  | ["san", m] =>
    if d.steps != 0 then (d, "reject not-at-start") else
    match parseSan m with
    | some m =>
      if sanIdempotent m then ({ st := initRoot (sanOf m), steps := 0, sanMap := m }, "ok")
      else (d, "reject not-idempotent")
    | none => (d, "bad-op parse")
  | ["ev", "obtain", t, r] => match t.toNat?, r.toNat? with
    | some t, some r => apply d (.obtain t r) | _, _ => (d, "bad-op parse")
  | ["ev", "record", sid] => match sid.toNat? with
    | some sid => apply d (.record sid) | none => (d, "bad-op parse")
  | ["ev", "close", sid] => match sid.toNat? with
    | some sid => apply d (.close sid) | none => (d, "bad-op parse")
  | ["expect", t, name] => match t.toNat? with
    | some t => let n := pcName (pcOf d.st t); if n == name then (d, "ok") else (d, s!"reject at={n}")
    | none => (d, "bad-op parse")
  | ["pending", t, n] => match t.toNat?, n.toNat? with
    | some t, some n => let m := (pendingOf (pcOf d.st t)).length; if m == n then (d, "ok") else (d, s!"differ {m}")
    | _, _ => (d, "bad-op parse")
  | ["result", t] => match t.toNat? with
    | some t => match pcOf d.st t with
      | .obtDone _ sid => (d, s!"sid {sid}")
      | p => (d, s!"reject at={pcName p}")
    | none => (d, "bad-op parse")
  | ["enabled"] =>
    let ts := d.st.pcs.filterMap fun (t, p) => if canRun (sanOf d.sanMap) d.st t p then some (toString t) else none
    (d, "enabled " ++ ",".intercalate ts)
  | ["final", n] => match n.toNat? with
    | some n => (d, finalCheck d.st n) | none => (d, "bad-op parse")
  | ["end"] => (d, s!"ok steps={d.steps}")
  | _ => (d, "bad-op shape")

def suite : Suite := { σ := DState, init := init, step := handle }
end Tally.Drv.Registry
