import Tally.Drv.Common
import Tally.Model.GetOrCreateLock
/-!
Driver for C09 at lock level (lock-step against `Tally.GetOrCreateLock`).  Lines:
  `begin`
  `ev <probeLock|probeUnlock|lock|recheck|allocReturn|allocPanic|finish|passLock|passUnlock> <t>`
      the real thread performed that step: `ok`, or `reject not-enabled …` when the model does not allow it
  `disabled <event> <t>`
      the real thread is blocked in front of that step: `ok` when the model does not allow it either,
      `differ model-enabled …` when the model would let it proceed
  `expect <t> <pc name>`
  `seen <p> some|none|any`   what the last completed pass of thread p read
  `final <t:class,…|-> <allocs> <t,…|->`   returned objects in order of return (equal class = same object),
      Allocate calls started, threads whose call ended in a panic in order
-/
namespace Tally.Drv.C09Lock
open Tally Tally.GetOrCreateLock

structure DState where
  st : State
  steps : Nat

def init : DState := { st := GetOrCreateLock.init, steps := 0 }

def pcName : Pc → String
  | .idle => "idle" | .probing => "probing" | .missed => "missed" | .locked => "locked"
  | .allocating => "allocating" | .returned _ => "returned" | .panicked => "panicked"
  | .passIdle => "passIdle" | .passReading => "passReading"

def evOf (k : String) (t : Nat) : Option Ev :=
  if k == "probeLock" then some (.probeLock t) else if k == "probeUnlock" then some (.probeUnlock t)
  else if k == "lock" then some (.lock t) else if k == "recheck" then some (.recheck t)
  else if k == "allocReturn" then some (.allocReturn t) else if k == "allocPanic" then some (.allocPanic t)
  else if k == "finish" then some (.finish t) else if k == "passLock" then some (.passLock t)
  else if k == "passUnlock" then some (.passUnlock t) else none

def lockInfo (s : State) : String :=
  s!"writer={s.writer} readers={s.readers}"

/-- `t:c,t:c` → list of pairs -/
def pairList (s : String) : Option (List (Nat × Nat)) :=
  if s == "-" then some [] else
  (s.splitOn ",").mapM fun x =>
    match x.splitOn ":" with
    | [a, b] => match a.toNat?, b.toNat? with
      | some a, some b => some (a, b)
      | _, _ => none
    | _ => none

/-- two result lists agree: same threads in the same order, and equal ids exactly where the classes are equal -/
def sameResults (model : List (Nat × Nat)) (real : List (Nat × Nat)) : Bool :=
  model.map (·.1) == real.map (·.1) &&
  (List.range model.length).all fun i => (List.range model.length).all fun j =>
    ((model.map (·.2))[i]? == (model.map (·.2))[j]?) == ((real.map (·.2))[i]? == (real.map (·.2))[j]?)

def handle (d : DState) (toks : List String) : DState × String :=
  match toks with
  | ["begin"] => (init, "ok")
  | ["ev", k, t] =>
    match t.toNat? with
    | none => (d, "bad-op parse")
    | some t =>
      match evOf k t with
      | none => (d, "bad-op shape")
      | some e => match step d.st e with
        | some s' => ({ st := s', steps := d.steps + 1 }, "ok")
        | none => (d, s!"reject not-enabled at={pcName (pcOf d.st t)} {lockInfo d.st}")
  | ["disabled", k, t] =>
    match t.toNat? with
    | none => (d, "bad-op parse")
    | some t =>
      match evOf k t with
      | none => (d, "bad-op shape")
      | some e => match step d.st e with
        | some _ => (d, s!"differ model-enabled at={pcName (pcOf d.st t)} {lockInfo d.st}")
        | none => (d, "ok")
  | ["expect", t, name] =>
    match t.toNat? with
    | some t => let n := pcName (pcOf d.st t); if n == name then (d, "ok") else (d, s!"reject at={n}")
    | none => (d, "bad-op parse")
  | ["seen", p, what] =>
    match p.toNat? with
    | none => (d, "bad-op parse")
    | some p =>
      match (d.st.seen.filter (·.1 == p)).getLast? with
      | none => (d, "reject no-pass-of-that-thread")
      | some (_, slot) =>
        if what == "any" then (d, "ok")
        else if what == "some" then (if slot.isSome then (d, "ok") else (d, "differ model-pass-read-nothing"))
        else if what == "none" then (if slot.isNone then (d, "ok") else (d, "differ model-pass-read-the-object"))
        else (d, "bad-op shape")
  | ["final", res, allocs, pans] =>
    match pairList res, allocs.toNat?, (if pans == "-" then some [] else natList pans) with
    | some res, some allocs, some pans =>
      let model := d.st.results.reverse
      if !(res.all fun r => some r.2 == (res.head?.map (·.2))) then (d, "violated all-callers-same-object")
      else if !sameResults model res then (d, s!"differ model-results={model}")
      else if d.st.allocs != allocs then (d, s!"differ model-allocs={d.st.allocs}")
      else if d.st.allocsDone > 1 then (d, "violated allocate-at-most-once")
      else if d.st.panics != pans then (d, s!"differ model-panics={d.st.panics}")
      else if d.st.writer.isSome || !d.st.readers.isEmpty then (d, s!"differ model-lock-held {lockInfo d.st}")
      else (d, "ok")
    | _, _, _ => (d, "bad-op parse")
  | ["end"] => (d, s!"ok steps={d.steps}")
  | _ => (d, "bad-op shape")

def suite : Suite := { σ := DState, init := init, step := handle }
end Tally.Drv.C09Lock
