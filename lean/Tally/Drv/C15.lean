import Tally.Drv.Common
import Tally.Model.Udp
import Tally.Spec.C15
/-!
Driver for C15 (stateful).  A case is one transport from construction to the end:

  `begin single|multi <k> <seed>`                         → `ok`
  `op write <bytes> => <n> <err> <recv>`                  → `ok | differ … | violated <clause> …`
  `op wbyte <bytes (1)> => 0 <err> <recv>`
  `op wstring <bytes> => <n> <err> <recv>`
  `op flush <envs> => 0 <err> <recv>`
  `op close <envs> => 0 <err> <recv>`
  `op isopen => <0|1> nil <recv>`
  `end`                                                   → `stats <ops> <differ> <violated>` | `violated delivered-exactly`

and, independent of any case, the end-to-end reporter line

  `e2e <batches> => <datagrams>`                          → `ok | differ … | violated <clause> …`

Tokens: `<bytes>` is `-` (empty) or `.`-separated segments, a segment being lower-case hex or
`xx*N` (N copies of byte `xx`); `<err>` ∈ nil|not-open|too-large|send-error|other; `<envs>` is a
`,`-separated list with one of ok|sock|down per destination; `<recv>` has one datagram list per
destination separated by `|`, a list being `_` (none) or `;`-separated `<bytes>`.
`<batches>` is `_` or `;`-separated `<0|1 fits>:<names>`, names being `-` or `,`-separated hex;
`<datagrams>` is `_` or `;`-separated `c:<len>:<names>` (decoded cleanly) | `g:<len>` (garbled).

In `single` mode the model is `Udp` (k must be 1), in `multi` mode `UdpMulti` with k destinations
(`wbyte`/`wstring` are not methods of the multi transport).  The socket oracle of a flush is
taken from the declared environment: `ok` → delivered; `sock` (the socket may fail: closed through
the back door, or an ICMP error may be pending) → send error if that is what was observed, else
delivered; `down` → send error if observed, else lost.  Malformed lines get `bad-op`, never a default.
-/
namespace Tally.Drv.C15
open Tally Tally.UdpObs

/-! ### tokens -/

def hexPairsTR : List Char → Bytes → Option Bytes
  | [], acc => some acc.reverse
  | [_], _ => none
  | a :: b :: rest, acc =>
    match hexVal a, hexVal b with
    | some x, some y => hexPairsTR rest (UInt8.ofNat (x * 16 + y) :: acc)
    | _, _ => none

def parseSeg (s : String) : Option Bytes :=
  match s.splitOn "*" with
  | [h] => if h.isEmpty then none else hexPairsTR h.toList []
  | [h, n] =>
    match hexPairsTR h.toList [], n.toNat? with
    | some [x], some k => some (List.replicate k x)
    | _, _ => none
  | _ => none

def parseBytes (s : String) : Option Bytes :=
  if s == "-" then some []
  else ((s.splitOn ".").mapM parseSeg).map List.flatten

def parseDgrams (s : String) : Option (List Bytes) :=
  if s == "_" then some [] else (s.splitOn ";").mapM parseBytes

def parseRecv (s : String) : Option (List (List Bytes)) := (s.splitOn "|").mapM parseDgrams

def parseEnv : String → Option Env
  | "ok" => some .ok | "sock" => some .sockFault | "down" => some .sinkDown | _ => none

def parseEnvs (s : String) : Option (List Env) := (s.splitOn ",").mapM parseEnv

/-- short rendering of datagram lists for replies: lengths only -/
def showRecv (r : List (List Bytes)) : String :=
  "|".intercalate (r.map fun ds => if ds.isEmpty then "_" else ";".intercalate (ds.map fun d => s!"len{d.length}"))

def showRes (n : Nat) (e : Err) (r : List (List Bytes)) : String := s!"{n} {e.toString} {showRecv r}"

/-! ### state -/

inductive Mode | idle | single | multi
  deriving DecidableEq

structure State where
  mode : Mode := .idle
  k : Nat := 0
  t : Udp.T := {}
  mt : UdpMulti.MT := []
  st : Spec.C15.St := {}
  mst : Spec.C15.MSt := { dests := [] }
  hist : List Ev := []        -- single mode, reversed
  ops : Nat := 0
  differ : Nat := 0
  violated : Nat := 0

def sockOf (env : Env) (obs : Err) : Udp.Sock :=
  match env with
  | .ok => .ok
  | .sockFault => if obs = .sendError then .fail else .ok
  | .sinkDown => if obs = .sendError then .fail else .lost

/-- judge one observed call in single mode -/
def judgeSingle (s : State) (op : Udp.Op) (env : Env) (n : Nat) (err : Err) (recv : List (List Bytes)) : State × String :=
  match recv with
  | [rc] =>
    let (t', r) := Udp.step Udp.maxLength s.t op
    let ev : Ev := { kind := op.kind, arg := op.arg, env := env, n := n, err := err, recv := rc }
    let s1 := { s with t := t', st := Spec.C15.next s.st ev, hist := ev :: s.hist, ops := s.ops + 1 }
    match Spec.C15.checkEv Udp.maxLength s.st ev with
    | some c => ({ s1 with violated := s.violated + 1 }, s!"violated {c} model={showRes r.n r.err [r.recv]}")
    | none =>
      if r.n = n ∧ r.err = err ∧ r.recv = rc then (s1, "ok")
      else ({ s1 with differ := s.differ + 1 }, s!"differ {showRes r.n r.err [r.recv]}")
  | _ => (s, "bad-op recv-shape")

def judgeMulti (s : State) (op : UdpMulti.MOp) (envs : List Env) (n : Nat) (err : Err) (recv : List (List Bytes)) : State × String :=
  let (m', r) := UdpMulti.step Udp.maxLength s.mt op
  let ev : MEv := { kind := op.kind, arg := op.arg, envs := envs, n := n, err := err, recv := recv }
  let s1 := { s with mt := m', mst := Spec.C15.nextM s.mst ev, ops := s.ops + 1 }
  match Spec.C15.checkMEv Udp.maxLength s.mst ev with
  | some c => ({ s1 with violated := s.violated + 1 }, s!"violated {c} model={showRes r.n r.err r.recv}")
  | none =>
    if r.n = n ∧ r.err = err ∧ r.recv = recv then (s1, "ok")
    else ({ s1 with differ := s.differ + 1 }, s!"differ {showRes r.n r.err r.recv}")

/-- the oracle of a multi flush: per destination from its declared environment; an observed send
error is attributed to the first destination that is not `ok` -/
def socksOf (envs : List Env) (obs : Err) : List Udp.Sock :=
  let rec go : List Env → Bool → List Udp.Sock
    | [], _ => []
    | e :: es, blamed =>
      match e with
      | .ok => .ok :: go es blamed
      | .sockFault => if obs = .sendError ∧ !blamed then .fail :: go es true else .ok :: go es blamed
      | .sinkDown => if obs = .sendError ∧ !blamed then .fail :: go es true else .lost :: go es blamed
  go envs false

/-- the oracle of a multi close: an observed socket error is attributed to the first destination
whose socket may fail -/
def closeOks (envs : List Env) (obs : Err) : List Bool :=
  let rec go : List Env → Bool → List Bool
    | [], _ => []
    | e :: es, blamed =>
      if e = .sockFault ∧ obs = .sendError ∧ !blamed then false :: go es true else true :: go es blamed
  go envs false

def handleOp (s : State) (req obs : List String) : State × String :=
  match obs with
  | [nTok, errTok, recvTok] =>
    match nTok.toNat?, Err.parse errTok, parseRecv recvTok with
    | some n, some err, some recv =>
      if recv.length ≠ s.k then (s, "bad-op recv-count") else
      match s.mode, req with
      | .idle, _ => (s, "bad-op no-case")
      | .single, ["write", b] =>
        match parseBytes b with
        | some b => judgeSingle s (.write b) .ok n err recv
        | none => (s, "bad-op parse")
      | .single, ["wstring", b] =>
        match parseBytes b with
        | some b => judgeSingle s (.writeString b) .ok n err recv
        | none => (s, "bad-op parse")
      | .single, ["wbyte", b] =>
        match parseBytes b with
        | some [x] => judgeSingle s (.writeByte x) .ok n err recv
        | _ => (s, "bad-op parse")
      | .single, ["flush", envs] =>
        match parseEnvs envs with
        | some [env] => judgeSingle s (.flush (sockOf env err)) env n err recv
        | _ => (s, "bad-op parse")
      | .single, ["close", envs] =>
        match parseEnvs envs with
        | some [env] => judgeSingle s (.close (env = .ok ∨ err ≠ .sendError)) env n err recv
        | _ => (s, "bad-op parse")
      | .single, ["isopen"] => judgeSingle s .isOpen .ok n err recv
      | .multi, ["write", b] =>
        match parseBytes b with
        | some b => judgeMulti s (.write b) (List.replicate s.k .ok) n err recv
        | none => (s, "bad-op parse")
      | .multi, ["flush", envs] =>
        match parseEnvs envs with
        | some envs =>
          if envs.length ≠ s.k then (s, "bad-op env-count")
          else judgeMulti s (.flush (socksOf envs err)) envs n err recv
        | none => (s, "bad-op parse")
      | .multi, ["close", envs] =>
        match parseEnvs envs with
        | some envs =>
          if envs.length ≠ s.k then (s, "bad-op env-count")
          else judgeMulti s (.close (closeOks envs err)) envs n err recv
        | none => (s, "bad-op parse")
      | .multi, ["isopen"] => judgeMulti s .isOpen (List.replicate s.k .ok) n err recv
      | _, _ => (s, "bad-op shape")
    | _, _, _ => (s, "bad-op parse")
  | _ => (s, "bad-op shape")

/-! ### end-to-end reporter line -/

def parseNames (s : String) : Option (List Bytes) :=
  if s == "-" then some [] else (s.splitOn ",").mapM ofHex

def parseBatch (s : String) : Option Spec.C15.RBatch :=
  match s.splitOn ":" with
  | [f, ns] =>
    match f, parseNames ns with
    | "1", some ns => some { names := ns, fits := true }
    | "0", some ns => some { names := ns, fits := false }
    | _, _ => none
  | _ => none

def parseRDgram (s : String) : Option Spec.C15.RDgram :=
  match s.splitOn ":" with
  | ["c", l, ns] =>
    match l.toNat?, parseNames ns with
    | some l, some ns => some (.clean l ns)
    | _, _ => none
  | ["g", l] => l.toNat?.map .garbled
  | _ => none

def parseListU (f : String → Option α) (s : String) : Option (List α) :=
  if s == "_" then some [] else (s.splitOn ";").mapM f

/-- the emission model applied to an abstract batch: one chunk `name ++ "\n"` per metric, plus a
chunk that cannot fit when the batch is declared not to fit -/
def batchOf (b : Spec.C15.RBatch) : M3Batch.Batch :=
  { chunks := b.names.map (· ++ [10]) ++ (if b.fits then [] else [List.replicate (Udp.maxLength + 1) 0]) }

def showNames (l : List Bytes) : String := if l.isEmpty then "-" else ",".intercalate (l.map toHex)

def handleE2E (req obs : List String) : String :=
  match req, obs with
  | [bs], [ds] =>
    match parseListU parseBatch bs, parseListU parseRDgram ds with
    | some bs, some ds =>
      let exp := M3Batch.emitted Udp.maxLength (bs.map batchOf) |>.filter (!·.isEmpty)
      let got := (ds.filter (fun d => !d.names.isEmpty)).map fun d => (d.names.map (· ++ [10])).flatten
      let expStr := ";".intercalate (exp.map toHex)
      match Spec.C15.checkReporter Udp.maxLength bs ds with
      | some c => s!"violated {c} model={expStr}"
      | none => if exp = got then "ok" else s!"differ {expStr}"
    | _, _ => "bad-op parse"
  | _, _ => "bad-op shape"

/-! ### suite -/

def step (s : State) (toks : List String) : State × String :=
  let (req, obs) := splitObserved toks
  match req with
  | ["begin", "single", k, _seed] =>
    if k == "1" then ({ mode := .single, k := 1 }, "ok") else (s, "bad-op single-needs-k=1")
  | ["begin", "multi", k, _seed] =>
    match k.toNat? with
    | some k => if k = 0 ∨ k > 16 then (s, "bad-op k") else
      ({ mode := .multi, k := k, mt := UdpMulti.init k, mst := Spec.C15.MSt.init k }, "ok")
    | none => (s, "bad-op parse")
  | "op" :: rest => handleOp s rest obs
  | ["end"] =>
    if s.mode = .idle then (s, "bad-op no-case") else
    let reply :=
      if s.mode = .single ∧ !Spec.C15.deliveredExactly s.hist.reverse ∧ s.violated = 0 then "violated delivered-exactly"
      else s!"stats {s.ops} {s.differ} {s.violated}"
    ({}, reply)
  | "e2e" :: rest => (s, handleE2E rest obs)
  | _ => (s, "bad-op shape")

def suite : Suite := { σ := State, init := {}, step := step }

end Tally.Drv.C15
