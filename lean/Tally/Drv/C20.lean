import Tally.Drv.Common
import Tally.Model.Buckets
import Tally.Model.BucketCtor
import Tally.Model.BucketCache
import Tally.Spec.C03
import Tally.Spec.C20
/-!
Driver for C20.  Lines (`<res>` is `ok:<list>` | `err:count|start|factor`, `<must>` is
`ok:<list>` | `panic:count|start|factor`):

  `ctor lv <start f64> <width f64> <n> => <res> <must>`      LinearValueBuckets / MustMake…
  `ctor ld <start int> <width int> <n> => <res> <must>`      LinearDurationBuckets
  `ctor ev <start f64> <factor f64> <n> => <res> <must>`     ExponentialValueBuckets
  `ctor ed <start int> <factor f64> <n> => <res> <must>`     ExponentialDurationBuckets (refused
                                                             outside the stated domain)
  `caller <site> v|d <before> => <after>`                    caller's slice around a call
  `ident v|d <spec> => <u64 hex>`                            identity of a spec (harness's own formula)
  `begin`                                                    new root: empty cache model
  `probe v|d <spec>`                                         → `miss` | `hit-equal` | `hit-differ`
  `create v|d <spec> => <uppers> <counts>`                   sequential history: threads the cache model
  `created v|d <spec> => <uppers> <counts>`                  concurrent history: judged without state

`<counts>`: per bucket index, how many of the samples `spec ++ [max]` (one sample on every bound)
were counted there.
-/
namespace Tally.Drv.C20
open Tally Tally.Buckets Tally.BucketCtor Tally.BucketCache

def canonNaN (x : F64) : F64 := if F64.isNaN x then 0x7FF8000000000000 else x
def showF (l : List F64) : String := showF64s (l.map canonNaN)

def errName : CtorErr → String
  | .count => "count" | .start => "start" | .factor => "factor"

def parseErr : String → Option CtorErr
  | "count" => some .count | "start" => some .start | "factor" => some .factor | _ => none

def showBounds : Bounds → String
  | .vals l => showF l
  | .durs l => showInts l

def showRes : Res → String
  | .ok b => "ok:" ++ showBounds b
  | .error e => "err:" ++ errName e

def showMust : MustRes → String
  | .value b => "ok:" ++ showBounds b
  | .panic e => "panic:" ++ errName e

def parseBounds (isVal : Bool) (s : String) : Option Bounds :=
  if isVal then (f64List s).map .vals else (intList s).map .durs

def parseRes (isVal : Bool) (s : String) : Option Res :=
  match s.splitOn ":" with
  | ["ok", l] => (parseBounds isVal l).map .ok
  | ["err", e] => (parseErr e).map .error
  | _ => none

def parseMust (isVal : Bool) (s : String) : Option MustRes :=
  match s.splitOn ":" with
  | ["ok", l] => (parseBounds isVal l).map .value
  | ["panic", e] => (parseErr e).map .panic
  | _ => none

def canonBounds : Bounds → Bounds
  | .vals l => .vals (l.map canonNaN)
  | .durs l => .durs l

def canonRes : Res → Res
  | .ok b => .ok (canonBounds b)
  | .error e => .error e

def canonMust : MustRes → MustRes
  | .value b => .value (canonBounds b)
  | .panic e => .panic e

def parseCall (kind a b n : String) : Option Call :=
  match kind with
  | "lv" => do pure (.linV (← u64OfHex a) (← u64OfHex b) (← parseInt n))
  | "ld" => do pure (.linD (← parseInt a) (← parseInt b) (← parseInt n))
  | "ev" => do pure (.expV (← u64OfHex a) (← u64OfHex b) (← parseInt n))
  | "ed" => do pure (.expD (← parseInt a) (← u64OfHex b) (← parseInt n))
  | _ => none

def callIsVal : Call → Bool
  | .linV .. | .expV .. => true
  | _ => false

def callInRange : Call → Bool
  | .linV _ _ n | .expV _ _ n => inInt64 n
  | .linD s w n => inInt64 s && inInt64 w && inInt64 n
  | .expD s _ n => inInt64 s && inInt64 n

def handleCtor (c : Call) (plainTok mustTok : String) : String :=
  if !callInRange c then "bad-op range" else
  match parseRes (callIsVal c) plainTok, parseMust (callIsVal c) mustTok with
  | some plain, some mustR =>
    let ops := FOps.native
    let m := run ops c
    let inDom := match c, m with
      | .expD s f n, .ok _ => inDomainED ops s f n
      | _, _ => true
    if !inDom then "bad-op out-of-domain" else
    let exp := showRes m ++ " " ++ showMust (must m)
    let got := showRes (canonRes plain) ++ " " ++ showMust (canonMust mustR)
    if !Spec.C20.ctorHolds ops c plain mustR then
      s!"violated {Spec.C20.ctorClause ops c plain mustR} model={exp}"
    else if exp == got then "ok" else s!"differ {exp}"
  | _, _ => "bad-op parse"

def parseSpec (kind s : String) : Option BSpec :=
  match kind with
  | "d" => do
    let l ← intList s
    if l.all inInt64 then pure (.dur l) else none
  | "v" => (f64List s).map .val
  | _ => none

def specFinite : BSpec → Bool
  | .dur _ => true
  | .val l => l.all F64.isFinite

def parseUppers (kind s : String) : Option Uppers :=
  match kind with
  | "d" => (intList s).map .dur
  | "v" => (f64List s).map .val
  | _ => none

/-- samples recorded by the harness: one on every bound of the spec and one on the maximum -/
def probeSamplesKeys (s : BSpec) : List Int := s.keys ++ [s.hiKey]

def modelCounts (u : Uppers) (s : BSpec) : List Nat :=
  match u, s with
  | .dur us, .dur l => countsDuration us (l ++ [maxInt64])
  | .val us, .val l => countsValue us (l ++ [F64.maxFloat])
  | _, _ => []

/-- oracle on the observed counts, through C03's placement predicate on the *observed* uppers -/
def countsOk (obsKeys : List Int) (samples : List Int) (counts : List Nat) : Bool :=
  counts.length == obsKeys.length
  && (List.range counts.length).all fun i =>
    counts.getD i 0 == (samples.filter fun v => Spec.C03.placed obsKeys v i).length

def judgeCreate (spec : BSpec) (modelUppers : Uppers) (obs : Uppers) (counts : List Nat) : String :=
  let ok := Spec.C20.boundsKept spec.hiKey spec.keys (obs.keys)
  let okc := countsOk (obs.keys) (probeSamplesKeys spec) counts
  let exp := showInts (modelUppers.keys) ++ " " ++ showNats (modelCounts modelUppers spec)
  let got := showInts (obs.keys) ++ " " ++ showNats counts
  if !ok then s!"violated bounds-kept model={exp}"
  else if !okc then s!"violated bounds-used-for-placement model={exp}"
  else if exp == got then "ok" else s!"differ {exp}"

def kindsAgree : BSpec → Uppers → Bool
  | .dur _, .dur _ | .val _, .val _ => true
  | _, _ => false

def step (c : Cache) (toks : List String) : Cache × String :=
  let (req, obs) := splitObserved toks
  match req, obs with
  | ["ctor", kind, a, b, n], [plainTok, mustTok] =>
    match parseCall kind a b n with
    | some call => (c, handleCtor call plainTok mustTok)
    | none => (c, "bad-op parse")
  | ["caller", _site, "v", before], [after] =>
    match f64List before, f64List after with
    | some b, some a =>
      let m := (pairsV b).callerAfter
      (c, verdict (showF64s m) (showF64s a) (Spec.C20.callerUnchanged b a) "caller-slice-unchanged")
    | _, _ => (c, "bad-op parse")
  | ["caller", _site, "d", before], [after] =>
    match intList before, intList after with
    | some b, some a =>
      let m := (pairsD b).callerAfter
      (c, verdict (showInts m) (showInts a) (Spec.C20.callerUnchangedInt b a) "caller-slice-unchanged")
    | _, _ => (c, "bad-op parse")
  | ["ident", kind, spec], [h] =>
    match parseSpec kind spec, u64OfHex h with
    | some s, some h => (c, if identity s == h then "ok" else s!"differ {u64ToHex (identity s)}")
    | _, _ => (c, "bad-op parse")
  | ["begin"], [] => (Cache.empty, "ok")
  | ["probe", kind, spec], [] =>
    match parseSpec kind spec with
    | some s =>
      (c, match c (identity s) with
        | none => "miss"
        | some st => if specEq s st.spec then "hit-equal" else "hit-differ")
    | none => (c, "bad-op parse")
  | ["create", kind, spec], [ups, counts] =>
    match parseSpec kind spec, parseUppers kind ups, natList counts with
    | some s, some u, some cs =>
      if !specFinite s then (c, "bad-op non-finite-spec") else
      let (c', st) := get identity c s
      (c', judgeCreate s st.uppers u cs)
    | _, _, _ => (c, "bad-op parse")
  | ["created", kind, spec], [ups, counts] =>
    match parseSpec kind spec, parseUppers kind ups, natList counts with
    | some s, some u, some cs =>
      if !specFinite s then (c, "bad-op non-finite-spec") else
      (c, judgeCreate s (build s).uppers u cs)
    | _, _, _ => (c, "bad-op parse")
  | _, _ => (c, "bad-op shape")

def suite : Suite := { σ := Cache, init := Cache.empty, step := step }

end Tally.Drv.C20
