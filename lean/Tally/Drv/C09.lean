import Tally.Drv.Common
import Tally.Model.GetOrCreate
import Tally.Spec.C09
/-!
Driver for C09 (lock-step).  Lines:
  `begin` | `ev probe <t>` | `ev create <t>` | `ev finish <t>` | `expect <t> idle|missed|returned`
  `holds? <result classes> <allocs> <recorded> <delivered>`
-/
namespace Tally.Drv.C09
open Tally Tally.GetOrCreate

structure DState where
  st : State
  steps : Nat

def init : DState := { st := GetOrCreate.init, steps := 0 }

def pcName : Pc → String
  | .idle => "idle" | .missed => "missed" | .returned _ => "returned"

def handle (d : DState) (toks : List String) : DState × String :=
  match toks with
  | ["begin"] => (init, "ok")
  | ["ev", k, t] =>
    match t.toNat? with
    | none => (d, "bad-op parse")
    | some t =>
      let e? : Option Ev := if k == "probe" then some (.probe t) else if k == "create" then some (.create t)
        else if k == "finish" then some (.finish t) else none
      match e? with
      | none => (d, "bad-op shape")
      | some e => match step d.st e with
        | some s' => ({ st := s', steps := d.steps + 1 }, "ok")
        | none => (d, s!"reject not-enabled at={pcName (pcOf d.st t)}")
  | ["expect", t, name] =>
    match t.toNat? with
    | some t => let n := pcName (pcOf d.st t); if n == name then (d, "ok") else (d, s!"reject at={n}")
    | none => (d, "bad-op parse")
  | ["holds?", res, allocs, rec, del] =>
    match natList res, allocs.toNat?, parseInt rec, parseInt del with
    | some res, some allocs, some rec, some del =>
      match Spec.C09.holds res allocs rec del with
      | some clause => (d, s!"violated {clause}")
      | none =>
        if d.st.allocs != allocs && allocs != 0 then (d, s!"differ model-allocs={d.st.allocs}")
        else if d.st.results.length != res.length then (d, s!"differ model-results={d.st.results.length}")
        else (d, "ok")
    | _, _, _, _ => (d, "bad-op parse")
  | ["end"] => (d, s!"ok steps={d.steps}")
  | _ => (d, "bad-op shape")

def suite : Suite := { σ := DState, init := init, step := handle }
end Tally.Drv.C09
