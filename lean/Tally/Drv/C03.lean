import Tally.Drv.Common
import Tally.Model.Buckets
import Tally.Spec.C03
/-!
Driver for C03.  Lines:
  `pairs v <spec f64s> => <lowers f64s> <uppers f64s>`
  `pairs d <spec ints> => <lowers ints> <uppers ints>`
  `place v <uppers f64s> <sample f64> => <idx>|panic`
  `place d <uppers ints> <sample int> => <idx>|panic`
  `hist v <spec> <samples> => <counts ints per bucket index>`
  `hist d <spec> <samples> => <counts>`
-/
namespace Tally.Drv.C03
open Tally Tally.Buckets

def keysOk (l : List F64) : Bool := l.all fun x => !F64.isNaN x

def parseTuple (f : String → Option Int) (s : String) : Option (Int × Int × Int) :=
  match s.splitOn ":" with
  | [a, b, c] => do
    let a ← f a
    let b ← f b
    let c ← parseInt c
    pure (a, b, c)
  | _ => none

def tupLe (a b : Int × Int × Int) : Bool :=
  a.1 < b.1 || (a.1 == b.1 && (a.2.1 < b.2.1 || (a.2.1 == b.2.1 && a.2.2 ≤ b.2.2)))

def sortTuples (l : List (Int × Int × Int)) : List (Int × Int × Int) := l.mergeSort tupLe

def showTuples (l : List (Int × Int × Int)) : String :=
  showList (fun (a, b, c) => s!"{a}:{b}:{c}") l

def tuplesOf (bounds : List (Int × Int)) (cnts : List Nat) : List (Int × Int × Int) :=
  (bounds.zip cnts).filterMap fun ((l, u), c) => if c == 0 then none else some (l, u, (c : Int))

def handle (toks : List String) : String :=
  let (req, obs) := splitObserved toks
  match req, obs with
  | ["pairs", "v", spec], [lows, ups] =>
    match f64List spec, f64List lows, f64List ups with
    | some spec, some lows, some ups =>
      let mu := valueUppers spec
      let ml := (List.range mu.length).map (valueLower mu)
      let pairs := (lows.zip ups).map fun (a, b) => (F64.key a, F64.key b)
      let specOk := lows.length == ups.length && keysOk lows && keysOk ups
        && Spec.C03.tiles (F64.key F64.negMaxFloat) (F64.key F64.maxFloat) pairs
        && Spec.C03.boundsAreSpec (F64.key F64.maxFloat) (spec.map F64.key) pairs
      -- compare through keys (sort.Sort is not stable for -0 / +0)
      let exp := showInts (ml.map F64.key) ++ " " ++ showInts (mu.map F64.key)
      let got := showInts (lows.map F64.key) ++ " " ++ showInts (ups.map F64.key)
      verdict exp got specOk "tiling"
    | _, _, _ => "bad-op parse"
  | ["pairs", "d", spec], [lows, ups] =>
    match intList spec, intList lows, intList ups with
    | some spec, some lows, some ups =>
      let mu := durationUppers spec
      let ml := (List.range mu.length).map (durationLower mu)
      let pairs := lows.zip ups
      let specOk := lows.length == ups.length
        && Spec.C03.tiles minInt64 maxInt64 pairs && Spec.C03.boundsAreSpec maxInt64 spec pairs
      verdict (showInts ml ++ " " ++ showInts mu) (showInts lows ++ " " ++ showInts ups) specOk "tiling"
    | _, _, _ => "bad-op parse"
  | ["place", "v", ups, v], [r] =>
    match f64List ups, u64OfHex v with
    | some ups, some v =>
      let exp := toString (placeValue ups v)
      match r.toNat? with
      | some idx =>
        let specOk := if F64.isFinite v then Spec.C03.placed (ups.map F64.key) (F64.key v) idx
                      else Spec.C03.placedNonFinite ups.length v idx
        verdict exp r specOk "placement"
      | none => if r == "panic" then s!"violated no-panic model={exp}" else "bad-op parse"
    | _, _ => "bad-op parse"
  | ["place", "d", ups, v], [r] =>
    match intList ups, parseInt v with
    | some ups, some v =>
      let exp := toString (placeKey ups v)
      match r.toNat? with
      | some idx => verdict exp r (Spec.C03.placed ups v idx) "placement"
      | none => if r == "panic" then s!"violated no-panic model={exp}" else "bad-op parse"
    | _, _ => "bad-op parse"
  | ["hist", "v", spec, samples], [counts] =>
    match f64List spec, f64List samples, intList counts with
    | some spec, some samples, some counts =>
      let exp := countsValue (valueUppers spec) samples
      let nNaN := (samples.filter F64.isNaN).length
      let specOk := Spec.C03.conserved counts samples.length nNaN && counts.length == spec.length + 1
      verdict (showNats exp) (showInts counts) specOk "bucket-conservation"
    | _, _, _ => "bad-op parse"
  | ["hist", "d", spec, samples], [counts] =>
    match intList spec, intList samples, intList counts with
    | some spec, some samples, some counts =>
      let exp := countsDuration (durationUppers spec) samples
      let specOk := Spec.C03.conserved counts samples.length 0 && counts.length == spec.length + 1
      verdict (showNats exp) (showInts counts) specOk "bucket-conservation"
    | _, _, _ => "bad-op parse"
  | ["tuples", "v", spec, samples], [tups] =>
    match f64List spec, f64List samples, parseList (parseTuple (fun s => (u64OfHex s).map F64.key)) tups with
    | some spec, some samples, some tups =>
      let ups := valueUppers spec
      let cnts := countsValue ups samples
      let exp := sortTuples (tuplesOf (List.range ups.length |>.map fun i => (F64.key (valueLower ups i), F64.key (ups.getD i 0))) cnts)
      let nNaN := (samples.filter F64.isNaN).length
      let specOk := Spec.C03.conserved (tups.map (·.2.2)) samples.length nNaN && tups.all (·.2.2 > 0)
      verdict (showTuples exp) (showTuples (sortTuples tups)) specOk "bucket-conservation"
    | _, _, _ => "bad-op parse"
  | ["tuples", "d", spec, samples], [tups] =>
    match intList spec, intList samples, parseList (parseTuple parseInt) tups with
    | some spec, some samples, some tups =>
      let ups := durationUppers spec
      let cnts := countsDuration ups samples
      let exp := sortTuples (tuplesOf (List.range ups.length |>.map fun i => (durationLower ups i, ups.getD i 0)) cnts)
      let specOk := Spec.C03.conserved (tups.map (·.2.2)) samples.length 0 && tups.all (·.2.2 > 0)
      verdict (showTuples exp) (showTuples (sortTuples tups)) specOk "bucket-conservation"
    | _, _, _ => "bad-op parse"
  | _, _ => "bad-op shape"

def suite : Suite := stateless handle

end Tally.Drv.C03
