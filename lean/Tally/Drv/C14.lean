import Tally.Drv.Common
import Tally.Model.M3Life
import Tally.Spec.C14
/-!
Driver for C14 (stateful; lock-step with the cooperative scheduler, plus a pure oracle line for the
free-running stress).  Lines:

  `begin <cap> <nInternal>`        new model instance (one real reporter)
  `spawn p|f|c`                    a report / Flush / Close call thread was created (parked at "start");
                                   reply `ok <tid>`
  `enabled`                        reply `ok <tids>`: the calls that may be resumed now (their next atomic
                                   action is enabled in the model; `-` when there is none)
  `step <tid> <label> [nil|already|other]`
                                   call `tid` was resumed where it was parked and has now parked at the hook
                                   `label` (`done` = it returned; for a Close call followed by its result).
                                   The driver executes the call's atomic actions up to its next hook and
                                   checks every one is enabled, none panics and the hook reached is `label`.
  `probe <tid>`                    the Close call `tid` was resumed at `m3.close.post-cas` although the model
                                   has `pending ≠ 0`, and was observed to keep spinning
  `late p|f|c [result]`            a call made after the winning Close returned, run to completion at once
  `finish <obs…>`                  end of a lock-step run: oracle on the observation + the model's own books
  `obs <obs…>`                     oracle only (free-running runs)
`<obs…>` = panics hangs closeNil closeAlready closeOther lateItems workersLeft must charged may races.

The worker goroutines (`process`, `timeLoop`) are not scheduled by the harness: the driver lets the
model's consumer / clock take their (enabled) steps right before a `wg.Wait()` and before the books are
compared — every one of them is checked to be a model transition.
-/
namespace Tally.Drv.C14
open Tally Tally.M3Life

structure DState where
  st : State
  active : Bool
  steps : Nat

def init : DState := { st := M3Life.init 1 0, active := false, steps := 0 }

/-- the hook at which a call at `pc` is parked before its next action (`none`: no hook there) -/
def parkLabel (nInt : Nat) : Pc → Option String
  | .prod .start => some "start"
  | .prod .afterInc => some "m3.report.post-inc"
  | .prod .afterCheck => some "m3.report.post-done-check"
  | .prod .finishing => none
  | .prod .returned => some "done"
  | .fStart => some "start"
  | .fAfterInc => some "m3.flush.post-inc"
  | .fNested n .start => if n = nInt then some "m3.flush.post-done-check" else none
  | .fNested _ .afterInc => some "m3.report.post-inc"
  | .fNested _ .afterCheck => some "m3.report.post-done-check"
  | .fNested _ .finishing => none
  | .fSending => if nInt = 0 then some "m3.flush.post-done-check" else none
  | .fFinishing => none
  | .fReturned => some "done"
  | .cStart => some "start"
  | .cAfterCas => some "m3.close.post-cas"
  | .cSpun => some "m3.close.post-spin"
  | .cClosedDonech => some "m3.close.post-donech"
  | .cClosedMetch => some "m3.close.post-metch"
  | .cReturned _ => some "done"

/-- let the worker threads take every step they can (consume until empty, exit, clock exit) -/
def settle (s : State) : Nat → State
  | 0 => s
  | fuel + 1 =>
    match step s .consume with
    | .ok s' => settle s' fuel
    | _ =>
      let s1 := match step s .consExit with | .ok s' => s' | _ => s
      match step s1 .clockExit with | .ok s' => s' | _ => s1

def settleAll (s : State) : State := settle s (s.queue.length + 2)

/-- one atomic action of call `t`: the regular action, or the `<-donech` branch when the send is not
enabled; before a `wg.Wait()` the workers settle -/
def oneAction (s : State) (t : Nat) : Except String State :=
  let s0 := if s.thr[t]? = some .cClosedMetch then settleAll s else s
  match step s0 (.act t) with
  | .ok s' => .ok s'
  | .panic w => .error s!"model-panic {w}"
  | .disabled =>
    match step s0 (.bail t) with
    | .ok s' => .ok s'
    | _ => .error "not-enabled"

/-- run call `t` up to its next hook; returns the new state and the label of the hook -/
def advance (s : State) (t : Nat) : Nat → Except String (State × String)
  | 0 => .error "no-hook-within-fuel"
  | fuel + 1 =>
    match oneAction s t with
    | .error e => .error e
    | .ok s' =>
      match s'.thr[t]? with
      | none => .error "no-such-thread"
      | some pc =>
        match parkLabel s'.nInternal pc with
        | some l => .ok (s', l)
        | none => advance s' t fuel

def isEnabled (s : State) (t : Nat) : Bool :=
  match oneAction s t with
  | .ok _ => true
  | .error _ => false

def enabledList (s : State) : List Nat :=
  (List.range s.thr.length).filter (fun t => isEnabled s t)

def kindOf : String → Option Kind
  | "p" => some .producer
  | "f" => some .flusher
  | "c" => some .closer
  | _ => none

def closeResult (s : State) (t : Nat) : String :=
  match s.thr[t]? with
  | some (.cReturned false) => "nil"
  | some (.cReturned true) => "already"
  | _ => ""

/-- run a freshly spawned call to completion -/
def runToEnd (s : State) (t : Nat) : Nat → Except String State
  | 0 => .error "late-call-does-not-return"
  | fuel + 1 =>
    match s.thr[t]? with
    | none => .error "no-such-thread"
    | some pc =>
      if finished pc then .ok s else
      match oneAction s t with
      | .error e => .error e
      | .ok s' => runToEnd s' t fuel

def parseObs (toks : List String) : Option Spec.C14.Obs :=
  match toks.mapM String.toNat? with
  | some [a, b, c, d, e, f, g, h, i, j, k] =>
    some { panics := a, hangs := b, closeNil := c, closeAlready := d, closeOther := e, lateItems := f,
           workersLeft := g, must := h, charged := i, may := j, races := k }
  | _ => none

def handle (d : DState) (toks : List String) : DState × String :=
  match toks with
  | ["begin", cap, n] =>
    match cap.toNat?, n.toNat? with
    | some cap, some n =>
      if cap = 0 then (d, "bad-op cap") else
      ({ st := M3Life.init cap n, active := true, steps := 0 }, "ok")
    | _, _ => (d, "bad-op parse")
  | ["spawn", k] =>
    if !d.active then (d, "bad-op no-model") else
    match kindOf k with
    | none => (d, "bad-op kind")
    | some k =>
      match step d.st (.spawn k) with
      | .ok s' => ({ d with st := s' }, s!"ok {d.st.thr.length}")
      | _ => (d, "reject spawn")
  | ["enabled"] =>
    if !d.active then (d, "bad-op no-model") else
    let en := enabledList d.st
    if en.isEmpty && !allReturned d.st then (d, "violated no-deadlock model")
    else (d, s!"ok {showNats en}")
  | "step" :: t :: label :: rest =>
    if !d.active then (d, "bad-op no-model") else
    match t.toNat? with
    | none => (d, "bad-op parse")
    | some t =>
      if label == "panic" then ({ d with active := false }, "violated no-panic") else
      match d.st.thr[t]? with
      | none => (d, "bad-op thread")
      | some pc0 =>
        if finished pc0 then (d, "reject already-returned") else
        match advance d.st t 8 with
        | .error e => ({ d with active := false }, s!"reject {e} thread={t} label={label}")
        | .ok (s', l) =>
          let d' := { d with st := s', steps := d.steps + 1 }
          if l != label then ({ d' with active := false }, s!"reject expected={l} got={label}")
          else
            let want := closeResult s' t
            match rest with
            | [] => if want == "" then (d', "ok") else (d', "bad-op missing-close-result")
            | [res] =>
              if want == "" then (d', "bad-op unexpected-result")
              else if res == want then (d', "ok")
              else if want == "already" then
                -- the property itself: a second Close must return an error
                ({ d' with active := false }, s!"violated second-close-errors expected={want} got={res}")
              else (d', s!"differ close-result expected={want} got={res}")
            | _ => (d', "bad-op shape")
  | ["probe", t] =>
    if !d.active then (d, "bad-op no-model") else
    match t.toNat? with
    | none => (d, "bad-op parse")
    | some t =>
      if d.st.thr[t]? = some .cAfterCas && d.st.pending != 0 then (d, "ok")
      else (d, s!"reject probe pending={d.st.pending}")
  | "late" :: k :: rest =>
    if !d.active then (d, "bad-op no-model") else
    match kindOf k with
    | none => (d, "bad-op kind")
    | some k =>
      match step d.st (.spawn k) with
      | .ok s1 =>
        let t := d.st.thr.length
        match runToEnd s1 t 64 with
        | .error e => (d, s!"reject late {e}")
        | .ok s2 =>
          let d' := { d with st := s2 }
          if s2.sent != d.st.sent then (d', "violated noop-after-close model")
          else
            let want := closeResult s2 t
            match rest with
            | [] => if want == "" then (d', "ok") else (d', "bad-op missing-close-result")
            | [res] =>
              if res == want then (d', "ok")
              else if want == "already" then (d', s!"violated second-close-errors expected={want} got={res}")
              else (d', s!"differ close-result expected={want} got={res}")
            | _ => (d', "bad-op shape")
      | _ => (d, "reject spawn")
  | "finish" :: rest =>
    match parseObs rest with
    | none => (d, "bad-op parse")
    | some o =>
      match Spec.C14.holds o with
      | some clause => ({ d with active := false }, s!"violated {clause}")
      | none =>
        if !d.active then (d, "ok") else
        let s := settleAll d.st
        let m := observe s
        let d' := { d with st := s, active := false }
        if !allReturned s then (d', s!"differ model-books unfinished={m.hangs}")
        else if m.closeNil != o.closeNil || m.closeAlready != o.closeAlready then
          (d', s!"differ model-books closeNil={m.closeNil} closeAlready={m.closeAlready}")
        else if m.charged != o.charged then (d', s!"differ model-books charged={m.charged}")
        else if m.workersLeft != o.workersLeft then (d', s!"differ model-books workersLeft={m.workersLeft}")
        else (d', s!"ok steps={d.steps}")
  | "obs" :: rest =>
    match parseObs rest with
    | none => (d, "bad-op parse")
    | some o =>
      match Spec.C14.holds o with
      | some clause => (d, s!"violated {clause}")
      | none => (d, "ok")
  | _ => (d, "bad-op shape")

def suite : Suite := { σ := DState, init := init, step := handle }
end Tally.Drv.C14
