import Tally.Drv.Common
import Tally.Model.Statsd
import Tally.Spec.C18
/-!
Driver for C18.  Lines (`R` = sample rate as 8 hex digits of the float32 bits, `P` = precision option,
names/strings in hex, tags `k:v,k:v` in hex or `-`, calls `kind:name:value:R:ntags;…` or `-`,
kind ∈ inc|gauge|timing|other):

  `rep R P c  <name> <tags> <int>             => <calls>`
  `rep R P g  <name> <tags> <f64>             => <calls>`
  `rep R P t  <name> <tags> <int>             => <calls>`
  `rep R P hv <name> <tags> <lo f64> <hi f64> <samples> => <calls>`
  `rep R P hd <name> <tags> <lo int> <hi int> <samples> => <calls>`
  `hist v R P <name> <lo:hi:n;…>  => <calls>`   one histogram reported through a real scope: bucket
  `hist d R P <name> <lo:hi:n;…>  => <calls>`   tuples seen by a plain recording reporter, in order
  `caps R P => <reporting 0|1> <tagging 0|1>`
  `fmtf <N> <f64> => <text>`     Go's `fmt.Sprintf("%.Nf", x)` itself
  `durstr <int> => <text>`       Go's `time.Duration.String` itself
-/
namespace Tally.Drv.C18
open Tally Tally.Statsd

def u32ToHex (v : UInt32) : String :=
  String.ofList ((List.range 8).map fun i => hexDigit ((v.toNat >>> (4 * (7 - i))) % 16))

def u32OfHex (s : String) : Option UInt32 :=
  if s.length ≠ 8 then none else
  s.toList.foldlM (fun (acc : Nat) c => do let d ← hexVal c; pure (acc * 16 + d)) 0 |>.map UInt32.ofNat

def parseTags (s : String) : Option Tags :=
  if s == "-" then some [] else
  (s.splitOn ",").mapM fun kv =>
    match kv.splitOn ":" with
    | [k, v] => do pure ((← ofHex k), (← ofHex v))
    | _ => none

def parseKind (s : String) : Option Kind :=
  match s with
  | "inc" => some .inc
  | "gauge" => some .gauge
  | "timing" => some .timing
  | "other" => some .other
  | _ => none

def showKind : Kind → String
  | .inc => "inc" | .gauge => "gauge" | .timing => "timing" | .other => "other"

def parseCall (s : String) : Option Call :=
  match s.splitOn ":" with
  | [k, n, v, r, t] => do
    pure { kind := (← parseKind k), name := (← ofHex n), value := (← parseInt v), rate := (← u32OfHex r), ntags := (← parseNat t) }
  | _ => none

def showCall (c : Call) : String :=
  s!"{showKind c.kind}:{toHex c.name}:{c.value}:{u32ToHex c.rate}:{c.ntags}"

def parseCalls (s : String) : Option (List Call) := parseList parseCall s
def showCalls (l : List Call) : String := showList showCall l

def parseOpts (r p : String) : Option Options := do
  pure { rate := (← u32OfHex r), prec := (← parseNat p) }

def parseReport (kind name tags : String) (args : List String) : Option Report := do
  let n ← ofHex name
  let t ← parseTags tags
  match kind, args with
  | "c", [v] => pure (.counter n t (← parseInt v))
  | "g", [v] => pure (.gauge n t (← u64OfHex v))
  | "t", [d] => pure (.timer n t (← parseInt d))
  | "hv", [lo, hi, s] => pure (.histValue n t (← u64OfHex lo) (← u64OfHex hi) (← parseInt s))
  | "hd", [lo, hi, s] => pure (.histDuration n t (← parseInt lo) (← parseInt hi) (← parseInt s))
  | _, _ => none

/-- int64 arguments must be int64s -/
def reportWellFormed : Report → Bool
  | .counter _ _ v => inInt64 v
  | .gauge _ _ _ => true
  | .timer _ _ d => inInt64 d
  | .histValue _ _ _ _ s => inInt64 s
  | .histDuration _ _ lo hi s => inInt64 lo && inInt64 hi && inInt64 s

/-- the model's calls equal the observed ones; a gauge value outside Go's defined conversion
domain is not compared -/
def sameCalls (rep : Report) (exp obs : List Call) : Bool :=
  match rep with
  | .gauge _ _ v =>
    if gaugeInDomain v then exp == obs
    else exp.map (fun c => { c with value := 0 }) == obs.map (fun c => { c with value := 0 })
  | _ => exp == obs

def judge (o : Options) (rep : Report) (obs : List Call) : String :=
  let exp := run o rep
  match Spec.C18.check o rep obs with
  | some clause => s!"violated {clause} model={showCalls exp}"
  | none => if sameCalls rep exp obs then "ok" else s!"differ {showCalls exp}"

def parseTupleV (s : String) : Option (F64 × F64 × Int) :=
  match s.splitOn ":" with
  | [a, b, c] => do pure ((← u64OfHex a), (← u64OfHex b), (← parseInt c))
  | _ => none

def parseTupleD (s : String) : Option (Int × Int × Int) :=
  match s.splitOn ":" with
  | [a, b, c] => do pure ((← parseInt a), (← parseInt b), (← parseInt c))
  | _ => none

/-- pair bucket reports with observed calls in order; first non-ok verdict wins -/
def judgeAll (o : Options) : List Report → List Call → String
  | [], [] => "ok"
  | r :: rs, c :: cs =>
    let v := judge o r [c]
    if v == "ok" then judgeAll o rs cs else v
  | rs, cs =>
    s!"violated one-call model={showCalls (rs.flatMap (run o))} extra-observed={cs.length}"

def handle (toks : List String) : String :=
  let (req, obs) := splitObserved toks
  match req, obs with
  | "rep" :: r :: p :: kind :: name :: tags :: args, [calls] =>
    match parseOpts r p, parseReport kind name tags args, parseCalls calls with
    | some o, some rep, some obs =>
      if !reportWellFormed rep then "bad-op range" else judge o rep obs
    | _, _, _ => "bad-op parse"
  | ["hist", "v", r, p, name, tups], [calls] =>
    match parseOpts r p, ofHex name, parseList parseTupleV tups, parseCalls calls with
    | some o, some n, some tups, some obs =>
      if !tups.all (fun t => inInt64 t.2.2) then "bad-op range" else
      judgeAll o (tups.map fun (lo, hi, s) => .histValue n [] lo hi s) obs
    | _, _, _, _ => "bad-op parse"
  | ["hist", "d", r, p, name, tups], [calls] =>
    match parseOpts r p, ofHex name, parseList parseTupleD tups, parseCalls calls with
    | some o, some n, some tups, some obs =>
      if !tups.all (fun t => inInt64 t.1 && inInt64 t.2.1 && inInt64 t.2.2) then "bad-op range" else
      judgeAll o (tups.map fun (lo, hi, s) => .histDuration n [] lo hi s) obs
    | _, _, _, _ => "bad-op parse"
  | ["caps", r, p], [a, b] =>
    match parseOpts r p with
    | some _ =>
      let exp := s!"{if reporting then 1 else 0} {if tagging then 1 else 0}"
      if (a != "0" && a != "1") || (b != "0" && b != "1") then "bad-op parse"
      else if !Spec.C18.capsOk (a == "1") (b == "1") then s!"violated capabilities model={exp}"
      else if exp == s!"{a} {b}" then "ok" else s!"differ {exp}"
    | none => "bad-op parse"
  | ["fmtf", n, x], [text] =>
    match parseNat n, u64OfHex x, ofHex text with
    | some n, some x, some text =>
      let exp := fmtFixed n x
      if exp == text then "ok" else s!"differ {toHex exp}"
    | _, _, _ => "bad-op parse"
  | ["durstr", d], [text] =>
    match parseInt d, ofHex text with
    | some d, some text =>
      if !inInt64 d then "bad-op range" else
      let exp := durationString d
      if exp != text then s!"differ {toHex exp}"
      else if Spec.C18.parseDuration text != some d then s!"violated duration-parse-back model={toHex exp}"
      else "ok"
    | _, _ => "bad-op parse"
  | _, _ => "bad-op shape"

def suite : Suite := stateless handle

end Tally.Drv.C18
