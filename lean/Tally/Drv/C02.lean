import Tally.Drv.Common
import Tally.Model.Gauge
import Tally.Spec.C02
/-!
Driver for C02 (lock-step).  Lines:
  `begin`
  `w <label-reached> [<v bits>]` — the writer was resumed and reached `gauge.update:0 <v>` (about to store
      `v`), `gauge.update:1` (value stored, about to set the flag) or `done`
  `r <thread> <label-reached> [<bits>]` — reporter `t` reached `gauge.report:0` (about to lock and swap),
      `gauge.report:1` (swap returned 1), `rep.gauge <bits>` (inside the reporter call: the value read) or
      `visit-end [bits delivered]`
  `canswap` → `ok yes|no` — is the gauge's report mutex free (may a reporter parked at gauge.report:0 be resumed)
  `holds? <updates> <delivered> <idle>`
-/
namespace Tally.Drv.C02
open Tally Tally.Gauge

inductive WPc | idle | atValue (v : UInt64) | atFlag
deriving DecidableEq
inductive RPc | idle | atSwap | atLoad | atDeliver
deriving DecidableEq

structure DState where
  st : Gauge.State
  w : WPc
  rs : List (Nat × RPc)
  steps : Nat

def init : DState := { st := Gauge.init, w := .idle, rs := [], steps := 0 }
def rpc (d : DState) (t : Nat) : RPc := (d.rs.lookup t).getD .idle
def setR (d : DState) (t : Nat) (p : RPc) : DState := { d with rs := (t, p) :: d.rs.filter (·.1 != t) }

def apply (d : DState) (e : Ev) : Option DState :=
  (step d.st e).map fun st => { d with st := st, steps := d.steps + 1 }

def handle (d : DState) (toks : List String) : DState × String :=
  match toks with
  | ["begin"] => (init, "ok")
  | ["canswap"] => (d, if d.st.holder.isNone then "ok yes" else "ok no")
  | "w" :: label :: rest =>
    -- first execute the action the writer was parked before
    let d1? : Option DState := match d.w with
      | .idle => some d
      | .atValue v => apply d (.storeValue v)
      | .atFlag => apply d .storeFlag
    match d1? with
    | none => (d, "reject writer-action-not-enabled")
    | some d1 =>
      let expectFlag := match d.w with | .atValue _ => true | _ => false
      match label, rest with
      | "gauge.update:0", [v] =>
        if expectFlag then (d1, "reject expected=gauge.update:1") else
        match u64OfHex v with
        | some v => ({ d1 with w := .atValue v }, "ok")
        | none => (d1, "bad-op parse")
      | "gauge.update:1", [] =>
        if expectFlag then ({ d1 with w := .atFlag }, "ok") else (d1, "reject unexpected=gauge.update:1")
      | "done", [] => if expectFlag then (d1, "reject expected=gauge.update:1") else ({ d1 with w := .idle }, "ok")
      | _, _ => (d1, "bad-op shape")
  | "r" :: t :: label :: rest =>
    match t.toNat? with
    | none => (d, "bad-op parse")
    | some t =>
      match rpc d t with
      | .idle =>
        if label == "gauge.report:0" then (setR d t .atSwap, "ok") else (d, s!"reject expected=gauge.report:0 got={label}")
      | .atSwap =>
        let was := d.st.updated
        match apply d (.swap t) with
        | none => (d, "reject swap-not-enabled (another report of this gauge is in progress: the report mutex is held)")
        | some d1 =>
          let expect := if was then "gauge.report:1" else "visit-end"
          if label == expect then (setR d1 t (if was then .atLoad else .idle), "ok")
          else (d1, s!"reject expected={expect} got={label}")
      | .atLoad =>
        -- the reporter call was entered: its argument (the value read) is observed
        match apply d (.load t) with
        | none => (d, "reject load-not-enabled")
        | some d1 =>
          let d2 := setR d1 t .atDeliver
          if label != "rep.gauge" then (d2, s!"reject expected=rep.gauge got={label}") else
          match rest with
          | [obs] => if (u64OfHex obs) == d1.st.loaded then (d2, "ok") else (d2, s!"differ loaded={(d1.st.loaded.map u64ToHex).getD "none"}")
          | _ => (d2, "bad-op missing-loaded")
      | .atDeliver =>
        let v := d.st.loaded
        match apply d (.deliver t) with
        | none => (d, "reject deliver-not-enabled")
        | some d1 =>
          let d2 := setR d1 t .idle
          if label != "visit-end" then (d2, s!"reject expected=visit-end got={label}") else
          match rest with
          | [obs] => if u64OfHex obs == v then (d2, "ok") else (d2, s!"differ delivered={(v.map u64ToHex).getD "none"}")
          | _ => (d2, "bad-op missing-delivered")
  | ["holds?", ups, dels, idle] =>
    match f64List ups, f64List dels, f64List idle with
    | some ups, some dels, some idle =>
      match Spec.C02.holds ups dels idle with
      | some clause => (d, s!"violated {clause}")
      | none =>
        if d.st.delivered.reverse == dels then (d, "ok") else (d, s!"differ model-delivered={showF64s d.st.delivered.reverse}")
    | _, _, _ => (d, "bad-op parse")
  | ["end"] => (d, s!"ok steps={d.steps}")
  | _ => (d, "bad-op shape")

def suite : Suite := { σ := DState, init := init, step := handle }
end Tally.Drv.C02
