import Tally.Drv.Common
import Tally.Model.Multi
import Tally.Spec.C19
/-!
Driver for C19 (stateful: one multi reporter per `begin … end` session).

```
begin <plain|cached> <n> <caps>                      caps: `;`-list of two digits <reporting><tagging>, `-` for no child
call <call…> => <ret|panic> <event> <event> …        one event per call received by a child during this call
caps => <reporting><tagging>|panic                   answer of Capabilities() on the multi reporter
end                                                  final verdict over the whole session
```
`<call…>` (space separated in the request; `/` separated inside an event `<child>/<seq>/<call…>`):
```
counter <name> <tags> <int64>        gauge <name> <tags> <f64>         timer <name> <tags> <ns>
hval <name> <tags> <buckets> <lo f64> <hi f64> <n>                     hdur <name> <tags> <buckets> <lo ns> <hi ns> <n>
flush
alloc-counter|alloc-gauge|alloc-timer <name> <tags>                    alloc-hist <name> <tags> <buckets>
vbucket <h> <lo f64> <hi f64>        dbucket <h> <lo ns> <hi ns>
count <h> <int64>    gaugeh <h> <f64>    timerh <h> <ns>    samples <b> <int64>
```
`<name>` hex (`-` empty); `<tags>`: `~` nil map, `-` empty map, else `k:v,k:v` hex sorted by key;
`<buckets>`: `n` nil, `v<f64 list>`, `d<int list>`; `<h>`/`<b>` handle ordinals.

Replies: `ok` | `differ <model's events for this call>` | `violated <clause> model=<…>` | `bad-op <why>`.
Every `call` line is judged by `Spec.C19.holds` on the observation of that call alone, every `caps`
line and `end` by `Spec.C19.holds` on the whole session so far; independently the observed events
are compared with the model's (exact sequence numbers: the shared counter starts
at 0 at `begin` and only the children draw from it).
-/
namespace Tally.Drv.C19
open Tally Tally.Multi

def parseTags (s : String) : Option Tags :=
  if s == "~" then some none
  else if s == "-" then some (some [])
  else do
    let kvs ← (s.splitOn ",").mapM fun kv =>
      match kv.splitOn ":" with
      | [k, v] => do pure ((← ofHex k), (← ofHex v))
      | _ => none
    pure (some kvs)

def showTags : Tags → String
  | none => "~"
  | some [] => "-"
  | some l => ",".intercalate (l.map fun (k, v) => toHex k ++ ":" ++ toHex v)

def parseBuckets (s : String) : Option BucketsArg :=
  match s.toList with
  | ['n'] => some .nil
  | 'v' :: rest => (f64List (String.ofList rest)).map .values
  | 'd' :: rest => (intList (String.ofList rest)).map .durations
  | _ => none

def showBuckets : BucketsArg → String
  | .nil => "n"
  | .values l => "v" ++ showF64s l
  | .durations l => "d" ++ showInts l

def parseI64 (s : String) : Option Int := do
  let i ← parseInt s
  if inInt64 i then some i else none

def parseCall : List String → Option Call
  | ["counter", n, t, v] => do pure (.reportCounter (← ofHex n) (← parseTags t) (← parseI64 v))
  | ["gauge", n, t, v] => do pure (.reportGauge (← ofHex n) (← parseTags t) (← u64OfHex v))
  | ["timer", n, t, v] => do pure (.reportTimer (← ofHex n) (← parseTags t) (← parseI64 v))
  | ["hval", n, t, b, lo, hi, k] => do
    pure (.reportHistValue (← ofHex n) (← parseTags t) (← parseBuckets b) (← u64OfHex lo) (← u64OfHex hi) (← parseI64 k))
  | ["hdur", n, t, b, lo, hi, k] => do
    pure (.reportHistDuration (← ofHex n) (← parseTags t) (← parseBuckets b) (← parseI64 lo) (← parseI64 hi) (← parseI64 k))
  | ["flush"] => some .flush
  | ["alloc-counter", n, t] => do pure (.allocCounter (← ofHex n) (← parseTags t))
  | ["alloc-gauge", n, t] => do pure (.allocGauge (← ofHex n) (← parseTags t))
  | ["alloc-timer", n, t] => do pure (.allocTimer (← ofHex n) (← parseTags t))
  | ["alloc-hist", n, t, b] => do pure (.allocHistogram (← ofHex n) (← parseTags t) (← parseBuckets b))
  | ["vbucket", h, lo, hi] => do pure (.valueBucket (← parseNat h) (← u64OfHex lo) (← u64OfHex hi))
  | ["dbucket", h, lo, hi] => do pure (.durationBucket (← parseNat h) (← parseI64 lo) (← parseI64 hi))
  | ["count", h, v] => do pure (.count (← parseNat h) (← parseI64 v))
  | ["gaugeh", h, v] => do pure (.gauge (← parseNat h) (← u64OfHex v))
  | ["timerh", h, v] => do pure (.timer (← parseNat h) (← parseI64 v))
  | ["samples", b, v] => do pure (.samples (← parseNat b) (← parseI64 v))
  | _ => none

def callFields : Call → List String
  | .reportCounter n t v => ["counter", toHex n, showTags t, toString v]
  | .reportGauge n t v => ["gauge", toHex n, showTags t, u64ToHex v]
  | .reportTimer n t v => ["timer", toHex n, showTags t, toString v]
  | .reportHistValue n t b lo hi k => ["hval", toHex n, showTags t, showBuckets b, u64ToHex lo, u64ToHex hi, toString k]
  | .reportHistDuration n t b lo hi k => ["hdur", toHex n, showTags t, showBuckets b, toString lo, toString hi, toString k]
  | .flush => ["flush"]
  | .allocCounter n t => ["alloc-counter", toHex n, showTags t]
  | .allocGauge n t => ["alloc-gauge", toHex n, showTags t]
  | .allocTimer n t => ["alloc-timer", toHex n, showTags t]
  | .allocHistogram n t b => ["alloc-hist", toHex n, showTags t, showBuckets b]
  | .valueBucket h lo hi => ["vbucket", toString h, u64ToHex lo, u64ToHex hi]
  | .durationBucket h lo hi => ["dbucket", toString h, toString lo, toString hi]
  | .count h v => ["count", toString h, toString v]
  | .gauge h v => ["gaugeh", toString h, u64ToHex v]
  | .timer h v => ["timerh", toString h, toString v]
  | .samples b v => ["samples", toString b, toString v]

/-- `<child>/<seq>/<call…>` -/
def parseEvent (s : String) : Option (Nat × Nat × Call) :=
  match s.splitOn "/" with
  | i :: q :: rest => do pure ((← parseNat i), (← parseNat q), (← parseCall rest))
  | _ => none

def showEvent (i s : Nat) (c : Call) : String := "/".intercalate (toString i :: toString s :: callFields c)

def parseCaps (s : String) : Option Caps :=
  match s.toList with
  | [r, t] =>
    if (r == '0' || r == '1') && (t == '0' || t == '1') then some { reporting := r == '1', tagging := t == '1' }
    else none
  | _ => none

def showCaps (c : Caps) : String := (if c.reporting then "1" else "0") ++ (if c.tagging then "1" else "0")

def parseFlavour : String → Option Flavour
  | "plain" => some .plain
  | "cached" => some .cached
  | _ => none

structure Session where
  model : State
  obs : Spec.C19.Obs

abbrev DState := Option Session

/-- appends each event to the log of its child; `none` if a child index is out of range -/
def addEvents (logs : List (List (Nat × Call))) : List (Nat × Nat × Call) → Option (List (List (Nat × Call)))
  | [] => some logs
  | (i, s, c) :: rest =>
    if i < logs.length then addEvents (logs.modify i (· ++ [(s, c)])) rest else none

/-- the events the model's children log between two states, grouped by child in child order -/
def newEvents (before after : State) : List String :=
  ((before.children.zip after.children).zipIdx).flatMap fun ((b, a), i) =>
    (a.log.drop b.log.length).map fun (s, c) => showEvent i s c

def judge (o : Spec.C19.Obs) (expected observed : String) : String :=
  match Spec.C19.holds o with
  | some clause => s!"violated {clause} model={expected}"
  | none => if expected == observed then "ok" else s!"differ {expected}"

def step (st : DState) (toks : List String) : DState × String :=
  let (req, obs) := Tally.Drv.splitObserved toks
  match req, st with
  | ["begin", fl, n, caps], _ =>
    if !obs.isEmpty then (none, "bad-op begin-takes-no-observation") else
    match parseFlavour fl, parseNat n, parseList parseCaps caps with
    | some fl, some n, some caps =>
      if caps.length != n then (none, "bad-op caps-count") else
      (some { model := init fl caps, obs := { caps := caps, logs := List.replicate n [] } }, "ok")
    | _, _, _ => (none, "bad-op parse-begin")
  | "call" :: callToks, some ss =>
    match parseCall callToks, obs with
    | some x, ret :: evToks =>
      if ret != "ret" && ret != "panic" then (st, "bad-op parse-ret") else
      match evToks.mapM parseEvent with
      | none => (st, "bad-op parse-event")
      | some evs =>
        match Multi.step ss.model x, addEvents ss.obs.logs evs with
        | none, _ => (st, "bad-op ill-formed-call")
        | _, none => (st, "bad-op event-child-out-of-range")
        | some m', some logs' =>
          let o' := { ss.obs with calls := ss.obs.calls ++ [x], returned := ss.obs.returned ++ [ret == "ret"], logs := logs' }
          let expected := " ".intercalate ("ret" :: newEvents ss.model m')
          let observed := " ".intercalate (ret :: evs.map fun (i, s, c) => showEvent i s c)
          -- judged now: this call alone (the same predicate on the one-call observation);
          -- the whole session, incl. the order between successive calls, is judged at `end`
          let sliceLogs := (List.range ss.obs.caps.length).map (fun i =>
            evs.filterMap (fun (e : Nat × Nat × Call) => if e.1 == i then some e.2 else none))
          let retOk : Bool := ret == "ret"
          let slice : Spec.C19.Obs := { caps := ss.obs.caps, calls := [x], returned := [retOk], logs := sliceLogs }
          (some { model := m', obs := o' }, judge slice expected observed)
    | _, _ => (st, "bad-op parse-call")
  | ["caps"], some ss =>
    match obs with
    | ["panic"] => (st, "violated capabilities-panicked model=" ++ showCaps (capabilities ss.model))
    | [c] =>
      match parseCaps c with
      | some c =>
        let o' := { ss.obs with reported := ss.obs.reported ++ [c] }
        (some { ss with obs := o' }, judge o' (showCaps (capabilities ss.model)) (showCaps c))
      | none => (st, "bad-op parse-caps")
    | _ => (st, "bad-op parse-caps")
  | ["setcaps", caps], some ss =>
    -- the children's capabilities change; the answers judged so far were judged against the old ones
    if !obs.isEmpty then (st, "bad-op setcaps-takes-no-observation") else
    match parseList parseCaps caps with
    | some caps =>
      if caps.length != ss.obs.caps.length then (st, "bad-op caps-count") else
      (some { model := setCaps ss.model caps, obs := { ss.obs with caps := caps, reported := [] } }, "ok")
    | none => (st, "bad-op parse-caps")
  | ["end"], some ss =>
    if !obs.isEmpty then (st, "bad-op end-takes-no-observation") else
    -- final verdict over the whole session; the model's logs must be the observed logs
    let same := Multi.logs ss.model == ss.obs.logs
    (none, judge ss.obs "same-logs" (if same then "same-logs" else "other-logs"))
  | _, none => (st, "bad-op no-session")
  | _, _ => (st, "bad-op shape")

def suite : Suite := { σ := DState, init := none, step := step }

end Tally.Drv.C19
