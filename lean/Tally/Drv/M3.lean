import Tally.Drv.Common
import Tally.Drv.Thrift
import Tally.Model.M3Report
import Tally.Spec.C12
import Tally.Spec.C13
/-!
Driver for C12 and C13 (stateful: one M3 reporter per session).  Token formats as in `Drv/Thrift.lean`
(`<tags>`: `-` or `k:v,k:v` hex, here SORTED by key; byte strings hex with `-` = empty).

```
begin <c|b> <maxPacket> <freeBytes> <overheadBytes> <tConstruct ns> <userCommonTags> <service> <env>
      <host|~> <bucketIdName> <bucketName> <precision> <internalTags>
alloc <h> <counter|gauge|timer> <name> <tags>            handles are numbered from 5 in allocation order
alloch <h> <name> <tags> <v<f64;…>|d<ns;…>>
report <producer> <h> <int64 | f64 bits> <tBegin ns> <tEnd ns>
reportb <producer> <h> <upper: f64 bits | ns> <samples> <tBegin> <tEnd>
flush <producer>                                         a Flush() call (position matters in exact mode)
datagram <hex>                                           received datagrams, in sequence-number order
charges <n;n;…>                                          charge-hook values, in process() order
emits <n;n;…>                                            flush-hook values of the emits that sent a batch
c12?  → holds | violated <clause>:<cause> …              Spec.C12 (+ the shared delivery clause)
c13?  → holds | violated <clause>:<cause> …              Spec.C13
model? <exact|multi> → ok | differ <aspect>:<detail> …   model vs implementation
end   → ok
```
`model?` aspects: `overhead` (reserved overhead vs `M3.overhead 33 …`), `bucket-charge` / `plain-charge`
(hook-observed charge of every emitted metric vs the repaired model's charge of its template),
`emit-bytes` (the `bytes` local at each emit vs the sum of the batch's charges), and in `exact` mode
(one producer, the lines are in program order) `batches` (the batching fold over the observed
charges, flush markers and `freeBytes` vs the metric counts of the datagrams) and `bytes` (the whole
model run — allocation, tag conversion, bucket ids and ranges, reports, internal telemetry, batching,
encoding — against the received bytes).  For `bytes` the model is given what no model can know: the
observed clock values (as `tick`s), the enumeration order of every tag map, and the values of the
reporter's own telemetry; and, so that the batching differential stays sharp while the known
accounting defects are present, the observed envelope constant and — if the observed bucket charges
follow the pinned formula — the pinned bucket charge (both deviations are reported as aspects).
-/
namespace Tally.Drv.M3
open Tally Tally.Thrift Tally.M3 Tally.Drv.Thrift

inductive Ev
  | alloc (h : Nat) (k : Kind) (name : Bytes) (tags : TagMap)
  | alloch (h : Nat) (name : Bytes) (tags : TagMap) (spec : BucketSpec)
  | report (prod h : Nat) (v : Val) (t0 t1 : Int)
  | reportb (prod h : Nat) (upper : Bound) (samples : Int) (t0 t1 : Int)
  | flush (prod : Nat)

inductive HInfo
  | metric (k : Kind) (name : Bytes) (tags : TagMap)
  | hist (name : Bytes) (tags : TagMap) (spec : BucketSpec)

structure Begin where
  proto : Proto
  maxPacket : Nat
  free : Int
  overhead : Int
  tConstruct : Int
  userCommon : TagMap
  service : Bytes
  env : Bytes
  host : Option Bytes
  idName : Bytes
  rangeName : Bytes
  prec : Nat
  internalTags : TagMap

structure St where
  cfg : Option Begin := none
  /-- newest first -/
  evs : List Ev := []
  /-- canonical decodings of `datagrams` (oldest first), computed at the first query -/
  dec : Option (List (Option (Int × MetricBatch))) := none
  /-- handle table (newest first), kept in step with `evs` -/
  tbl : List (Nat × HInfo) := []
  datagrams : List Bytes := []
  charges : List Nat := []
  emits : List Nat := []

def parseTagMap (s : String) : Option TagMap :=
  if s == "-" then some [] else
  (s.splitOn ",").mapM fun kv =>
    match kv.splitOn ":" with
    | [k, v] => do pure ((← ofHex k), (← ofHex v))
    | _ => none

def parseKind (s : String) : Option Kind :=
  if s == "counter" then some .counter else if s == "gauge" then some .gauge
  else if s == "timer" then some .timer else none

def parseI64 (s : String) : Option Int := do
  let i ← parseInt s
  if inInt64 i then some i else none

def parseSpec (s : String) : Option BucketSpec :=
  match s.toList with
  | 'v' :: rest => (f64List (String.ofList rest)).map .values
  | 'd' :: rest => ((String.ofList rest).splitOn ";" |>.mapM parseI64).map .durations
  | _ => none

/-! ## what the session knows about its handles -/


def handleTable (evs : List Ev) : List (Nat × HInfo) :=
  evs.filterMap fun
    | .alloc h k n t => some (h, .metric k n t)
    | .alloch h n t s => some (h, .hist n t s)
    | _ => none

def valTriple : Val → Int × UInt64 × Int
  | .count c => (c, 0, 0)
  | .gauge g => (0, g, 0)
  | .timer d => (0, 0, d)

/-- the log entry of one report line (none: the call is a no-op or refers to an unknown handle) -/
def expectedOf (b : Begin) (tbl : List (Nat × HInfo)) (seqNo : Nat) : Ev → Option Spec.M3.Expected
  | .report prod h v t0 t1 =>
    match tbl.lookup h with
    | some (.metric k name tags) =>
      if v.kind ≠ k then none else
      let (c, g, d) := valTriple v
      some { producer := prod, seqNo := seqNo, handle := h, name := name, mtype := k.mtype, count := c, gauge := g,
             timer := d, allocTags := tags, tags := tags, bucket := none, tBegin := t0, tEnd := t1 }
    | _ => none
  | .reportb prod h upper samples t0 t1 =>
    match tbl.lookup h, upper with
    | some (.hist name tags (.values spec)), .v u =>
      (Spec.M3.valueBucket b.prec spec u).map fun (key, idx, idT, rangeT) =>
        { producer := prod, seqNo := seqNo, handle := h, name := name, mtype := 1, count := samples, gauge := 0,
          timer := 0, allocTags := tags, tags := tags ++ [(b.idName, idT), (b.rangeName, rangeT)],
          bucket := some (key, idx), tBegin := t0, tEnd := t1 }
    | some (.hist name tags (.durations spec)), .d u =>
      (Spec.M3.durationBucket spec u).map fun (key, idx, idT, rangeT) =>
        { producer := prod, seqNo := seqNo, handle := h, name := name, mtype := 1, count := samples, gauge := 0,
          timer := 0, allocTags := tags, tags := tags ++ [(b.idName, idT), (b.rangeName, rangeT)],
          bucket := some (key, idx), tBegin := t0, tEnd := t1 }
    | _, _ => none
  | _ => none

def evProducer : Ev → Option Nat
  | .report p .. => some p
  | .reportb p .. => some p
  | _ => none

/-- per-producer logs (producers are numbered 0 … n-1) -/
def logsOf (b : Begin) (evs : List Ev) : List (List Spec.M3.Expected) :=
  let tbl := handleTable evs
  let n := (evs.filterMap evProducer).foldl (fun a p => max a (p + 1)) 0
  (List.range n).map fun p =>
    ((evs.filter fun e => evProducer e == some p).zipIdx.filterMap fun (e, i) => expectedOf b tbl i e)

def obs12 (b : Begin) (st : St) : Spec.C12.Obs :=
  { proto := b.proto, maxPacket := b.maxPacket, free := b.free, overhead := b.overhead,
    bucketIdName := b.idName, bucketName := b.rangeName, datagrams := st.datagrams.reverse,
    charges := st.charges }

def obs13 (b : Begin) (st : St) : Spec.C13.Obs :=
  { proto := b.proto, tConstruct := b.tConstruct,
    commonTags := Spec.C13.expectedCommon b.userCommon b.service b.env b.host,
    bucketIdName := b.idName, bucketName := b.rangeName,
    allocated := st.tbl.map (fun (h, i) => (h, match i with | .metric _ _ t => t | .hist _ t _ => t)),
    logs := logsOf b st.evs.reverse,
    datagrams := st.datagrams.reverse }

def showVerdicts (vs : List (String × String)) : String :=
  if vs.isEmpty then "holds" else "violated " ++ " ".intercalate (vs.map fun (c, k) => c ++ ":" ++ k)

/-! ## model vs implementation -/

def kindOfMtype (t : Int) : Option Kind :=
  if t = 1 then some .counter else if t = 2 then some .gauge else if t = 3 then some .timer else none

/-- repaired-model charge of an emitted metric, and the pinned charge if it is a bucket -/
def modelCharge (b : Begin) (m : Metric) : Option (Nat × Option Nat) :=
  match kindOfMtype m.value.mtype with
  | none => none
  | some k =>
    if Spec.C12.isBucket b.idName b.rangeName m then
      match (m.tags.getD []).reverse with
      | r :: i :: rest =>
        let t := template m.name k (some rest.reverse)
        some (chargeBucket b.proto t i r, some (legacyChargeBucket b.proto t i r))
      | _ => none
    else some (chargeMetric b.proto (template m.name k m.tags), none)

/-- FNV-1a, 64 bit -/
def fnv (bs : Bytes) : UInt64 :=
  bs.foldl (fun h x => (h ^^^ x.toUInt64) * 1099511628211) 14695981039346656037

/-- the driver's stand-in for `identity.StringStringMap`: additive over the `k=v` strings, so
enumeration order does not matter and `{a:"b=c"}` / `{"a=b":"c"}` collide as they do in Go -/
def hashFn (m : TagMap) : UInt64 :=
  if m.isEmpty then 0 else m.foldl (fun a kv => a + fnv (kv.1 ++ (61 :: kv.2)) * 31) 23

def internalNames : List Bytes :=
  [asc "tally.internal.batch-size", asc "tally.internal.num-batches", asc "tally.internal.num-metrics",
   asc "tally.internal.num-write-errors", asc "tally.internal.num-tag-cache"]

/-- the observed enumeration order of a (sorted) tag map, if some emitted metric shows it -/
def orderOf (orders : List (TagMap × TagMap)) (sorted : TagMap) : TagMap :=
  (orders.lookup sorted).getD sorted

structure Diff where
  items : List String := []

def Diff.add (d : Diff) (aspect detail : String) : Diff :=
  if d.items.any (fun s => s.startsWith (aspect ++ ":")) then d else { items := d.items ++ [aspect ++ ":" ++ detail] }

def splitBy : List Nat → List α → List (List α)
  | [], _ => []
  | n :: ns, l => l.take n :: splitBy ns (l.drop n)

def decodedOf (b : Begin) (st : St) : List (Option (Int × MetricBatch)) :=
  match st.dec with
  | some d => d
  | none => st.datagrams.reverse.map (Spec.C13.decodeOne b.proto)

def modelCheck (b : Begin) (st : St) (exact : Bool) : String := Id.run do
  let mut d : Diff := {}
  let datagrams := st.datagrams.reverse
  let decoded := decodedOf b st
  if decoded.any (·.isNone) then return "differ undecodable:datagram"
  let batchesObs : List MetricBatch := decoded.filterMap fun r => r.map (·.2)
  let emitted : List Metric := batchesObs.flatMap (·.metrics)
  if emitted.length != st.charges.length then return s!"bad-op charges-count {st.charges.length} {emitted.length}"
  -- common tags and overhead
  let ctObs : List MetricTag := match batchesObs with | bt :: _ => bt.commonTags.getD [] | [] => []
  let ctExp := Spec.C13.expectedCommon b.userCommon b.service b.env b.host
  let ct : List MetricTag := if (ctObs.map pairOf).isPerm ctExp then ctObs else fresh ctExp
  let emptyLen := (encBatch b.proto (emptyBatch ct)).length
  if b.overhead != ((overhead reservedEnvelope b.proto ct : Nat) : Int) then
    d := d.add "overhead" s!"model={overhead reservedEnvelope b.proto ct},observed={b.overhead}"
  if b.free != (b.maxPacket : Int) - b.overhead then
    d := d.add "free" s!"model={(b.maxPacket : Int) - b.overhead},observed={b.free}"
  -- charges
  let mut legacyBuckets := false
  for (m, c) in List.zip emitted st.charges do
    match modelCharge b m with
    | none => d := d.add "plain-charge" "unknown-metric-type"
    | some (exp, none) => if exp != c then d := d.add "plain-charge" s!"model={exp},observed={c},name={toHex m.name}"
    | some (exp, some leg) =>
      if exp != c then
        d := d.add "bucket-charge" s!"model={exp},observed={c},pinned-formula={leg},name={toHex m.name}"
        if leg == c then legacyBuckets := true
  -- emits
  let counts := batchesObs.map (·.metrics.length)
  let sums := (splitBy counts st.charges).map List.sum
  if !st.emits.isEmpty && sums != st.emits then
    d := d.add "emit-bytes" s!"model={showNats sums},observed={showNats st.emits}"
  if exact then
    let evs := st.evs.reverse
    -- the batching fold over what was observed
    let tbl := handleTable evs
    let flushPositions : List Nat := Id.run do
      -- number of emitted metrics that precede each flush marker: reports so far + 5 per flush
      let mut n := 0
      let mut out : Array Nat := #[]
      for e in evs do
        match e with
        | .flush _ => n := n + 5; out := out.push n
        | .alloc .. => pure ()
        | .alloch .. => pure ()
        | e => if (expectedOf b tbl 0 e).isSome then n := n + 1
      return out.toList
    let sized : List Sized := (List.zip emitted st.charges).map fun (m, c) => { m := m, size := c }
    let items : List Item := Id.run do
      let mut out : Array Item := #[]
      let mut pos := 0
      let mut fl := flushPositions
      for x in sized do
        out := out.push (Item.met x)
        pos := pos + 1
        while fl.head? == some pos do
          out := out.push Item.flush
          fl := fl.drop 1
      return out.toList
    let predicted := (batches b.free.toNat items).map List.length
    if predicted != counts then
      d := d.add "batches" s!"model={showNats predicted},observed={showNats counts},free={b.free}"
    -- the whole model run
    let a := Spec.M3.align (logsOf b evs) emitted
    let nLog := (evs.filter fun e => (evProducer e).isSome).length
    let stamp : Array (Option Int) := a.pairs.foldl (fun arr (e, m) => arr.setIfInBounds e.seqNo (some m.timestamp)) (Array.replicate nLog none)
    let orders : List (TagMap × TagMap) := a.pairs.filterMap fun (e, m) =>
      let got := (m.tags.getD []).map pairOf
      let got := if e.bucket.isSome then got.take (got.length - 2) else got
      if got.isPerm e.allocTags then some (e.allocTags, got) else none
    -- a colliding (uncached) map is enumerated anew at every allocation: prefer the handle's own order
    let ordersH : List (Nat × TagMap) := a.pairs.filterMap fun (e, m) =>
      let got := (m.tags.getD []).map pairOf
      let got := if e.bucket.isSome then got.take (got.length - 2) else got
      if got.isPerm e.allocTags then some (e.handle, got) else none
    let internals := emitted.filter Spec.M3.isInternal
    let internalOrder : TagMap := match internals.find? (fun m => m.name != (asc "tally.internal.batch-size")) with
      | some m => let got := (m.tags.getD []).map pairOf; if got.isPerm b.internalTags then got else b.internalTags
      | none => b.internalTags
    let envObs : Nat := (b.overhead - emptyLen).toNat
    let cfg : Config := { proto := b.proto, maxPacket := b.maxPacket, commonTags := ct, bucketIdName := b.idName,
                          bucketName := b.rangeName, prec := b.prec, internalTags := internalOrder, env := envObs }
    let ups := Buckets.valueUppers internalBuckets
    let mut ops : Array Op := #[]
    let mut sameStamp := true
    let mut ints := internals
    let mut seqNo := 0
    let mut shapeOk := true
    for e in evs do
      match e with
      | .alloc h k name tags => ops := ops.push (Op.allocMetric k name ((ordersH.lookup h).getD (orderOf orders tags)))
      | .alloch h name tags spec => ops := ops.push (Op.allocHist name ((ordersH.lookup h).getD (orderOf orders tags)) spec)
      | .report _ h v _ _ =>
        ops := (match stamp.getD seqNo none with | some t => ops.push (Op.tick t) | none => ops).push (Op.report h v)
        seqNo := seqNo + 1
      | .reportb _ h u n _ _ =>
        ops := (match stamp.getD seqNo none with | some t => ops.push (Op.tick t) | none => ops).push (Op.reportBucket h u n)
        seqNo := seqNo + 1
      | .flush _ =>
        match ints with
        | m0 :: m1 :: m2 :: m3 :: m4 :: rest =>
          ints := rest
          if [m0, m1, m2, m3, m4].map (·.name) != internalNames then shapeOk := false
          let idx := ((((m0.tags.getD []).find? fun t => t.name == b.idName).map (·.value)).bind fun id =>
                        (String.ofList (id.map fun x => Char.ofNat x.toNat)).toNat?).getD 0
          ops := (ops.push (Op.tick m0.timestamp)).push
            (Op.flush (ups.getD idx 0) m1.value.count m2.value.count m3.value.count m4.value.count)
          if m0.value.count != 1 then shapeOk := false
          -- each internal report reads the clock itself; the model's Flush reads it once
          if [m1, m2, m3, m4].any (fun m => m.timestamp != m0.timestamp) then sameStamp := false
        | _ => shapeOk := false
    if !shapeOk || !ints.isEmpty then
      d := d.add "internal-shape" s!"internal-metrics={internals.length}"
    else if sameStamp then
      let hist := (ops.push Op.close).toList
      let charge := if legacyBuckets then legacyChargeBucket else chargeBucket
      let s0 := init hashFn cfg b.tConstruct
      -- the pinned bucket charge, when that is what the implementation uses
      let s0 := if legacyBuckets then
          { s0 with handles := s0.handles.map fun
              | .hist isD bs => .hist isD (bs.map fun x => { x with size := charge cfg.proto x.tmpl x.idTag x.rangeTag })
              | hd => hd }
        else s0
      let stepL (s : State) (op : Op) : State :=
        let s' := opStep hashFn s op
        if legacyBuckets then
          match op with
          | .allocHist .. =>
            { s' with handles := s'.handles.map fun
                | .hist isD bs => .hist isD (bs.map fun x => { x with size := charge cfg.proto x.tmpl x.idTag x.rangeTag })
                | hd => hd }
          | _ => s'
        else s'
      let fin := hist.foldl stepL s0
      let predictedBytes := M3.datagrams fin
      if predictedBytes != datagrams then
        let firstBad := ((List.zip predictedBytes datagrams).findIdx? fun (x, y) => x != y).getD (min predictedBytes.length datagrams.length)
        d := d.add "bytes" s!"first-difference-at-datagram={firstBad},model-count={predictedBytes.length},observed-count={datagrams.length},model-batch-sizes={showNats (fin.bs.out.map List.length)},observed={showNats counts}"
  return if d.items.isEmpty then "ok" else "differ " ++ " ".intercalate d.items

/-! ## protocol -/

def step (st : St) (toks : List String) : St × String :=
  match toks with
  | ["begin", p, mx, fr, ov, t0, uc, svc, env, host, idn, rn, prec, it] =>
    let r : Option Begin := do
      pure { proto := (← parseProto p), maxPacket := (← parseNat mx), free := (← parseInt fr), overhead := (← parseInt ov),
             tConstruct := (← parseInt t0), userCommon := (← parseTagMap uc), service := (← ofHex svc), env := (← ofHex env),
             host := (← if host == "~" then some none else (ofHex host).map some),
             idName := (← ofHex idn), rangeName := (← ofHex rn), prec := (← parseNat prec), internalTags := (← parseTagMap it) }
    match r with
    | some b => ({ cfg := some b }, "ok")
    | none => (st, "bad-op parse-begin")
  | ["end"] => ({}, "ok")
  | _ =>
  match st.cfg with
  | none => (st, "bad-op no-session")
  | some b =>
  match toks with
  | ["alloc", h, k, name, tags] =>
    match parseNat h, parseKind k, ofHex name, parseTagMap tags with
    | some h, some k, some name, some tags => ({ st with evs := .alloc h k name tags :: st.evs, tbl := (h, .metric k name tags) :: st.tbl }, "ok")
    | _, _, _, _ => (st, "bad-op parse-alloc")
  | ["alloch", h, name, tags, spec] =>
    match parseNat h, ofHex name, parseTagMap tags, parseSpec spec with
    | some h, some name, some tags, some spec => ({ st with evs := .alloch h name tags spec :: st.evs, tbl := (h, .hist name tags spec) :: st.tbl }, "ok")
    | _, _, _, _ => (st, "bad-op parse-alloch")
  | ["report", prod, h, v, t0, t1] =>
    match parseNat prod, parseNat h, parseI64 t0, parseI64 t1 with
    | some prod, some h, some t0, some t1 =>
      match st.tbl.lookup h with
      | some (.metric k _ _) =>
        let val : Option Val := match k with
          | .counter => (parseI64 v).map .count
          | .gauge => (u64OfHex v).map .gauge
          | .timer => (parseI64 v).map .timer
        match val with
        | some val => ({ st with evs := .report prod h val t0 t1 :: st.evs }, "ok")
        | none => (st, "bad-op parse-value")
      | _ => (st, "bad-op unknown-handle")
    | _, _, _, _ => (st, "bad-op parse-report")
  | ["reportb", prod, h, u, n, t0, t1] =>
    match parseNat prod, parseNat h, parseI64 n, parseI64 t0, parseI64 t1 with
    | some prod, some h, some n, some t0, some t1 =>
      match st.tbl.lookup h with
      | some (.hist _ _ spec) =>
        let up : Option Bound := match spec with
          | .values _ => (u64OfHex u).map .v
          | .durations _ => (parseI64 u).map .d
        match up with
        | some up => ({ st with evs := .reportb prod h up n t0 t1 :: st.evs }, "ok")
        | none => (st, "bad-op parse-bound")
      | _ => (st, "bad-op unknown-handle")
    | _, _, _, _, _ => (st, "bad-op parse-reportb")
  | ["flush", prod] =>
    match parseNat prod with
    | some prod => ({ st with evs := .flush prod :: st.evs }, "ok")
    | none => (st, "bad-op parse-flush")
  | ["datagram", hex] =>
    match ofHex hex with
    | some bytes => ({ st with datagrams := bytes :: st.datagrams, dec := none }, "ok")
    | none => (st, "bad-op parse-datagram")
  | ["charges", l] =>
    match natList l with
    | some cs => ({ st with charges := cs }, "ok")
    | none => (st, "bad-op parse-charges")
  | ["emits", l] =>
    match natList l with
    | some cs => ({ st with emits := cs }, "ok")
    | none => (st, "bad-op parse-emits")
  | ["c12?"] =>
    let st := { st with dec := some (decodedOf b st) }
    let dec := decodedOf b st
    let o := obs12 b st
    let dec12 := List.zip o.datagrams dec
    if dec.any (·.isNone) then (st, "violated decodes:datagram")
    else if !Spec.C12.chargesAlignedOn o dec12 then (st, s!"bad-op charges-count {o.charges.length}")
    else
      let a := Spec.M3.align (logsOf b st.evs.reverse) (dec.flatMap Spec.C13.metricsOf)
      (st, showVerdicts (Spec.M3.deliveryVerdicts a (Spec.C12.verdictsOn o dec12)))
  | ["c13?"] =>
    let st := { st with dec := some (decodedOf b st) }
    (st, showVerdicts (Spec.C13.verdictsOn (obs13 b st) (decodedOf b st)))
  | ["model?", mode] =>
    let st := { st with dec := some (decodedOf b st) }
    if mode == "exact" then (st, modelCheck b st true)
    else if mode == "multi" then (st, modelCheck b st false)
    else (st, "bad-op mode")
  | _ => (st, "bad-op shape")

def suite : Suite := { σ := St, init := {}, step := step }

end Tally.Drv.M3
