import Tally.Drv.Common
import Tally.Model.Scope
import Tally.Model.ScopeCard
import Tally.Spec.C04
import Tally.Spec.C10
/-!
Driver for the sequential scope suites (C04, C05, C10, C11 and the sequential part of C07/C08).
See the module doc of `Tally.Model.Scope`; line formats are documented in harness/suite_scope.go.
-/
namespace Tally.Drv.Scope
open Tally Tally.Scope Tally.KeyGen Tally.Sanitize Tally.ScopeCard

def parseKV (s : String) : Option (Bytes × Bytes) :=
  match s.splitOn ":" with
  | [a, b] => do pure ((← ofHex a), (← ofHex b))
  | _ => none

def parseMap (s : String) : Option TagMap :=
  if s == "-" then some [] else (s.splitOn ",").mapM parseKV

def showMap (m : TagMap) : String :=
  if m.isEmpty then "-" else ",".intercalate (m.map fun (k, v) => toHex k ++ ":" ++ toHex v)

def parseRange (s : String) : Option (Int × Int) :=
  match s.splitOn ":" with
  | [a, b] => do pure ((← parseInt a), (← parseInt b))
  | _ => none

def parseVC (rs cs : String) : Option ValidChars := do
  pure { ranges := (← parseList parseRange rs), chars := (← parseList parseInt cs) }

def parseSan (s : String) : Option (Option SanCfg) :=
  if s == "-" then some none else
  match s.splitOn "/" with
  | [a, b, c, d, e, f, r] => do
    pure (some { name := (← parseVC a b), key := (← parseVC c d), value := (← parseVC e f), rep := (← parseInt r) })
  | _ => none

def parseSpec (s : String) : Option (Option (Bool × List Int × List F64)) :=
  if s == "nil" || s == "-" then some none
  else if s.startsWith "d" then (intList (s.drop 1).toString).map fun l => some (true, l, [])
  else if s.startsWith "v" then (f64List (s.drop 1).toString).map fun l => some (false, [], l)
  else none

def showEvent : Event → String
  | .counter n t v => s!"c|{toHex n}|{showMap t}|{v}"
  | .gauge n t v => s!"g|{toHex n}|{showMap t}|{u64ToHex v}"
  | .timer n t v => s!"t|{toHex n}|{showMap t}|{v}"
  | .hval n t lo hi c => s!"hv|{toHex n}|{showMap t}|{u64ToHex lo}|{u64ToHex hi}|{c}"
  | .hdur n t lo hi c => s!"hd|{toHex n}|{showMap t}|{lo}|{hi}|{c}"
  | .alloc k n t => s!"a{k}|{toHex n}|{showMap t}"
  | .flush => "flush"
  | .close => "close"

def strLe (a b : String) : Bool := !(b < a)
def showEvents (es : List Event) : String :=
  showList id ((es.map showEvent).mergeSort strLe)

def showSnap : SnapEntry → String
  | .counter k n t v => s!"c|{toHex k}|{toHex n}|{showMap t}|{v}"
  | .gauge k n t v => s!"g|{toHex k}|{toHex n}|{showMap t}|{u64ToHex v}"
  | .timer k n t vs => s!"t|{toHex k}|{toHex n}|{showMap t}|{",".intercalate (vs.map toString)}"
  | .histV k n t m => s!"hv|{toHex k}|{toHex n}|{showMap t}|{",".intercalate ((m.map fun (b, c) => s!"{u64ToHex b}={c}").mergeSort strLe)}"
  | .histD k n t m => s!"hd|{toHex k}|{toHex n}|{showMap t}|{",".intercalate ((m.map fun (b, c) => s!"{b}={c}").mergeSort strLe)}"

structure DState where
  st : Option St
  -- oracle bookkeeping, from the observed ids: scope id ↦ (full prefix, tags) by derivation
  derivs : List (Nat × (Bytes × TagMap × Bool))   -- (prefix, tags, clean = no input on the path was changed by the sanitizer)
  closedIds : List Nat
  metricIds : List (Nat × (Bytes × TagMap))   -- metric id ↦ (full name, tags) by derivation
  rootSep : Bytes
  card : Option TagMap := none   -- tags of the library's own cardinality gauges; none = omitted

def init : DState := { st := none, derivs := [], closedIds := [], metricIds := [], rootSep := [] }

/-- the C04 oracle on a list of observed event tokens: name|tags of every metric event must be one a
known metric is entitled to by its derivation -/
def eventsEntitled (d : DState) (obs : String) : Bool :=
  if obs == "-" then true else
  (obs.splitOn ";").all fun e =>
    match e.splitOn "|" with
    | kind :: n :: t :: _ =>
      if kind.startsWith "a" then true else
      match ofHex n, parseMap t with
      | some n, some t => d.metricIds.any fun (_, (n', t')) => n' == n && Spec.C04.sameTags t t'
      | _, _ => false
    | _ => true

def scopeReply (d : DState) (st' : St) (out : Out) (obsId obsEvents : String)
    (newDeriv : Option (Bytes × TagMap × Bool)) : DState × String :=
  match out with
  | .scope id evs =>
    let expId := match id with | some i => toString i | none => "noop"
    let exp := s!"{expId} {showEvents evs}"
    let got := s!"{obsId} {obsEvents}"
    -- C05 oracle on the observed id
    let (d', viol) : DState × Option String :=
      match obsId.toNat?, newDeriv with
      | some oid, some nd =>
        match d.derivs.lookup oid with
        | some old =>
          if old.1 == nd.1 && Spec.C04.sameTags old.2.1 nd.2.1 then (d, none)
          else (d, some "different-identities-share-a-scope")
        | none =>
          -- a new object: no other live scope may already have this identity
          if nd.2.2 && d.derivs.any fun (i, od) => !d.closedIds.contains i && od.2.2 && od.1 == nd.1 && Spec.C04.sameTags od.2.1 nd.2.1
          then ({ d with derivs := (oid, nd) :: d.derivs }, some "same-identity-different-scope")
          else ({ d with derivs := (oid, nd) :: d.derivs }, none)
      | _, _ => (d, none)
    let d'' := { d' with st := some st' }
    -- C07 oracle: a scope whose Close was called is never handed out again (test scopes excepted)
    let viol := match viol, obsId.toNat? with
      | none, some oid => if oid != 0 && d.closedIds.contains oid && st'.cfg.kind != RKind.none then some "closed-scope-handed-out" else none
      | v, _ => v
    match viol with
    | some c => (d'', s!"violated {c} model={exp}")
    | none =>
      if !eventsEntitled d'' obsEvents then (d'', s!"violated name-tags-follow-derivation model={exp}")
      else if exp == got then (d'', "ok") else (d'', s!"differ {exp}")
  | _ => (d, "bad-op model-out")

def handle (d : DState) (toks : List String) : DState × String :=
  let (req, obs) := splitObserved toks
  match req, obs with
  | "root" :: kind :: closable :: shards :: san :: pfx :: sep :: tags :: defb :: more, oallocs =>
    -- optional tenth field: `omit` or the CardinalityMetricsTags map (then the allocations made by the
    -- registry's constructor are observed: one token after `=>`)
    let cardTok := more.headD "omit"
    if more.length > 1 || (more.isEmpty && !oallocs.isEmpty) || (!more.isEmpty && oallocs.length != 1) then (d, "bad-op shape") else
    match parseSan san, ofHex pfx, ofHex sep, parseMap tags, shards.toNat?, parseSpec defb,
        (if cardTok == "omit" then some none else (parseMap cardTok).map some) with
    | some san, some pfx, some sep, some tags, some shards, some defb, some cardUser =>
      let k := if kind == "plain" then RKind.plain else if kind == "cached" then .cached else .none
      let cfg : Cfg := { san := san, kind := k, closable := closable == "1", shards := shards, defaultBuckets := defb }
      let st := mkRoot cfg pfx sep tags
      let rootS := st.scopes.headD { pfx := [], tags := [], closed := false, isRoot := true, metrics := [] }
      let card := cardUser.map (cardTags cfg)
      let internal : List (Nat × (Bytes × TagMap)) := match card with
        | none => []
        | some t => [counterCardinalityName, gaugeCardinalityName, histogramCardinalityName, scopeCardinalityName].mapIdx
            fun i n => (1000000 + i, (sanName cfg n, t))
      let d' : DState := { st := some st, derivs := [(0, (rootS.pfx, rootS.tags, true))], closedIds := [],
                           metricIds := internal, rootSep := st.sep, card := card }
      match oallocs with
      | [] => (d', "ok")
      | o :: _ =>
        let exp := showEvents (rootAllocs card cfg)
        if exp == o then (d', "ok") else (d', s!"differ {exp}")
    | _, _, _, _, _, _, _ => (d, "bad-op parse")
  | ["exec", errIn, elapsed], [fCalls, errOut, lats, succ, er] =>
    let pe (x : String) : Option (Option Nat) := if x == "nil" then some none else x.toNat?.map some
    match pe errIn, parseInt elapsed, fCalls.toNat?, pe errOut, intList lats, parseInt succ, parseInt er with
    | some ei, some el, some fc, some eo, some lats, some sd, some ed =>
      match Spec.C10.execHolds fc ei eo lats el sd ed with
      | some c => (d, s!"violated {c}")
      | none => (d, "ok")
    | _, _, _, _, _, _, _ => (d, "bad-op parse")
  | ["stopwatch", a, b], [rec] =>
    match parseInt a, parseInt b, intList rec with
    | some a, some b, some rec =>
      match Spec.C10.stopwatchHolds a b rec with
      | some c => (d, s!"violated {c}")
      | none => (d, "ok")
    | _, _, _ => (d, "bad-op parse")
  | ["key", pfx, maps], [okey] =>
    match ofHex pfx, (if maps == "-" then some [] else (maps.splitOn "/").mapM parseMap), ofHex okey with
    | some pfx, some maps, some okey =>
      let exp := key pfx maps
      if exp == okey then (d, "ok") else (d, s!"differ {toHex exp}")
    | _, _, _ => (d, "bad-op parse")
  | _, _ =>
  match d.st with
  | none => (d, "bad-op no-root")
  | some st =>
    match req, obs with
    | ["sub", p, name, sh], [oid, oevs] =>
      match p.toNat?, ofHex name, sh.toNat? with
      | some p, some name, some sh =>
        let (st', out) := step st (.sub p name sh)
        let nd := (d.derivs.lookup p).map fun (pp, pt, cl) =>
          (Spec.C04.join d.rootSep pp (sanName st.cfg name), pt, cl && sanName st.cfg name == name)
        scopeReply d st' out oid oevs nd
      | _, _, _ => (d, "bad-op parse")
    | ["tag", p, m, sh], [oid, oevs] =>
      match p.toNat?, parseMap m, sh.toNat? with
      | some p, some m, some sh =>
        let (st', out) := step st (.tagged p m sh)
        let ms := m.map fun (k, v) => (sanKey st.cfg k, sanValue st.cfg v)
        let nd := (d.derivs.lookup p).map fun (pp, pt, cl) => (pp, Spec.C04.overlay pt ms, cl && ms == m)
        scopeReply d st' out oid oevs nd
      | _, _, _ => (d, "bad-op parse")
    | [kind, s, name], [omid, oevs] =>
      if kind != "counter" && kind != "gauge" && kind != "timer" then (d, "bad-op shape") else
      match s.toNat?, ofHex name with
      | some s, some name =>
        let op := if kind == "counter" then Op.counter s name else if kind == "gauge" then .gauge s name else .timer s name
        let (st', out) := step st op
        match out with
        | .metric id evs =>
          let exp := s!"{id} {showEvents evs}"
          let mi := (d.derivs.lookup s).map fun (pp, pt, _) => (Spec.C04.join d.rootSep pp (sanName st.cfg name), pt)
          let d' := { d with st := some st', metricIds := match omid.toNat?, mi with
            | some oid, some x => (oid, x) :: d.metricIds | _, _ => d.metricIds }
          if !eventsEntitled d' oevs then (d', s!"violated name-tags-follow-derivation model={exp}")
          else if exp == s!"{omid} {oevs}" then (d', "ok") else (d', s!"differ {exp}")
        | _ => (d, "differ model-has-no-such-scope")
      | _, _ => (d, "bad-op parse")
    | ["hist", s, name, spec], [omid, oevs] =>
      match s.toNat?, ofHex name, parseSpec spec with
      | some s, some name, some spec =>
        let (st', out) := step st (.hist s name spec)
        match out with
        | .metric id evs =>
          let exp := s!"{id} {showEvents evs}"
          let mi := (d.derivs.lookup s).map fun (pp, pt, _) => (Spec.C04.join d.rootSep pp (sanName st.cfg name), pt)
          let d' := { d with st := some st', metricIds := match omid.toNat?, mi with
            | some oid, some x => (oid, x) :: d.metricIds | _, _ => d.metricIds }
          if exp == s!"{omid} {oevs}" then (d', "ok") else (d', s!"differ {exp}")
        | _ => (d, "differ model-has-no-such-scope")
      | _, _, _ => (d, "bad-op parse")
    | [op, m, v], [oevs] =>
      match m.toNat? with
      | none => (d, "bad-op parse")
      | some m =>
        let mop : Option Op :=
          if op == "inc" then (parseInt v).map (Op.inc m)
          else if op == "upd" then (u64OfHex v).map (Op.upd m)
          else if op == "rec" then (parseInt v).map (Op.record m)
          else if op == "recv" then (u64OfHex v).map (Op.recv m)
          else if op == "recd" then (parseInt v).map (Op.recd m)
          else none
        match mop with
        | none => (d, "bad-op shape")
        | some mop =>
          let (st', out) := step st mop
          match out with
          | .events evs =>
            let d' := { d with st := some st' }
            if !eventsEntitled d' oevs then (d', s!"violated name-tags-follow-derivation model={showEvents evs}")
            else if showEvents evs == oevs then (d', "ok") else (d', s!"differ {showEvents evs}")
          | _ => (d, "bad-op model-out")
    | ["report"], [oevs] =>
      let (st', out) := stepC d.card st .report
      match out with
      | .events evs =>
        let d' := { d with st := some st' }
        if !eventsEntitled d' oevs then (d', s!"violated name-tags-follow-derivation model={showEvents evs}")
        else if showEvents evs == oevs then (d', "ok") else (d', s!"differ {showEvents evs}")
      | _ => (d, "bad-op model-out")
    | ["close", s], [oevs] =>
      match s.toNat? with
      | none => (d, "bad-op parse")
      | some s =>
        let (st', out) := stepC d.card st (.close s)
        match out with
        | .events evs =>
          let d' := { d with st := some st', closedIds := if s == 0 then (d.derivs.map (·.1)) else s :: d.closedIds }
          if !eventsEntitled d' oevs then (d', s!"violated name-tags-follow-derivation model={showEvents evs}")
          else if showEvents evs == oevs then (d', "ok") else (d', s!"differ {showEvents evs}")
        | _ => (d, "bad-op model-out")
    | ["snap"], [osnap] =>
      -- the Go snapshot is a map keyed by kind+id: two scope objects with one identity (possible only
      -- through sanitizer-changed inputs hashing to different shards) collapse to one entry, chosen by
      -- map iteration order.  So: every observed entry is a model entry, and every model (kind, key) is
      -- represented exactly once.
      let model := (snapshot st).map showSnap
      -- value and duration histograms live in ONE Go map (`snap.histograms`), so they share a key space
      let kk (e : String) : String :=
        match e.splitOn "|" with
        | k :: key :: _ => (if k == "hd" || k == "hv" then "h" else k) ++ "|" ++ key
        | _ => e
      let obsL := if osnap == "-" then [] else osnap.splitOn ";"
      let okSubset := obsL.all fun e => model.contains e
      let okCover := (model.map kk).eraseDups.all fun k => (obsL.filter fun e => kk e == k).length == 1
      if okSubset && okCover && (obsL.map kk).eraseDups.length == obsL.length then (d, "ok")
      else (d, s!"differ {showList id (model.mergeSort strLe)}")
    | _, _ => (d, "bad-op shape")

def suite : Suite := { σ := DState, init := init, step := handle }
end Tally.Drv.Scope
