import Tally.Drv.Common
import Tally.Model.Prom
import Tally.Spec.C17
/-!
Driver for C17 (stateful: one reporter + scope per `begin`).  Lines:

  `begin <s|h> <ret|panic> <default bounds f64s>`                      → ok
  `use <kind…> <name hex> <tags k:v,…> => <outcome> <callbacks> <error classes>`
        kind: `c` | `g` | `t` | `ts` | `th` | `hv <bounds f64s>` | `hd <ns:secsbits;…> <maxsecs bits>`
              | `rc` | `rg` (`RegisterCounter` / `RegisterGauge`, then `With(tags)` by the caller)
              | `rcd <desc hex>` | `rgd <desc hex>` (the same with the caller's own help text; `-` = empty)
        outcome: `usable` | `noop` | `cbpanic` | `regerr` | `nilvec` | `nilpanic` | `panic`
        error classes: `prev` | `already` | `other`, `;`-separated, `-` for none
  `op <id> inc <n>` | `op <id> upd <bits>` | `op <id> rec <secs bits>` | `op <id> sv <bits>` | `op <id> sd <ns>`  `=> ok|panic`
  `pass => ok|panic`
  `gather => <entry;entry;…>`   entry: `name|c/g/s/h|help|labels|value`;
        value: counter/gauge float bits, summary count, histogram `count/ub:cum/ub:cum…`

Inputs outside the stated domain (invalid names, unsorted tags, empty / non-increasing / non-finite
bucket specs, a recording call of the wrong kind) are answered `bad-op domain …`, never defaulted.
-/
namespace Tally.Drv.C17
open Tally Tally.Prom

structure St where
  started : Bool := false
  cfg : Cfg := {}
  w : World := {}
  hist : List Spec.C17.Rec := []

/-! ### float bits ↔ exact naturals (counters) -/

def f64ToNat? (b : F64) : Option Nat :=
  let n := b.toNat
  if n ≥ 2^63 then (if n == 2^63 then some 0 else none) else
  let e := n / 2^52
  let m := n % 2^52
  if e == 0 then (if m == 0 then some 0 else none)
  else if e == 2047 then none
  else
    let mant := m + 2^52
    if e ≥ 1075 then some (mant * 2^(e - 1075))
    else
      let sh := 1075 - e
      if mant % 2^sh == 0 then some (mant / 2^sh) else none

def natToF64 (n : Nat) : F64 :=
  if n == 0 then 0 else
  let e := Nat.log2 n
  if e ≤ 52 then UInt64.ofNat (((e + 1023) * 2^52) + (n * 2^(52 - e) - 2^52))
  else UInt64.ofNat (((e + 1023) * 2^52) + (n / 2^(e - 52) - 2^52))

/-! ### parsing -/

def parsePair (s : String) : Option (Bytes × Bytes) :=
  match s.splitOn ":" with
  | [a, b] => do pure ((← ofHex a), (← ofHex b))
  | _ => none

def parseTags (s : String) : Option Tags :=
  if s == "-" then some [] else (s.splitOn ",").mapM parsePair

def parseDurBound (s : String) : Option (Int × F64) :=
  match s.splitOn ":" with
  | [a, b] => do pure ((← parseInt a), (← u64OfHex b))
  | _ => none

def isAlpha (b : UInt8) : Bool := (65 ≤ b && b ≤ 90) || (97 ≤ b && b ≤ 122) || b == 95
def isDigit (b : UInt8) : Bool := 48 ≤ b && b ≤ 57

def validMetricName : Bytes → Bool
  | [] => false
  | a :: t => (isAlpha a || a == 58) && t.all fun b => isAlpha b || isDigit b || b == 58

def validLabelName : Bytes → Bool
  | [] => false
  | a :: t => isAlpha a && (t.all fun b => isAlpha b || isDigit b) && !(a == 95 && t.head? == some 95)

def strictlySortedKeys : Tags → Bool
  | [] => true
  | [_] => true
  | (a, _) :: (b, v) :: t => bytesLe a b && a != b && strictlySortedKeys ((b, v) :: t)

def strictlyIncF : List F64 → Bool
  | [] => true
  | [_] => true
  | a :: b :: t => F64.lt a b && strictlyIncF (b :: t)

def strictlyIncI : List Int → Bool
  | [] => true
  | [_] => true
  | a :: b :: t => decide (a < b) && strictlyIncI (b :: t)

def leLabel : Bytes := [108, 101]
def quantileLabel : Bytes := [113, 117, 97, 110, 116, 105, 108, 101]

def specOk : HSpec → Bool
  | .values s => !s.isEmpty && s.all F64.isFinite && strictlyIncF (s ++ [F64.maxFloat])
  | .durations s m =>
    !s.isEmpty && strictlyIncI (s.map (·.1) ++ [maxInt64]) && (s.all fun p => F64.isFinite p.2)
      && F64.isFinite m && strictlyIncF (s.map (·.2) ++ [m]) && s.all fun p => inInt64 p.1

def useDomainOk (histTimers : Bool) (kind : UseKind) (name : Bytes) (tags : Tags) : Bool :=
  let ty := Spec.C17.typeOf histTimers kind
  validMetricName name && strictlySortedKeys tags && (tags.all fun p => validLabelName p.1)
    && (ty != .histogram || !(keysOf tags).contains leLabel)
    && (ty != .summary || !(keysOf tags).contains quantileLabel)
    && (match kind with | .histogram spec => specOk spec | _ => true)

def parseOutcome : String → Option Spec.C17.ObsOutcome
  | "usable" => some .usable
  | "noop" => some .noop
  | "cbpanic" => some .callbackPanic
  | "regerr" => some .regError
  | "nilvec" => some .nilDeref
  | "nilpanic" => some .nilDeref
  | "panic" => some .otherPanic
  | _ => none



def showObs : Spec.C17.ObsOutcome → String
  | .usable => "usable"
  | .noop => "noop"
  | .callbackPanic => "cbpanic"
  | .regError => "regerr"
  | .nilDeref => "nil-dereference"
  | .otherPanic => "panic"

def errClass : RegErr → String
  | .already => "already"
  | .inconsistent => "prev"
  | .flavour => "other"

/-- the error classes the call produced: what went to the callback, or what came back -/
def errsOf (before after : Reporter) (o : Outcome) : List String :=
  match o with
  | .regError e => [errClass e]
  | _ => (after.errors.drop before.errors.length).map errClass

def parseGVal (ty v : String) : Option GVal :=
  match ty with
  | "c" => do
    let b ← u64OfHex v
    match f64ToNat? b with
    | some n => pure (.counter n)
    | none => none
  | "g" => do pure (.gauge (← u64OfHex v))
  | "s" => do pure (.summary (← parseNat v))
  | "h" =>
    match v.splitOn "/" with
    | c :: bs => do
      let c ← parseNat c
      let bs ← bs.mapM fun s =>
        match s.splitOn ":" with
        | [u, n] => do pure ((← u64OfHex u), (← parseNat n))
        | _ => none
      pure (.histogram bs c)
    | [] => none
  | _ => none

def parseEntry (s : String) : Option GEntry :=
  match s.splitOn "|" with
  | [name, ty, help, labels, v] => do
    let name ← ofHex name
    let help ← ofHex help
    let labels ← parseTags labels
    let v ← parseGVal ty v
    pure { key := ⟨name, labels⟩, help := help, val := v }
  | _ => none

def showTags (t : Tags) : String :=
  if t.isEmpty then "-" else ",".intercalate (t.map fun (k, v) => toHex k ++ ":" ++ toHex v)

def showGVal : GVal → String
  | .counter n => "c|" ++ u64ToHex (natToF64 n)
  | .gauge b => "g|" ++ u64ToHex b
  | .summary c => "s|" ++ toString c
  | .histogram bs c => "h|" ++ "/".intercalate (toString c :: bs.map fun (u, n) => u64ToHex u ++ ":" ++ toString n)

def showEntry (e : GEntry) : String :=
  match (showGVal e.val).splitOn "|" with
  | [ty, v] => s!"{toHex e.key.name}|{ty}|{toHex e.help}|{showTags e.key.labels}|{v}"
  | _ => "?"

def showEntries (l : List GEntry) : String := showList showEntry l

def sortEntries (l : List GEntry) : List GEntry := l.mergeSort (fun a b => keyLe a.key b.key)

/-! ### request handlers -/

def parseKind : List String → Option (UseKind × List String)
  | "c" :: r => some (.counter, r)
  | "g" :: r => some (.gauge, r)
  | "t" :: r => some (.timer, r)
  | "ts" :: r => some (.timerAs false, r)
  | "th" :: r => some (.timerAs true, r)
  | "rc" :: r => some (.counterAs, r)
  | "rg" :: r => some (.gaugeAs, r)
  | "rcd" :: desc :: r => do pure (.counterAsD (← ofHex desc), r)
  | "rgd" :: desc :: r => do pure (.gaugeAsD (← ofHex desc), r)
  | "hv" :: spec :: r => do pure (.histogram (.values (← f64List spec)), r)
  | "hd" :: spec :: m :: r => do
    let s ← parseList parseDurBound spec
    let m ← u64OfHex m
    pure (.histogram (.durations s m), r)
  | _ => none

def handleUse (st : St) (kind : UseKind) (name : Bytes) (tags : Tags)
    (o : Spec.C17.ObsOutcome) (cb : Nat) (errs : String) : St × String :=
  if !useDomainOk st.cfg.histTimers kind name tags then (st, "bad-op domain") else
  let before := st.w.rep
  let w' := step st.cfg st.w (.use kind name tags)
  match w'.trace.getLast? with
  | none => (st, "bad-op internal")
  | some t =>
    let mo := Spec.C17.obsOf t.outcome
    let exp := s!"{showObs mo} {t.callbacks} {showList id (errsOf before w'.rep t.outcome)}"
    let got := s!"{showObs o} {cb} {errs}"
    let st' := { st with w := w', hist := st.hist ++ [.use { kind, name, tags, outcome := o, callbacks := cb }] }
    if !Spec.C17.firstUseOk st.cfg.cbPanics kind o cb then
      let clause := if o == .nilDeref || o == .otherPanic || o == .callbackPanic then "no-panic" else "callback"
      (st', s!"violated {clause} observed={showObs o} model={exp}")
    else if exp == got then (st', "ok")
    else (st', s!"differ {exp}")

def kindMatches (m : Metric) (e : LEv) : Bool :=
  match m, e with
  | .counter _ _, .inc _ => true
  | .gauge _ _ _, .update _ => true
  | .timer _, .record _ => true
  | .rawCounter _, .inc _ => true
  | .rawGauge _, .update _ => true
  | .histogram _ spec _, .sample s => Spec.C17.sampleFits spec s
  | _, _ => false

def handleOp (st : St) (i : Nat) (e : LEv) (res : String) : St × String :=
  match st.w.metrics[i]? with
  | none => (st, "bad-op no-such-metric")
  | some m =>
    if !kindMatches m e then (st, "bad-op domain wrong-kind") else
    match res with
    | "ok" =>
      ({ st with w := step st.cfg st.w (.op i e), hist := st.hist ++ [.op i e false] }, "ok")
    | "panic" =>
      ({ st with w := step st.cfg st.w (.op i e), hist := st.hist ++ [.op i e true] }, "violated no-panic recording")
    | _ => (st, "bad-op parse")

def handleGather (st : St) (obs : String) : St × String :=
  match st.hist.getLast? with
  | some (.pass _) =>
    match parseList parseEntry obs with
    | none => (st, "bad-op parse")
    | some entries =>
      let exp := gather st.w.rep
      match Spec.C17.gatherOk st.cfg.histTimers st.hist entries with
      | some clause => (st, s!"violated {clause} model={showEntries exp}")
      | none =>
        if sortEntries entries == exp then (st, "ok") else (st, s!"differ {showEntries exp}")
  | _ => (st, "bad-op gather-without-pass")

def handle (st : St) (toks : List String) : St × String :=
  let (req, obs) := splitObserved toks
  match req, obs with
  | ["begin", tt, cb, bounds], [] =>
    match f64List bounds with
    | some bs =>
      if (tt != "s" && tt != "h") || (cb != "ret" && cb != "panic") then (st, "bad-op parse")
      else if !(bs.all F64.isFinite && strictlyIncF bs && !bs.isEmpty) then (st, "bad-op domain")
      else
        ({ started := true, cfg := { variant := .repaired, histTimers := tt == "h", cbPanics := cb == "panic", defaultBounds := bs },
           w := {}, hist := [] }, "ok")
    | none => (st, "bad-op parse")
  | "use" :: rest, [o, cb, errs] =>
    if !st.started then (st, "bad-op not-begun") else
    match parseKind rest with
    | some (kind, [name, tags]) =>
      match ofHex name, parseTags tags, parseOutcome o, parseNat cb with
      | some name, some tags, some o, some cb => handleUse st kind name tags o cb errs
      | _, _, _, _ => (st, "bad-op parse")
    | _ => (st, "bad-op parse")
  | ["op", i, "inc", n], [res] =>
    match parseNat i, parseNat n with
    | some i, some n => handleOp st i (.inc n) res
    | _, _ => (st, "bad-op parse")
  | ["op", i, "upd", b], [res] =>
    match parseNat i, u64OfHex b with
    | some i, some b => handleOp st i (.update b) res
    | _, _ => (st, "bad-op parse")
  | ["op", i, "rec", b], [res] =>
    match parseNat i, u64OfHex b with
    | some i, some b => handleOp st i (.record b) res
    | _, _ => (st, "bad-op parse")
  | ["op", i, "sv", b], [res] =>
    match parseNat i, u64OfHex b with
    | some i, some b => handleOp st i (.sample (.value b)) res
    | _, _ => (st, "bad-op parse")
  | ["op", i, "sd", d], [res] =>
    match parseNat i, parseInt d with
    | some i, some d => if inInt64 d then handleOp st i (.sample (.duration d)) res else (st, "bad-op domain")
    | _, _ => (st, "bad-op parse")
  | ["pass"], [res] =>
    if !st.started then (st, "bad-op not-begun") else
    match res with
    | "ok" => ({ st with w := step st.cfg st.w .pass, hist := st.hist ++ [.pass false] }, "ok")
    | "panic" => ({ st with w := step st.cfg st.w .pass, hist := st.hist ++ [.pass true] }, "violated no-panic report-pass")
    | _ => (st, "bad-op parse")
  | ["gather"], [obs] => if !st.started then (st, "bad-op not-begun") else handleGather st obs
  | _, _ => (st, "bad-op shape")

def suite : Suite := { σ := St, init := {}, step := handle }

end Tally.Drv.C17
