import Tally.Drv.Common
import Tally.Model.Counter
import Tally.Spec.C01
/-!
Driver for C01 (stateful, lock-step with the cooperative scheduler).  One model instance per cell
(a counter, or one histogram bucket).  Lines:
  `begin <ncells>`
  `inc <cell> <v>`
  `step <thread> <cell> <label-reached> [<delivered>]` — thread `t` was resumed while parked at the
      yield point before its next atomic action on `cell` and has now reached `label-reached`
      (`counter.value:0` = about to swap, `counter.deliver` = swap returned non-zero, about to call the
      reporter, `visit-end` = left this cell).  The model must allow exactly that.
  `holds? <cell> <incs> <delivered> <idleDelivered>` — oracle on the observed trace of a cell
  `end`
-/
namespace Tally.Drv.C01
open Tally Tally.Counter

/-- where the model thinks a thread is, per cell -/
inductive Pc | idle | atSwap | atDeliver
deriving DecidableEq, Repr

structure DState where
  cells : List Counter.State
  pcs : List ((Nat × Nat) × Pc)     -- (thread, cell) ↦ pc
  steps : Nat

def pcOf (d : DState) (t c : Nat) : Pc := (d.pcs.lookup (t, c)).getD .idle
def setPc (d : DState) (t c : Nat) (p : Pc) : DState :=
  { d with pcs := ((t, c), p) :: d.pcs.filter (fun q => q.1 != (t, c)) }

def init : DState := { cells := [], pcs := [], steps := 0 }

def handle (d : DState) (toks : List String) : DState × String :=
  match toks with
  | ["begin", n] =>
    match n.toNat? with
    | some n => ({ cells := List.replicate n Counter.init, pcs := [], steps := 0 }, "ok")
    | none => (d, "bad-op parse")
  | ["inc", c, v] =>
    match c.toNat?, parseInt v with
    | some c, some v =>
      match d.cells[c]? with
      | some st => match step st (.inc v) with
        | some st' => ({ d with cells := d.cells.set c st', steps := d.steps + 1 }, "ok")
        | none => (d, "reject inc-not-enabled")
      | none => (d, "bad-op cell")
    | _, _ => (d, "bad-op parse")
  | "step" :: t :: c :: label :: rest =>
    match t.toNat?, c.toNat? with
    | some t, some c =>
      match d.cells[c]? with
      | none => (d, "bad-op cell")
      | some st =>
        match pcOf d t c with
        | .idle =>
          -- the thread arrives at the swap of this cell
          if label == "counter.value:0" then (setPc d t c .atSwap, "ok")
          else (d, s!"reject expected=counter.value:0 got={label}")
        | .atSwap =>
          -- resuming executes the swap
          match step st (.swap t) with
          | none => (d, "reject swap-not-enabled")
          | some st' =>
            let d' := { d with cells := d.cells.set c st', steps := d.steps + 1 }
            let expect := if (pendingOf st' t).isSome then "counter.deliver" else "visit-end"
            if label == expect then
              (setPc d' t c (if expect == "counter.deliver" then .atDeliver else .idle), "ok")
            else (d', s!"reject expected={expect} got={label}")
        | .atDeliver =>
          match pendingOf st t, step st (.deliver t) with
          | some dv, some st' =>
            let d' := setPc { d with cells := d.cells.set c st', steps := d.steps + 1 } t c .idle
            if label != "visit-end" then (d', s!"reject expected=visit-end got={label}")
            else match rest with
              | [obs] => if parseInt obs == some dv then (d', "ok") else (d', s!"differ delivered={dv}")
              | _ => (d', "bad-op missing-delivered")
          | _, _ => (d, "reject deliver-not-enabled")
    | _, _ => (d, "bad-op parse")
  | ["holds?", c, incs, dels, idle] =>
    match c.toNat?, intList incs, intList dels, intList idle with
    | some c, some incs, some dels, some idle =>
      match Spec.C01.holds incs dels idle with
      | some clause => (d, s!"violated {clause}")
      | none =>
        -- the model's own books for this cell must agree with what was observed
        match d.cells[c]? with
        | some st =>
          if st.pending.isEmpty && wrap64 (Counter.sum st.delivered) == wrap64 (Counter.sum dels) then (d, "ok")
          else (d, s!"differ model-delivered={Counter.sum st.delivered} pending={st.pending.length}")
        | none => (d, "bad-op cell")
    | _, _, _, _ => (d, "bad-op parse")
  | ["end"] => (d, s!"ok steps={d.steps}")
  | _ => (d, "bad-op shape")

def suite : Suite := { σ := DState, init := init, step := handle }
end Tally.Drv.C01
