import Tally.Drv.Common
import Tally.Model.HistPass
/-!
Driver for the histogram report pass (lock-step against `Tally.HistPass`).  Lines:
  `begin <n>`                  a histogram of n buckets
  `ev record <b>`              the harness recorded a sample that lands in bucket b
  `ev swap <t> <b>` / `ev deliver <t>`
                               thread t was seen in front of the reporter call for bucket b (so it has swapped that cell)
                               / has made the reporter call
  `visit <t> <b>`              thread t, running alone, did `value()` on bucket b and reported if the result was not 0
  `pass <t>`                   thread t, running alone, walked all buckets (`fullPass`)
  `start <t>`                  thread t begins a pass (it will be scheduled step by step)
  `advance <t> parked|done`    thread t was scheduled alone until it stood in front of its next reporter call (parked)
                               or had walked all buckets (done): the model thread makes its pending reporter call and
                               walks on in bucket order (`swap` events; zero cells are passed silently) and must end up
                               in the same situation
  `log <b:c;b:c;…|->`          the reporter calls so far, (bucket, count) in order: must equal the model's
  `end <c0;c1;…>`              per bucket, the samples the harness recorded: the model's `recordedIn`, and — nothing
                               being pending — what was delivered for the bucket plus what its cell still holds
-/
namespace Tally.Drv.HistPass
open Tally Tally.HistPass

structure DState where
  st : State
  steps : Nat
  /-- pass thread ↦ the next bucket it will visit -/
  pos : List (Nat × Nat) := []

def init : DState := { st := Tally.HistPass.init 0, steps := 0 }

def advance (d : DState) (t : Nat) : Option (DState × Option Nat) :=
  let s0 := match d.st.pending.lookup t with
    | some _ => step d.st (.deliver t)
    | none => some d.st
  match s0, d.pos.lookup t with
  | some s0, some b =>
    match HistPass.walk t (s0.cells.length + 2) s0 b [] with
    | some (s', evs, b', wh) =>
      some ({ st := s', steps := d.steps + evs.length + 1, pos := (t, b') :: d.pos.filter (·.1 != t) }, wh)
    | none => none
  | _, _ => none

def pairList (s : String) : Option (List (Nat × Nat)) :=
  if s == "-" then some [] else
  (s.splitOn ";").mapM fun x =>
    match x.splitOn ":" with
    | [a, b] => match a.toNat?, b.toNat? with
      | some a, some b => some (a, b)
      | _, _ => none
    | _ => none

def apply (d : DState) (es : List Ev) : DState × String :=
  match run d.st es with
  | some s' => ({ d with st := s', steps := d.steps + es.length }, "ok")
  | none => (d, s!"reject not-enabled cells={d.st.cells} pending={d.st.pending}")

def handle (d : DState) (toks : List String) : DState × String :=
  match toks with
  | ["begin", n] =>
    match n.toNat? with
    | some n => ({ st := Tally.HistPass.init n, steps := 0 }, "ok")
    | none => (d, "bad-op parse")
  | ["ev", "record", b] =>
    match b.toNat? with
    | some b => apply d [.record b]
    | none => (d, "bad-op parse")
  | ["ev", "swap", t, b] =>
    match t.toNat?, b.toNat? with
    | some t, some b => apply d [.swap t b]
    | _, _ => (d, "bad-op parse")
  | ["ev", "deliver", t] =>
    match t.toNat? with
    | some t => apply d [.deliver t]
    | none => (d, "bad-op parse")
  | ["start", t] =>
    match t.toNat? with
    | some t => ({ d with pos := (t, 0) :: d.pos.filter (·.1 != t) }, "ok")
    | none => (d, "bad-op parse")
  | ["advance", t, what] =>
    match t.toNat? with
    | none => (d, "bad-op parse")
    | some t =>
      match advance d t with
      | none => (d, s!"reject not-enabled pending={d.st.pending} pos={d.pos}")
      | some (d', wh) =>
        let m := match wh with | some b => s!"parked-{b}" | none => "done"
        if (what == "parked" && wh.isSome) || (what == "done" && wh.isNone) then (d', s!"ok {m}")
        else (d', s!"differ model-thread-is={m} cells={d.st.cells}")
  | ["visit", t, b] =>
    match t.toNat?, b.toNat? with
    | some t, some b => apply d (visit t b (d.st.cells.getD b 0))
    | _, _ => (d, "bad-op parse")
  | ["pass", t] =>
    match t.toNat? with
    | some t => apply d (fullPass t d.st)
    | none => (d, "bad-op parse")
  | ["log", l] =>
    match pairList l with
    | some l =>
      if d.st.delivered.reverse == l then (d, "ok")
      else (d, s!"differ model-delivered={d.st.delivered.reverse} pending={d.st.pending} cells={d.st.cells}")
    | none => (d, "bad-op parse")
  | ["end", l] =>
    match natList l with
    | some rec =>
      let n := d.st.cells.length
      if rec.length != n then (d, "bad-op shape")
      else if !d.st.pending.isEmpty then (d, s!"reject pending={d.st.pending}")
      else if !((List.range n).all fun b => recordedIn d.st b == rec.getD b 0) then
        (d, s!"differ model-recorded={(List.range n).map (recordedIn d.st)}")
      else if !((List.range n).all fun b => deliveredIn d.st b + d.st.cells.getD b 0 == rec.getD b 0) then
        (d, s!"violated samples-conserved delivered={(List.range n).map (deliveredIn d.st)} cells={d.st.cells}")
      else (d, s!"ok steps={d.steps}")
    | none => (d, "bad-op parse")
  | _ => (d, "bad-op shape")

def suite : Suite := { σ := DState, init := init, step := handle }
end Tally.Drv.HistPass
