import Tally.Prelude
/-! Driver plumbing: a suite is a state machine over protocol lines. -/
namespace Tally.Drv

structure Suite where
  σ : Type
  init : σ
  step : σ → List String → σ × String

def stateless (f : List String → String) : Suite :=
  { σ := Unit, init := (), step := fun _ l => ((), f l) }

/-- split a protocol line at the `=>` token into request tokens and observed tokens -/
def splitObserved (toks : List String) : List String × List String :=
  let (a, b) := toks.span (· ≠ "=>")
  (a, b.drop 1)

def f64List (s : String) : Option (List F64) := parseList u64OfHex s
def intList (s : String) : Option (List Int) := parseList parseInt s
def natList (s : String) : Option (List Nat) := parseList parseNat s
def showF64s (l : List F64) : String := showList u64ToHex l
def showInts (l : List Int) : String := showList toString l
def showNats (l : List Nat) : String := showList toString l

def verdict (expected observed : String) (specOk : Bool) (clause : String) : String :=
  if !specOk then s!"violated {clause} model={expected}"
  else if expected == observed then "ok"
  else s!"differ {expected}"

end Tally.Drv
