import Tally
open Tally Tally.Drv

def suites : List (String × Suite) := [
  ("c03", Tally.Drv.C03.suite),
  ("c06", Tally.Drv.C06.suite),
  ("c01", Tally.Drv.C01.suite),
  ("c02", Tally.Drv.C02.suite),
  ("scope", Tally.Drv.Scope.suite),
  ("c19", Tally.Drv.C19.suite),
  ("thrift", Tally.Drv.Thrift.suite),
  ("c20", Tally.Drv.C20.suite),
  ("c18", Tally.Drv.C18.suite),
  ("registry", Tally.Drv.Registry.suite),
  ("c09", Tally.Drv.C09.suite),
  ("c09lock", Tally.Drv.C09Lock.suite),
  ("histpass", Tally.Drv.HistPass.suite),
  ("c15", Tally.Drv.C15.suite),
  ("c17", Tally.Drv.C17.suite),
  ("c14", Tally.Drv.C14.suite),
  ("rootclose", Tally.Drv.RootClose.suite),
  ("m3", Tally.Drv.M3.suite)
]

partial def loop (inp : IO.FS.Stream) (out : IO.FS.Stream) (s : Suite) (st : s.σ) : IO Unit := do
  let line ← inp.getLine
  if line.isEmpty then return ()
  let toks := splitTokens (line.dropEndWhile (fun c => c == '\n' || c == '\r')).toString
  if toks.isEmpty then
    out.putStrLn "bad-op empty"; out.flush
    loop inp out s st
  else
    let (st', reply) := s.step st toks
    out.putStrLn reply
    out.flush
    loop inp out s st'

def main (args : List String) : IO UInt32 := do
  match args with
  | [name] =>
    match suites.lookup name with
    | some s => loop (← IO.getStdin) (← IO.getStdout) s s.init; return 0
    | none => IO.eprintln s!"unknown suite {name}"; return 2
  | _ => IO.eprintln "usage: tallydrv <suite>"; return 2
