package main

import (
	"fmt"
	"math"
	"strconv"
	"strings"

	tally "github.com/uber-go/tally/v4"
)

// histlock: lock-step validation of histogram.report / cachedReport against Tally.HistPass (one counter cell per
// bucket, `swap` and `deliver` separate steps, any number of pass threads).  Up to two report passes are alive at a
// time; each is scheduled alone until it stands in front of its next reporter call (hook histogram.deliver, which
// sits between the bucket's value() and the reporter call and is reached for non-zero results only) or has walked
// all buckets; between those steps the harness records samples.  After every step the reporter's log - (bucket,
// count) in order - must equal the model's; at the end one more pass runs alone and the model's conservation
// (delivered + cell = recorded, per bucket) is evaluated on the model state that the implementation was shown to follow.

func init() {
	register("histlock", "C09", "histpass", suiteHistLock)
}

func runHistLock(c *Ctx, r *Rng) {
	n := r.Range(2, 6)
	cached := r.Bool()
	w := newWorld(cached, 0, 1, false)
	bounds := make(tally.ValueBuckets, n-1)
	for i := range bounds {
		bounds[i] = float64(10 * (i + 1))
	}
	h := w.root.SubScope("s").Histogram("h", bounds)
	d := c.Drv
	var trace []string
	failed := false
	sig := "histlock"
	say := func(line string) string {
		trace = append(trace, line)
		if failed {
			return ""
		}
		rep := d.Ask(line)
		if rep == "ok" || strings.HasPrefix(rep, "ok ") {
			return rep
		}
		k := "differ"
		if strings.HasPrefix(rep, "violated") {
			k = "violated"
		} else if strings.HasPrefix(rep, "bad-op") {
			k = "bad-op"
		}
		f := strings.Fields(rep)
		c.Cov.Fail(Failure{Kind: k, Clause: strings.Join(f[:min(2, len(f))], " "), Signature: sig, Line: strings.Join(trace, " | "), Reply: rep})
		failed = true
		return rep
	}
	crashed := false
	crash := func(clause, why string) {
		crashed = true
		if failed {
			return
		}
		c.Cov.Fail(Failure{Kind: "crash", Clause: clause, Signature: sig, Line: strings.Join(trace, " | "), Reply: why})
		failed = true
	}
	say(fmt.Sprintf("begin %d", n))
	trace = append(trace, fmt.Sprintf("(cached=%v)", cached))
	rec := make([]int, n)
	record := func(b int) {
		h.RecordValue(float64(10*b + 5))
		rec[b]++
		say(fmt.Sprintf("ev record %d", b))
	}
	logLine := func() string {
		var items []string
		for _, e := range w.log().Snapshot() {
			switch e.Kind {
			case "hval":
				b := n - 1
				if e.HiF != math.MaxFloat64 {
					b = int(e.HiF/10) - 1
				}
				items = append(items, fmt.Sprintf("%d:%d", b, e.I))
			case "samples":
				items = append(items, fmt.Sprintf("%d:%d", e.Idx, e.I))
			}
		}
		return "log " + joinList(items)
	}
	for b := 0; b < n; b++ {
		for k := r.Intn(4); k > 0; k-- {
			record(b)
		}
	}
	s := NewSched(nil)
	s.ParkOnT = func(th, l string) bool { return l == "histogram.deliver" }
	type pass struct {
		id   int
		thr  *Thr
		done bool
	}
	var alive []*pass
	nextID := 1
	concurrent, duringPass := false, false
	advance := func(p *pass) {
		label := runUntil(s, p.thr, func(l, _ string) bool { return l == "histogram.deliver" })
		switch label {
		case "histogram.deliver":
			say(fmt.Sprintf("advance %d parked", p.id))
		case "done":
			p.done = true
			say(fmt.Sprintf("advance %d done", p.id))
		default:
			crash("no-deadlock", fmt.Sprintf("pass thread %d ended up %q", p.id, label))
			p.done = true
		}
		say(logLine())
	}
	steps := r.Range(3, 16)
	for i := 0; i < steps && !failed; i++ {
		x := r.Intn(10)
		switch {
		case x < 4:
			if len(alive) > 0 {
				duringPass = true
			}
			record(r.Intn(n))
		default:
			// pick a live pass, or start one (at most two alive)
			var p *pass
			if len(alive) > 0 && (len(alive) == 2 || r.Chance(60)) {
				p = alive[r.Intn(len(alive))]
			} else {
				p = &pass{id: nextID}
				nextID++
				p.thr = s.Spawn(fmt.Sprintf("P%d", p.id), func() { tally.VerifReportOnce(w.root) })
				alive = append(alive, p)
				say(fmt.Sprintf("start %d", p.id))
				if len(alive) == 2 {
					concurrent = true
				}
			}
			advance(p)
			if p.done {
				for j, q := range alive {
					if q == p {
						alive = append(alive[:j], alive[j+1:]...)
						break
					}
				}
			}
		}
	}
	for _, p := range alive {
		for g := 0; !p.done && !failed && g < 2*n+4; g++ {
			advance(p)
		}
	}
	s.Finish()
	if !crashed {
		// the model-independent part: one more pass alone, then every sample recorded has been delivered, in its own bucket
		tally.VerifReportOnce(w.root)
		say(fmt.Sprintf("pass %d", nextID))
		say(logLine())
		cs := make([]string, n)
		for b := range cs {
			cs[b] = strconv.Itoa(rec[b])
		}
		say("end " + joinList(cs))
		got := make([]int, n)
		for _, it := range strings.Split(strings.TrimPrefix(logLine(), "log "), ";") {
			var b, k int
			if _, err := fmt.Sscanf(it, "%d:%d", &b, &k); err == nil && b >= 0 && b < n {
				got[b] += k
			}
		}
		if fmt.Sprint(got) != fmt.Sprint(rec) {
			c.Cov.Fail(Failure{Kind: "violated", Clause: "recorded-through-any-handle-delivered", Signature: "histlock-samples-not-conserved", Line: strings.Join(trace, " | "),
				Reply: fmt.Sprintf("samples recorded per bucket %v, delivered per bucket after all passes have finished and one more pass has run %v", rec, got)})
		}
	}
	w.closer.Close()
	if concurrent {
		c.Cov.Hit("two-passes-alive-at-once")
	}
	if duringPass {
		c.Cov.Hit("sample-recorded-while-a-pass-is-parked")
	}
	c.Cov.HitN("histlock.lines", len(trace))
	c.Cov.Eval(strings.Join(trace, " | "), concurrent || duringPass)
	c.Cov.Schedules++
}

func suiteHistLock(c *Ctx) {
	c.Cov.Rule = "sampled: a value histogram of 2-6 buckets on a sub-scope (plain / cached reporter), 0-3 samples per bucket, then 3-15 steps, each either a sample into a random bucket or one scheduling step of a report pass (up to two passes alive at once; a pass runs alone from one histogram.deliver hook to the next); lock-step against Tally.HistPass (`advance`: the model thread must end up parked / done like the real one; the reporter log must equal the model's delivered list after every step); at the end one more pass and the model's per-bucket conservation; nontrivial = two passes alive at once or a sample recorded while a pass was parked"
	r := NewRng(c.Seed ^ 0x4157)
	for i := 0; i < c.N(300, 3000); i++ {
		runHistLock(c, r)
	}
	c.Cov.Traces = c.Cov.Schedules
}
