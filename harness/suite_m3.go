package main

import (
	"fmt"
	"math"
	"net"
	"os"
	"sort"
	"strconv"
	"strings"
	"sync"
	"sync/atomic"
	"time"

	"github.com/twmb/murmur3"
	tally "github.com/uber-go/tally/v4"
	"github.com/uber-go/tally/v4/m3"
)

// C12 (no datagram exceeds MaxPacketSizeBytes) and C13 (every reported value delivered exactly once and
// intact): the real m3.NewReporter against loopback UDP sinks; the Lean driver `m3` holds the model and
// evaluates Spec.C12 / Spec.C13 on what the sinks received.

func init() {
	register("c12", "C12", "m3", suiteC12)
	register("c13", "C13", "m3", suiteC13)
}

// ---------------------------------------------------------------- sinks

type m3Sink struct {
	conn *net.UDPConn
	mu   sync.Mutex
	pkts [][]byte
	n    atomic.Int64
	done chan struct{}
}

func newM3Sink() *m3Sink {
	conn, err := net.ListenUDP("udp4", &net.UDPAddr{IP: net.IPv4(127, 0, 0, 1), Port: 0})
	must(err)
	conn.SetReadBuffer(8 << 20)
	s := &m3Sink{conn: conn, done: make(chan struct{})}
	go func() {
		defer close(s.done)
		buf := make([]byte, 70000)
		for {
			n, _, err := conn.ReadFromUDP(buf)
			if err != nil {
				return
			}
			p := append([]byte(nil), buf[:n]...)
			s.mu.Lock()
			s.pkts = append(s.pkts, p)
			s.mu.Unlock()
			s.n.Add(1)
		}
	}()
	return s
}

func (s *m3Sink) addr() string { return s.conn.LocalAddr().String() }

// settle waits until no datagram has arrived for `quiet` (at most `max`): everything the sender wrote before is in the
// socket's receive buffer, but the reading goroutine may lag behind on a loaded machine, and close() discards what it
// has not read yet
func (s *m3Sink) settle(quiet, max time.Duration) {
	deadline := time.Now().Add(max)
	last, since := s.n.Load(), time.Now()
	for time.Now().Before(deadline) {
		time.Sleep(2 * time.Millisecond)
		if n := s.n.Load(); n != last {
			last, since = n, time.Now()
		} else if time.Since(since) >= quiet {
			return
		}
	}
}

func (s *m3Sink) close() [][]byte {
	s.conn.Close()
	<-s.done
	return s.pkts
}

// ---------------------------------------------------------------- case description

type m3Handle struct {
	h     int
	kind  string // counter | gauge | timer | hist
	name  string
	tags  map[string]string
	isDur bool
	vals  []float64
	durs  []time.Duration
	pairs []tally.BucketPair

	cnt  tally.CachedCount
	gau  tally.CachedGauge
	tim  tally.CachedTimer
	hist tally.CachedHistogram
}

const (
	opAlloc = iota
	opReport
	opFlush
	opSleep
)

type m3Op struct {
	op      int
	hd      *m3Handle
	ival    int64   // counter / timer value, bucket samples
	fval    float64 // gauge value
	upperV  float64
	upperD  time.Duration
	sleepMs int
	t0, t1  int64
}

type m3Case struct {
	proto       string
	max         int32
	queue       int
	internal    map[string]string
	dests       int
	common      map[string]string
	includeHost bool
	service     string
	env         string
	idName      string
	rangeName   string
	prec        uint
	main        []m3Op   // executed by the main goroutine first (allocations; in exact mode everything)
	producers   [][]m3Op // executed concurrently afterwards (multi mode)
	class       []string
	collide     bool
	probeMin    bool
}

func (cs *m3Case) exact() bool { return len(cs.producers) == 0 }

// the tag-map hash of internal/identity (the harness cannot import it): used only to confirm that two
// maps the generator built to collide really do, when a wrong-tags violation is classified
func m3TagHash(m map[string]string) uint64 {
	if len(m) == 0 {
		return 0
	}
	acc := uint64(23)
	for k, v := range m {
		acc += murmur3.StringSum64(k+"="+v) * 31
	}
	return acc
}

// ---------------------------------------------------------------- generators

func m3Name(r *Rng, prefix string) string {
	n := 0
	switch r.Intn(12) {
	case 0:
		n = r.Range(200, 600)
	case 1:
		n = r.Range(100, 140) // around the 1-byte / 2-byte length varint boundary
	case 2:
		n = 1
	default:
		n = r.Range(1, 24)
	}
	if len(prefix) >= n {
		n = len(prefix) + 1
	}
	b := make([]byte, n-len(prefix))
	for i := range b {
		if r.Chance(90) {
			b[i] = byte(r.Range('a', 'z'))
		} else {
			b[i] = byte(r.Intn(256))
		}
	}
	s := prefix + string(b)
	if strings.HasPrefix(s, "tally.internal.") {
		s = "x" + s[1:]
	}
	return s
}

func m3TagStr(r *Rng) string {
	n := 0
	switch r.Intn(10) {
	case 0:
		n = 0
	case 1:
		n = r.Range(30, 140)
	default:
		n = r.Range(1, 10)
	}
	b := make([]byte, n)
	for i := range b {
		switch {
		case r.Chance(85):
			b[i] = byte(r.Range('a', 'z'))
		case r.Chance(40):
			b[i] = '='
		default:
			b[i] = byte(r.Intn(256))
		}
	}
	return string(b)
}

func m3Tags(r *Rng, n int) map[string]string {
	if n == 0 {
		if r.Bool() {
			return nil
		}
		return map[string]string{}
	}
	m := map[string]string{}
	for len(m) < n {
		k := m3TagStr(r)
		if len(k) == 0 && r.Chance(80) {
			continue
		}
		m[k] = m3TagStr(r)
	}
	return m
}

// two different maps with the same hash: the "=" between key and value moves inside the joined string
func m3CollidingPair(r *Rng) (map[string]string, map[string]string) {
	n := r.Range(1, 4)
	a, b := map[string]string{}, map[string]string{}
	moved := false
	for i := 0; i < n; i++ {
		k := fmt.Sprintf("k%d%s", i, string(rune('a'+r.Intn(26))))
		v1, v2 := fmt.Sprintf("v%d", r.Intn(100)), fmt.Sprintf("w%d", r.Intn(100))
		if i == 0 || r.Bool() {
			a[k] = v1 + "=" + v2
			b[k+"="+v1] = v2
			moved = true
		} else {
			a[k], b[k] = v1, v1
		}
	}
	_ = moved
	if r.Chance(20) { // the literal pair of the property text
		a, b = map[string]string{"a": "b=c"}, map[string]string{"a=b": "c"}
	}
	if r.Chance(20) { // one of the two has an EMPTY value where the other has no such key at all
		k, v := fmt.Sprintf("region%d", r.Intn(9)), fmt.Sprintf("eu%d", r.Intn(9))
		a, b = map[string]string{k + "=" + v: ""}, map[string]string{k: v + "="}
	}
	if r.Bool() {
		a, b = b, a
	}
	return a, b
}

func m3FiniteFloat(r *Rng) float64 {
	for {
		var f float64
		switch r.Intn(6) {
		case 0:
			f = float64(r.Range(-1000, 1000))
		case 1:
			f = float64(r.Range(-100000, 100000)) / 1000
		case 2:
			f = math.Float64frombits(r.U64())
		case 3:
			f = []float64{0, 0.5, 1e-7, 1e15, -1e15, 123456.789, math.MaxFloat64, -math.MaxFloat64, 5e-324, 1e300}[r.Intn(10)]
		default:
			f = float64(r.Range(0, 50)) * 2.5
		}
		if !math.IsNaN(f) && !math.IsInf(f, 0) {
			return f
		}
	}
}

func m3GenHandle(r *Rng, h int, kind string, name string, tags map[string]string) *m3Handle {
	hd := &m3Handle{h: h, kind: kind, name: name, tags: tags}
	if kind == "hist" {
		n := r.Range(1, 20)
		if r.Chance(60) {
			n = r.Range(1, 6)
		}
		hd.isDur = r.Bool()
		if hd.isDur {
			for i := 0; i < n; i++ {
				var d time.Duration
				switch r.Intn(6) {
				case 0:
					d = time.Duration(genI64(r))
				case 1:
					d = 0
				default:
					d = time.Duration(r.Range(-5, 5000)) * []time.Duration{1, time.Microsecond, time.Millisecond, time.Second, 90 * time.Second}[r.Intn(5)]
				}
				hd.durs = append(hd.durs, d)
			}
			if r.Chance(25) && n > 1 {
				hd.durs[n-1] = hd.durs[0]
			}
			hd.pairs = tally.BucketPairs(tally.DurationBuckets(hd.durs))
		} else {
			hasZero := false
			for i := 0; i < n; i++ {
				f := m3FiniteFloat(r)
				if f == 0 { // one spelling of zero per specification (sort.Sort is not stable)
					if hasZero {
						f = 1
					}
					hasZero = true
				}
				hd.vals = append(hd.vals, f)
			}
			if r.Chance(25) && n > 1 && hd.vals[0] != 0 {
				hd.vals[n-1] = hd.vals[0]
			}
			hd.pairs = tally.BucketPairs(tally.ValueBuckets(hd.vals))
		}
	}
	return hd
}

func m3GenReport(r *Rng, hd *m3Handle) m3Op {
	op := m3Op{op: opReport, hd: hd}
	switch hd.kind {
	case "counter", "timer":
		op.ival = genI64(r)
	case "gauge":
		switch r.Intn(4) {
		case 0:
			op.fval = c02ValuePool[r.Intn(len(c02ValuePool))]
		case 1:
			op.fval = math.Float64frombits(r.U64())
		default:
			op.fval = float64(r.Range(-1000, 100000)) / 8
		}
	case "hist":
		op.ival = genI64(r)
		if r.Chance(70) {
			op.ival = int64(r.Range(1, 50))
		}
		pair := hd.pairs[r.Intn(len(hd.pairs))]
		if hd.isDur {
			op.upperD = pair.UpperBoundDuration()
			if r.Chance(10) {
				op.upperD = time.Duration(genI64(r))
			}
		} else {
			op.upperV = pair.UpperBoundValue()
			if r.Chance(10) {
				op.upperV = []float64{math.Inf(1), math.Inf(-1), m3FiniteFloat(r), m3FiniteFloat(r)}[r.Intn(4)]
			}
		}
	}
	return op
}

type m3Profile struct {
	suite    string // c12 | c13
	thorough bool
}

func m3GenCase(r *Rng, pf m3Profile, idx int) *m3Case {
	cs := &m3Case{proto: []string{"c", "b"}[r.Intn(2)], service: "svc", env: "test", idName: "bucketid", rangeName: "bucket"}
	cls := func(s string) { cs.class = append(cs.class, s) }
	// configuration
	cs.queue = []int{1, 2, 7, 64, 1000, 4096, 0, -1}[r.Intn(8)] // 0 and -1: the default (4096)
	if r.Chance(20) {                                           // extra / overriding tags for the reporter's own internal metrics
		cs.internal = map[string]string{}
		for n := r.Range(1, 2); len(cs.internal) < n; {
			k := []string{"version", "host", "dc", m3TagStr(r)}[r.Intn(4)]
			if k != "" {
				cs.internal[k] = m3TagStr(r)
			}
		}
	}
	if r.Chance(25) {
		cs.dests = 3
	} else {
		cs.dests = 1
	}
	cs.includeHost = r.Chance(30)
	cs.common = map[string]string{}
	nCommon := r.Intn(7)
	if r.Chance(10) {
		nCommon = r.Range(9, 14) // more common tags than a pooled tag slice has room for (10)
	}
	for n := nCommon; len(cs.common) < n; {
		k := m3TagStr(r)
		if k == "" || k == "service" || k == "env" || k == "host" {
			continue
		}
		cs.common[k] = m3TagStr(r)
	}
	switch r.Intn(8) {
	case 0:
		cs.common["service"] = "from-common"
	case 1:
		cs.common["env"] = ""
	case 2:
		if cs.includeHost {
			cs.common["host"] = "configured-host"
		}
	case 3: // a host tag configured by hand, whatever IncludeHost says
		cs.common["host"] = "configured-host"
	}
	if r.Chance(20) {
		cs.service = m3TagStr(r) + "s"
	}
	if r.Chance(15) {
		cs.idName, cs.rangeName = "id"+m3TagStr(r), "le"+m3TagStr(r)
		if cs.idName == cs.rangeName {
			cs.rangeName += "x"
		}
	}
	if r.Chance(10) {
		cs.idName = strings.Repeat("i", r.Range(120, 135))
	}
	if r.Chance(30) {
		cs.prec = uint(r.Range(1, 9))
	}
	// traffic shape
	traffic := []string{"mixed", "mixed", "plain", "hist"}[r.Intn(4)]
	nReports := r.Range(5, 120)
	maxClass := r.Intn(10)
	if pf.suite == "c12" {
		switch maxClass {
		case 0, 1:
			cs.max = -1 // filled in from the probe: just above the overhead
			cs.probeMin = true
			nReports = r.Range(20, 150)
			cls("max.tiny")
		case 2, 3:
			cs.max = 1440
			nReports = r.Range(40, 220)
			cls("max.1440")
		case 4:
			cs.max = 8192
			nReports = r.Range(150, 450)
			cls("max.8192")
		case 5:
			cs.max = 32768
			nReports = r.Range(400, 800)
			if !pf.thorough && r.Bool() {
				cs.max = 1440
				nReports = r.Range(40, 220)
			}
			cls("max.32768")
		case 6:
			cs.max = 65000
			nReports = r.Range(1100, 1700)
			traffic = "plain"
			if !pf.thorough && r.Chance(60) {
				cs.max = int32(r.Range(300, 1439))
				nReports = r.Range(60, 200)
			}
			cls("max.65000")
		case 7:
			cs.max = int32(r.Range(300, 1439))
			nReports = r.Range(60, 300)
			cls("max.small")
		default:
			cs.max = int32(r.Range(1441, 20000))
			nReports = r.Range(100, 400)
			cls("max.random")
		}
	} else {
		cs.max = []int32{-1, 1440, 1440, 8192, 32768, int32(r.Range(300, 5000))}[r.Intn(6)]
		if cs.max == -1 {
			cs.probeMin = true
		}
		nReports = r.Range(5, 300)
	}
	longRun := idx%17 == 3 // many small datagrams: the sequence number passes 128 (and 16384 in the thorough tier)
	if longRun {
		cs.max, cs.probeMin = -1, true
		nReports = 330
		if pf.thorough && idx%340 == 3 {
			nReports = 17000
		}
		traffic = "plain"
		cs.dests = 1
		cls("long-run")
	}
	multi := 0
	if (pf.thorough && r.Chance(35)) || (!pf.thorough && r.Chance(12)) {
		multi = r.Range(2, 4)
		cls("multi-producer")
	}
	if longRun {
		multi = 0
	}
	cs.collide = pf.suite == "c13" && r.Chance(35)
	// a high-cardinality history: after the first handles (colliding tag maps among them) more distinct tag
	// sets are allocated than the reporter's resource pools hold (DefaultMaxQueueSize = 4096), then the early
	// handles are used again -- storage recycled while still referenced shows up as foreign tags
	highCard := pf.suite == "c13" && idx%23 == 7 && !longRun
	if highCard {
		cs.collide, multi = true, 0
		cls("high-cardinality")
	}
	// handles
	nHandles := r.Range(1, 12)
	var handles []*m3Handle
	next := 5
	tagSets := []map[string]string{}
	for i := 0; i < 4; i++ {
		nt := r.Intn(9)
		if r.Chance(50) {
			nt = r.Intn(4)
		}
		tagSets = append(tagSets, m3Tags(r, nt))
	}
	if cs.collide {
		cls("colliding-tag-maps")
		for i := 0; i < r.Range(1, 3); i++ {
			a, b := m3CollidingPair(r)
			tagSets = append(tagSets, a, b)
		}
		nHandles = len(tagSets) + r.Intn(4)
	}
	edgeTags := pf.suite == "c12" && r.Chance(20) // 13 / 14 / 15 tags once the two bucket tags are added
	wideTags := r.Chance(15)
	mkHandle := func(prefix string, j int) *m3Handle {
		kind := []string{"counter", "gauge", "timer", "hist"}[r.Intn(4)]
		switch traffic {
		case "plain":
			kind = []string{"counter", "gauge", "timer"}[r.Intn(3)]
		case "hist":
			kind = "hist"
		}
		var tags map[string]string
		if cs.collide && j < len(tagSets) {
			tags = tagSets[len(tagSets)-1-j] // the colliding pairs first, in both orders over the run
		} else if r.Chance(60) {
			tags = tagSets[r.Intn(len(tagSets))]
		} else {
			tags = m3Tags(r, r.Intn(9))
		}
		if wideTags && r.Chance(50) {
			tags = m3Tags(r, r.Range(9, 16)) // around and beyond the capacity of a pooled tag slice (10)
			cls("tags-9-16")
		}
		if kind == "hist" && r.Chance(12) {
			// the histogram's OWN tags use the name a bucket tag has in this configuration: the bucket tags come
			// "additionally", the metric then carries that name twice and the user's value is still there
			t2 := map[string]string{}
			for k, v := range tags {
				t2[k] = v
			}
			if r.Bool() {
				t2[cs.rangeName] = "customer-photos"
			} else {
				t2[cs.idName] = "0007"
			}
			tags = t2
			cls("hist-own-tag-named-like-a-bucket-tag")
		}
		if edgeTags && kind == "hist" {
			tags = m3Tags(r, r.Range(11, 13))
			cls("hist-tags-13-15")
		}
		hd := m3GenHandle(r, next, kind, m3Name(r, prefix), tags)
		next++
		return hd
	}
	if longRun { // one small metric per datagram
		hd := m3GenHandle(r, next, "counter", "c", nil)
		next++
		handles = append(handles, hd)
		cs.main = append(cs.main, m3Op{op: opAlloc, hd: hd})
		for i := 0; i < nReports; i++ {
			cs.main = append(cs.main, m3Op{op: opReport, hd: hd, ival: int64(i)})
		}
		return cs
	}
	if multi == 0 {
		for j := 0; j < nHandles; j++ {
			hd := mkHandle("", j)
			handles = append(handles, hd)
			cs.main = append(cs.main, m3Op{op: opAlloc, hd: hd})
			if j == 0 { // first report immediately after the constructor returned
				cs.main = append(cs.main, m3GenReport(r, hd))
			}
		}
		if highCard {
			nFill := m3.DefaultMaxQueueSize + r.Range(8, 600)
			for i := 0; i < nFill; i++ {
				hd := m3GenHandle(r, next, "counter", "fill", map[string]string{"fill": strconv.Itoa(i)})
				next++
				cs.main = append(cs.main, m3Op{op: opAlloc, hd: hd})
				if i%500 == 17 || i == nFill-1 {
					handles = append(handles, hd)
				}
			}
			for _, hd := range handles { // every early handle is used again after the pools have cycled
				cs.main = append(cs.main, m3GenReport(r, hd))
			}
		}
		flushEvery := []int{0, 0, 3, 10, 40}[r.Intn(5)]
		for i := 0; i < nReports; i++ {
			if r.Chance(4) && len(handles) < 40 { // allocation in the middle of the traffic
				hd := mkHandle("", len(handles))
				handles = append(handles, hd)
				cs.main = append(cs.main, m3Op{op: opAlloc, hd: hd})
			}
			cs.main = append(cs.main, m3GenReport(r, handles[r.Intn(len(handles))]))
			if flushEvery > 0 && r.Intn(flushEvery) == 0 {
				cs.main = append(cs.main, m3Op{op: opFlush})
			}
		}
		if r.Chance(50) {
			cs.main = append(cs.main, m3Op{op: opFlush})
		}
		return cs
	}
	// several producers: shared tag sets (one tag cache), own names
	cs.producers = make([][]m3Op, multi)
	for p := 0; p < multi; p++ {
		var mine []*m3Handle
		prefix := fmt.Sprintf("p%d.", p)
		for j := 0; j < r.Range(1, 5); j++ {
			hd := mkHandle(prefix, j)
			mine = append(mine, hd)
			if r.Bool() {
				cs.main = append(cs.main, m3Op{op: opAlloc, hd: hd})
			} else { // allocated by the producer itself, concurrently with the others
				cs.producers[p] = append(cs.producers[p], m3Op{op: opAlloc, hd: hd})
			}
		}
		for i := 0; i < nReports/multi+1; i++ {
			cs.producers[p] = append(cs.producers[p], m3GenReport(r, mine[r.Intn(len(mine))]))
			if r.Chance(3) {
				cs.producers[p] = append(cs.producers[p], m3Op{op: opFlush})
			}
		}
	}
	return cs
}

// the staleness scenario: a handle allocated long before it is first used must still be stamped with the
// clock at the report, i.e. not earlier than a report made just before through a younger handle
func m3StaleCase(r *Rng, proto string) *m3Case {
	cs := &m3Case{proto: proto, max: 1440, queue: 64, dests: 1, service: "svc", env: "test", idName: "bucketid", rangeName: "bucket",
		common: map[string]string{}, class: []string{"stale-handle"}}
	a := m3GenHandle(r, 5, "counter", "old", map[string]string{"k": "v"})
	ah := m3GenHandle(r, 6, "hist", "oldh", nil)
	b := m3GenHandle(r, 7, []string{"counter", "gauge", "timer"}[r.Intn(3)], "young", nil)
	cs.main = []m3Op{{op: opAlloc, hd: a}, {op: opAlloc, hd: ah}, {op: opSleep, sleepMs: 260}, {op: opAlloc, hd: b},
		m3GenReport(r, b), m3GenReport(r, a), m3GenReport(r, ah), m3GenReport(r, b), {op: opFlush}}
	return cs
}

// ---------------------------------------------------------------- running one case

type m3HookEv struct {
	charge bool
	v      int64
}

type m3Run struct {
	cs        *m3Case
	lines     []string // session lines (begin … emits), without the queries
	sinks     [][][]byte
	charges   []int64
	emits     []int64
	free      int32
	overhead  int32
	skipped   string // non-empty: the case could not be judged (reason)
	minProbe  string
	datagrams [][]byte
	nReports  int
}

func m3Opts(cs *m3Case, hostPorts []string) m3.Options {
	p := m3.Compact
	if cs.proto == "b" {
		p = m3.Binary
	}
	return m3.Options{HostPorts: hostPorts, Service: cs.service, Env: cs.env, CommonTags: cs.common, IncludeHost: cs.includeHost,
		Protocol: p, MaxQueueSize: cs.queue, MaxPacketSizeBytes: cs.max, HistogramBucketIDName: cs.idName,
		HistogramBucketName: cs.rangeName, HistogramBucketTagPrecision: cs.prec, InternalTags: cs.internal}
}

func m3SpecTok(hd *m3Handle) string {
	if hd.isDur {
		out := make([]string, len(hd.durs))
		for i, d := range hd.durs {
			out[i] = strconv.FormatInt(int64(d), 10)
		}
		return "d" + strings.Join(out, ";")
	}
	return "v" + f64List(hd.vals)
}

func m3Exec(c *Ctx, cs *m3Case, r *Rng) *m3Run {
	run := &m3Run{cs: cs}
	var sinks []*m3Sink
	var hostPorts []string
	for i := 0; i < cs.dests; i++ {
		s := newM3Sink()
		sinks = append(sinks, s)
		hostPorts = append(hostPorts, s.addr())
	}
	closeSinks := func() {
		for _, s := range sinks {
			run.sinks = append(run.sinks, s.close())
		}
	}
	// the minimum MaxPacketSizeBytes the constructor accepts for this configuration
	if cs.probeMin {
		probe := *cs
		probe.max = 30000
		pr, err := m3.NewReporter(m3Opts(&probe, hostPorts))
		if err != nil {
			closeSinks()
			run.skipped = "probe-constructor: " + err.Error()
			return run
		}
		ov := m3.VerifOverheadBytes(pr)
		pr.Close()
		probe.max = ov
		if pr2, err := m3.NewReporter(m3Opts(&probe, hostPorts)); err == nil {
			pr2.Close()
			c.Cov.Fail(Failure{Kind: "violated", Clause: "constructor-accepts-zero-free-bytes", Signature: "c12-min-packet-size", Line: fmt.Sprintf("max=%d overhead=%d", ov, ov)})
		}
		probe.max = ov + 1
		pr3, err := m3.NewReporter(m3Opts(&probe, hostPorts))
		if err != nil {
			c.Cov.Fail(Failure{Kind: "violated", Clause: "constructor-rejects-one-free-byte", Signature: "c12-min-packet-size", Line: fmt.Sprintf("max=%d overhead=%d", ov+1, ov)})
		} else {
			pr3.Close()
		}
		c.Cov.Hit("probe.min-packet-size")
		// the probes' telemetry-free reporters sent nothing; pick the limit just above the overhead
		cs.max = ov + 1 + int32(r.Range(60, 420))
		if contains(cs.class, "long-run") {
			cs.max = ov + 1 + int32(r.Range(63, 80)) // room for one small counter (41 / 64 bytes), not for two
		}
	}
	var evMu sync.Mutex
	var evs []m3HookEv
	var emitCount atomic.Int64
	pendingCharges := 0
	setIntObserver(func(label string, v int64) {
		switch label {
		case "m3.process.charge":
			evMu.Lock()
			evs = append(evs, m3HookEv{true, v})
			pendingCharges++
			evMu.Unlock()
		case "m3.process.flush":
			evMu.Lock()
			evs = append(evs, m3HookEv{false, v})
			if pendingCharges > 0 {
				emitCount.Add(1)
			}
			pendingCharges = 0
			evMu.Unlock()
		}
	})
	defer setIntObserver(nil)
	host := "~"
	if cs.includeHost {
		hn, _ := os.Hostname()
		host = hxs(hn)
	}
	tConstruct := time.Now().UnixNano()
	var rep m3.Reporter
	var err error
	if cs.proto == "c" && cs.idName == "bucketid" && cs.rangeName == "bucket" && r.Chance(40) {
		// everything this case configures can be said through the YAML Configuration as well (Compact, default
		// bucket tag names): construct the reporter that way
		cfg := m3.Configuration{HostPorts: hostPorts, Service: cs.service, Env: cs.env, CommonTags: cs.common, Queue: cs.queue,
			PacketSize: cs.max, IncludeHost: cs.includeHost, HistogramBucketTagPrecision: cs.prec, InternalTags: cs.internal}
		if len(hostPorts) == 1 && r.Bool() {
			cfg.HostPorts, cfg.HostPort = nil, hostPorts[0]
		}
		rep, err = cfg.NewReporter()
		c.Cov.Hit("constructed-through-configuration")
	} else {
		rep, err = m3.NewReporter(m3Opts(cs, hostPorts))
	}
	if err != nil {
		closeSinks()
		run.skipped = "constructor: " + err.Error()
		return run
	}
	run.free, run.overhead = m3.VerifFreeBytes(rep), m3.VerifOverheadBytes(rep)
	prec := cs.prec
	if prec == 0 {
		prec = m3.DefaultHistogramBucketTagPrecision
	}
	internal := map[string]string{"version": tally.Version, "host": tally.DefaultTagRedactValue, "instance": tally.DefaultTagRedactValue}
	for k, v := range cs.internal {
		internal[k] = v
	}
	run.lines = append(run.lines, fmt.Sprintf("begin %s %d %d %d %d %s %s %s %s %s %s %d %s", cs.proto, cs.max, run.free, run.overhead, tConstruct,
		mapHex(cs.common), hxs(cs.service), hxs(cs.env), host, hxs(cs.idName), hxs(cs.rangeName), prec, mapHex(internal)))
	var lineMu sync.Mutex
	addLine := func(l string) {
		lineMu.Lock()
		run.lines = append(run.lines, l)
		lineMu.Unlock()
	}
	throttle := func() {
		for i := 0; i < 2000; i++ {
			got := int64(math.MaxInt64)
			for _, s := range sinks {
				if n := s.n.Load(); n < got {
					got = n
				}
			}
			if emitCount.Load()-got < 120 {
				return
			}
			time.Sleep(100 * time.Microsecond)
		}
	}
	var nReports atomic.Int64
	exec := func(producer int, ops []m3Op, buffered *[]string) {
		emit := func(l string) {
			if buffered != nil {
				*buffered = append(*buffered, l)
			} else {
				addLine(l)
			}
		}
		for i := range ops {
			op := &ops[i]
			hd := op.hd
			switch op.op {
			case opSleep:
				time.Sleep(time.Duration(op.sleepMs) * time.Millisecond)
			case opFlush:
				rep.Flush()
				emit(fmt.Sprintf("flush %d", producer))
			case opAlloc:
				switch hd.kind {
				case "counter":
					hd.cnt = rep.AllocateCounter(hd.name, hd.tags)
				case "gauge":
					hd.gau = rep.AllocateGauge(hd.name, hd.tags)
				case "timer":
					hd.tim = rep.AllocateTimer(hd.name, hd.tags)
				case "hist":
					if hd.isDur {
						hd.hist = rep.AllocateHistogram(hd.name, hd.tags, tally.DurationBuckets(hd.durs))
					} else {
						hd.hist = rep.AllocateHistogram(hd.name, hd.tags, tally.ValueBuckets(hd.vals))
					}
				}
				if hd.kind == "hist" {
					emit(fmt.Sprintf("alloch %d %s %s %s", hd.h, hxs(hd.name), mapHex(hd.tags), m3SpecTok(hd)))
				} else {
					emit(fmt.Sprintf("alloc %d %s %s %s", hd.h, hd.kind, hxs(hd.name), mapHex(hd.tags)))
				}
			case opReport:
				if i%32 == 31 {
					throttle()
				}
				nReports.Add(1)
				switch hd.kind {
				case "counter":
					op.t0 = time.Now().UnixNano()
					hd.cnt.ReportCount(op.ival)
					op.t1 = time.Now().UnixNano()
					emit(fmt.Sprintf("report %d %d %d %d %d", producer, hd.h, op.ival, op.t0, op.t1))
				case "timer":
					op.t0 = time.Now().UnixNano()
					hd.tim.ReportTimer(time.Duration(op.ival))
					op.t1 = time.Now().UnixNano()
					emit(fmt.Sprintf("report %d %d %d %d %d", producer, hd.h, op.ival, op.t0, op.t1))
				case "gauge":
					op.t0 = time.Now().UnixNano()
					hd.gau.ReportGauge(op.fval)
					op.t1 = time.Now().UnixNano()
					emit(fmt.Sprintf("report %d %d %s %d %d", producer, hd.h, f64hex(op.fval), op.t0, op.t1))
				case "hist":
					if hd.isDur {
						op.t0 = time.Now().UnixNano()
						hd.hist.DurationBucket(0, op.upperD).ReportSamples(op.ival)
						op.t1 = time.Now().UnixNano()
						emit(fmt.Sprintf("reportb %d %d %d %d %d %d", producer, hd.h, int64(op.upperD), op.ival, op.t0, op.t1))
					} else {
						op.t0 = time.Now().UnixNano()
						hd.hist.ValueBucket(0, op.upperV).ReportSamples(op.ival)
						op.t1 = time.Now().UnixNano()
						emit(fmt.Sprintf("reportb %d %d %s %d %d %d", producer, hd.h, f64hex(op.upperV), op.ival, op.t0, op.t1))
					}
				}
			}
		}
	}
	var panicVal interface{}
	panicked, pv := catch(func() {
		exec(0, cs.main, nil)
		if len(cs.producers) > 0 {
			var wg sync.WaitGroup
			bufs := make([][]string, len(cs.producers))
			for p := range cs.producers {
				wg.Add(1)
				go func(p int) {
					defer wg.Done()
					if pn, v := catch(func() { exec(p, cs.producers[p], &bufs[p]) }); pn {
						evMu.Lock()
						panicVal = v
						evMu.Unlock()
					}
				}(p)
			}
			wg.Wait()
			for _, b := range bufs {
				for _, l := range b {
					addLine(l)
				}
			}
		}
		rep.Close()
	})
	if panicked {
		panicVal = pv
	}
	if panicVal != nil {
		closeSinks()
		c.Cov.Fail(Failure{Kind: "crash", Clause: "no-panic", Signature: "m3-panic", Line: strings.Join(cs.class, ","), Reply: fmt.Sprint(panicVal)})
		run.skipped = "panic"
		return run
	}
	run.nReports = int(nReports.Load())
	// Close has returned: process() has exited, so the hook log is complete
	evMu.Lock()
	pend := 0
	for _, e := range evs {
		if e.charge {
			run.charges = append(run.charges, e.v)
			pend++
		} else {
			if pend > 0 {
				run.emits = append(run.emits, e.v)
			}
			pend = 0
		}
	}
	evMu.Unlock()
	// wait until every sink has every datagram (they were all written before Close returned)
	deadline := time.Now().Add(8 * time.Second) // generous: costs time only when a datagram really is missing
	for time.Now().Before(deadline) {
		all := true
		for _, s := range sinks {
			if s.n.Load() < int64(len(run.emits)) {
				all = false
			}
		}
		if all {
			break
		}
		time.Sleep(200 * time.Microsecond)
	}
	closeSinks()
	return run
}

func contains(l []string, s string) bool {
	for _, x := range l {
		if x == s {
			return true
		}
	}
	return false
}

// order the datagrams of one sink by sequence number; ok=false when the numbers are not exactly 1..n
func m3Order(proto string, pkts [][]byte) (out [][]byte, seqs []int32, undecodable int) {
	type ent struct {
		seq int32
		b   []byte
		i   int
	}
	var es []ent
	for i, p := range pkts {
		seq, _, err := goDecodeMessage(proto, p)
		if err != nil {
			undecodable++
			seq = int32(i + 1) // keep arrival position; the Lean decoder will judge it
		}
		es = append(es, ent{seq, p, i})
	}
	sort.SliceStable(es, func(a, b int) bool { return es[a].seq < es[b].seq })
	for _, e := range es {
		out = append(out, e.b)
		seqs = append(seqs, e.seq)
	}
	return
}

func m3ParseVerdicts(reply string) (pairs [][2]string, ok bool) {
	if reply == "holds" {
		return nil, true
	}
	if !strings.HasPrefix(reply, "violated ") {
		return nil, false
	}
	for _, f := range strings.Fields(reply)[1:] {
		kv := strings.SplitN(f, ":", 2)
		if len(kv) != 2 {
			return nil, false
		}
		pairs = append(pairs, [2]string{kv[0], kv[1]})
	}
	return pairs, true
}

// signature of a violated (clause, cause): one stable name per defect class
func m3Signature(suite string, cs *m3Case, clause, cause string) string {
	switch suite {
	case "c12":
		switch {
		case cause == "bucket" && (clause == "charged-ge-actual" || clause == "charged-ge-worst" || clause == "datagram-le-max"):
			return "histogram-bucket-tags-undercharged"
		case cause == "envelope" && (clause == "overhead-ge-envelope" || clause == "datagram-le-max"):
			return "envelope-overhead-undercharged"
		}
	case "c13":
		switch {
		case clause == "timestamp-bracket" && cause == "zero":
			return "timestamp-zero-before-clock-start"
		case clause == "tags-intact" && cause == "other-allocation" && cs.collide && m3HasCollision(cs):
			return "tag-cache-hash-collision"
		}
	}
	return suite + "-" + clause + "-" + cause
}

// does the case really contain two different allocated tag maps with the same hash?
func m3HasCollision(cs *m3Case) bool {
	var maps []map[string]string
	collect := func(ops []m3Op) {
		for _, op := range ops {
			if op.op == opAlloc {
				maps = append(maps, op.hd.tags)
			}
		}
	}
	collect(cs.main)
	for _, p := range cs.producers {
		collect(p)
	}
	for i := range maps {
		for j := i + 1; j < len(maps); j++ {
			if mapHex(maps[i]) != mapHex(maps[j]) && m3TagHash(maps[i]) == m3TagHash(maps[j]) {
				return true
			}
		}
	}
	return false
}

type m3Stats struct {
	sessions, datagrams, fullDatagrams, reports, maxSeq int
	seen                                                map[string]int // failures recorded per (kind, clause, signature)
	largest1440                                         map[string]int // largest datagram seen for the 1440 limit, per protocol
}

// fail records a failure, at most twice per (kind, clause, signature): the known findings of the pinned tree
// occur in almost every session and must not crowd anything else out of the (capped) failure list
func (st *m3Stats) fail(c *Ctx, f Failure) {
	key := f.Kind + "|" + f.Clause + "|" + f.Signature
	if st.seen == nil {
		st.seen = map[string]int{}
	}
	st.seen[key]++
	if st.seen[key] <= 2 {
		c.Cov.Fail(f)
	} else {
		c.Cov.Hit("failures.repeated." + f.Signature)
	}
}

// judge one finished run; returns the session lines incl. datagrams (for the tamper self-test)
func m3Judge(c *Ctx, suite string, run *m3Run, st *m3Stats) []string {
	cs := run.cs
	desc := fmt.Sprintf("proto=%s max=%d free=%d queue=%d dests=%d class=%s", cs.proto, cs.max, run.free, cs.queue, cs.dests, strings.Join(cs.class, ","))
	if run.skipped != "" {
		c.Cov.Hit("skipped." + strings.SplitN(run.skipped, ":", 2)[0])
		return nil
	}
	st.sessions++
	// every destination must have received the same datagrams
	ordered, seqs, undec := m3Order(cs.proto, run.sinks[0])
	for i := 1; i < len(run.sinks); i++ {
		o2, _, _ := m3Order(cs.proto, run.sinks[i])
		same := len(o2) == len(ordered)
		for j := 0; same && j < len(o2); j++ {
			same = string(o2[j]) == string(ordered[j])
		}
		if !same && len(o2) == len(run.emits) && len(ordered) == len(run.emits) {
			st.fail(c, Failure{Kind: "violated", Clause: "destinations-agree", Signature: suite + "-destinations-differ", Line: desc})
		}
		if len(o2) > len(ordered) { // judge the most complete copy
			ordered, seqs, undec = m3Order(cs.proto, run.sinks[i])
		}
	}
	_ = undec
	// loss: the hooks say how many batches process() handed to the client
	have := map[int32]bool{}
	for _, s := range seqs {
		have[s] = true
	}
	gap := false
	for i := 1; i <= len(run.emits); i++ {
		if !have[int32(i)] {
			gap = true
		}
	}
	if gap {
		// which emit is the first one missing?
		first := len(ordered)
		for i, s := range seqs {
			if int(s) != i+1 {
				first = i
				break
			}
		}
		if first < len(run.emits) && cs.max > 64000 && int64(run.overhead)+run.emits[first]+14+30*int64(len(run.charges)) > 65000 &&
			int64(run.overhead)+run.emits[first]+64 > 65000 {
			// the batch may have outgrown the 65000-byte transport buffer, which refuses it (what happens to later batches is C15's domain)
			st.fail(c, Failure{Kind: "violated", Clause: "datagram-le-max", Signature: "oversize-batch-refused-by-transport", Line: desc,
				Reply: fmt.Sprintf("emit %d of %d never arrived: charged %d + overhead %d within %d bytes of the 65000-byte transport maximum", first+1, len(run.emits), run.emits[first], run.overhead, 65000-int64(run.overhead)-run.emits[first])})
			c.Cov.Hit("near-transport-max.refused")
			return nil
		}
		st.fail(c, Failure{Kind: "crash", Clause: "udp-loss", Signature: "udp-loss", Line: desc, Reply: fmt.Sprintf("received %d of %d emitted datagrams; sequence numbers %v…", len(ordered), len(run.emits), seqs[:minInt(len(seqs), 12)])})
		return nil
	}
	st.datagrams += len(ordered)
	st.reports += run.nReports
	if cs.max == 1440 {
		if st.largest1440 == nil {
			st.largest1440 = map[string]int{}
		}
		for _, d := range ordered {
			if len(d) > st.largest1440[cs.proto] {
				st.largest1440[cs.proto] = len(d)
			}
		}
	}
	if len(ordered) > st.maxSeq {
		st.maxSeq = len(ordered)
	}
	lines := append([]string(nil), run.lines...)
	for _, d := range ordered {
		lines = append(lines, "datagram "+hx(d))
	}
	lines = append(lines, "charges "+i64List(run.charges), "emits "+i64List(run.emits))
	for _, l := range lines {
		if rep := c.Drv.Ask(l); rep != "ok" {
			st.fail(c, Failure{Kind: "bad-op", Clause: "protocol", Signature: suite + "-protocol", Line: l[:minInt(len(l), 300)], Reply: rep})
			c.Drv.Ask("end")
			return nil
		}
	}
	// coverage accounting
	for _, d := range ordered {
		nontriv := false
		if suite == "c12" { // a datagram within 600 bytes of the limit was closed because the next metric did not fit (names are at most 600 bytes)
			nontriv = len(d)+700 > int(cs.max)
			if nontriv {
				st.fullDatagrams++
			}
		} else {
			nontriv = len(ordered) > 1 || cs.collide
		}
		c.Cov.Eval(hx(d[:minInt(len(d), 64)])+fmt.Sprint(len(d)), nontriv)
	}
	c.Cov.Hit("proto." + cs.proto)
	c.Cov.Hit(fmt.Sprintf("dests.%d", cs.dests))
	c.Cov.Hit(fmt.Sprintf("queue.%d", cs.queue))
	for _, k := range cs.class {
		c.Cov.Hit("class." + k)
	}
	if len(ordered) > 128 {
		c.Cov.Hit("seq.gt128")
	}
	if len(ordered) > 16384 {
		c.Cov.Hit("seq.gt16384")
	}
	if cs.includeHost {
		c.Cov.Hit("include-host")
	}
	// the oracle
	q := "c12?"
	if suite == "c13" {
		q = "c13?"
	}
	reply := c.Drv.Ask(q)
	pairs, ok := m3ParseVerdicts(reply)
	if !ok {
		st.fail(c, Failure{Kind: "bad-op", Clause: "protocol", Signature: suite + "-protocol", Line: q + " " + desc, Reply: reply})
	}
	collisionSeen := false
	for _, p := range pairs {
		sig := m3Signature(suite, cs, p[0], p[1])
		if sig == "tag-cache-hash-collision" {
			collisionSeen = true
		}
		st.fail(c, Failure{Kind: "violated", Clause: p[0], Signature: sig, Line: desc, Reply: reply})
	}
	// model vs implementation
	mode := "multi"
	if cs.exact() {
		mode = "exact"
	}
	mrep := c.Drv.Ask("model? " + mode)
	c.Cov.Traces++
	switch {
	case mrep == "ok":
	case strings.HasPrefix(mrep, "differ "):
		for _, f := range strings.Fields(mrep)[1:] {
			aspect := strings.SplitN(f, ":", 2)[0]
			sig := "m3-model-" + aspect
			switch aspect {
			case "overhead", "free":
				if suite != "c12" {
					continue // C12's domain
				}
				sig = "envelope-overhead-undercharged"
			case "bucket-charge":
				if suite != "c12" {
					continue
				}
				sig = "histogram-bucket-tags-undercharged"
			case "bytes":
				if collisionSeen {
					sig = "tag-cache-hash-collision"
				}
			}
			st.fail(c, Failure{Kind: "differ", Clause: "model-vs-implementation", Signature: sig, Line: desc, Reply: f})
		}
	default:
		st.fail(c, Failure{Kind: "bad-op", Clause: "protocol", Signature: suite + "-protocol", Line: "model? " + desc, Reply: mrep})
	}
	c.Drv.Ask("end")
	for _, p := range pairs {
		if p[0] == "delivery" || p[0] == "decodes" || p[0] == "value-intact" {
			return nil // the tamper self-test needs a session whose delivery the oracle accepted
		}
	}
	return lines
}

func minInt(a, b int) int {
	if a < b {
		return a
	}
	return b
}

// the oracle must reject tampered observations: replay a judged session with one change
func m3Tamper(c *Ctx, suite string, lines []string, r *Rng) {
	if len(lines) == 0 {
		return
	}
	var reportIdx, dgIdx []int
	for i, l := range lines {
		if strings.HasPrefix(l, "report ") {
			reportIdx = append(reportIdx, i)
		}
		if strings.HasPrefix(l, "datagram ") {
			dgIdx = append(dgIdx, i)
		}
	}
	if len(reportIdx) == 0 || len(dgIdx) == 0 {
		return
	}
	kind := r.Intn(4)
	out := make([]string, 0, len(lines)+1)
	want := ""
	switch kind {
	case 0: // a report the datagrams do not contain
		i := reportIdx[r.Intn(len(reportIdx))]
		out = append(out, lines[:i+1]...)
		out = append(out, lines[i])
		out = append(out, lines[i+1:]...)
		want = "delivery:dropped"
	case 1: // a report line removed: its metric is unexpected
		i := reportIdx[r.Intn(len(reportIdx))]
		out = append(out, lines[:i]...)
		out = append(out, lines[i+1:]...)
		want = "delivery:unexpected"
	case 2: // a changed value
		i := reportIdx[r.Intn(len(reportIdx))]
		f := strings.Fields(lines[i])
		if f[0] == "report" {
			if len(f[3]) == 16 {
				f[3] = "4000000000000123"
			} else {
				f[3] = "424242"
			}
		} else {
			f[4] = "424242"
		}
		out = append(out, lines[:i]...)
		out = append(out, strings.Join(f, " "))
		out = append(out, lines[i+1:]...)
		want = "value-intact:value"
		if suite == "c12" {
			want = "" // C12 does not judge values
		}
	case 3: // a datagram with a trailing byte
		i := dgIdx[r.Intn(len(dgIdx))]
		out = append(out, lines[:i]...)
		out = append(out, lines[i]+"00")
		out = append(out, lines[i+1:]...)
		want = "decodes:datagram"
	}
	if want == "" {
		return
	}
	for _, l := range out {
		if rep := c.Drv.Ask(l); rep != "ok" {
			c.Drv.Ask("end")
			return
		}
	}
	q := "c12?"
	if suite == "c13" {
		q = "c13?"
	}
	reply := c.Drv.Ask(q)
	c.Drv.Ask("end")
	c.Cov.Hit("tamper." + strings.SplitN(want, ":", 2)[0])
	if !strings.Contains(reply, want) {
		c.Cov.Fail(Failure{Kind: "bad-op", Clause: "oracle-accepts-tampered-observation", Signature: suite + "-oracle-selftest", Line: want, Reply: reply[:minInt(len(reply), 200)]})
	}
}

func m3Suite(c *Ctx, suite string, n int) {
	pf := m3Profile{suite: suite, thorough: c.Thorough()}
	st := &m3Stats{}
	for i := 0; i < n; i++ {
		r := c.Rng.Fork()
		cs := m3GenCase(r, pf, i)
		t0 := time.Now()
		run := m3Exec(c, cs, r)
		t1 := time.Now()
		lines := m3Judge(c, suite, run, st)
		if os.Getenv("M3_TIMING") != "" {
			fmt.Fprintf(os.Stderr, "case %d exec=%v judge=%v reports=%d datagrams=%d class=%v\n", i, t1.Sub(t0), time.Since(t1), run.nReports, len(run.emits), cs.class)
		}
		if i%5 == 0 && len(lines) < 700 {
			m3Tamper(c, suite, lines, r)
		}
	}
	if suite == "c13" {
		for _, p := range []string{"c", "b"} {
			r := c.Rng.Fork()
			run := m3Exec(c, m3StaleCase(r, p), r)
			m3Judge(c, suite, run, st)
		}
	}
	c.Cov.Notes = append(c.Cov.Notes, fmt.Sprintf("%s: %d sessions, %d datagrams (%d within 700 bytes of the limit), %d reports, longest sequence number %d",
		suite, st.sessions, st.datagrams, st.fullDatagrams, st.reports, st.maxSeq),
		fmt.Sprintf("%s: largest datagram received for MaxPacketSizeBytes=1440: compact %d bytes, binary %d bytes", suite, st.largest1440["c"], st.largest1440["b"]))
}

func suiteC12(c *Ctx) {
	c.Cov.Rule = "sessions of the real m3 reporter against loopback UDP sinks: both protocols, MaxPacketSizeBytes from the constructor's minimum (probed) through 1440/8192/32768 to 65000, names 1-600 bytes, 0-8 tags (11-13 for the 13/14/15-tag edge; 9-16 in one session of seven), 0-6 extra common tags (9-14 in one session of ten), IncludeHost, value extremes, plain / histogram-only / mixed traffic, flushes at random positions, runs whose sequence number passes 128 (16384 thorough), 1 and 3 destinations, queue sizes 1..4096, 1-4 producer goroutines; one evaluation = one received datagram judged by Spec.C12 (length, per-metric charge vs bytes, envelope, batch sum) together with the hook-observed charges; nontrivial = the datagram is within 700 bytes of the limit (it was closed because the next metric did not fit); distinct by the datagram's first 64 bytes and length"
	m3Suite(c, "c12", c.N(110, 600))
}

func suiteC13(c *Ctx) {
	c.Cov.Rule = "sessions of the real m3 reporter against loopback UDP sinks: histories of Allocate*/Report*/Flush (histogram buckets through CachedHistogram.ValueBucket/DurationBucket handles, 1-20 bounds incl. duplicates and unsorted) from 1-4 goroutines followed by Close, any-byte names and tags, int64/float64 extremes and NaN payloads, both protocols, 1 and 3 destinations, queue sizes 1..4096, first report immediately after the constructor, tag maps built to collide under the hash formula (allocated in both orders), a handle allocated 260 ms before its first use; one evaluation = one received datagram, all of whose metrics are matched against the log by Spec.C13; nontrivial = the session produced more than one datagram or contains colliding tag maps; distinct by the datagram's first 64 bytes and length"
	m3Suite(c, "c13", c.N(120, 700))
}
