package main

import (
	"fmt"
	"math"
	"sort"
	"sync"
	"time"

	tally "github.com/uber-go/tally/v4"
	tstatsd "github.com/uber-go/tally/v4/statsd"
)

// c18conc: one StatsD reporter used from several goroutines at once (several root scopes sharing it, or report
// passes overlapping direct timer records).  Each goroutine reports its own, distinct histogram buckets,
// counters, gauges and timers.  Oracle: the multiset of client calls (kind, stat name, value, rate) equals the
// multiset produced by issuing the same calls one after the other on a fresh reporter with the same options
// (the sequential behaviour is what suite c18 compares with the Lean model): every value is forwarded exactly
// once under its own deterministic stat name, whatever runs at the same time.

func init() { register("c18conc", "C18", "", suiteC18Conc) }

func c18concCalls(g, n int) []func(tally.StatsReporter) {
	var out []func(tally.StatsReporter)
	for k := 0; k < n; k++ {
		k := k
		name := fmt.Sprintf("g%d.metric%d", g, k%3)
		switch k % 5 {
		case 0:
			out = append(out, func(r tally.StatsReporter) {
				r.ReportHistogramValueSamples(name, nil, nil, float64(g*100+k), float64(g*100+k)+0.5, int64(k+1))
			})
		case 1:
			out = append(out, func(r tally.StatsReporter) {
				r.ReportHistogramDurationSamples(name, nil, nil, time.Duration(g*1000+k)*time.Millisecond, time.Duration(g*1000+k+7)*time.Millisecond, int64(k+1))
			})
		case 2:
			out = append(out, func(r tally.StatsReporter) { r.ReportCounter(name, nil, int64(g*1000+k)) })
		case 3:
			out = append(out, func(r tally.StatsReporter) { r.ReportGauge(name, nil, float64(g*1000+k)-1500.5) })
		default:
			out = append(out, func(r tally.StatsReporter) { r.ReportTimer(name, nil, time.Duration(g*1000+k)*time.Microsecond) })
		}
	}
	return out
}

func runC18Conc(c *Ctx, r *Rng) {
	rate, _ := c18Rate(r)
	prec := c18Prec(r)
	nG := r.Range(2, 6)
	nCalls := r.Range(20, 200)
	opts := tstatsd.Options{SampleRate: rate, HistogramBucketNamePrecision: prec}
	render := func(cs []statCall) []string {
		out := make([]string, len(cs))
		for i, x := range cs {
			out[i] = fmt.Sprintf("%s|%s|%d|%08x|%d", x.kind, hxs(x.name), x.value, math.Float32bits(x.rate), x.ntags)
		}
		sort.Strings(out)
		return out
	}
	// reference: the same calls, one after the other, on a fresh reporter
	refSt := &recStatter{}
	ref := tstatsd.NewReporter(refSt, opts)
	for g := 0; g < nG; g++ {
		for _, f := range c18concCalls(g, nCalls) {
			f(ref)
		}
	}
	want := render(refSt.take())
	st := &recStatter{}
	rep := tstatsd.NewReporter(st, opts)
	var wg sync.WaitGroup
	start := make(chan struct{})
	for g := 0; g < nG; g++ {
		calls := c18concCalls(g, nCalls)
		wg.Add(1)
		go func() {
			defer wg.Done()
			<-start
			for _, f := range calls {
				f(rep)
			}
		}()
	}
	close(start)
	wg.Wait()
	got := render(st.take())
	line := fmt.Sprintf("goroutines=%d calls-each=%d precision=%d", nG, nCalls, prec)
	if len(got) != len(want) {
		c.Cov.Fail(Failure{Kind: "violated", Clause: "one-call-per-report", Signature: "c18-concurrent", Line: line, Reply: fmt.Sprintf("%d client calls for %d reports", len(got), len(want))})
		return
	}
	for i := range got {
		if got[i] != want[i] {
			c.Cov.Fail(Failure{Kind: "violated", Clause: "stat-name-and-value-as-sequential", Signature: "c18-concurrent", Line: line,
				Reply: fmt.Sprintf("client call %q has no counterpart in the sequential run (expected %q at this rank)", got[i], want[i])})
			return
		}
	}
	c.Cov.Eval(line, true)
}

func suiteC18Conc(c *Ctx) {
	c.Cov.Rule = "2-6 goroutines issue 20-200 distinct reports each (value and duration histogram buckets, counters, gauges, timers) through ONE StatsD reporter at the same time; oracle: multiset of client calls = multiset of the same reports issued sequentially on a fresh reporter with the same options; every case nontrivial; distinct by configuration"
	n := c.N(40, 600)
	for i := 0; i < n; i++ {
		runC18Conc(c, c.Rng.Fork())
	}
	c.Cov.Traces = c.Cov.Evaluations
}
