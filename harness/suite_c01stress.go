package main

import (
	"fmt"
	"sync"
	"sync/atomic"
	"time"

	tally "github.com/uber-go/tally/v4"
)

// Free-running search for C01 violations that need a window no schedule point splits: several
// incrementing goroutines against several goroutines running report passes at the same time.
// Oracle (model-independent): with positive increments no delivered delta is <= 0; after quiescence and
// two further passes each counter's deliveries add up to its increments; the last pass delivers nothing.
func c01Stress(c *Ctx, r *Rng) {
	cached := r.Bool()
	nCounters := r.Range(4, 32)
	w := newWorld(cached, 0, uint(r.Range(1, 4)), false)
	ctrs := make([]tally.Counter, nCounters)
	sums := make([]int64, nCounters)
	for i := range ctrs {
		ctrs[i] = w.root.Counter(fmt.Sprintf("c%d", i))
	}
	var wg sync.WaitGroup
	stop := make(chan struct{})
	for g := 0; g < 4; g++ {
		wg.Add(1)
		go func(g int) {
			defer wg.Done()
			for k := 0; ; k++ {
				select {
				case <-stop:
					return
				default:
				}
				i := (g*7 + k) % nCounters
				ctrs[i].Inc(1)
				atomic.AddInt64(&sums[i], 1)
			}
		}(g)
	}
	var pw sync.WaitGroup
	for g := 0; g < 4; g++ {
		pw.Add(1)
		go func() {
			defer pw.Done()
			for k := 0; k < 300; k++ {
				tally.VerifReportOnce(w.root)
			}
		}()
	}
	pw.Wait()
	close(stop)
	wg.Wait()
	tally.VerifReportOnce(w.root)
	tally.VerifReportOnce(w.root)
	before := len(w.log().Snapshot())
	tally.VerifReportOnce(w.root)
	idle := 0
	for _, e := range w.log().Snapshot()[before:] {
		if e.Kind == "counter" {
			idle++
		}
	}
	got := map[string]int64{}
	nonPos := 0
	for _, e := range w.log().Snapshot() {
		if e.Kind != "counter" {
			continue
		}
		name := e.Name
		if cached {
			name = w.recC.Meta[e.ID].Name
		}
		got[name] += e.I
		if e.I <= 0 {
			nonPos++
		}
	}
	desc := fmt.Sprintf("stress cached=%v counters=%d", cached, nCounters)
	if nonPos > 0 {
		c.Cov.Fail(Failure{Kind: "violated", Clause: "no-negative-delta", Signature: "c01-stress", Line: desc, Reply: fmt.Sprintf("%d non-positive deltas delivered although every increment was +1", nonPos)})
	}
	if idle > 0 {
		c.Cov.Fail(Failure{Kind: "violated", Clause: "idle-silent", Signature: "c01-stress", Line: desc, Reply: fmt.Sprintf("%d deliveries in a pass with no new increments", idle)})
	}
	for i := range ctrs {
		n := fmt.Sprintf("c%d", i)
		if got[n] != atomic.LoadInt64(&sums[i]) {
			c.Cov.Fail(Failure{Kind: "violated", Clause: "conservation", Signature: "c01-stress", Line: desc, Reply: fmt.Sprintf("%s: incremented %d delivered %d", n, sums[i], got[n])})
			break
		}
	}
	c.Cov.Eval(fmt.Sprintf("%s %d", desc, r.U64()), true)
	c.Cov.Hit("stress.runs")
	w.closer.Close()
	_ = time.Now
}
