package main

import (
	"fmt"
	"io"
	"runtime"
	"strconv"
	"strings"

	tally "github.com/uber-go/tally/v4"
)

// c09sub: concurrent first use of one SUBSCOPE identity.  2-3 threads ask a live parent for the same child
// (SubScope or Tagged) at the same time; the identity is either new, or that of a child that was closed and
// not yet collected by a report pass (it still holds unreported values), which every caller has to replace.
// Each thread is parked before the read lock, before the write lock, and in the removal hand-over of the
// closed child (all points where it holds no lock), then increments `hits` through the scope it got.
// Oracle: all callers received the same, live object; everything recorded (before the close, and through
// every returned handle) is delivered exactly once after two passes; a cached reporter allocated `hits`
// at most once per scope object.  2 threads exhaustively (DFS), 3 sampled.

func init() { register("c09sub", "C09", "", suiteC09Sub) }

// c09Churn: a closed, not yet collected child of ANOTHER identity sits in the (single) shard and one more thread runs a
// report pass that collects it while the first users are between their probe and their write lock: the shard loses a
// key while it gains one
var c09Churn bool

func runC09Sub(c *Ctx, ch Chooser, cached, tagged, reacquire bool, nThreads int) string {
	w := newWorld(cached, 0, 1, false)
	if c09Churn {
		z := w.root.SubScope("zz")
		w.inc(z.Counter("hits"), "zz.hits", 2)
		z.(io.Closer).Close()
		w.note("closed child zz holding 2")
	}
	obtain := func() tally.Scope {
		if tagged {
			return w.root.Tagged(map[string]string{"k": "v"})
		}
		return w.root.SubScope("x")
	}
	full := "x.hits"
	if tagged {
		full = "hits"
	}
	if reacquire {
		old := obtain()
		w.inc(old.Counter("hits"), full, 5)
		old.(io.Closer).Close()
		w.note("closed child holding 5")
	}
	s := NewSched(func(l string) bool {
		return l == "registry.subscope.pre-rlock" || l == "registry.subscope.pre-lock" || l == "registry.remove.pre-lock"
	})
	got := make([]tally.Scope, nThreads)
	var thrs []*Thr
	for i := 0; i < nThreads; i++ {
		i := i
		thrs = append(thrs, s.Spawn("T"+strconv.Itoa(i), func() {
			sc := obtain()
			got[i] = sc
			w.inc(sc.Counter("hits"), full, 1)
		}))
	}
	if c09Churn {
		thrs = append(thrs, s.Spawn("P", func() { tally.VerifReportOnce(w.root) }))
	}
	var trace []string
	for {
		var cand []*Thr
		for _, t := range thrs {
			if !t.Done {
				cand = append(cand, t)
			}
		}
		if len(cand) == 0 {
			break
		}
		t := cand[ch.Pick(len(cand))]
		to, _ := s.Step(t)
		trace = append(trace, t.Name+"@"+to)
		if to == "blocked" || to == "panic" {
			c.Cov.Fail(Failure{Kind: "crash", Clause: to, Signature: "c09-subscope", Line: strings.Join(trace, " "), Reply: fmt.Sprint(t.Pan)})
			s.Finish()
			return strings.Join(trace, " ")
		}
	}
	s.Finish()
	line := fmt.Sprintf("cached=%v tagged=%v closed-uncollected=%v threads=%d churn=%v schedule: %s", cached, tagged, reacquire, nThreads, c09Churn, strings.Join(trace, " "))
	fail := func(clause, why string) {
		c.Cov.Fail(Failure{Kind: "violated", Clause: clause, Signature: "c09-subscope", Line: line, Reply: why})
	}
	for i := 1; i < nThreads; i++ {
		if got[i] != got[0] {
			fail("all-callers-same-object", fmt.Sprintf("callers 0 and %d received different scope objects for one identity", i))
			return line
		}
	}
	tally.VerifReportOnce(w.root)
	tally.VerifReportOnce(w.root)
	w.trace = []string{line}
	if !w.checkConservation(c, "C09", "c09-subscope") {
		return line
	}
	if cached {
		allocs := 0
		for _, e := range w.recC.log.Snapshot() {
			if e.Kind == "alloc-counter" && e.Name == full {
				allocs++
			}
		}
		max := 1
		if reacquire {
			max = 2 // the closed child's own counter and the replacement's
		}
		if allocs > max {
			fail("allocate-at-most-once", fmt.Sprintf("AllocateCounter(%s) called %d times for %d scope object(s)", full, allocs, max))
		}
	}
	w.closer.Close()
	return line
}

// runC09Two: two threads obtain two DIFFERENT child identities whose registry keys have the same length
// (Tagged({shard: a000}) / Tagged({shard: b000})) at the same time, parked at the same hooks; identity a000 optionally
// that of a closed child not yet collected.  Run on ONE P (GOMAXPROCS(1)): whatever one call hands to a pool or a
// per-P cache is what the other call gets next.  Oracle: each caller's scope carries its own tags, a later request for
// either identity returns the object its first user got, and what was recorded through each is delivered under its tags.
func runC09Two(c *Ctx, ch Chooser, cached, reacquire bool) string {
	old := runtime.GOMAXPROCS(1)
	defer runtime.GOMAXPROCS(old)
	w := newWorld(cached, 0, 1, false)
	tagsOf := []map[string]string{{"shard": "a000"}, {"shard": "b000"}}
	want := map[string]int64{}
	if reacquire {
		o := w.root.Tagged(tagsOf[0])
		o.Counter("hits").Inc(5)
		want[mapHex(tagsOf[0])] += 5
		o.(io.Closer).Close()
	}
	s := NewSched(func(l string) bool {
		return l == "registry.subscope.pre-rlock" || l == "registry.subscope.pre-lock" || l == "registry.remove.pre-lock"
	})
	got := make([]tally.Scope, 2)
	var thrs []*Thr
	for i := 0; i < 2; i++ {
		i := i
		thrs = append(thrs, s.Spawn("T"+strconv.Itoa(i), func() {
			sc := w.root.Tagged(tagsOf[i])
			got[i] = sc
			sc.Counter("hits").Inc(int64(1 + i))
		}))
		want[mapHex(tagsOf[i])] += int64(1 + i)
	}
	var trace []string
	for {
		var cand []*Thr
		for _, t := range thrs {
			if !t.Done {
				cand = append(cand, t)
			}
		}
		if len(cand) == 0 {
			break
		}
		t := cand[ch.Pick(len(cand))]
		to, _ := s.Step(t)
		trace = append(trace, t.Name+"@"+to)
		if to == "blocked" || to == "panic" {
			c.Cov.Fail(Failure{Kind: "crash", Clause: to, Signature: "c09-two-identities", Line: strings.Join(trace, " "), Reply: fmt.Sprint(t.Pan)})
			s.Finish()
			return strings.Join(trace, " ")
		}
	}
	s.Finish()
	line := fmt.Sprintf("cached=%v a000-closed-uncollected=%v one P; T0 Tagged(shard:a000), T1 Tagged(shard:b000); schedule: %s", cached, reacquire, strings.Join(trace, " "))
	fail := func(clause, why string) {
		c.Cov.Fail(Failure{Kind: "violated", Clause: clause, Signature: "c09-two-identities", Line: line, Reply: why})
	}
	for i := 0; i < 2; i++ {
		if g := mapHex(tally.VerifScopeTags(got[i])); g != mapHex(tagsOf[i]) {
			fail("scope-carries-its-own-tags", fmt.Sprintf("caller %d asked for tags %s and received a scope with tags %s", i, mapHex(tagsOf[i]), g))
			return line
		}
		if again := w.root.Tagged(tagsOf[i]); again != got[i] {
			fail("same-identity-same-scope", fmt.Sprintf("a later Tagged(%s) returns another object (tags %s) than its first user received", mapHex(tagsOf[i]), mapHex(tally.VerifScopeTags(again))))
			return line
		}
	}
	tally.VerifReportOnce(w.root)
	tally.VerifReportOnce(w.root)
	sums := map[string]int64{}
	for _, e := range w.log().Snapshot() {
		if e.Kind == "counter" {
			tags := e.Tags
			if cached {
				tags = w.recC.Meta[e.ID].Tags
			}
			sums[mapHex(tags)] += e.I
		}
	}
	for k, v := range want {
		if sums[k] != v {
			fail("delivered-under-own-tags", fmt.Sprintf("tags %s: recorded %d, delivered %d (all deliveries by tags: %v)", k, v, sums[k], sums))
			return line
		}
	}
	w.closer.Close()
	return line
}

func suiteC09Sub(c *Ctx) {
	for _, cached := range []bool{false, true} {
		for _, re := range []bool{false, true} {
			d := &dfsChooser{}
			for n := 0; n < 3000; n++ {
				d.depth = 0
				line := runC09Two(c, d, cached, re)
				c.Cov.Eval(line, strings.Count(line, "@registry.subscope.pre-lock") >= 2)
				c.Cov.Schedules++
				if !d.Next() {
					break
				}
			}
		}
	}
	c.Cov.Rule = "2-3 threads ask a live parent for the same child scope (SubScope / Tagged; identity new, or that of a closed child not yet collected and still holding unreported values) at the same time, each parked before the read lock, before the write lock and in the removal hand-over; plain and cached reporter; oracle: one object for all callers, everything recorded delivered exactly once, at most one Allocate per scope object; all schedules for 2 threads (8 configurations, DFS), 3 threads sampled; 2 first users plus a report pass that collects a closed child of ANOTHER identity from the same shard in between (all schedules, 4 configurations; sampled with 3 threads); plus two threads obtaining two DIFFERENT identities with keys of equal length at the same time on one P (all schedules; each scope must carry its own tags and stay the object later requests return); nontrivial = two threads were between probe and write lock at the same time; distinct by schedule"
	for _, cached := range []bool{false, true} {
		for _, tagged := range []bool{false, true} {
			for _, re := range []bool{false, true} {
				d := &dfsChooser{}
				for n := 0; n < 20000; n++ {
					d.depth = 0
					line := runC09Sub(c, d, cached, tagged, re, 2)
					c.Cov.Eval(line, strings.Count(line, "@registry.subscope.pre-lock") >= 2)
					c.Cov.Schedules++
					if !d.Next() {
						break
					}
				}
			}
		}
	}
	// two first users and a pass collecting a closed child of another identity in the same shard (all schedules)
	c09Churn = true
	for _, cached := range []bool{false, true} {
		for _, tagged := range []bool{false, true} {
			d := &dfsChooser{}
			for n := 0; n < 20000; n++ {
				d.depth = 0
				line := runC09Sub(c, d, cached, tagged, false, 2)
				c.Cov.Eval(line, strings.Count(line, "@registry.subscope.pre-lock") >= 2)
				c.Cov.Schedules++
				if !d.Next() {
					break
				}
			}
		}
	}
	c09Churn = false
	n := c.N(100, 3000)
	for i := 0; i < n; i++ {
		r := c.Rng.Fork()
		c09Churn = r.Chance(30)
		line := runC09Sub(c, &randChooser{r: r}, r.Bool(), r.Bool(), r.Bool(), 3)
		c09Churn = false
		c.Cov.Eval(line, strings.Count(line, "@registry.subscope.pre-lock") >= 2)
		c.Cov.Schedules++
	}
	c.Cov.Notes = append(c.Cov.Notes, "all schedules of the 2-thread scenarios were enumerated; 3 threads sampled")
	c.Cov.Traces = c.Cov.Schedules
}
