package main

import (
	"context"
	"errors"
	"fmt"
	"io"
	"os"
	"strconv"
	"strings"
	"time"

	tally "github.com/uber-go/tally/v4"
	"github.com/uber-go/tally/v4/instrument"
)

func init() { register("c10instr", "C10", "scope", suiteC10Instr) }

// instrument.Call and stopwatches against the Lean oracle Spec.C10 (driver lines `exec`, `stopwatch`)
func suiteC10Instr(c *Ctx) {
	c.Cov.Rule = "instrument.NewCall(scope, name).Exec(f) with nil / non-nil errors on plain and cached roots and on subscopes, scripted clock (elapsed negative, zero, large), interleaved with report passes; stopwatches on timers and duration histograms; oracle Spec.C10.execHolds / stopwatchHolds on observed calls of f, returned error identity, latency events and counter deltas; nontrivial = error outcome, or elapsed <= 0, or a report pass between two Exec; distinct by (config, outcome, elapsed)"
	n := c.N(300, 4000)
	for i := 0; i < n; i++ {
		r := c.Rng.Fork()
		cached := r.Bool()
		sep := "."
		if r.Chance(40) {
			// the scope's own separator joins the call's name and "latency" (and the sub-scope's name), not the default one
			sep = []string{"_", ":", "-", "__"}[r.Intn(4)]
			c.Cov.Hit("exec.separator-" + sep)
		}
		worldSeparator = sep
		w := newWorld(cached, 0, uint(r.Range(1, 4)), false)
		worldSeparator = ""
		var sc tally.Scope = w.root
		prefix := ""
		if r.Bool() {
			sc = w.root.SubScope("svc")
			prefix = "svc" + sep
		}
		now := time.Unix(5000, 0)
		restore := tally.VerifSetNow(func() time.Time { return now })
		name := []string{"call", "rpc", "x"}[r.Intn(3)]
		call := instrument.NewCall(sc, name)
		scClosed := false
		if prefix != "" && r.Chance(35) {
			// the scope the Call was made from is closed by its owner (and collected by the passes below) while the Call
			// object lives on: every Exec still runs its function once, records one latency and counts one outcome
			sc.(io.Closer).Close()
			scClosed = true
			c.Cov.Hit("exec.scope-closed-after-newcall")
			if r.Bool() {
				tally.VerifReportOnce(w.root)
				w.log().Take()
			}
		}
		reps := r.Range(1, 3)
		for k := 0; k < reps; k++ {
			elapsed := int64(r.Range(-5, 2000)) * int64(time.Millisecond)
			if r.Chance(15) {
				elapsed = []int64{0, -1, 1, 1 << 50}[r.Intn(4)]
			}
			var errIn error
			errTok := "nil"
			if r.Bool() {
				errIn = errors.New("boom" + strconv.Itoa(k))
				errTok = strconv.Itoa(k + 1)
				if r.Chance(50) {
					// errors a caller might be tempted to treat specially: sentinel and wrapped context / io errors,
					// typed nil-like values; the property says ANY error comes back unchanged and counts as an error
					pool := []error{context.Canceled, context.DeadlineExceeded, io.EOF, io.ErrUnexpectedEOF, os.ErrNotExist,
						fmt.Errorf("wrapped: %w", context.Canceled), fmt.Errorf("wrapped: %w", io.EOF), errors.New("")}
					errIn = pool[r.Intn(len(pool))]
					c.Cov.Hit("exec.sentinel-or-wrapped-error")
				}
			}
			calls := 0
			w.log().Take()
			errOut := call.Exec(func() error {
				calls++
				now = now.Add(time.Duration(elapsed))
				return errIn
			})
			outTok := "nil"
			if errOut != nil {
				if errOut == errIn {
					outTok = errTok
				} else {
					outTok = "999"
				}
			}
			// latency events are immediate; counters need a pass
			var lats []int64
			collect := func() (succ, er int64) {
				for _, e := range w.log().Take() {
					nm, tags := e.Name, e.Tags
					if cached && e.Kind != "flush" && !strings.HasPrefix(e.Kind, "alloc") {
						m := w.recC.Meta[e.ID]
						nm, tags = m.Name, m.Tags
					}
					switch e.Kind {
					case "timer":
						if nm == prefix+name+sep+"latency" {
							lats = append(lats, e.I)
						} else {
							lats = append(lats, -777) // a timer event under a wrong name
						}
					case "counter":
						if nm == prefix+name && tags["result_type"] == "success" {
							succ += e.I
						} else if nm == prefix+name && tags["result_type"] == "error" {
							er += e.I
						} else {
							succ += 1000
						}
					}
				}
				return
			}
			collect()
			tally.VerifReportOnce(w.root)
			succ, er := collect()
			line := fmt.Sprintf("exec %s %d => %d %s %s %d %d", errTok, elapsed, calls, outTok, i64List(lats), succ, er)
			c.Cov.Eval(fmt.Sprintf("%v %s %d %d", cached, errTok, elapsed, k), errIn != nil || elapsed <= 0 || k > 0)
			c.Cov.Check(c.Drv, line, "c10-exec")
		}
		// one Call used re-entrantly (a recursive function instrumented with one Call): every Exec runs its function once
		// and records its OWN elapsed time - inner ones first
		{
			depth := r.Range(2, 4)
			ds := make([]int64, depth)
			for i := range ds {
				ds[i] = int64(r.Range(1, 500)) * int64(time.Millisecond)
			}
			w.log().Take()
			var rec func(level int) error
			runs := 0
			rec = func(level int) error {
				return call.Exec(func() error {
					runs++
					now = now.Add(time.Duration(ds[level]))
					if level+1 < depth {
						return rec(level + 1)
					}
					return nil
				})
			}
			errTop := rec(0)
			var got []int64
			for _, e := range w.log().Take() {
				if e.Kind == "timer" {
					got = append(got, e.I)
				}
			}
			// the innermost Exec stops first: its latency is ds[depth-1], the next ds[depth-2]+ds[depth-1], ...
			want := make([]int64, 0, depth)
			sum := int64(0)
			for i := depth - 1; i >= 0; i-- {
				sum += ds[i]
				want = append(want, sum)
			}
			c.Cov.Hit("exec.nested-on-one-call")
			if errTop != nil || runs != depth || fmt.Sprint(got) != fmt.Sprint(want) {
				c.Cov.Fail(Failure{Kind: "violated", Clause: "one-latency-recorded", Signature: "c10-nested-exec-on-one-call",
					Line:  fmt.Sprintf("cached=%v: one Call, Exec nested %d deep on one goroutine, the clock advancing %v inside the levels", cached, depth, ds),
					Reply: fmt.Sprintf("functions run %d times, error %v, latencies recorded %v, elapsed per Exec (inner first) %v", runs, errTop, got, want)})
			}
			tally.VerifReportOnce(w.root)
			w.log().Take()
		}
		// stopwatches
		if scClosed {
			sc = w.root // (a histogram first used on a closed scope is, as it should be, never reported)
		}
		tm := sc.Timer("t")
		h := sc.Histogram("h", tally.DurationBuckets{time.Millisecond, time.Second})
		start := now
		d := int64(r.Range(-3, 5000)) * int64(time.Millisecond)
		w.log().Take()
		sw := tm.Start()
		now = now.Add(time.Duration(d))
		sw.Stop()
		var rec []int64
		for _, e := range w.log().Take() {
			if e.Kind == "timer" {
				rec = append(rec, e.I)
			}
		}
		c.Cov.Check(c.Drv, fmt.Sprintf("stopwatch %d %d => %s", start.UnixNano(), now.UnixNano(), i64List(rec)), "c10-stopwatch-timer")
		sw2 := h.Start()
		now = now.Add(500 * time.Millisecond)
		sw2.Stop()
		tally.VerifReportOnce(w.root)
		nSamples := int64(0)
		for _, e := range w.log().Take() {
			if e.Kind == "hdur" || e.Kind == "samples" {
				nSamples += e.I
				if e.Kind == "hdur" && !(int64(e.LoD) == int64(time.Millisecond) && int64(e.HiD) == int64(time.Second)) {
					c.Cov.Fail(Failure{Kind: "violated", Clause: "stopwatch-elapsed", Signature: "c10-stopwatch-histogram", Line: fmt.Sprintf("500ms landed in (%v,%v]", e.LoD, e.HiD)})
				}
			}
		}
		if nSamples != 1 {
			c.Cov.Fail(Failure{Kind: "violated", Clause: "stopwatch-elapsed", Signature: "c10-stopwatch-histogram", Line: fmt.Sprintf("%d samples for one histogram stopwatch", nSamples)})
		}
		// a second stopwatch on the same histogram measures exactly a bound (1ms) after the one that landed above it: the
		// elapsed time belongs to the bucket whose UPPER bound it is
		{
			swb := h.Start()
			now = now.Add(time.Millisecond)
			swb.Stop()
			tally.VerifReportOnce(w.root)
			nb := int64(0)
			for _, e := range w.log().Take() {
				if e.Kind == "hdur" || e.Kind == "samples" {
					nb += e.I
					if (e.Kind == "hdur" && int64(e.HiD) != int64(time.Millisecond)) || (e.Kind == "samples" && e.Idx != 0) {
						c.Cov.Fail(Failure{Kind: "violated", Clause: "stopwatch-elapsed", Signature: "c10-stopwatch-histogram-on-a-bound",
							Line:  "duration histogram {1ms, 1s}: a stopwatch of 500ms, pass, then a stopwatch of exactly 1ms, pass",
							Reply: fmt.Sprintf("the elapsed 1ms was counted in bucket (%v,%v] (cached bucket index %d)", e.LoD, e.HiD, e.Idx)})
					}
				}
			}
			if nb != 1 {
				c.Cov.Fail(Failure{Kind: "violated", Clause: "stopwatch-elapsed", Signature: "c10-stopwatch-histogram-on-a-bound", Line: fmt.Sprintf("%d samples for one histogram stopwatch", nb)})
			}
		}
		// the wall clock is stepped between Start and Stop (the instants are what time.Now() returns then: monotonic
		// readings d2 apart, wall readings off by the step): the elapsed time is d2
		d2 := int64(r.Range(0, 5000)) * int64(time.Millisecond)
		if ws, ok := wallStepInstants(r, d2); ok {
			saved := now
			now = ws[0]
			w.log().Take()
			sw3 := tm.Start()
			now = ws[1]
			sw3.Stop()
			var rec3 []int64
			for _, e := range w.log().Take() {
				if e.Kind == "timer" {
					rec3 = append(rec3, e.I)
				}
			}
			now = saved
			c.Cov.Hit("stopwatch.wall-clock-stepped")
			c.Cov.Check(c.Drv, fmt.Sprintf("stopwatch 0 %d => %s", d2, i64List(rec3)), "c10-stopwatch-wall-clock-stepped-between-start-and-stop")
		}
		restore()
		w.closer.Close()
	}
}
