// Package racescope is compiled only by the race-detector run of the scope API (`go test -race -tags verif -c
// ./racescope`, see ../suite_racescope.go); it is not part of the harness binary.
package racescope

import (
	"fmt"
	"io"
	"sync"
	"sync/atomic"
	"testing"
	"time"

	tally "github.com/uber-go/tally/v4"
)

// thread-safe counting reporters (their own state is touched only through atomics, so every race the detector
// reports lies in the library or between the library and the caller's contract)
type plainRep struct{ calls int64 }

func (r *plainRep) ReportCounter(string, map[string]string, int64) { atomic.AddInt64(&r.calls, 1) }
func (r *plainRep) ReportGauge(string, map[string]string, float64) { atomic.AddInt64(&r.calls, 1) }
func (r *plainRep) ReportTimer(string, map[string]string, time.Duration) {
	atomic.AddInt64(&r.calls, 1)
}
func (r *plainRep) ReportHistogramValueSamples(string, map[string]string, tally.Buckets, float64, float64, int64) {
	atomic.AddInt64(&r.calls, 1)
}
func (r *plainRep) ReportHistogramDurationSamples(string, map[string]string, tally.Buckets, time.Duration, time.Duration, int64) {
	atomic.AddInt64(&r.calls, 1)
}
func (r *plainRep) Capabilities() tally.Capabilities { return caps{} }
func (r *plainRep) Flush()                           { atomic.AddInt64(&r.calls, 1) }

type caps struct{}

func (caps) Reporting() bool { return true }
func (caps) Tagging() bool   { return true }

type cachedRep struct{ calls int64 }
type handle struct{ r *cachedRep }

func (h handle) ReportCount(int64)         { atomic.AddInt64(&h.r.calls, 1) }
func (h handle) ReportGauge(float64)       { atomic.AddInt64(&h.r.calls, 1) }
func (h handle) ReportTimer(time.Duration) { atomic.AddInt64(&h.r.calls, 1) }
func (h handle) ReportSamples(int64)       { atomic.AddInt64(&h.r.calls, 1) }
func (h handle) ValueBucket(float64, float64) tally.CachedHistogramBucket {
	return h
}
func (h handle) DurationBucket(time.Duration, time.Duration) tally.CachedHistogramBucket { return h }

func (r *cachedRep) AllocateCounter(string, map[string]string) tally.CachedCount { return handle{r} }
func (r *cachedRep) AllocateGauge(string, map[string]string) tally.CachedGauge   { return handle{r} }
func (r *cachedRep) AllocateTimer(string, map[string]string) tally.CachedTimer   { return handle{r} }
func (r *cachedRep) AllocateHistogram(string, map[string]string, tally.Buckets) tally.CachedHistogram {
	return handle{r}
}
func (r *cachedRep) Capabilities() tally.Capabilities { return caps{} }
func (r *cachedRep) Flush()                           { atomic.AddInt64(&r.calls, 1) }

// workers hammer the whole scope API -- first uses of a small pool of names and subscopes (so that several goroutines
// race on every first use), recording, closing and re-obtaining subscopes -- against report passes, snapshots (test
// scope) and, at the end, the root's Close arriving while they are still at it.
func hammer(t *testing.T, root tally.Scope, closer io.Closer, snap func()) {
	var wg sync.WaitGroup
	stop := make(chan struct{})
	vb := tally.ValueBuckets{1, 2, 5}
	db := tally.DurationBuckets{time.Millisecond, time.Second}
	for g := 0; g < 6; g++ {
		wg.Add(1)
		go func(g int) {
			defer wg.Done()
			for i := 0; i < 400; i++ {
				var sc tally.Scope = root
				switch (i + g) % 4 {
				case 1:
					sc = root.SubScope(fmt.Sprintf("s%d", i%3))
				case 2:
					sc = root.Tagged(map[string]string{"k": fmt.Sprintf("v%d", i%3)})
				case 3:
					sc = root.SubScope("s0").Tagged(map[string]string{"k": "v"})
				}
				n := fmt.Sprintf("m%d", i%5)
				sc.Counter(n).Inc(1)
				sc.Gauge(n).Update(float64(i))
				sc.Timer(n).Record(time.Duration(i))
				sc.Histogram(n+"v", vb).RecordValue(float64(i % 7))
				sc.Histogram(n+"d", db).RecordDuration(time.Duration(i) * time.Millisecond)
				sw := sc.Timer(n).Start()
				sw.Stop()
				if i%37 == 5 && sc != root {
					if cl, ok := sc.(io.Closer); ok {
						cl.Close()
					}
				}
				_ = sc.Capabilities()
			}
		}(g)
	}
	wg.Add(1)
	go func() {
		defer wg.Done()
		for {
			select {
			case <-stop:
				return
			default:
			}
			tally.VerifReportOnce(root)
			if snap != nil {
				snap()
			}
		}
	}()
	time.Sleep(15 * time.Millisecond)
	closer.Close() // arrives while the workers are still recording
	close(stop)
	wg.Wait()
	closer.Close()
}

func TestScopeRacePlain(t *testing.T) {
	for shards := uint(1); shards <= 4; shards += 3 {
		root, closer := tally.VerifNewRootScope(tally.ScopeOptions{Reporter: &plainRep{}, Tags: map[string]string{"env": "t"}}, 200*time.Microsecond, shards)
		hammer(t, root, closer, nil)
	}
}

func TestScopeRaceCached(t *testing.T) {
	for shards := uint(1); shards <= 4; shards += 3 {
		root, closer := tally.VerifNewRootScope(tally.ScopeOptions{CachedReporter: &cachedRep{}, Prefix: "p"}, 200*time.Microsecond, shards)
		hammer(t, root, closer, nil)
	}
}

func TestScopeRaceTestScope(t *testing.T) {
	ts := tally.NewTestScope("p", map[string]string{"env": "t"})
	hammer(t, ts, ts.(io.Closer), func() {
		s := ts.Snapshot()
		for _, c := range s.Counters() {
			_ = c.Value()
			_ = c.Tags()["env"]
		}
		for _, tm := range s.Timers() {
			_ = len(tm.Values())
		}
		for _, h := range s.Histograms() {
			_ = len(h.Values()) + len(h.Durations())
		}
	})
}
