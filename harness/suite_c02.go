package main

import (
	"fmt"
	"math"
	"strconv"
	"strings"
	"time"

	tally "github.com/uber-go/tally/v4"
)

func init() { register("c02", "C02", "c02", suiteC02) }

var c02ValuePool = []float64{0, math.Copysign(0, -1), 1, -1, 3.5, math.Inf(1), math.Inf(-1), math.NaN(), math.Float64frombits(0x7ff8000000000123),
	math.Float64frombits(0xfff0000000000001), 5e-324, -5e-324, math.MaxFloat64, 1e-310,
	// bit patterns an implementation might reserve as a marker: all ones (a negative NaN), all ones but the sign, the sign alone
	math.Float64frombits(0xffffffffffffffff), math.Float64frombits(0x7fffffffffffffff), math.Float64frombits(0x8000000000000001), math.Float64frombits(0xfff8000000000000)}

type c02Scenario struct {
	name     string
	cached   bool
	updates  []float64
	visitors int
}

func c02ParkOn(l string) bool {
	return strings.HasPrefix(l, "gauge.update") || strings.HasPrefix(l, "gauge.report") || l == "rep.gauge"
}

func runC02(c *Ctx, sc c02Scenario, ch Chooser) (trace []string, failed bool) {
	var logp *Log
	opts := tally.ScopeOptions{OmitCardinalityMetrics: true}
	if sc.cached {
		rc := newRecCached()
		opts.CachedReporter = rc
		logp = rc.log
	} else {
		rp := newRec()
		opts.Reporter = rp
		logp = rp.log
	}
	root, closer := tally.VerifNewRootScope(opts, 0, 1)
	g := root.Gauge("g")
	logp.Take()
	// the entry of the reporter call is a schedule point: the value has been read, it is not yet delivered
	logp.Pre = func(e *Ev) {
		if e.Kind == "gauge" {
			hook("rep.gauge", u64hex(math.Float64bits(e.F)))
		}
	}
	d := c.Drv
	modelOn := true
	say := func(line string) {
		trace = append(trace, line)
		if !modelOn {
			return
		}
		rep := d.Ask(line)
		if rep == "ok" || strings.HasPrefix(rep, "ok ") {
			return
		}
		kind := "differ"
		if strings.HasPrefix(rep, "violated") {
			kind = "violated"
		} else if strings.HasPrefix(rep, "bad-op") {
			kind = "bad-op"
		}
		c.Cov.Fail(Failure{Kind: kind, Clause: strings.Join(strings.Fields(rep)[:min(2, len(strings.Fields(rep)))], " "), Signature: "c02-" + sc.name, Line: strings.Join(trace, " | "), Reply: rep})
		failed = true
		modelOn = false
	}
	say("begin")
	s := NewSched(c02ParkOn)
	var delivered, updatesDone []uint64
	takeG := func() []uint64 {
		var out []uint64
		for _, e := range logp.Take() {
			if e.Kind == "gauge" {
				out = append(out, math.Float64bits(e.F))
			}
		}
		return out
	}
	// the writer: all updates in one goroutine (totally ordered)
	nextUpd := 0
	w := s.Spawn("w", func() {
		for _, v := range sc.updates {
			g.Update(v)
		}
	})
	wLive := len(sc.updates) > 0
	if !wLive {
		s.Step(w)
	}
	type vis struct {
		t    *Thr
		live bool
		late bool // spawned after the updating goroutine had finished: "the first report pass that starts afterwards"
	}
	// the clause about the first pass after the updates have stopped, judged directly (no model): when a pass that
	// STARTED after the last update returns, the reporter's most recent value is the last update
	lateDone := func(v *vis) {
		if !v.late || failed || len(updatesDone) == 0 {
			return
		}
		last := updatesDone[len(updatesDone)-1]
		if len(delivered) == 0 || delivered[len(delivered)-1] != last {
			got := "nothing has been delivered"
			if len(delivered) > 0 {
				got = "the most recent delivery is " + u64hex(delivered[len(delivered)-1])
			}
			c.Cov.Fail(Failure{Kind: "violated", Clause: "latest-value", Signature: "c02-" + sc.name + "-late-pass", Line: strings.Join(trace, " | "),
				Reply: fmt.Sprintf("pass %s started after the last update (%s) and has returned; %s", v.t.Name, u64hex(last), got)})
			failed = true
		}
	}
	var viss []*vis
	for {
		type opt struct {
			kind string
			v    *vis
		}
		var opts []opt
		if wLive {
			opts = append(opts, opt{kind: "w"})
		}
		mutexFree := true
		if modelOn {
			mutexFree = d.Ask("canswap") == "ok yes"
		} else {
			// the model is out of step (a disagreement was reported): keep the schedule runnable by reading the
			// mutex off the hook positions: a reporter past its swap and before its visit end holds it
			for _, v := range viss {
				if v.live && (v.t.At == "gauge.report:1" || v.t.At == "rep.gauge") {
					mutexFree = false
				}
			}
		}
		for _, v := range viss {
			if v.live && (v.t.At != "gauge.report:0" || mutexFree) {
				opts = append(opts, opt{kind: "r", v: v})
			}
		}
		if len(viss) < sc.visitors {
			opts = append(opts, opt{kind: "spawn"})
		}
		if len(opts) == 0 {
			break
		}
		o := opts[ch.Pick(len(opts))]
		switch o.kind {
		case "w":
			label, _ := s.Step(w)
			switch label {
			case "gauge.update:0":
				if nextUpd > 0 && w.At == "gauge.update:0" {
				}
				say(fmt.Sprintf("w gauge.update:0 %s", f64hex(sc.updates[nextUpd])))
			case "gauge.update:1":
				updatesDone = append(updatesDone, math.Float64bits(sc.updates[nextUpd]))
				nextUpd++
				say("w gauge.update:1")
			case "done":
				say("w done")
				wLive = false
			default:
				c.Cov.Fail(Failure{Kind: "crash", Clause: label, Signature: "c02-" + sc.name, Line: strings.Join(trace, " | ")})
				failed, wLive = true, false
			}
		case "spawn":
			id := len(viss)
			t := s.Spawn("r"+strconv.Itoa(id), func() { tally.VerifReportOnce(root) })
			viss = append(viss, &vis{t: t, live: true, late: !wLive})
		case "r":
			v := o.v
			tid := v.t.Name[1:]
			before := v.t.At
			label, arg := s.Step(v.t)
			switch {
			case label == "blocked" || label == "panic":
				c.Cov.Fail(Failure{Kind: "crash", Clause: label, Signature: "c02-" + sc.name, Line: strings.Join(trace, " | ")})
				failed, v.live = true, false
			case label == "rep.gauge":
				say(fmt.Sprintf("r %s rep.gauge %s", tid, arg))
			case before == "rep.gauge":
				got := takeG()
				delivered = append(delivered, got...)
				if len(got) == 1 {
					say(fmt.Sprintf("r %s visit-end %s", tid, u64hex(got[0])))
				} else {
					say(fmt.Sprintf("r %s visit-end none%d", tid, len(got)))
				}
				v.live = label != "done"
				if !v.live {
					lateDone(v)
				}
			case label == "done":
				if before != "start" {
					say(fmt.Sprintf("r %s visit-end", tid))
				}
				v.live = false
				lateDone(v)
			default:
				say(fmt.Sprintf("r %s %s", tid, label))
			}
		}
	}
	s.Finish()
	tally.VerifReportOnce(root)
	a := takeG()
	delivered = append(delivered, a...)
	if modelOn {
		say("r 999 gauge.report:0")
		if len(a) == 0 {
			say("r 999 visit-end")
		} else {
			say("r 999 gauge.report:1")
			say(fmt.Sprintf("r 999 rep.gauge %s", u64hex(a[0])))
			say(fmt.Sprintf("r 999 visit-end %s", u64hex(a[0])))
		}
	}
	tally.VerifReportOnce(root)
	idle := takeG()
	closer.Close()
	h := func(us []uint64) string {
		out := make([]string, len(us))
		for i, u := range us {
			out[i] = u64hex(u)
		}
		return joinList(out)
	}
	line := fmt.Sprintf("holds? %s %s %s", h(updatesDone), h(delivered), h(idle))
	trace = append(trace, line)
	rep := d.Ask(line)
	if rep != "ok" {
		kind, clause := "differ", "model-books"
		if strings.HasPrefix(rep, "violated") {
			kind, clause = "violated", strings.Fields(rep)[1]
		}
		if modelOn || kind == "violated" {
			c.Cov.Fail(Failure{Kind: kind, Clause: clause, Signature: "c02-" + sc.name, Line: strings.Join(trace, " | "), Reply: rep})
			failed = true
		}
	}
	d.Ask("end")
	return
}

func suiteC02(c *Ctx) {
	c.Cov.Rule = "schedule-controlled executions of one updating goroutine (1-4 updates incl. NaN payloads, ±0, ±Inf, subnormals) against 1-3 report passes on one gauge, plain and cached reporter; each atomic step of the real code (value store, flag store, lock+swap, load, deliver) validated; a reporter is resumed at the mutex only when the model says it is free against the Lean model; oracle Spec.C02.holds on observed deliveries after one more solo pass; nontrivial = a reporter was parked between swap and load or between load and delivery, or a pass ran between the writer's two stores; distinct by step trace"
	start := time.Now()
	variants := []struct {
		name   string
		cached bool
	}{{"plain", false}, {"cached", true}}
	n := c.N(400, 4000)
	for i := 0; i < n; i++ {
		r := c.Rng.Fork()
		v := variants[i%2]
		sc := c02Scenario{name: v.name, cached: v.cached, visitors: r.Range(1, 3)}
		for k := r.Range(1, 4); k > 0; k-- {
			if r.Chance(60) {
				sc.updates = append(sc.updates, float64(r.Range(1, 50)))
			} else {
				sc.updates = append(sc.updates, c02ValuePool[r.Intn(len(c02ValuePool))])
			}
		}
		tr, _ := runC02(c, sc, &randChooser{r: r})
		c.Cov.Schedules++
		c.Cov.Traces++
		c.Cov.Hit("scenario." + v.name)
		key := strings.Join(tr, " | ")
		c.Cov.Eval(key, strings.Contains(key, "gauge.report:1") || strings.Contains(key, "gauge.update:1 | r"))
	}
	exh := []c02Scenario{{name: "exh-plain-1u2r", updates: []float64{1}, visitors: 2}}
	if c.Thorough() {
		exh = append(exh, c02Scenario{name: "exh-plain-2u2r", updates: []float64{1, 2}, visitors: 2}, c02Scenario{name: "exh-cached-2u2r", cached: true, updates: []float64{3, math.NaN()}, visitors: 2},
			c02Scenario{name: "exh-plain-1u3r", updates: []float64{7}, visitors: 3})
	}
	for _, sc := range exh {
		ch := &dfsChooser{}
		cnt := 0
		for {
			tr, _ := runC02(c, sc, ch)
			cnt++
			c.Cov.Schedules++
			c.Cov.Traces++
			c.Cov.Eval(strings.Join(tr, " | "), true)
			if !ch.Next() || cnt > 200000 || (!c.Thorough() && time.Since(start) > 40*time.Second) {
				break
			}
		}
		c.Cov.HitN("exhaustive."+sc.name+".schedules", cnt)
	}
}
