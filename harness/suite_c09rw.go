package main

import (
	"fmt"
	"strconv"
	"strings"
	"sync/atomic"
	"time"

	tally "github.com/uber-go/tally/v4"
)

// c09rw: lock-step validation of the real getters against Tally.GetOrCreateLock (the RW lock made explicit, the
// cached reporter's Allocate call a schedule point of its own that may panic).  Threads are parked between the
// read-locked probe and the write lock (hook scope.<kind>.pre-lock), INSIDE the reporter's Allocate call (the
// write lock is held there) and between calls; a report-pass thread is parked between passes.  One thread runs at a
// time.  While a thread sits inside Allocate, another thread is resumed on purpose: it has to block (the model's
// event must be disabled: `disabled …`); everywhere else a thread that does not arrive at its next park point is a
// deadlock (the model's event is enabled).  After every Allocate outcome (return, or panic recovered by the
// application) the blocked thread is collected and its steps are replayed on the model.  At the end: identities of
// the returned objects, number of Allocate calls and the threads whose call panicked are compared with the model.

func init() {
	register("c09rw", "C09", "c09lock", suiteC09RW)
}

var c09rwPanic int32

func runC09RW(c *Ctx, r *Rng, kind string, nThreads, reps, passes int, onSub bool, panicPct int, blockBudget int) (trace []string, nontrivial bool) {
	rc := newRecCached()
	var allocs int32
	rc.log.Pre = func(e *Ev) {
		if strings.HasPrefix(e.Kind, "alloc") && strings.HasSuffix(e.Name, "m") {
			atomic.AddInt32(&allocs, 1)
			hook("rep.alloc", "")
			if atomic.LoadInt32(&c09rwPanic) == 1 {
				panic("c09rw: allocation refused by the reporter")
			}
		}
	}
	root, closer := tally.VerifNewRootScope(tally.ScopeOptions{CachedReporter: rc, OmitCardinalityMetrics: true}, 0, 1)
	sc := root
	if onSub {
		sc = root.SubScope("s")
	}
	d := c.Drv
	failed := false
	sig := "c09rw-" + kind
	say := func(line string) {
		trace = append(trace, line)
		if failed {
			return
		}
		rep := d.Ask(line)
		if rep == "ok" || strings.HasPrefix(rep, "ok ") {
			return
		}
		k := "differ"
		if strings.HasPrefix(rep, "violated") {
			k = "violated"
		} else if strings.HasPrefix(rep, "bad-op") {
			k = "bad-op"
		}
		f := strings.Fields(rep)
		c.Cov.Fail(Failure{Kind: k, Clause: strings.Join(f[:min(2, len(f))], " "), Signature: sig, Line: strings.Join(trace, " | "), Reply: rep})
		failed = true
	}
	crash := func(clause, why string) {
		if failed {
			return
		}
		c.Cov.Fail(Failure{Kind: "crash", Clause: clause, Signature: sig, Line: strings.Join(trace, " | "), Reply: why})
		failed = true
	}
	say("begin")
	label := "scope." + kind + ".pre-lock"
	s := NewSched(nil)
	s.ParkOnT = func(th, l string) bool {
		return l == label || l == "c09.call" || l == "rep.alloc" || l == "pass.call"
	}
	got := make([]interface{}, nThreads)      // what the thread's last call returned
	panicked := make([]interface{}, nThreads) // what the thread's last call panicked with
	use := func() interface{} {
		switch kind {
		case "counter":
			m := sc.Counter("m")
			m.Inc(1)
			return m
		case "gauge":
			m := sc.Gauge("m")
			m.Update(1)
			return m
		case "timer":
			return sc.Timer("m")
		default:
			m := sc.Histogram("m", tally.ValueBuckets{1, 2})
			m.RecordValue(1.5)
			return m
		}
	}
	var thrs []*Thr
	for i := 0; i < nThreads; i++ {
		i := i
		thrs = append(thrs, s.Spawn("T"+strconv.Itoa(i), func() {
			for k := 0; k < reps; k++ {
				if k > 0 {
					hook("c09.call", "")
				}
				got[i], panicked[i] = nil, nil
				var m interface{}
				_, pv := catch(func() { m = use() })
				got[i], panicked[i] = m, pv
			}
		}))
	}
	pIdx := nThreads
	thrs = append(thrs, s.Spawn("P", func() {
		for k := 0; k < passes; k++ {
			hook("pass.call", "")
			tally.VerifReportOnce(root)
		}
	}))
	isName := func(e Ev) bool {
		if e.Kind != "counter" && e.Kind != "gauge" && e.Kind != "timer" && e.Kind != "samples" {
			return false
		}
		return e.ID >= 0 && e.ID < len(rc.Meta) && strings.HasSuffix(rc.Meta[e.ID].Name, "m")
	}
	classes := map[interface{}]int{}
	var results, pans []string
	writer, blocked := -1, -1
	blockedFrom := ""
	logMark := 0
	returned := func(i int) {
		if panicked[i] != nil {
			crash("no-panic", fmt.Sprintf("thread %d: the call panicked although the reporter did not: %v", i, panicked[i]))
			return
		}
		say(fmt.Sprintf("expect %d returned", i))
		if _, ok := classes[got[i]]; !ok {
			classes[got[i]] = len(classes)
		}
		results = append(results, fmt.Sprintf("%d:%d", i, classes[got[i]]))
		say(fmt.Sprintf("ev finish %d", i))
	}
	// translate what thread i did between the park point `from` and the park point `to`
	translate := func(i int, from, to string) {
		if i == pIdx {
			if from == "start" || kind == "timer" {
				return // (a pass does not visit timers: they are handed to the reporter when they are recorded)
			}
			say(fmt.Sprintf("ev passLock %d", i))
			say(fmt.Sprintf("ev passUnlock %d", i))
			what := "any"
			for _, e := range rc.log.Snapshot()[logMark:] {
				if isName(e) {
					what = "some"
				}
			}
			say(fmt.Sprintf("seen %d %s", i, what))
			return
		}
		switch from {
		case "start", "c09.call":
			say(fmt.Sprintf("ev probeLock %d", i))
			say(fmt.Sprintf("ev probeUnlock %d", i))
			if to == label {
				say(fmt.Sprintf("expect %d missed", i))
			} else {
				returned(i)
			}
		case label:
			say(fmt.Sprintf("ev lock %d", i))
			say(fmt.Sprintf("ev recheck %d", i))
			if to == "rep.alloc" {
				say(fmt.Sprintf("expect %d allocating", i))
				writer = i
			} else {
				returned(i)
			}
		case "rep.alloc":
			if panicked[i] != nil {
				say(fmt.Sprintf("ev allocPanic %d", i))
				say(fmt.Sprintf("expect %d panicked", i))
				pans = append(pans, strconv.Itoa(i))
				say(fmt.Sprintf("ev finish %d", i))
				nontrivial = true
			} else {
				say(fmt.Sprintf("ev allocReturn %d", i))
				returned(i)
			}
		}
	}
	firstEvent := func(i int, from string) string {
		if i == pIdx {
			return "passLock"
		}
		if from == label {
			return "lock"
		}
		return "probeLock"
	}
	for !failed {
		var cand []int
		for i, t := range thrs {
			if !t.Done && i != blocked {
				cand = append(cand, i)
			}
		}
		if len(cand) == 0 {
			break
		}
		if writer >= 0 && (blocked >= 0 || blockBudget == 0) {
			cand = []int{writer}
		}
		i := cand[r.Intn(len(cand))]
		t := thrs[i]
		from := t.At
		touchesLock := !(i == pIdx && (from == "start" || kind == "timer"))
		if from == "rep.alloc" {
			v := int32(0)
			if r.Chance(panicPct) {
				v = 1
			}
			atomic.StoreInt32(&c09rwPanic, v)
		}
		logMark = len(rc.log.Snapshot())
		if writer >= 0 && i != writer && touchesLock {
			// the write lock is held by the thread inside Allocate: this thread has to block
			s.Timeout = 120 * time.Millisecond
			to, _ := s.Step(t)
			if to == "blocked" {
				say(fmt.Sprintf("disabled %s %d", firstEvent(i, from), i))
				blocked, blockedFrom = i, from
				blockBudget--
				nontrivial = true
				continue
			}
			// it went through although the write lock is held: the model rejects the step below
			translate(i, from, to)
			continue
		}
		s.Timeout = 20 * time.Second
		to, _ := s.Step(t)
		if to == "panic" {
			trace = append(trace, fmt.Sprintf("thread %d resumed at %s: panic", i, from))
			crash("no-panic", fmt.Sprintf("thread %d (parked at %q, next step %s) panicked: %v", i, from, firstEvent(i, from), t.Pan))
			break
		}
		if to == "blocked" {
			trace = append(trace, fmt.Sprintf("thread %d resumed at %s: %s", i, from, to))
			crash("no-deadlock", fmt.Sprintf("thread %d (parked at %q, next step %s) did not arrive anywhere within 20 s although no thread is inside Allocate: a lock is still held", i, from, firstEvent(i, from)))
			break
		}
		translate(i, from, to)
		if from == "rep.alloc" {
			if writer == i {
				writer = -1
			}
			if blocked >= 0 {
				b := blocked
				blocked = -1
				to2, _ := s.Step(thrs[b])
				if to2 == "panic" {
					trace = append(trace, fmt.Sprintf("blocked thread %d after the Allocate call ended: panic", b))
					crash("no-panic", fmt.Sprintf("thread %d panicked: %v", b, thrs[b].Pan))
					break
				}
				if to2 == "blocked" {
					trace = append(trace, fmt.Sprintf("blocked thread %d after the Allocate call ended: %s", b, to2))
					crash("no-deadlock", fmt.Sprintf("thread %d, blocked in front of %s while thread %d was inside Allocate, is still blocked 20 s after that call ended", b, firstEvent(b, blockedFrom), i))
					break
				}
				translate(b, blockedFrom, to2)
			}
		}
	}
	atomic.StoreInt32(&c09rwPanic, 0)
	s.Finish()
	if !failed {
		lst := func(l []string) string {
			if len(l) == 0 {
				return "-"
			}
			return strings.Join(l, ",")
		}
		say(fmt.Sprintf("final %s %d %s", lst(results), atomic.LoadInt32(&allocs), strings.ReplaceAll(lst(pans), ",", ";")))
		d.Ask("end")
	}
	done := make(chan struct{})
	go func() {
		defer close(done)
		catch(func() {
			tally.VerifReportOnce(root)
			closer.Close()
		})
	}()
	select {
	case <-done:
	case <-time.After(8 * time.Second):
		crash("no-deadlock", "the final report pass and Close are stuck 8 s after the run")
	}
	return
}

func suiteC09RW(c *Ctx) {
	c.Cov.Rule = "lock-step against Tally.GetOrCreateLock: 2-3 threads ask one scope (root or subscope, cached reporter) for the same counter/gauge/timer/histogram 1-2 times each, a fourth thread runs 1-3 report passes; park points: between probe and write lock, INSIDE the reporter's Allocate call (write lock held; the call then returns or panics, the application recovers), between calls, between passes; while a thread is inside Allocate another one is resumed on purpose and has to block (model: event disabled), anywhere else a thread that does not arrive is a deadlock (model: event enabled); every step replayed on the model (enabledness, pc, what a pass read), at the end returned identities, Allocate calls started and panicked threads compared; nontrivial = a thread was blocked by the lock or an Allocate call panicked; distinct by trace"
	kinds := []string{"counter", "gauge", "timer", "histogram"}
	n := c.N(36, 300)
	for i := 0; i < n; i++ {
		r := c.Rng.Fork()
		budget := 2
		if c.Thorough() {
			budget = 3
		}
		tr, nt := runC09RW(c, r, kinds[i%4], r.Range(2, 3), r.Range(1, 2), r.Range(1, 3), r.Bool(), []int{0, 35, 60}[r.Intn(3)], budget)
		key := strings.Join(tr, " | ")
		c.Cov.Eval(key, nt)
		if strings.Contains(key, "disabled") {
			c.Cov.Hit("blocked-by-the-write-lock")
		}
		if strings.Contains(key, "allocPanic") {
			c.Cov.Hit("allocate-panicked")
		}
		if strings.Contains(key, "seen "+"3 some") || strings.Contains(key, "seen 2 some") {
			c.Cov.Hit("pass-read-the-object")
		}
		c.Cov.Schedules++
		c.Cov.Traces++
	}
}
