package main

import (
	"fmt"
	"strconv"
	"strings"
	"sync"

	tally "github.com/uber-go/tally/v4"
)

// c02race: "the first report pass that starts after the last Update delivers that value" when the first
// uses of one gauge name race.  2-4 threads call scope.Gauge("g") (parked between the read-locked probe and
// the write lock of scope.Gauge) and then Update their own value through the handle they got; updates never
// overlap (one updating goroutine at a time, as the property assumes), their global order is the order of the
// scheduler steps.  Afterwards one report pass runs (or, on a reporter-less test scope, a snapshot is taken).
// Oracle: exactly one gauge delivery under the name, carrying the value of the LAST update; a second pass
// delivers nothing.  2 threads are enumerated exhaustively, 3-4 sampled.

func init() { register("c02race", "C02", "", suiteC02Race) }

func runC02Race(c *Ctx, ch Chooser, kind string, nThreads int, onSub bool) string {
	var root tally.Scope
	var rec *recReporter
	var recC *recCached
	var ts tally.TestScope
	switch kind {
	case "plain":
		rec = newRec()
		root, _ = tally.VerifNewRootScope(tally.ScopeOptions{Reporter: rec, OmitCardinalityMetrics: true}, 0, 1)
	case "cached":
		recC = newRecCached()
		root, _ = tally.VerifNewRootScope(tally.ScopeOptions{CachedReporter: recC, OmitCardinalityMetrics: true}, 0, 1)
	default:
		ts = tally.VerifNewTestScope("", nil, 1)
		root = ts
	}
	sc := root
	full := "g"
	if onSub {
		sc = root.SubScope("a")
		full = "a.g"
	}
	s := NewSched(func(l string) bool { return l == "scope.gauge.pre-lock" || l == "c02.update" })
	var mu sync.Mutex
	var order []float64
	var thrs []*Thr
	for i := 0; i < nThreads; i++ {
		v := float64(i + 1)
		thrs = append(thrs, s.Spawn("T"+strconv.Itoa(i), func() {
			g := sc.Gauge("g")
			hook("c02.update", "")
			g.Update(v)
			mu.Lock()
			order = append(order, v)
			mu.Unlock()
		}))
	}
	var trace []string
	for {
		var cand []*Thr
		for _, t := range thrs {
			if !t.Done {
				cand = append(cand, t)
			}
		}
		if len(cand) == 0 {
			break
		}
		t := cand[ch.Pick(len(cand))]
		to, _ := s.Step(t)
		trace = append(trace, t.Name+"@"+to)
		if to == "blocked" || to == "panic" {
			c.Cov.Fail(Failure{Kind: "crash", Clause: to, Signature: "c02-race-" + kind, Line: strings.Join(trace, " "), Reply: fmt.Sprint(t.Pan)})
			s.Finish()
			return strings.Join(trace, " ")
		}
	}
	s.Finish()
	last := order[len(order)-1]
	line := fmt.Sprintf("kind=%s threads=%d sub=%v updates in order %v; schedule: %s", kind, nThreads, onSub, order, strings.Join(trace, " "))
	fail := func(clause, why string) {
		c.Cov.Fail(Failure{Kind: "violated", Clause: clause, Signature: "c02-race-" + kind, Line: line, Reply: why})
	}
	collect := func() []float64 {
		var got []float64
		switch kind {
		case "plain":
			for _, e := range rec.log.Take() {
				if e.Kind == "gauge" && e.Name == full {
					got = append(got, e.F)
				}
			}
		case "cached":
			for _, e := range recC.log.Take() {
				if e.Kind == "gauge" && recC.Meta[e.ID].Name == full {
					got = append(got, e.F)
				}
			}
		}
		return got
	}
	if kind == "test" {
		var got []float64
		for _, g := range ts.Snapshot().Gauges() {
			if g.Name() == full {
				got = append(got, g.Value())
			}
		}
		if len(got) != 1 || got[0] != last {
			fail("latest-value", fmt.Sprintf("snapshot shows gauge %s = %v, the last update was %v", full, got, last))
		}
		return line
	}
	tally.VerifReportOnce(root)
	got := collect()
	if len(got) == 0 || got[len(got)-1] != last {
		fail("latest-value", fmt.Sprintf("the pass after the last update delivered %v for %s, the last update was %v", got, full, last))
		return line
	}
	if len(got) > nThreads {
		fail("count-le-updates", fmt.Sprintf("%d deliveries for %d updates", len(got), nThreads))
	}
	tally.VerifReportOnce(root)
	if again := collect(); len(again) != 0 {
		fail("no-redelivery", fmt.Sprintf("a pass with no new update delivered %v", again))
	}
	if cl, ok := root.(interface{ Close() error }); ok {
		cl.Close()
	}
	return line
}

func suiteC02Race(c *Ctx) {
	c.Cov.Rule = "2-4 threads make the first use of one gauge name at the same time (each parked between scope.Gauge's read-locked probe and its write lock, and again before its Update) on a plain, a cached and a reporter-less test scope, root and subscope; the updates themselves never overlap; oracle: the pass after the last update delivers (last) the last update's value, a further pass delivers nothing, a test scope's snapshot shows the last value; all schedules for 2 threads (DFS), sampled for 3-4; nontrivial = two threads parked before the write lock at the same time; distinct by schedule"
	for _, kind := range []string{"test", "plain", "cached"} {
		for _, onSub := range []bool{false, true} {
			d := &dfsChooser{}
			for n := 0; n < 5000; n++ {
				d.depth = 0
				line := runC02Race(c, d, kind, 2, onSub)
				c.Cov.Eval(line, strings.Count(line, "@scope.gauge.pre-lock") >= 2)
				c.Cov.Schedules++
				if !d.Next() {
					break
				}
			}
		}
	}
	n := c.N(150, 3000)
	for i := 0; i < n; i++ {
		r := c.Rng.Fork()
		kind := []string{"test", "plain", "cached"}[r.Intn(3)]
		line := runC02Race(c, &randChooser{r: r}, kind, r.Range(3, 4), r.Bool())
		c.Cov.Eval(line, strings.Count(line, "@scope.gauge.pre-lock") >= 2)
		c.Cov.Schedules++
	}
	c.Cov.Notes = append(c.Cov.Notes, "all schedules of the 2-thread scenarios were enumerated (6 configurations); 3-4 threads sampled")
	c.Cov.Traces = c.Cov.Schedules
}
