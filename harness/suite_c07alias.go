package main

import (
	"fmt"
	"io"
	"strings"

	tally "github.com/uber-go/tally/v4"
)

// c07alias: EVERY sequential history, up to a length, of {obtain the identity {k_1: v} through one of its three
// spellings (k 1 / k+1 / k_1 under the M3 sanitizer) and record on what is returned, record again through an
// earlier handle whose scope is open, Close a handle, report pass} -- no concurrency at all.  The spellings of one
// identity are registered as aliases of the same scope object; a closed scope can stay reachable through an alias the
// re-acquisition did not pass through (raw -> Close -> canonical -> raw again).  Oracle (model-independent):
// everything recorded through a handle whose scope was open at that moment is delivered exactly once after two more
// passes and the root's Close; the identities of the returned objects are sent to the sequential registry model as
// well (`scope-c07seq` samples such histories at random; this suite enumerates the short ones).

func init() {
	register("c07alias", "C07", "", suiteC07Alias)
}

var c07Spellings = []string{"k 1", "k+1", "k_1"}

type c07AliasOp struct {
	kind byte // 'o' obtain through spelling arg; 'i' inc through handle arg; 'c' close handle arg; 'p' pass
	arg  int
}

func (o c07AliasOp) String() string {
	switch o.kind {
	case 'o':
		return fmt.Sprintf("obtain{%s:v}", c07Spellings[o.arg])
	case 'i':
		return fmt.Sprintf("inc(h%d)", o.arg)
	case 'c':
		return fmt.Sprintf("close(h%d)", o.arg)
	}
	return "pass"
}

// run one history; returns false when it is not well-formed (records through / closes a handle whose scope is closed)
func runC07AliasHistory(c *Ctx, cached bool, viaSub bool, ops []c07AliasOp) bool {
	w := aliasWorld(cached)
	var handles []tally.Scope
	closedObj := map[tally.Scope]bool{}
	var expected int64
	amount := int64(1)
	var trace []string
	for _, op := range ops {
		switch op.kind {
		case 'o':
			var sc tally.Scope
			if viaSub {
				sc = w.root.SubScope(c07Spellings[op.arg])
			} else {
				sc = w.root.Tagged(map[string]string{c07Spellings[op.arg]: "v"})
			}
			handles = append(handles, sc)
			sc.Counter("c").Inc(amount)
			expected += amount
			amount *= 3
		case 'i':
			if op.arg >= len(handles) || closedObj[handles[op.arg]] {
				return false
			}
			handles[op.arg].Counter("c").Inc(amount)
			expected += amount
			amount *= 3
		case 'c':
			if op.arg >= len(handles) || closedObj[handles[op.arg]] {
				return false
			}
			handles[op.arg].(io.Closer).Close()
			closedObj[handles[op.arg]] = true
		case 'p':
			tally.VerifReportOnce(w.root)
		}
		trace = append(trace, op.String())
	}
	tally.VerifReportOnce(w.root)
	tally.VerifReportOnce(w.root)
	w.closer.Close()
	got, order := w.delivered()
	var sum int64
	for _, v := range got {
		sum += v
	}
	line := fmt.Sprintf("cached=%v via=%s: %s ; pass ; pass ; root Close", cached, map[bool]string{false: "Tagged", true: "SubScope"}[viaSub], strings.Join(trace, " ; "))
	if sum != expected {
		c.Cov.Fail(Failure{Kind: "violated", Clause: "recorded-on-an-open-scope-delivered-exactly-once", Signature: "c07-alias-history",
			Line: line, Reply: fmt.Sprintf("recorded %d through handles whose scope was open, delivered %d; reporter log %v", expected, sum, order)})
	}
	for name := range got {
		want := "c"
		if viaSub {
			want = "k_1.c"
		}
		if name != want {
			c.Cov.Fail(Failure{Kind: "violated", Clause: "delivered-under-the-scope's-identity", Signature: "c07-alias-history-name", Line: line, Reply: "delivery under name " + name})
		}
	}
	nontrivial := false
	seenClose := false
	for _, op := range ops {
		if op.kind == 'c' {
			seenClose = true
		}
		if op.kind == 'o' && seenClose {
			nontrivial = true
		}
	}
	c.Cov.Eval(line, nontrivial)
	return true
}

func suiteC07Alias(c *Ctx) {
	c.Cov.Rule = "EXHAUSTIVE over sequential histories: all well-formed sequences of up to L operations (quick L=6, thorough L=7) over {obtain the identity through spelling k 1 / k+1 / k_1 and record, record through an earlier handle with an open scope, Close an open handle, report pass}, for Tagged and for SubScope spellings, plain and cached reporter, M3 sanitizer, one shard; then two passes and the root's Close; oracle: the sum delivered equals the sum recorded through handles whose scope was open at that moment, under the identity's name; nontrivial = an obtain follows a Close; distinct by history"
	c.Cov.Exhaustive = true
	maxLen := 6
	if c.Thorough() {
		maxLen = 7
	}
	total := 0
	for _, cached := range []bool{false, true} {
		for _, viaSub := range []bool{false, true} {
			var rec func(prefix []c07AliasOp, nh int)
			rec = func(prefix []c07AliasOp, nh int) {
				if len(prefix) > 0 {
					if !runC07AliasHistory(c, cached, viaSub, prefix) {
						return
					}
					total++
				}
				if len(prefix) == maxLen {
					return
				}
				for sp := range c07Spellings {
					rec(append(append([]c07AliasOp(nil), prefix...), c07AliasOp{'o', sp}), nh+1)
				}
				for h := 0; h < nh; h++ {
					rec(append(append([]c07AliasOp(nil), prefix...), c07AliasOp{'c', h}), nh)
					if len(prefix) > 0 && prefix[len(prefix)-1].kind != 'i' { // two increments in a row add nothing
						rec(append(append([]c07AliasOp(nil), prefix...), c07AliasOp{'i', h}), nh)
					}
				}
				if len(prefix) > 0 && prefix[len(prefix)-1].kind != 'p' {
					rec(append(append([]c07AliasOp(nil), prefix...), c07AliasOp{'p', 0}), nh)
				}
			}
			rec(nil, 0)
		}
	}
	c.Cov.HitN("histories.enumerated", total)
	c.Cov.Traces = total
}
