package main

import (
	"fmt"
	"math"
	"runtime"
	"sort"
	"strconv"
	"strings"
	"sync"
	"sync/atomic"
	"time"

	tally "github.com/uber-go/tally/v4"
)

// C20 — bucket constructors are exact and a histogram keeps the bounds it was given.
//
//	c20ctor  (a) differential on the four constructors and their Must variants
//	         (c) BucketPairs leaves the caller's slice alone
//	c20cache (b) histories of histogram creations under one root with colliding bucket sets,
//	             from 1 goroutine (cache model threaded by the driver) and from 8 goroutines
func init() {
	register("c20ctor", "C20", "c20", suiteC20Ctor)
	register("c20cache", "C20", "c20", suiteC20Cache)
}

// ---------------------------------------------------------------- (a) constructors

var c20Floats = []float64{0, math.Copysign(0, -1), 1, -1, 0.5, 2, 0.1, 0.2, 0.30000000000000004, 1.5, 3, 10, 100, 1e-3,
	5e-324, -5e-324, 2.2250738585072014e-308, 1e-300, 1e300, -1e300, math.MaxFloat64, -math.MaxFloat64,
	math.Inf(1), math.Inf(-1), math.NaN(), math.Float64frombits(0x7ff0000000000001), math.Float64frombits(0xfff8000000000123),
	1e15, 9007199254740993, 123456.789, -2.5, 1e9}

var c20Factors = []float64{1, math.Nextafter(1, 2), math.Nextafter(1, 0), 1.0000001, 1.1, 1.5, 2, 2.5, 3, 10, 1e3, 1e18, 1e300,
	0.5, 0, math.Copysign(0, -1), -2, -1, math.Inf(1), math.Inf(-1), math.NaN(), math.Float64frombits(0xfff8000000000001),
	math.MaxFloat64, 5e-324, 1.9999999999999998, 4, 7.3}

var c20Ints = []int64{0, 1, -1, 2, 3, 10, 1000, 1e6, 25e6, 1e9, -1e9, 60e9, 1 << 40, 1 << 61, 1 << 62, (1 << 62) + 1,
	math.MaxInt64, math.MinInt64, math.MaxInt64 - 1, math.MinInt64 + 1, -1 << 62, 7, 1e12, 1e18}

func c20N(r *Rng) int {
	switch r.Intn(20) {
	case 0, 1, 2:
		return r.Range(-3, 0)
	case 3, 4, 5, 6, 7:
		return r.Range(1, 3)
	case 8, 9, 10, 11, 12, 13, 14, 15:
		return r.Range(4, 20)
	default:
		return r.Range(21, 70)
	}
}

func c20Float(r *Rng) float64 {
	switch r.Intn(6) {
	case 0, 1, 2:
		return c20Floats[r.Intn(len(c20Floats))]
	case 3:
		return math.Float64frombits(r.U64())
	case 4:
		return float64(r.Range(-1000, 1000)) / 8
	default:
		return float64(r.Range(-20, 20))
	}
}

func c20Factor(r *Rng) float64 {
	switch r.Intn(6) {
	case 0, 1, 2:
		return c20Factors[r.Intn(len(c20Factors))]
	case 3:
		return 1 + float64(r.Range(1, 3000))/1000
	case 4:
		return math.Float64frombits(r.U64())
	default:
		return math.Float64frombits(math.Float64bits(1) + r.U64()%(1<<54)) // (1, 4)
	}
}

func c20Int(r *Rng) int64 {
	switch r.Intn(6) {
	case 0, 1, 2:
		return c20Ints[r.Intn(len(c20Ints))]
	case 3:
		return int64(r.U64())
	case 4:
		return int64(r.Range(-1000, 1000)) * 1e6
	default:
		return int64(r.Range(-20, 20))
	}
}

func c20ErrTok(err error) string {
	if err == nil {
		return ""
	}
	switch err.Error() {
	case "n needs to be > 0":
		return "count"
	case "start needs to be > 0":
		return "start"
	case "factor needs to be > 1":
		return "factor"
	}
	return "other"
}

// c20Res renders (result, err) resp. a Must outcome for the protocol.
func c20Res(list string, err error, errWord string) string {
	if err != nil {
		return errWord + ":" + c20ErrTok(err)
	}
	return "ok:" + list
}

func dursToI64(d tally.DurationBuckets) []int64 {
	out := make([]int64, len(d))
	for i, v := range d {
		out[i] = int64(v)
	}
	return out
}

// c20DomainN truncates n so that every product that becomes an element of
// ExponentialDurationBuckets(start, factor, n) is finite and within ±2^62: the stated domain of the
// differential (Go's float64→int64 conversion is implementation-defined outside the int64 range).
func c20DomainN(start int64, factor float64, n int) (int, bool) {
	if n <= 1 || start <= 0 || factor <= 1 {
		return n, false
	}
	curr := start
	for i := 1; i < n; i++ {
		p := float64(curr) * factor
		if math.IsNaN(p) || math.IsInf(p, 0) || math.Abs(p) > 1<<62 {
			return i, true
		}
		curr = int64(p)
	}
	return n, false
}

func c20NClass(n int) string {
	switch {
	case n < 0:
		return "negative"
	case n == 0:
		return "0"
	case n == 1:
		return "1"
	case n <= 20:
		return "2-20"
	}
	return "21-70"
}

func c20ArgClass(guard string, nan bool) string {
	switch {
	case guard != "":
		return "guard-" + guard
	case nan:
		return "nan-arg"
	}
	return "ok"
}

func c20GuardV(start, factor float64, n int, exp bool) string {
	switch {
	case n <= 0:
		return "count"
	case exp && start <= 0:
		return "start"
	case exp && factor <= 1:
		return "factor"
	}
	return ""
}

func c20CtorCase(c *Ctx, r *Rng) {
	kind := []string{"lv", "ld", "ev", "ed"}[r.Intn(4)]
	n := c20N(r)
	var req, plain, mustTok, class string
	var panicVal interface{}
	fail := func(what string) {
		c.Cov.Fail(Failure{Kind: "crash", Clause: "no-panic", Signature: "ctor-" + kind + "-" + what, Line: req, Detail: fmt.Sprint(panicVal)})
	}
	mustOutcome := func(f func() string) (string, bool) {
		var list string
		p, v := catch(func() { list = f() })
		if !p {
			return "ok:" + list, true
		}
		if e, ok := v.(error); ok && c20ErrTok(e) != "other" {
			return "panic:" + c20ErrTok(e), true
		}
		panicVal = v
		return "", false
	}
	nontrivial := n >= 2
	switch kind {
	case "lv", "ev":
		a := c20Float(r)
		b := c20Float(r)
		if kind == "ev" {
			b = c20Factor(r)
			if r.Chance(60) && !(a > 0) { // most exponential cases should get past the start guard
				a = math.Abs(a)
				if a == 0 || math.IsNaN(a) {
					a = 1.25
				}
			}
		}
		req = fmt.Sprintf("ctor %s %s %s %d", kind, f64hex(a), f64hex(b), n)
		guard := c20GuardV(a, b, n, kind == "ev")
		class = c20ArgClass(guard, math.IsNaN(a) || math.IsNaN(b))
		var res tally.ValueBuckets
		var err error
		p, v := catch(func() {
			if kind == "lv" {
				res, err = tally.LinearValueBuckets(a, b, n)
			} else {
				res, err = tally.ExponentialValueBuckets(a, b, n)
			}
		})
		if p {
			panicVal = v
			fail("plain-panicked")
			return
		}
		if err != nil && c20ErrTok(err) == "other" {
			c.Cov.Fail(Failure{Kind: "violated", Clause: "error-kind", Signature: "ctor-" + kind + "-unknown-error", Line: req, Detail: err.Error()})
			return
		}
		plain = c20Res(f64List(res), err, "err")
		for i := range res { // the caller owns what it was given: it goes on to use the slice (here: rescales it in place) before asking again
			res[i] = res[i]*1000 + 1
		}
		var ok bool
		mustTok, ok = mustOutcome(func() string {
			if kind == "lv" {
				return f64List(tally.MustMakeLinearValueBuckets(a, b, n))
			}
			return f64List(tally.MustMakeExponentialValueBuckets(a, b, n))
		})
		if !ok {
			fail("must-panicked-with-non-error")
			return
		}
		nontrivial = nontrivial || guard != ""
	case "ld":
		a, b := c20Int(r), c20Int(r)
		req = fmt.Sprintf("ctor ld %d %d %d", a, b, n)
		guard := c20GuardV(1, 2, n, false)
		class = c20ArgClass(guard, false)
		var res tally.DurationBuckets
		var err error
		p, v := catch(func() { res, err = tally.LinearDurationBuckets(time.Duration(a), time.Duration(b), n) })
		if p {
			panicVal = v
			fail("plain-panicked")
			return
		}
		plain = c20Res(i64List(dursToI64(res)), err, "err")
		for i := range res { // the caller owns what it was given (see above)
			res[i] = res[i]*1000 + 1
		}
		var ok bool
		mustTok, ok = mustOutcome(func() string {
			return i64List(dursToI64(tally.MustMakeLinearDurationBuckets(time.Duration(a), time.Duration(b), n)))
		})
		if !ok {
			fail("must-panicked-with-non-error")
			return
		}
		nontrivial = nontrivial || guard != ""
		if n >= 2 && !c20Fits(a, b, int64(n-1)) {
			c.Cov.Hit("ctor.ld.wraps-around")
		}
	case "ed":
		a := c20Int(r)
		if r.Chance(70) && a <= 0 {
			a = int64(r.Range(1, 2000)) * []int64{1, 1e3, 1e6, 1e9}[r.Intn(4)]
		}
		b := c20Factor(r)
		var cut bool
		n, cut = c20DomainN(a, b, n)
		if cut {
			c.Cov.Hit("ctor.ed.n-truncated-to-domain")
		}
		req = fmt.Sprintf("ctor ed %d %s %d", a, f64hex(b), n)
		guard := c20GuardV(float64(1), b, n, true)
		if n > 0 && a <= 0 {
			guard = "start"
		}
		class = c20ArgClass(guard, math.IsNaN(b))
		var res tally.DurationBuckets
		var err error
		p, v := catch(func() { res, err = tally.ExponentialDurationBuckets(time.Duration(a), b, n) })
		if p {
			panicVal = v
			fail("plain-panicked")
			return
		}
		plain = c20Res(i64List(dursToI64(res)), err, "err")
		for i := range res { // the caller owns what it was given (see above)
			res[i] = res[i]*1000 + 1
		}
		var ok bool
		mustTok, ok = mustOutcome(func() string {
			return i64List(dursToI64(tally.MustMakeExponentialDurationBuckets(time.Duration(a), b, n)))
		})
		if !ok {
			fail("must-panicked-with-non-error")
			return
		}
		nontrivial = n >= 2 || guard != ""
		if err == nil && n >= 2 {
			for i := 1; i < len(res); i++ {
				if float64(res[i]) != float64(res[i-1])*b {
					c.Cov.Hit("ctor.ed.truncation-inexact")
					break
				}
			}
		}
	}
	c.Cov.Hit("ctor." + kind + "." + class)
	c.Cov.Hit("ctor.n." + c20NClass(n))
	c.Cov.Eval(req, nontrivial)
	c.Cov.Check(c.Drv, req+" => "+plain+" "+mustTok, "ctor-"+kind+"-"+class)
}

// c20Fits tells (roughly) whether start + k*width fits an int64; only labels the distribution.
func c20Fits(start, width, k int64) bool {
	hi := float64(start) + float64(width)*float64(k)
	return hi < 9.2e18 && hi > -9.2e18
}

// ---------------------------------------------------------------- (c) BucketPairs purity

func c20PurityCase(c *Ctx, r *Rng) {
	if r.Bool() {
		spec := genValueSpec(r)
		switch r.Intn(4) {
		case 0:
			sort.Sort(sort.Reverse(sort.Float64Slice(spec)))
		case 1:
			sort.Float64s(spec)
		}
		// the caller's slice is a prefix of a longer array it still uses (coarse := fine[:k]): nothing behind the
		// slice's length may be written either
		guard := math.Float64frombits(0x7ff8dead0000beef)
		full := append(append([]float64(nil), spec...), guard, guard, guard)
		spec = full[:len(spec):len(full)]
		before := f64List(spec)
		tally.BucketPairs(tally.ValueBuckets(spec))
		for _, g := range full[len(spec):] {
			if math.Float64bits(g) != math.Float64bits(guard) {
				c.Cov.Fail(Failure{Kind: "violated", Clause: "caller-unchanged", Signature: "pairs-wrote-behind-caller-slice", Line: "pairs v " + before,
					Reply: fmt.Sprintf("BucketPairs wrote %s into the caller's backing array behind the slice it was given", f64hex(g))})
				break
			}
		}
		c.Cov.Hit("purity.value." + lenClass(len(spec)))
		c.Cov.Eval("caller pairs v "+before, !isSortedF(spec) && len(spec) > 1)
		c.Cov.Check(c.Drv, "caller pairs v "+before+" => "+f64List(spec), "pairs-mutated-caller-slice")
	} else {
		spec := genDurSpec(r)
		switch r.Intn(4) {
		case 0:
			sort.Slice(spec, func(i, j int) bool { return spec[i] > spec[j] })
		case 1:
			sort.Slice(spec, func(i, j int) bool { return spec[i] < spec[j] })
		}
		const guardD = time.Duration(-0x0dead0000beef)
		fullD := append(toDurs(spec), guardD, guardD, guardD)
		db := fullD[:len(spec):len(fullD)]
		before := i64List(spec)
		tally.BucketPairs(db)
		for _, g := range fullD[len(spec):] {
			if g != guardD {
				c.Cov.Fail(Failure{Kind: "violated", Clause: "caller-unchanged", Signature: "pairs-wrote-behind-caller-slice", Line: "pairs d " + before,
					Reply: fmt.Sprintf("BucketPairs wrote %d into the caller's backing array behind the slice it was given", int64(g))})
				break
			}
		}
		c.Cov.Hit("purity.duration." + lenClass(len(spec)))
		sorted := sort.SliceIsSorted(spec, func(i, j int) bool { return spec[i] < spec[j] })
		c.Cov.Eval("caller pairs d "+before, !sorted && len(spec) > 1)
		c.Cov.Check(c.Drv, "caller pairs d "+before+" => "+i64List(dursToI64(db)), "pairs-mutated-caller-slice")
	}
}

func suiteC20Ctor(c *Ctx) {
	c.Cov.Rule = "(a) LinearValue/LinearDuration/ExponentialValue/ExponentialDuration buckets and their MustMake variants on n in -3..70 and starts/widths/factors from pools (0, -0, negatives, 1±ulp, NaN, ±Inf, subnormals, MaxFloat64, Min/MaxInt64, random bit patterns); ExponentialDuration cases have n truncated so that every product that becomes an element stays within ±2^62 (domain of the float→int conversion); every element compared bit for bit (NaN payloads excepted) with the Lean model on native floats, error/panic iff guard; nontrivial when a guard fires or n >= 2 (the recurrence is exercised); distinct by (constructor, arguments). (c) BucketPairs on random/sorted/reversed specs of 0..64 bounds, caller's slice compared before/after; nontrivial when the slice is unsorted"
	n := c.N(2500, 40000)
	for i := 0; i < n; i++ {
		c20CtorCase(c, c.Rng.Fork())
	}
	m := c.N(300, 4000)
	for i := 0; i < m; i++ {
		c20PurityCase(c, c.Rng.Fork())
	}
	// malformed line: the driver must refuse, never default
	if rep := c.Drv.Ask("ctor ed 5 7ff8000000000000 3 => ok:5;0;0 ok:5;0;0"); !strings.HasPrefix(rep, "bad-op") {
		c.Cov.Fail(Failure{Kind: "bad-op", Clause: "protocol", Signature: "driver-accepted-out-of-domain-line", Line: "ctor ed 5 NaN 3", Reply: rep})
	}
}

// ---------------------------------------------------------------- (b) histories against the bucket cache

// c20Spec is one bucket specification: kind 'v' with float bit patterns, or 'd' with int64s
// (both kept as the uint64 that the identity hash consumes).
type c20Spec struct {
	kind byte
	bits []uint64
}

func (s c20Spec) tok() string {
	if s.kind == 'd' {
		out := make([]int64, len(s.bits))
		for i, b := range s.bits {
			out[i] = int64(b)
		}
		return i64List(out)
	}
	out := make([]string, len(s.bits))
	for i, b := range s.bits {
		out[i] = u64hex(b)
	}
	return joinList(out)
}
func (s c20Spec) key() string { return string(s.kind) + " " + s.tok() }

// the harness's own rendering of the identity formula (seed 23, fold 31, wrapping uint64, 0 for the
// empty set); cross-checked against the Lean model by `ident` lines, used to build colliding sets.
func (s c20Spec) ident() uint64 {
	if len(s.bits) == 0 {
		return 0
	}
	acc := uint64(23)
	for _, b := range s.bits {
		acc += b * 31
	}
	return acc
}

var c20EmptySpelling uint32

// fresh tally.Buckets backed by its own slice
func (s c20Spec) buckets() tally.Buckets {
	if len(s.bits) == 0 && atomic.AddUint32(&c20EmptySpelling, 1)%2 == 0 {
		// a bound-less set spelled as a typed nil slice (`var set tally.ValueBuckets`): still a specification of
		// its own (one bucket over the whole line), not a request for the default buckets
		if s.kind == 'd' {
			return tally.DurationBuckets(nil)
		}
		return tally.ValueBuckets(nil)
	}
	if s.kind == 'd' {
		out := make(tally.DurationBuckets, len(s.bits))
		for i, b := range s.bits {
			out[i] = time.Duration(int64(b))
		}
		return out
	}
	out := make(tally.ValueBuckets, len(s.bits))
	for i, b := range s.bits {
		out[i] = math.Float64frombits(b)
	}
	return out
}

func (s c20Spec) finite() bool {
	if s.kind == 'd' {
		return true
	}
	for _, b := range s.bits {
		f := math.Float64frombits(b)
		if math.IsNaN(f) || math.IsInf(f, 0) {
			return false
		}
	}
	return true
}

// what bucketsEqual decides (same kind, same length, element-wise ==)
func c20Equal(a, b c20Spec) bool {
	if a.kind != b.kind || len(a.bits) != len(b.bits) {
		return false
	}
	for i := range a.bits {
		if a.kind == 'd' {
			if a.bits[i] != b.bits[i] {
				return false
			}
		} else if math.Float64frombits(a.bits[i]) != math.Float64frombits(b.bits[i]) {
			return false
		}
	}
	return true
}

func c20Perm(r *Rng, bits []uint64) []uint64 {
	out := append([]uint64(nil), bits...)
	for i := len(out) - 1; i > 0; i-- {
		j := r.Intn(i + 1)
		out[i], out[j] = out[j], out[i]
	}
	return out
}

func c20BaseBits(r *Rng, kind byte, n int) []uint64 {
	out := make([]uint64, n)
	for i := range out {
		if kind == 'd' {
			switch r.Intn(5) {
			case 0:
				out[i] = uint64(c03DurPool[r.Intn(len(c03DurPool))])
			case 1:
				out[i] = uint64(int64(r.Range(-5, 9)))
			case 2:
				out[i] = r.U64()
			default:
				out[i] = uint64(int64(r.Range(0, 2000)) * 1e6)
			}
		} else {
			var f float64
			switch r.Intn(5) {
			case 0:
				f = c03ValuePool[r.Intn(len(c03ValuePool))]
			case 1:
				f = float64(r.Range(-5, 9))
			case 2:
				f = math.Float64frombits(r.U64())
				if math.IsNaN(f) || math.IsInf(f, 0) {
					f = 0.75
				}
			default:
				f = float64(r.Range(-1000, 1000)) / 8
			}
			out[i] = math.Float64bits(f)
		}
	}
	return out
}

// c20Family builds a set of specs that collide in the cache by construction.
func c20Family(c *Ctx, r *Rng) []c20Spec {
	kind := byte('d')
	if r.Bool() {
		kind = 'v'
	}
	var fam []c20Spec
	add := func(s c20Spec) {
		if s.finite() {
			fam = append(fam, s)
		}
	}
	switch r.Intn(8) {
	case 0: // permutations of one set
		c.Cov.Hit("family.permutations")
		base := c20BaseBits(r, kind, r.Range(2, 9))
		add(c20Spec{kind, base})
		for i := r.Range(2, 4); i > 0; i-- {
			add(c20Spec{kind, c20Perm(r, base)})
		}
		rev := append([]uint64(nil), base...)
		sort.Slice(rev, func(i, j int) bool { return rev[i] > rev[j] })
		add(c20Spec{kind, rev})
	case 1: // equal sums of bit patterns: move d from one element to another ({1,4} vs {2,3})
		c.Cov.Hit("family.equal-sum")
		base := c20BaseBits(r, kind, r.Range(2, 7))
		add(c20Spec{kind, base})
		for k := r.Range(2, 5); k > 0; k-- {
			m := append([]uint64(nil), base...)
			i, j := r.Intn(len(m)), r.Intn(len(m))
			if i == j {
				j = (i + 1) % len(m)
			}
			d := uint64(r.Range(1, 1000))
			if kind == 'd' && r.Chance(30) {
				d = r.U64()
			}
			m[i] += d
			m[j] -= d
			add(c20Spec{kind, m})
			if r.Bool() {
				add(c20Spec{kind, c20Perm(r, m)})
			}
		}
	case 2: // the literal example and relatives of different lengths: {1,4} {2,3} {5} {0,5} {1,1,3} {4,1}
		c.Cov.Hit("family.1-4-vs-2-3")
		for _, l := range [][]uint64{{1, 4}, {2, 3}, {5}, {0, 5}, {1, 1, 3}, {4, 1}, {3, 2}, {0, 0, 5}, {2, 2, 1}} {
			add(c20Spec{'d', l})
			if r.Bool() {
				add(c20Spec{'v', l}) // the floats with those bit patterns (subnormals): value vs duration collision
			}
		}
	case 3: // a value set and a duration set with the same identity
		c.Cov.Hit("family.value-vs-duration")
		base := c20BaseBits(r, 'd', r.Range(1, 6))
		for i := range base { // keep the float with the same bits finite
			if (base[i]>>52)&0x7ff == 0x7ff {
				base[i] &^= 1 << 62
			}
		}
		add(c20Spec{'d', base})
		add(c20Spec{'v', base})
		add(c20Spec{'v', c20Perm(r, base)})
		add(c20Spec{'d', c20Perm(r, base)})
	case 4: // sets differing only in the sign of zeros
		c.Cov.Hit("family.signed-zeros")
		pz, nz := uint64(0), uint64(1)<<63
		x, y := math.Float64bits(float64(r.Range(1, 9))), math.Float64bits(-float64(r.Range(1, 9))/4)
		for _, l := range [][]uint64{{pz, pz}, {nz, nz}, {pz, nz}, {nz, pz}, {pz, nz, x}, {nz, pz, x}, {pz, pz, x, y}, {nz, nz, y, x},
			{nz, nz, x, y}, {pz, x}, {nz, x}, {x, pz, pz}, {x, nz, nz}} {
			add(c20Spec{'v', l})
		}
	case 5: // empty sets of both kinds, and single-bucket relatives
		c.Cov.Hit("family.empty")
		add(c20Spec{'v', nil})
		add(c20Spec{'d', nil})
		add(c20Spec{'d', []uint64{0}})
		add(c20Spec{'v', []uint64{0}})
		// non-empty sets whose identity is the empty set's (0): 23 + 31*(sum of bit patterns) = 0 mod 2^64
		var inv31 uint64 = 1
		for k := 0; k < 6; k++ { // Newton iteration for the inverse of 31 modulo 2^64
			inv31 *= 2 - 31*inv31
		}
		neg23 := ^uint64(22) // -23 modulo 2^64
		target := neg23 * inv31
		for k := 0; k < 3; k++ {
			a := r.U64() >> uint(r.Range(1, 40))
			z := c20Spec{'d', []uint64{a, target - a}}
			if z.ident() == 0 {
				add(z)
				c.Cov.Hit("family.identity-of-the-empty-set")
			}
			x := math.Float64bits(float64(r.Range(1, 1000)) / 8)
			y := target - x
			if (y>>52)&0x7ff != 0x7ff {
				if zv := (c20Spec{'v', []uint64{x, y}}); zv.ident() == 0 {
					add(zv)
				}
			}
		}
	case 6: // identical sets (legitimate sharing) mixed with one intruder
		c.Cov.Hit("family.identical-plus-intruder")
		base := c20BaseBits(r, kind, r.Range(1, 8))
		add(c20Spec{kind, base})
		add(c20Spec{kind, append([]uint64(nil), base...)})
		if len(base) >= 2 {
			m := append([]uint64(nil), base...)
			m[0] += 7
			m[1] -= 7
			add(c20Spec{kind, m})
		}
		add(c20Spec{kind, append([]uint64(nil), base...)})
	default: // larger sets (beyond insertion-sort sizes), permuted and sum-shifted
		c.Cov.Hit("family.large")
		base := c20BaseBits(r, kind, r.Range(13, 40))
		add(c20Spec{kind, base})
		add(c20Spec{kind, c20Perm(r, base)})
		m := c20Perm(r, base)
		m[0] += 3
		m[len(m)-1] -= 3
		add(c20Spec{kind, m})
	}
	if len(fam) == 0 {
		fam = append(fam, c20Spec{'d', []uint64{1, 4}}, c20Spec{'d', []uint64{2, 3}})
	}
	return fam
}

// c20Observed is what one created histogram was seen to use.
type c20Observed struct {
	uppers string
	counts string
	bitsOK bool // value histograms: the multiset of upper-bound bit patterns is spec ++ [max]
}

// c20Collect extracts, for handle id, the bucket upper bounds (in bucket order) from alloc-time events.
func c20Uppers(evs []Ev, id int, kind byte) (string, []uint64) {
	type b struct {
		idx  int
		bits uint64
	}
	var bs []b
	for _, e := range evs {
		if e.ID != id {
			continue
		}
		switch e.Kind {
		case "bucket-v":
			bs = append(bs, b{e.Idx, math.Float64bits(e.HiF)})
		case "bucket-d":
			bs = append(bs, b{e.Idx, uint64(int64(e.HiD))})
		}
	}
	sort.Slice(bs, func(i, j int) bool { return bs[i].idx < bs[j].idx })
	bits := make([]uint64, len(bs))
	for i, x := range bs {
		bits[i] = x.bits
	}
	return c20Spec{kind, bits}.tok(), bits
}

// c20Record records one sample on every bound of the spec and one on the maximum.
func c20Record(c *Ctx, sig, line string, h tally.Histogram, s c20Spec) {
	rec := func(b uint64) {
		p, v := catch(func() {
			if s.kind == 'd' {
				h.RecordDuration(time.Duration(int64(b)))
			} else {
				h.RecordValue(math.Float64frombits(b))
			}
		})
		if p { // a sample on one of the histogram's own bounds found no bucket
			c.Cov.Fail(Failure{Kind: "violated", Clause: "bounds-used-for-placement", Signature: sig + "-record-panicked", Line: line, Detail: fmt.Sprint(v)})
		}
	}
	for _, b := range s.bits {
		rec(b)
	}
	if s.kind == 'd' {
		rec(uint64(math.MaxInt64))
	} else {
		rec(math.Float64bits(math.MaxFloat64))
	}
}

// c20Counts renders the per-bucket counts delivered for handle id among the events of a report pass.
func c20Counts(evs []Ev, id int, nb int) string {
	got := make([]int64, nb)
	for _, e := range evs {
		if e.Kind == "samples" && e.ID == id && e.Idx >= 0 && e.Idx < nb {
			got[e.Idx] += e.I
		}
	}
	counts := make([]string, nb)
	for i := range counts {
		counts[i] = strconv.FormatInt(got[i], 10)
	}
	return joinList(counts)
}

// c20Land: record the probe samples on one histogram, run one report pass, return its counts.
func c20Land(c *Ctx, sig, line string, root tally.Scope, rc *recCached, h tally.Histogram, s c20Spec, id int, nb int) string {
	rc.log.Take()
	c20Record(c, sig, line, h, s)
	tally.VerifReportOnce(root)
	return c20Counts(rc.log.Take(), id, nb)
}

func c20BitsKept(s c20Spec, upper []uint64) bool {
	want := append([]uint64(nil), s.bits...)
	if s.kind == 'd' {
		want = append(want, uint64(math.MaxInt64))
	} else {
		want = append(want, math.Float64bits(math.MaxFloat64))
	}
	got := append([]uint64(nil), upper...)
	sort.Slice(want, func(i, j int) bool { return want[i] < want[j] })
	sort.Slice(got, func(i, j int) bool { return got[i] < got[j] })
	if len(want) != len(got) {
		return false
	}
	for i := range want {
		if want[i] != got[i] {
			return false
		}
	}
	return true
}

func c20Sig(s c20Spec, partner *c20Spec) string {
	k := "value"
	if s.kind == 'd' {
		k = "duration"
	}
	switch {
	case partner == nil:
		return "histogram-bounds-" + k + "-no-collision"
	case partner.kind != s.kind:
		return "histogram-bounds-" + k + "-collides-with-other-kind"
	case c20Equal(s, *partner):
		return "histogram-bounds-" + k + "-equal-set-shared"
	default:
		return "histogram-bounds-" + k + "-collides-with-different-set"
	}
}

// c20Scope picks the scope a goroutine / creation works in: the cache is shared by the whole tree.
func c20Scope(root tally.Scope, which int) tally.Scope {
	switch which % 4 {
	case 0:
		return root
	case 1:
		return root.SubScope(fmt.Sprintf("s%d", which))
	case 2:
		return root.Tagged(map[string]string{"g": strconv.Itoa(which)})
	default:
		return root.SubScope("deep").SubScope(fmt.Sprintf("d%d", which))
	}
}

func c20CallerLine(c *Ctx, s c20Spec, b tally.Buckets) {
	after := c20Spec{kind: s.kind}
	switch x := b.(type) {
	case tally.DurationBuckets:
		for _, d := range x {
			after.bits = append(after.bits, uint64(int64(d)))
		}
	case tally.ValueBuckets:
		for _, f := range x {
			after.bits = append(after.bits, math.Float64bits(f))
		}
	}
	c.Cov.Check(c.Drv, fmt.Sprintf("caller histogram %c %s => %s", s.kind, s.tok(), after.tok()), "histogram-mutated-caller-slice")
}

func c20FindID(meta []Ev, name string) int {
	for _, e := range meta {
		if e.Kind == "alloc-hist" && (e.Name == name || strings.HasSuffix(e.Name, "."+name)) {
			return e.ID
		}
	}
	return -1
}

// one sequential history: the driver threads its cache model (real hash) through the creations
func c20SeqHistory(c *Ctx, r *Rng, hno int) {
	var pool []c20Spec
	for i := r.Range(1, 3); i > 0; i-- {
		pool = append(pool, c20Family(c, r)...)
	}
	for i := r.Intn(3); i > 0; i-- { // bystanders that collide with nothing
		k := byte('d')
		if r.Bool() {
			k = 'v'
		}
		s := c20Spec{k, c20BaseBits(r, k, r.Range(1, 6))}
		if s.finite() {
			pool = append(pool, s)
		}
	}
	rc := newRecCached()
	opts := tally.ScopeOptions{CachedReporter: rc, OmitCardinalityMetrics: true}
	var dflt *c20Spec
	if r.Chance(25) {
		for _, s := range pool {
			if len(s.bits) > 0 {
				s := s
				dflt = &s
				opts.DefaultBuckets = s.buckets()
				break
			}
		}
	}
	root, closer := tally.VerifNewRootScope(opts, 0, uint(r.Range(1, 4)))
	defer closer.Close()
	if rep := c.Drv.Ask("begin"); rep != "ok" {
		c.Cov.Fail(Failure{Kind: "bad-op", Clause: "protocol", Signature: "begin", Line: "begin", Reply: rep})
		return
	}
	first := map[uint64]c20Spec{}
	scratchD := make(tally.DurationBuckets, 0, 32)
	scratchV := make(tally.ValueBuckets, 0, 32)
	steps := r.Range(4, 28)
	for i := 0; i < steps; i++ {
		s := pool[r.Intn(len(pool))]
		useNil := dflt != nil && r.Chance(15)
		if useNil {
			s = *dflt
			c.Cov.Hit("create.nil-means-scope-default")
		}
		c.Cov.Check(c.Drv, fmt.Sprintf("ident %c %s => %s", s.kind, s.tok(), u64hex(s.ident())), "identity-formula")
		// classification by the model cache, cross-checked with the harness's own bookkeeping
		class := c.Drv.Ask(fmt.Sprintf("probe %c %s", s.kind, s.tok()))
		var partner *c20Spec
		want := "miss"
		if p, ok := first[s.ident()]; ok {
			partner = &p
			want = "hit-differ"
			if c20Equal(s, p) {
				want = "hit-equal"
			}
		} else {
			first[s.ident()] = s
		}
		if class != want {
			c.Cov.Fail(Failure{Kind: "bad-op", Clause: "protocol", Signature: "cache-classification-disagrees", Line: "probe " + s.key(), Reply: class + " (harness expected " + want + ")"})
		}
		c.Cov.Hit("create.seq." + class)
		name := fmt.Sprintf("h%d_%d", hno, i)
		sc := c20Scope(root, r.Intn(8))
		b := s.buckets()
		if !useNil && len(s.bits) <= 32 && r.Chance(35) {
			// the caller builds its specifications in one scratch slice that it reuses from creation to creation
			// (the histogram must keep the bounds it was CREATED with, whatever the caller does to its slice later)
			switch x := b.(type) {
			case tally.DurationBuckets:
				scratchD = append(scratchD[:0], x...)
				b = scratchD
			case tally.ValueBuckets:
				scratchV = append(scratchV[:0], x...)
				b = scratchV
			}
			c.Cov.Hit("create.seq.caller-reuses-one-slice")
		}
		rc.log.Take()
		var h tally.Histogram
		p, v := catch(func() {
			if useNil {
				h = sc.Histogram(name, nil)
			} else {
				h = sc.Histogram(name, b)
			}
		})
		line := fmt.Sprintf("create %c %s", s.kind, s.tok())
		if p {
			c.Cov.Fail(Failure{Kind: "crash", Clause: "no-panic", Signature: c20Sig(s, partner) + "-panic", Line: line, Detail: fmt.Sprint(v)})
			return
		}
		evs := rc.log.Take()
		id := -1
		for _, e := range evs {
			if e.Kind == "alloc-hist" {
				id = e.ID
			}
		}
		ups, bits := c20Uppers(evs, id, s.kind)
		counts := c20Land(c, c20Sig(s, partner), line, root, rc, h, s, id, len(bits))
		if !useNil {
			c20CallerLine(c, s, b)
		}
		if s.kind == 'v' && !c20BitsKept(s, bits) {
			c.Cov.Hit("create.value.zero-sign-differs-from-spec")
		}
		nontrivial := class != "miss"
		key := "seq " + s.key()
		if partner != nil {
			key += " after " + partner.key()
		}
		c.Cov.Eval(key, nontrivial)
		c.Cov.Check(c.Drv, line+" => "+ups+" "+counts, c20Sig(s, partner))
	}
	c.Cov.Traces++
}

// one sequential history under a root with a PLAIN reporter: the reporter is handed the histogram's specification
// with every bucket it is told about (an M3 or Prometheus reporter derives ids and bounds from it), long after the
// creation - after further creations from the same, reused caller slice and after the caller has scribbled over it.
// Oracle (model-independent): with every reported bucket the specification handed over is, as a sorted list of
// values, the specification the histogram was created with, and the bucket's upper bound is one of them (or the
// open end).
func c20SpecHistory(c *Ctx, r *Rng, hno int) {
	var pool []c20Spec
	for i := r.Range(1, 3); i > 0; i-- {
		pool = append(pool, c20Family(c, r)...)
	}
	rp := newRec()
	root, closer := tally.VerifNewRootScope(tally.ScopeOptions{Reporter: rp, OmitCardinalityMetrics: true}, 0, uint(r.Range(1, 4)))
	defer closer.Close()
	type made struct {
		s    c20Spec
		name string
		h    tally.Histogram
		hit  bool
	}
	var all []made
	first := map[uint64]bool{}
	scratchD := make(tally.DurationBuckets, 0, 64)
	scratchV := make(tally.ValueBuckets, 0, 64)
	var trace []string
	steps := r.Range(3, 16)
	for i := 0; i < steps; i++ {
		s := pool[r.Intn(len(pool))]
		if len(s.bits) > 64 {
			continue
		}
		name := fmt.Sprintf("p%d_%d", hno, i)
		b := s.buckets()
		reuse := r.Chance(70)
		if reuse {
			switch x := b.(type) {
			case tally.DurationBuckets:
				scratchD = append(scratchD[:0], x...)
				b = scratchD
			case tally.ValueBuckets:
				scratchV = append(scratchV[:0], x...)
				b = scratchV
			}
		}
		var h tally.Histogram
		p, v := catch(func() { h = c20Scope(root, r.Intn(8)).Histogram(name, b) })
		trace = append(trace, fmt.Sprintf("create %s %c %s reused-slice=%v", name, s.kind, s.tok(), reuse))
		if p {
			c.Cov.Fail(Failure{Kind: "crash", Clause: "no-panic", Signature: "c20spec-panic", Line: strings.Join(trace, " | "), Detail: fmt.Sprint(v)})
			return
		}
		all = append(all, made{s, name, h, first[s.ident()]})
		first[s.ident()] = true
	}
	// the caller goes on using its slices
	scratchD = scratchD[:cap(scratchD)]
	for i := range scratchD {
		scratchD[i] = time.Duration(777+i) * time.Hour
	}
	scratchV = scratchV[:cap(scratchV)]
	for i := range scratchV {
		scratchV[i] = 7.77e77 + float64(i)
	}
	trace = append(trace, "the caller overwrites its slices")
	sortedVals := func(kind byte, bits []uint64) string {
		fs := make([]float64, len(bits))
		for i, b := range bits {
			if kind == 'd' {
				fs[i] = float64(int64(b))
			} else {
				fs[i] = math.Float64frombits(b)
			}
			if fs[i] == 0 {
				fs[i] = 0 // the two zeros are one bound (sets that differ only in the sign of a zero share storage on the pinned tree; 10.5, tenth round)
			}
		}
		sort.Float64s(fs)
		return fmt.Sprint(fs)
	}
	nontrivial := false
	for _, m := range all {
		rp.log.Take()
		line := strings.Join(trace, " | ") + " | one sample on every bound of " + m.name + " | pass"
		c20Record(c, "c20spec", line, m.h, m.s)
		tally.VerifReportOnce(root)
		want := sortedVals(m.s.kind, m.s.bits)
		seen := 0
		for _, e := range rp.log.Take() {
			if (e.Kind != "hval" && e.Kind != "hdur") || !(e.Name == m.name || strings.HasSuffix(e.Name, "."+m.name)) {
				continue
			}
			seen++
			got := "?"
			if len(e.Spec) >= 2 && e.Spec[1] == ':' {
				var bits []uint64
				if e.Spec[2:] != "" {
					for _, t := range strings.Split(e.Spec[2:], ",") {
						if e.Spec[0] == 'd' {
							n, _ := strconv.ParseInt(t, 10, 64)
							bits = append(bits, uint64(n))
						} else {
							n, _ := strconv.ParseUint(t, 16, 64)
							bits = append(bits, n)
						}
					}
				}
				got = sortedVals(e.Spec[0], bits)
			}
			if e.Spec[:1] != string(m.s.kind) || got != want {
				c.Cov.Fail(Failure{Kind: "violated", Clause: "bounds-kept", Signature: "histogram-specification-at-report-time", Line: line,
					Reply: fmt.Sprintf("%s was created with %c %s; the reporter is handed the specification %s with bucket (%v, %v]", m.name, m.s.kind, want, e.Spec, e.LoF+float64(e.LoD), e.HiF+float64(e.HiD))})
				break
			}
		}
		if seen == 0 {
			c.Cov.Fail(Failure{Kind: "violated", Clause: "bounds-used-for-placement", Signature: "c20spec-nothing-delivered", Line: line, Reply: "no bucket of " + m.name + " reached the reporter"})
		}
		if m.hit {
			nontrivial = true
		}
		c.Cov.Eval("spec "+m.s.key()+fmt.Sprint(m.hit), m.hit)
	}
	if nontrivial {
		c.Cov.Hit("spec-history.with-collision")
	}
	c.Cov.Traces++
}

// c20Barrier is a spinning barrier: all goroutines leave within a few nanoseconds of each other,
// which is what makes several of them probe the cache before any of them has stored.
type c20Barrier struct {
	n     int32
	count int32
	gen   int32
}

func newC20Barrier(n int) *c20Barrier { return &c20Barrier{n: int32(n)} }
func (b *c20Barrier) Wait() {
	g := atomic.LoadInt32(&b.gen)
	if atomic.AddInt32(&b.count, 1) == b.n {
		atomic.StoreInt32(&b.count, 0)
		atomic.AddInt32(&b.gen, 1)
		return
	}
	for i := 0; atomic.LoadInt32(&b.gen) == g; i++ {
		if i&0xfff == 0xfff {
			runtime.Gosched()
		}
	}
}

type c20Created struct {
	spec     c20Spec
	name     string
	h        tally.Histogram
	b        tally.Buckets
	panicked bool
	pval     interface{}
}

// one concurrent history: G goroutines, R rounds; in every round all goroutines create one histogram
// each (own name, own or shared scope) from ONE family of mutually colliding sets, released together.
func c20ParHistory(c *Ctx, r *Rng, hno int) {
	const G = 8
	rounds := r.Range(3, 6)
	rc := newRecCached()
	root, closer := tally.VerifNewRootScope(tally.ScopeOptions{CachedReporter: rc, OmitCardinalityMetrics: true}, 0, uint(r.Range(1, 8)))
	defer closer.Close()
	plan := make([][]c20Spec, G) // plan[g][round]
	var all []c20Spec
	fams := make([][]c20Spec, rounds)
	for k := range fams {
		if k > 0 && r.Chance(35) {
			fams[k] = fams[r.Intn(k)] // come back to an identity that is already cached
		} else {
			fams[k] = c20Family(c, r)
		}
	}
	for g := 0; g < G; g++ {
		for k := 0; k < rounds; k++ {
			s := fams[k][r.Intn(len(fams[k]))]
			plan[g] = append(plan[g], s)
			all = append(all, s)
		}
	}
	scopes := make([]tally.Scope, G)
	shareRoot := r.Chance(30)
	for g := range scopes {
		if shareRoot && g < 2 {
			scopes[g] = root
		} else {
			scopes[g] = c20Scope(root, 4*g+1+g%3) // never the root itself: distinct scopes do not serialise on one lock
		}
	}
	bar := newC20Barrier(G)
	out := make([][]c20Created, G)
	var wg sync.WaitGroup
	for g := 0; g < G; g++ {
		wg.Add(1)
		go func(g int) {
			defer wg.Done()
			for k, s := range plan[g] {
				cr := c20Created{spec: s, name: fmt.Sprintf("p%d_%d_%d", hno, g, k), b: s.buckets()}
				bar.Wait()
				cr.panicked, cr.pval = catch(func() { cr.h = scopes[g].Histogram(cr.name, cr.b) })
				out[g] = append(out[g], cr)
			}
		}(g)
	}
	wg.Wait()
	evs := rc.log.Take()
	rc.mu.Lock()
	meta := append([]Ev(nil), rc.Meta...)
	rc.mu.Unlock()
	partnerOf := func(s c20Spec) *c20Spec { // a different spec with the same identity somewhere in this history
		for i := range all {
			if all[i].ident() == s.ident() && all[i].key() != s.key() {
				return &all[i]
			}
		}
		return nil
	}
	// one sample per bound on every histogram, then ONE report pass for all of them
	for g := 0; g < G; g++ {
		for _, cr := range out[g] {
			if !cr.panicked {
				c20Record(c, c20Sig(cr.spec, partnerOf(cr.spec)), fmt.Sprintf("created %c %s", cr.spec.kind, cr.spec.tok()), cr.h, cr.spec)
			}
		}
	}
	tally.VerifReportOnce(root)
	sevs := rc.log.Take()
	for g := 0; g < G; g++ {
		for _, cr := range out[g] {
			s := cr.spec
			partner := partnerOf(s)
			line := fmt.Sprintf("created %c %s", s.kind, s.tok())
			if cr.panicked {
				c.Cov.Fail(Failure{Kind: "crash", Clause: "no-panic", Signature: c20Sig(s, partner) + "-panic", Line: line, Detail: fmt.Sprint(cr.pval)})
				continue
			}
			id := c20FindID(meta, cr.name)
			ups, bits := c20Uppers(evs, id, s.kind)
			counts := c20Counts(sevs, id, len(bits))
			c20CallerLine(c, s, cr.b)
			if s.kind == 'v' && !c20BitsKept(s, bits) {
				c.Cov.Hit("create.value.zero-sign-differs-from-spec")
			}
			key := "par " + s.key()
			if partner != nil {
				key += " with " + partner.key()
				c.Cov.Hit("create.par.identity-shared-with-different-spec")
			} else {
				c.Cov.Hit("create.par.no-collision")
			}
			c.Cov.Eval(key, partner != nil)
			c.Cov.Check(c.Drv, line+" => "+ups+" "+counts, c20Sig(s, partner))
		}
	}
	c.Cov.Traces++
	c.Cov.Schedules++
}

func suiteC20Cache(c *Ctx) {
	c.Cov.Rule = "(b) histories of histogram creations under ONE root (root, subscopes, tagged scopes share the bucket cache), bucket sets drawn from families that collide by construction under seed 23 / fold 31: permutations of one set, equal sums of bit patterns ({1,4} vs {2,3}, different lengths), a value set and a duration set with the same identity, sets differing only in the sign of zeros, empty sets of both kinds, identical sets plus an intruder, large sets; sequential histories (cache model threaded by the driver, hit/miss classification cross-checked) and 8-goroutine histories (all goroutines released together per round on one family; free-running schedules); per created histogram the bounds it uses are observed twice: the ValueBucket/DurationBucket calls on the cached reporter at creation, and where one sample per bound lands; both must be the sorted creating spec ++ [max]; the caller's slice is compared before/after Histogram(); histories under a root with a PLAIN reporter: after all creations (70% from one reused caller slice) and after the caller has overwritten its slices, one sample per bound and a pass per histogram - the specification handed to the reporter with every bucket must be the creating one; nontrivial when the creating spec's identity is shared with another spec of the history (sequential: created earlier); distinct by (mode, spec, colliding partner)"
	n := c.N(120, 2500)
	for i := 0; i < n; i++ {
		c20SeqHistory(c, c.Rng.Fork(), i)
	}
	for i := 0; i < c.N(60, 1200); i++ {
		c20SpecHistory(c, c.Rng.Fork(), i)
	}
	m := c.N(200, 3000)
	for i := 0; i < m; i++ {
		c20ParHistory(c, c.Rng.Fork(), i)
	}
	c.Cov.Notes = append(c.Cov.Notes, "concurrent histories run free (no schedule control): 8 goroutines released together per round; the claim for all interleavings is the Lean theorem cache_transparent_concurrent")
}
