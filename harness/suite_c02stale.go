package main

import (
	"fmt"
	"math"
	"strings"
	"time"

	tally "github.com/uber-go/tally/v4"
)

// c02stale: the scripted schedule behind finding D13 (kept as corpus entry and regression test).
// A report pass P1 has consumed the gauge's flag and read its value (it is parked at the entry of the
// reporter call, i.e. between g.value() and the delivery); the application updates the gauge to a newer
// value; a second pass P2 runs completely and delivers the newer value; P1 resumes and hands the OLD value
// to the reporter.  The reporter's most recent value is then stale although updates have stopped, and no
// later pass corrects it (the flag is down).  With the repaired code P2 cannot overtake P1 (deliveries of one
// gauge are serialised), so P2 blocks until P1 has delivered and the newest value is delivered last.
func init() { register("c02stale", "C02", "", suiteC02Stale) }

func runC02Stale(c *Ctx, cached bool) {
	var logp *Log
	opts := tally.ScopeOptions{OmitCardinalityMetrics: true}
	if cached {
		rc := newRecCached()
		opts.CachedReporter = rc
		logp = rc.log
	} else {
		rp := newRec()
		opts.Reporter = rp
		logp = rp.log
	}
	root, closer := tally.VerifNewRootScope(opts, 0, 1)
	defer closer.Close()
	g := root.Gauge("g")
	logp.Pre = func(e *Ev) {
		if e.Kind == "gauge" {
			hook("rep.gauge", "")
		}
	}
	s := NewSched(nil)
	s.ParkOnT = func(th, l string) bool { return th == "P1" && l == "rep.gauge" }
	s.Timeout = 300 * time.Millisecond
	var trace []string
	note := func(f string, a ...interface{}) { trace = append(trace, fmt.Sprintf(f, a...)) }
	g.Update(1)
	note("Update(1)")
	P1 := s.Spawn("P1", func() { tally.VerifReportOnce(root) })
	l1 := runUntil(s, P1, func(l, _ string) bool { return l == "rep.gauge" })
	note("P1 parked at %s: flag consumed, value 1 read, not yet delivered", l1)
	g.Update(2)
	note("Update(2) (last update)")
	P2 := s.Spawn("P2", func() { tally.VerifReportOnce(root) })
	l2, _ := s.Step(P2)
	note("P2 (starts after the last update) %s", l2)
	l3 := runUntil(s, P1, never)
	note("P1 %s", l3)
	if !P2.Done {
		l4, _ := s.Step(P2)
		note("P2 %s", l4)
	}
	s.Finish()
	// P2 started after the last update and has returned (so has P1): the reporter's most recent value must be the last
	// update NOW -- a further pass may repair a stale value later, but the property speaks about the first pass
	{
		var sofar []float64
		for _, e := range logp.Snapshot() {
			if e.Kind == "gauge" {
				sofar = append(sofar, e.F)
			}
		}
		if len(sofar) == 0 || math.Float64bits(sofar[len(sofar)-1]) != math.Float64bits(2) {
			note("deliveries when P2 had returned %v", sofar)
			c.Cov.Fail(Failure{Kind: "violated", Clause: "latest-value", Signature: "late-pass-returns-with-stale-value-at-the-reporter", Line: strings.Join(trace, " | "),
				Reply: fmt.Sprintf("P2 started after the last update (2) and has returned, P1 has returned too; the reporter's deliveries so far are %v", sofar)})
		}
	}
	tally.VerifReportOnce(root) // one more solo pass
	var got []float64
	for _, e := range logp.Snapshot() {
		if e.Kind == "gauge" {
			got = append(got, e.F)
		}
	}
	note("deliveries in order %v", got)
	line := strings.Join(trace, " | ")
	if len(got) == 0 || math.Float64bits(got[len(got)-1]) != math.Float64bits(2) {
		c.Cov.Fail(Failure{Kind: "violated", Clause: "latest-value", Signature: "stale-visit-delivers-after-newer-value", Line: line,
			Reply: fmt.Sprintf("updates have stopped at 2, a pass that started after the last update has run, and the reporter's most recent value is %v", got)})
	}
	c.Cov.Eval(line, true)
	c.Cov.Schedules++
}

func suiteC02Stale(c *Ctx) {
	c.Cov.Rule = "scripted schedule: pass P1 parked between reading the gauge's value and handing it to the reporter, a newer Update, a complete second pass, then P1 delivers; plain and cached reporter; oracle: the reporter's most recent value equals the last update once all passes have finished; both cases nontrivial"
	runC02Stale(c, false)
	runC02Stale(c, true)
	c.Cov.Traces = c.Cov.Schedules
}
