package main

import (
	"fmt"
	"io"
	"strings"
	"sync"
	"sync/atomic"
	"time"

	tally "github.com/uber-go/tally/v4"
)

// c08sched: sampled schedules of the root's Close against the real report-loop goroutine, recording
// application threads and (sometimes) a second Close caller, with context switches at every loop / Close /
// registry hook and right before every reporter call of a pass (a thread parked at "counter.deliver" is a
// pass blocked inside a slow reporter call).  Judged by the barrier oracle of the property, computed from
// the total order of scheduler steps:
//   * everything recorded before Close was called has been delivered when the winning Close call returns
//     (pre <= delivered-at-return <= pre + recorded-after-the-call, per counter name);
//   * the last reporter calls at that moment are Flush and then (closable reporter) exactly one Close;
//   * nothing at all reaches the reporter after the winning call returned; the loop goroutine is gone;
//   * later Close calls return nil and are silent; scopes obtained afterwards are inert.
// This suite is the search for concrete failing schedules; the statement for all schedules is
// TallyProofs/Props/C08.lean about Model/RootClose.lean.

func init() {
	register("c08sched", "C08", "", suiteC08Sched)
}

type c08ctr struct {
	full string
	h    tally.Counter
}

// reporter calls that count for "nothing reaches the reporter after Close has returned": everything except the
// allocation of a handle from a cached reporter.  A SubScope call that passed the root-closed check before the CAS and
// finishes after Close has returned creates a scope in the purged registry; a metric created on it allocates a handle
// (nothing is ever delivered through it).  That is the limitation recorded in DESIGN 10.4 (ScopeLife:
// reacquire_in_flight_may_deliver_after_close), not something this oracle may call a violation.
func c08LogLen(w *world) int {
	n := 0
	for _, e := range w.log().Snapshot() {
		if !strings.HasPrefix(e.Kind, "alloc") {
			n++
		}
	}
	return n
}

func scenarioC08Random(c *Ctx, r *Rng, idx int) {
	cached := r.Bool()
	withLoop := r.Chance(85)
	closable := r.Chance(70)
	shards := uint(1)
	if r.Chance(30) {
		shards = 4
	}
	s := NewSched(nil)
	s.ParkOnT = func(th, l string) bool {
		switch {
		case l == "app.op":
			return true
		case strings.HasPrefix(l, "loop."), strings.HasPrefix(l, "close."):
			return true
		case l == "registry.visit", l == "registry.pre-closed-read", l == "counter.deliver", l == "registry.remove.pre-lock":
			return true
		}
		return false
	}
	var loop *Thr
	interval := time.Duration(0)
	if withLoop {
		loop = s.Expect("loop", "loop.start")
		interval = 300 * time.Microsecond
	}
	w := newWorld(cached, interval, shards, closable)
	if withLoop && !s.WaitAdopted(loop) {
		c.Cov.Fail(Failure{Kind: "crash", Clause: "adopt", Signature: "c08-loop-not-adopted"})
		s.Finish()
		return
	}
	s.Timeout = 20 * time.Millisecond
	var repErr error
	if closable && r.Chance(35) {
		repErr = fmt.Errorf("reporter close failed")
		w.setCloseErr(repErr)
	}
	w.note("cfg cached=%v loop=%v closable=%v shards=%d reporter-close-error=%v", cached, withLoop, closable, shards, repErr != nil)

	// K subscopes (+ the root itself), one counter each, created before anything is scheduled
	k := r.Range(1, 3)
	ctrs := []c08ctr{{"rc", w.root.Counter("rc")}}
	var oldSubs []tally.Scope // subscope handles obtained before Close: derivations from them afterwards must be inert
	for i := 0; i < k; i++ {
		n := fmt.Sprintf("s%d", i)
		sub := w.root.SubScope(n)
		oldSubs = append(oldSubs, sub)
		ctrs = append(ctrs, c08ctr{n + ".c", sub.Counter("c")})
	}
	pre := map[string]int64{}  // recorded before Close was called: must be delivered by the time it returns
	post := map[string]int64{} // recorded after Close was called: delivered at most once
	var closeCalled int32
	var incMu sync.RWMutex
	for _, ct := range ctrs { // something recorded before any thread runs, so that the first pass is not empty
		if r.Chance(60) {
			v := int64(r.Range(1, 9))
			ct.h.Inc(v)
			pre[ct.full] += v
			w.note("init inc %s %d", ct.full, v)
		}
	}

	var thrs []*Thr
	nApp := r.Range(1, 2)
	// "owned" runs: application thread i works on the root's counter and on subscope s<i> only, and from time to time
	// closes s<i> and obtains it again (a closed, not yet collected subscope holding unreported values, its one-off
	// report on re-acquisition, its collection by a pass -- all of that while the root is being closed).  Only the owner
	// records on and closes its subscope, so every increment goes through a handle whose scope the application has not
	// closed and the before / after-Close accounting below stays exact.
	owned := len(ctrs) > nApp && r.Chance(45)
	if owned {
		park := s.ParkOnT
		s.ParkOnT = func(th, l string) bool {
			return park(th, l) || l == "registry.subscope.pre-rlock" || l == "registry.subscope.pre-lock"
		}
	}
	w.note("owned=%v", owned)
	for i := 0; i < nApp; i++ {
		i := i
		rr := r.Fork()
		name := fmt.Sprintf("U%d", i)
		thrs = append(thrs, s.Spawn(name, func() {
			var mine c08ctr // s<i>.c (ctrs[0] is the root's counter)
			var mineScope tally.Scope
			if owned {
				mine = ctrs[1+i]
				mineScope = w.root.SubScope(strings.TrimSuffix(mine.full, ".c"))
			}
			for n := rr.Range(1, 5); n > 0; n-- {
				hook("app.op", "")
				ct := ctrs[rr.Intn(len(ctrs))]
				if owned {
					ct = ctrs[0]
					if rr.Chance(70) {
						ct = mine
					}
					if rr.Chance(35) && mineScope != tally.NoopScope {
						if cl, ok := mineScope.(io.Closer); ok {
							cl.Close()
						}
						w.note("%s closes %s and obtains it again", name, strings.TrimSuffix(mine.full, ".c"))
						mineScope = w.root.SubScope(strings.TrimSuffix(mine.full, ".c"))
						if mineScope == tally.NoopScope {
							w.note("%s obtain -> noop", name)
							if ct.full == mine.full {
								continue
							}
						} else {
							mine = c08ctr{mine.full, mineScope.Counter("c")}
							if ct.full == mine.full {
								ct = mine
							}
						}
					}
				}
				v := int64(rr.Range(1, 9))
				if !owned && rr.Chance(20) && ct.full != "rc" {
					// obtain the subscope again (inert NoopScope once the root is closed) and record through the new handle
					sc := w.root.SubScope(strings.TrimSuffix(ct.full, ".c"))
					if sc == tally.NoopScope {
						w.note("%s obtain %s -> noop", name, ct.full)
						continue
					}
					ct = c08ctr{ct.full, sc.Counter("c")}
				}
				// "before Close was called" must be exact whatever the watchdog thinks of a slow thread: the
				// increment completes under the read side of incMu, the Close callers raise the flag under its
				// write side before they enter Close (Inc has no hook inside, so nothing parks holding incMu)
				incMu.RLock()
				isPre := atomic.LoadInt32(&closeCalled) == 0
				ct.h.Inc(v)
				incMu.RUnlock()
				w.mu.Lock()
				if isPre {
					pre[ct.full] += v
				} else {
					post[ct.full] += v
				}
				w.mu.Unlock()
				w.note("%s inc %s %d", name, ct.full, v)
			}
		}))
	}
	nClose := 1
	if r.Chance(30) {
		nClose = 2
	}
	type closeRes struct {
		returned bool
		err      error
		logLen   int
		sums     map[string]int64
		order    []string
	}
	res := make([]closeRes, nClose)
	for i := 0; i < nClose; i++ {
		i := i
		name := fmt.Sprintf("C%d", i)
		thrs = append(thrs, s.Spawn(name, func() {
			incMu.Lock()
			atomic.StoreInt32(&closeCalled, 1)
			incMu.Unlock()
			w.note("%s calls Close", name)
			err := w.closer.Close()
			sums, order := w.delivered()
			res[i] = closeRes{true, err, c08LogLen(w), sums, order}
			w.note("%s Close returned err=%v", name, err)
		}))
	}
	all := thrs
	if loop != nil {
		all = append(append([]*Thr{}, thrs...), loop)
	}
	// bias: 0 = uniform; 1 = the Close callers do not start before the loop is inside a pass; 2 = … before the
	// loop is parked right before a reporter call (slow reporter). Once they may start, the loop is rarely picked.
	mode := 0
	if loop != nil {
		mode = r.Intn(3)
	}
	w.note("mode %d", mode)
	inPass := func(l string) bool {
		if mode == 2 {
			return l == "counter.deliver"
		}
		return l == "counter.deliver" || l == "registry.visit" || l == "registry.pre-closed-read"
	}
	released := mode == 0
	steps := 0
	for steps < 500 {
		var live, ready []*Thr
		pending := false
		if !released && (inPass(loop.At) || steps > 120) {
			released = true
		}
		for _, t := range all {
			if t.Done {
				continue
			}
			if !released && strings.HasPrefix(t.Name, "C") && t.At == "start" {
				pending = true
				continue
			}
			live = append(live, t)
			if t.At != "blocked" {
				ready = append(ready, t)
			}
			if t != loop {
				pending = true
			}
		}
		if !pending {
			break
		}
		if len(live) == 0 {
			continue
		}
		pick := live
		if len(ready) > 0 && r.Chance(92) {
			pick = ready
			if released && mode != 0 && len(ready) > 1 && !r.Chance(12) {
				// the Close callers have started: keep the loop where it is while anything else can run
				pick = nil
				for _, t := range ready {
					if t != loop {
						pick = append(pick, t)
					}
				}
			}
		}
		t := pick[r.Intn(len(pick))]
		steps++
		if t.At == "blocked" {
			s.Poll(t, 3*time.Millisecond)
			continue
		}
		if t == loop && t.At == "loop.exit" {
			s.Release(loop)
			w.note("loop exits")
			continue
		}
		label, arg := s.Step(t)
		if label == "panic" {
			c.Cov.Fail(Failure{Kind: "crash", Clause: "panic", Signature: "c08-sched-panic", Line: strings.Join(w.trace, " | "), Reply: fmt.Sprint(t.Pan)})
			break
		}
		if label == "registry.visit" {
			label += "(" + arg + ")"
		}
		w.note("%s@%s", t.Name, label)
	}
	s.Finish()
	line := func() string { w.mu.Lock(); defer w.mu.Unlock(); return strings.Join(w.trace, " | ") }
	for _, t := range thrs {
		if !t.Done {
			c.Cov.Fail(Failure{Kind: "crash", Clause: "deadlock", Signature: "c08-sched-stuck", Line: line(), Reply: t.Name + " never finished (last seen at " + t.At + ")"})
			return
		}
	}
	// ---- oracle
	sig := "c08-sched"
	fail := func(clause, why string) {
		_, order := w.delivered()
		c.Cov.Fail(Failure{Kind: "violated", Clause: clause, Signature: sig, Line: line(), Reply: fmt.Sprintf("%s; reporter log %v", why, order)})
	}
	for i, cr := range res {
		if !cr.returned {
			fail("close-returns", fmt.Sprintf("Close call %d did not return", i))
			return
		}
	}
	finalSums, finalOrder := w.delivered()
	finalLen := c08LogLen(w)
	// the barrier holds for EVERY caller ("any number of concurrent Close callers"): when any Close call returns, the
	// shutdown is complete -- everything recorded before Close was called has been delivered and flushed, the reporter
	// is closed, and nothing reaches the reporter afterwards.  Exactly one call (the one that closed the reporter)
	// returns the reporter's error, the others nil.
	winner, withErr := -1, 0
	for i, cr := range res {
		n := len(cr.order)
		if !(n > 0 && (cr.order[n-1] == "close" || (!closable && cr.order[n-1] == "flush"))) {
			fail("flush-then-close", fmt.Sprintf("Close call %d returned before the reporter had been flushed (and closed): %v", i, cr.order))
			return
		}
		if cr.logLen != finalLen {
			fail("every-close-call-returns-after-the-shutdown", fmt.Sprintf("Close call %d returned while the shutdown was still under way: %d reporter call(s) followed its return: %v", i, finalLen-cr.logLen, finalOrder[len(cr.order):]))
			return
		}
		if cr.err != nil {
			if cr.err != repErr {
				fail("close-returns-reporter-error", fmt.Sprintf("Close call %d returned %v, the reporter's Close returned %v", i, cr.err, repErr))
				return
			}
			withErr++
			winner = i
		}
	}
	if repErr != nil && withErr != 1 {
		fail("close-returns-reporter-error", fmt.Sprintf("the reporter's Close returned %v; %d of the %d Close calls returned it (exactly one must)", repErr, withErr, len(res)))
		return
	}
	if winner < 0 {
		winner = 0
	}
	wr := res[winner]
	for _, ct := range ctrs {
		n := ct.full
		if wr.sums[n] < pre[n] || wr.sums[n] > pre[n]+post[n] {
			fail("recorded-before-close-delivered-exactly-once", fmt.Sprintf("%s: recorded before Close was called %d (+%d afterwards), delivered when Close returned %d", n, pre[n], post[n], wr.sums[n]))
			return
		}
		if finalSums[n] != wr.sums[n] {
			fail("silent-after-close", fmt.Sprintf("%s: %d delivered after Close had returned", n, finalSums[n]-wr.sums[n]))
			return
		}
	}
	// every delivery is followed by a Flush before Close returns
	lastDel, lastFlush := -1, -1
	for i, e := range wr.order {
		if e == "flush" {
			lastFlush = i
		} else if e != "close" {
			lastDel = i
		}
	}
	if lastDel > lastFlush {
		fail("delivered-then-flushed-before-close-returns", fmt.Sprintf("a delivery after the last Flush: %v", wr.order))
		return
	}
	if finalLen != wr.logLen {
		fail("silent-after-close", fmt.Sprintf("%d reporter call(s) after the winning Close returned: %v", finalLen-wr.logLen, finalOrder[len(wr.order):]))
		return
	}
	ncl, nfl := 0, 0
	for _, e := range finalOrder {
		if e == "close" {
			ncl++
		}
		if e == "flush" {
			nfl++
		}
	}
	if closable {
		if ncl != 1 {
			fail("reporter-closed-exactly-once", fmt.Sprintf("%d reporter Close calls", ncl))
			return
		}
		if n := len(finalOrder); n < 2 || finalOrder[n-1] != "close" || finalOrder[n-2] != "flush" {
			fail("flush-then-close", "the last reporter calls are not Flush, Close")
			return
		}
	} else if nfl == 0 || finalOrder[len(finalOrder)-1] != "flush" {
		fail("flush-then-close", "the last reporter call is not Flush")
		return
	}
	// later Close calls: nil and silent; scopes obtained afterwards inert; recording on old handles harmless
	if pan, val := catch(func() {
		if err := w.closer.Close(); err != nil {
			fail("close-idempotent", "a later Close returned "+err.Error())
		}
	}); pan {
		c.Cov.Fail(Failure{Kind: "crash", Clause: "close-idempotent", Signature: sig, Line: line(), Reply: fmt.Sprintf("a later Close panicked: %v", val)})
		return
	}
	if sc := w.root.SubScope("late"); sc != tally.NoopScope {
		fail("scopes-after-close-inert", "SubScope after Close returned a live scope")
	}
	for i, sub := range oldSubs {
		sub := sub
		if pan, val := catch(func() {
			if sub.SubScope("late") != tally.NoopScope || sub.Tagged(map[string]string{"late": "1"}) != tally.NoopScope {
				fail("scopes-after-close-inert", fmt.Sprintf("a scope derived after Close from subscope handle s%d (obtained before Close) is live", i))
			}
		}); pan {
			c.Cov.Fail(Failure{Kind: "crash", Clause: "old-handles-harmless-after-close", Signature: sig + "-old-handle-panics", Line: line(), Reply: fmt.Sprintf("using subscope handle s%d after the root's Close panicked: %v", i, val)})
			return
		}
	}
	for _, ct := range ctrs {
		ct.h.Inc(1)
	}
	if sc, ok := w.root.SubScope("s0").(io.Closer); ok {
		sc.Close()
	}
	time.Sleep(time.Duration(r.Range(1, 3)) * interval)
	if after := c08LogLen(w); after != finalLen {
		fail("silent-after-close", fmt.Sprintf("%d reporter calls after Close returned (later Close / recording on old handles)", after-finalLen))
	}
	deadline := time.Now().Add(5 * time.Second) // generous: only a goroutine that really stays costs this time
	for goroutinesContaining("(*scope).reportLoop") > 0 && time.Now().Before(deadline) {
		time.Sleep(200 * time.Microsecond)
	}
	if n := goroutinesContaining("(*scope).reportLoop"); n > 0 {
		fail("report-goroutine-ended", fmt.Sprintf("%d report loop goroutine(s) still running after Close returned", n))
	}
	c.Cov.Hit(fmt.Sprintf("closers=%d", nClose))
	c.Cov.Hit(fmt.Sprintf("loop=%v", withLoop))
	c.Cov.Hit(fmt.Sprintf("cached=%v", cached))
	c.Cov.Hit(fmt.Sprintf("closable=%v", closable))
	np := int64(0)
	for _, v := range post {
		np += v
	}
	if np > 0 {
		c.Cov.Hit("recorded-after-close-was-called")
	}
	tr := line()
	if strings.Contains(tr, "C0 calls Close") && withLoop {
		// was Close called while a pass of the loop was under way?
		i := strings.Index(tr, "calls Close")
		before := tr[:i]
		lv := strings.LastIndex(before, "loop@registry.visit")
		lt := strings.LastIndex(before, "loop@loop.tick")
		lc := strings.LastIndex(before, "loop@counter.deliver")
		if (lv > lt && lv >= 0) || (lc > lt && lc >= 0) {
			c.Cov.Hit("close-called-while-periodic-pass-under-way")
			if lc > lv {
				c.Cov.Hit("close-called-while-pass-inside-reporter-call")
			}
		}
	}
	c.Cov.Eval(tr, true)
	c.Cov.Schedules++
}

func suiteC08Sched(c *Ctx) {
	c.Cov.Rule = "sampled schedules (one PRNG) of 1-2 recording application threads (in 45% of the runs each also closing and re-obtaining a subscope of its own, with context switches inside the re-acquisition), 1-2 Close callers and the real report-loop goroutine (adopted at its first hook; 15% of the roots have no interval) over a root with 1-3 subscopes, 1 or 4 shards, plain and cached, closable and not closable recording reporters; context switches at every loop.*, close.*, registry visit / removal hook and before every reporter call of a pass (a parked pass = a slow reporter); oracle: per counter pre <= delivered when the winning Close returned <= pre + recorded after Close was called, last calls Flush then one reporter Close, nothing after the return, loop goroutine gone, later Close nil and silent, SubScope inert; every schedule counts as nontrivial (it has a context switch inside Close or a pass); distinct by step trace"
	n := c.N(600, 6000)
	for i := 0; i < n; i++ {
		scenarioC08Random(c, c.Rng.Fork(), i)
	}
	c.Cov.Traces = c.Cov.Schedules
}
