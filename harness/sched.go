package main

import (
	"bytes"
	"fmt"
	"runtime"
	"strconv"
	"sync"
	"sync/atomic"
	"time"

	tally "github.com/uber-go/tally/v4"
)

// Cooperative scheduler on the verif-tagged yield hooks: registered goroutines park at every hook whose
// label the scenario asked for; exactly one of them runs at a time, resumed explicitly by Step.

func curGid() int64 {
	var buf [64]byte
	n := runtime.Stack(buf[:], false)
	// "goroutine 123 ["
	b := buf[:n]
	b = b[len("goroutine "):]
	i := bytes.IndexByte(b, ' ')
	id, _ := strconv.ParseInt(string(b[:i]), 10, 64)
	return id
}

type parkEv struct {
	label string
	arg   string
	done  bool
	pan   interface{}
}

type Thr struct {
	Name   string
	gid    int64
	resume chan struct{}
	events chan parkEv
	At     string // label it is parked at ("" = not started / running)
	Arg    string
	Done   bool
	Pan    interface{}
	// Adopted: a goroutine the library started itself; it ends without a "done" event
	Adopted bool
}

type Sched struct {
	mu      sync.Mutex
	byGid   map[int64]*Thr
	Threads map[string]*Thr
	ParkOn  func(label string) bool
	ParkOnT func(thread, label string) bool // optional per-thread filter (overrides ParkOn when set)
	// Observe, when set, sees every hook of every goroutine (registered or not) before any parking; it must not block.
	Observe func(label, arg string)
	Adopt   map[string]string // label -> thread name to adopt an unregistered goroutine reaching it (e.g. loop.start)
	Timeout time.Duration
	free    bool // hooks pass through (teardown)
}

var activeSched *Sched
var hooksOnce sync.Once

func installHooks() {
	hooksOnce.Do(func() {
		tally.VerifSetHooks(&tally.VerifHooks{
			Yield: func(l string) { hook(l, "") },
			YieldInt: func(l string, v int64) {
				if o, _ := intObserver.Load().(func(string, int64)); o != nil {
					o(l, v)
				}
				hook(l, strconv.FormatInt(v, 10))
			},
			YieldStr: func(l string, s string) { hook(l, s) },
		})
	})
}

var schedMu sync.RWMutex

// intObserver, when set, sees every YieldInt observation point (label, value) before the scheduler
// does; it must not block. Used by the M3 suites for the charge / flush hooks of process().
var intObserver atomic.Value // func(string, int64)

func setIntObserver(f func(string, int64)) {
	installHooks()
	intObserver.Store(f)
}

func hook(label, arg string) {
	schedMu.RLock()
	s := activeSched
	schedMu.RUnlock()
	if s == nil {
		return
	}
	s.yield(label, arg)
}

func NewSched(parkOn func(string) bool) *Sched {
	installHooks()
	s := &Sched{byGid: map[int64]*Thr{}, Threads: map[string]*Thr{}, ParkOn: parkOn, Adopt: map[string]string{}, Timeout: 20 * time.Second}
	schedMu.Lock()
	activeSched = s
	schedMu.Unlock()
	return s
}

func (s *Sched) yield(label, arg string) {
	if s.Observe != nil {
		s.Observe(label, arg)
	}
	gid := curGid()
	s.mu.Lock()
	if s.free {
		s.mu.Unlock()
		return
	}
	t := s.byGid[gid]
	if t == nil {
		if name, ok := s.Adopt[label]; ok {
			if ex := s.Threads[name]; ex != nil && ex.gid == 0 {
				ex.gid = gid
				s.byGid[gid] = ex
				t = ex
			}
		}
	}
	s.mu.Unlock()
	if t == nil {
		return
	}
	if s.ParkOnT != nil {
		if !s.ParkOnT(t.Name, label) {
			return
		}
	} else if s.ParkOn != nil && !s.ParkOn(label) {
		return
	}
	t.events <- parkEv{label: label, arg: arg}
	<-t.resume
}

// Spawn starts a logical thread; it parks immediately at label "start".
func (s *Sched) Spawn(name string, f func()) *Thr {
	t := &Thr{Name: name, resume: make(chan struct{}), events: make(chan parkEv, 1)}
	s.mu.Lock()
	s.Threads[name] = t
	s.mu.Unlock()
	started := make(chan struct{})
	go func() {
		t.gid = curGid()
		s.mu.Lock()
		s.byGid[t.gid] = t
		s.mu.Unlock()
		close(started)
		defer func() {
			r := recover()
			s.mu.Lock()
			delete(s.byGid, t.gid)
			s.mu.Unlock()
			t.events <- parkEv{done: true, pan: r}
		}()
		t.events <- parkEv{label: "start"}
		<-t.resume
		f()
	}()
	<-started
	ev := <-t.events
	t.At = ev.label
	return t
}

// Expect declares a thread that will be adopted when an unregistered goroutine reaches `label`
// (used for goroutines the library starts itself). WaitAdopted blocks until it parked there.
func (s *Sched) Expect(name, label string) *Thr {
	t := &Thr{Name: name, resume: make(chan struct{}), events: make(chan parkEv, 1), Adopted: true}
	s.mu.Lock()
	s.Threads[name] = t
	s.Adopt[label] = name
	s.mu.Unlock()
	return t
}

func (s *Sched) WaitAdopted(t *Thr) bool {
	select {
	case ev := <-t.events:
		t.At, t.Arg = ev.label, ev.arg
		return true
	case <-time.After(s.Timeout):
		return false
	}
}

// Step resumes the thread and waits until it parks again or finishes.
// Returns the label reached ("done" when finished, "blocked" on watchdog timeout).
func (s *Sched) Step(t *Thr) (label, arg string) {
	if t.Done {
		return "done", ""
	}
	if t.At == "blocked" {
		// it was left running; just wait again
	} else {
		t.At = ""
		t.resume <- struct{}{}
	}
	select {
	case ev := <-t.events:
		if ev.done {
			t.Done, t.Pan, t.At = true, ev.pan, "done"
			if ev.pan != nil {
				return "panic", fmt.Sprint(ev.pan)
			}
			return "done", ""
		}
		t.At, t.Arg = ev.label, ev.arg
		return ev.label, ev.arg
	case <-time.After(s.Timeout):
		t.At = "blocked"
		return "blocked", ""
	}
}

// Release resumes a parked thread without waiting for it to park again and marks it finished. Used for
// goroutines the library started itself (adopted threads) at their last hook: they end without a
// "done" event, so waiting for one would only run into the watchdog.
func (s *Sched) Release(t *Thr) {
	if t.Done {
		return
	}
	if t.At != "blocked" && t.At != "" {
		select {
		case t.resume <- struct{}{}:
		case <-time.After(s.Timeout):
		}
	}
	t.Done, t.At = true, "done"
	s.mu.Lock()
	delete(s.byGid, t.gid)
	s.mu.Unlock()
}

// Poll checks (without resuming) whether a thread left running has parked or finished in the meantime.
func (s *Sched) Poll(t *Thr, wait time.Duration) (label string, ok bool) {
	if t.At != "blocked" {
		return t.At, true
	}
	select {
	case ev := <-t.events:
		if ev.done {
			t.Done, t.Pan, t.At = true, ev.pan, "done"
			return "done", true
		}
		t.At, t.Arg = ev.label, ev.arg
		return ev.label, true
	case <-time.After(wait):
		return "blocked", false
	}
}

// Finish lets every thread run to completion (hooks pass through) and detaches the scheduler.
func (s *Sched) Finish() {
	wait := s.Timeout
	if wait < 5*time.Second {
		wait = 5 * time.Second // releasing is not a probe: give loaded machines time before calling a thread stuck
	}
	s.mu.Lock()
	s.free = true
	ts := make([]*Thr, 0, len(s.Threads))
	for _, t := range s.Threads {
		ts = append(ts, t)
	}
	s.mu.Unlock()
	for _, t := range ts {
		if t.Done || t.gid == 0 {
			continue
		}
		if t.At != "blocked" && t.At != "" {
			select {
			case t.resume <- struct{}{}:
			case <-time.After(wait):
			}
		}
	}
	for _, t := range ts {
		if t.Done || t.gid == 0 || t.Adopted {
			continue
		}
		deadline := time.After(wait)
	loop:
		for {
			select {
			case ev := <-t.events:
				if ev.done {
					t.Done = true
					break loop
				}
			case <-deadline:
				break loop
			}
		}
	}
	schedMu.Lock()
	if activeSched == s {
		activeSched = nil
	}
	schedMu.Unlock()
}
