package main

import (
	"fmt"
	"math"
	"strconv"
	"strings"
	"sync"
	"time"

	tally "github.com/uber-go/tally/v4"
)

// Ev is one observed reporter call.
type Ev struct {
	Kind  string // counter gauge timer hval hdur flush close alloc-counter alloc-gauge alloc-timer alloc-hist bucket
	Name  string
	Tags  map[string]string
	I     int64   // counter delta / samples / timer ns
	F     float64 // gauge value
	LoF   float64 // histogram value bounds
	HiF   float64
	LoD   time.Duration
	HiD   time.Duration
	ID    int // handle id for cached events
	Idx   int // bucket index for cached bucket events
	Seq   int
	Gid   int64
	TagsP uintptr
	Spec  string // hval / hdur: the Buckets argument as the reporter saw it (kind, then the bounds in the order given)
}

// specString renders a Buckets value at the moment the reporter is handed it
func specString(b tally.Buckets) string {
	switch x := b.(type) {
	case nil:
		return "nil"
	case tally.ValueBuckets:
		parts := make([]string, len(x))
		for i, v := range x {
			parts[i] = strconv.FormatUint(math.Float64bits(v), 16)
		}
		return "v:" + strings.Join(parts, ",")
	case tally.DurationBuckets:
		parts := make([]string, len(x))
		for i, d := range x {
			parts[i] = strconv.FormatInt(int64(d), 10)
		}
		return "d:" + strings.Join(parts, ",")
	default:
		return fmt.Sprintf("%T", b)
	}
}

func copyTags(m map[string]string) map[string]string {
	if m == nil {
		return nil
	}
	out := make(map[string]string, len(m))
	for k, v := range m {
		out[k] = v
	}
	return out
}

type Log struct {
	mu  sync.Mutex
	evs []Ev
	On  func(*Ev)   // optional observer, called with the lock held
	Pre func(e *Ev) // optional: called at the start of every reporter call, before the log is locked (may park the caller)
}

func (l *Log) add(e Ev) {
	if l.Pre != nil {
		l.Pre(&e)
	}
	l.mu.Lock()
	e.Seq = len(l.evs)
	if l.On != nil {
		l.On(&e)
	}
	l.evs = append(l.evs, e)
	l.mu.Unlock()
}
func (l *Log) Take() []Ev {
	l.mu.Lock()
	out := l.evs
	l.evs = nil
	l.mu.Unlock()
	return out
}
func (l *Log) Snapshot() []Ev {
	l.mu.Lock()
	out := append([]Ev(nil), l.evs...)
	l.mu.Unlock()
	return out
}

// ---------------------------------------------------------------- plain recording reporter

type recReporter struct {
	log      *Log
	closable bool
	closeErr error
	caps     tally.Capabilities
}

type capsT struct{ r, t bool }

func (c capsT) Reporting() bool { return c.r }
func (c capsT) Tagging() bool   { return c.t }

func newRec() *recReporter { return &recReporter{log: &Log{}, caps: capsT{true, true}} }

func (r *recReporter) ReportCounter(name string, tags map[string]string, v int64) {
	r.log.add(Ev{Kind: "counter", Name: name, Tags: copyTags(tags), I: v})
}
func (r *recReporter) ReportGauge(name string, tags map[string]string, v float64) {
	r.log.add(Ev{Kind: "gauge", Name: name, Tags: copyTags(tags), F: v})
}
func (r *recReporter) ReportTimer(name string, tags map[string]string, d time.Duration) {
	r.log.add(Ev{Kind: "timer", Name: name, Tags: copyTags(tags), I: int64(d)})
}
func (r *recReporter) ReportHistogramValueSamples(name string, tags map[string]string, b tally.Buckets, lo, hi float64, n int64) {
	r.log.add(Ev{Kind: "hval", Name: name, Tags: copyTags(tags), LoF: lo, HiF: hi, I: n, Spec: specString(b)})
}
func (r *recReporter) ReportHistogramDurationSamples(name string, tags map[string]string, b tally.Buckets, lo, hi time.Duration, n int64) {
	r.log.add(Ev{Kind: "hdur", Name: name, Tags: copyTags(tags), LoD: lo, HiD: hi, I: n, Spec: specString(b)})
}
func (r *recReporter) Capabilities() tally.Capabilities { return r.caps }
func (r *recReporter) Flush()                           { r.log.add(Ev{Kind: "flush"}) }

type recReporterCloser struct{ *recReporter }

func (r recReporterCloser) Close() error {
	r.log.add(Ev{Kind: "close"})
	return r.closeErr
}

// ---------------------------------------------------------------- cached recording reporter

type recCached struct {
	closeErr error
	log      *Log
	mu       sync.Mutex
	nextID   int
	caps     tally.Capabilities
	// per handle metadata
	Meta []Ev
}

func newRecCached() *recCached { return &recCached{log: &Log{}, caps: capsT{true, true}} }

func (r *recCached) alloc(kind, name string, tags map[string]string) int {
	r.mu.Lock()
	id := r.nextID
	r.nextID++
	e := Ev{Kind: kind, Name: name, Tags: copyTags(tags), ID: id}
	r.Meta = append(r.Meta, e)
	r.mu.Unlock()
	r.log.add(e)
	return id
}

type recHandle struct {
	r   *recCached
	id  int
	idx int
}

func (h recHandle) ReportCount(v int64) { h.r.log.add(Ev{Kind: "counter", ID: h.id, I: v}) }
func (h recHandle) ReportGauge(v float64) {
	h.r.log.add(Ev{Kind: "gauge", ID: h.id, F: v})
}
func (h recHandle) ReportTimer(d time.Duration) {
	h.r.log.add(Ev{Kind: "timer", ID: h.id, I: int64(d)})
}
func (h recHandle) ReportSamples(v int64) {
	h.r.log.add(Ev{Kind: "samples", ID: h.id, Idx: h.idx, I: v})
}

type recHist struct {
	r  *recCached
	id int
	mu sync.Mutex
	n  int
}

func (h *recHist) ValueBucket(lo, hi float64) tally.CachedHistogramBucket {
	h.mu.Lock()
	idx := h.n
	h.n++
	h.mu.Unlock()
	h.r.log.add(Ev{Kind: "bucket-v", ID: h.id, Idx: idx, LoF: lo, HiF: hi})
	return recHandle{h.r, h.id, idx}
}
func (h *recHist) DurationBucket(lo, hi time.Duration) tally.CachedHistogramBucket {
	h.mu.Lock()
	idx := h.n
	h.n++
	h.mu.Unlock()
	h.r.log.add(Ev{Kind: "bucket-d", ID: h.id, Idx: idx, LoD: lo, HiD: hi})
	return recHandle{h.r, h.id, idx}
}

func (r *recCached) AllocateCounter(name string, tags map[string]string) tally.CachedCount {
	return recHandle{r, r.alloc("alloc-counter", name, tags), -1}
}
func (r *recCached) AllocateGauge(name string, tags map[string]string) tally.CachedGauge {
	return recHandle{r, r.alloc("alloc-gauge", name, tags), -1}
}
func (r *recCached) AllocateTimer(name string, tags map[string]string) tally.CachedTimer {
	return recHandle{r, r.alloc("alloc-timer", name, tags), -1}
}
func (r *recCached) AllocateHistogram(name string, tags map[string]string, b tally.Buckets) tally.CachedHistogram {
	return &recHist{r: r, id: r.alloc("alloc-hist", name, tags)}
}
func (r *recCached) Capabilities() tally.Capabilities { return r.caps }
func (r *recCached) Flush()                           { r.log.add(Ev{Kind: "flush"}) }

type recCachedCloser struct{ *recCached }

func (r recCachedCloser) Close() error {
	r.log.add(Ev{Kind: "close"})
	return r.closeErr
}
