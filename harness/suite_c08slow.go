package main

import (
	"fmt"
	"strings"
	"sync/atomic"
	"time"

	tally "github.com/uber-go/tally/v4"
)

// c08slow: "Close ... while a periodic report pass is ... blocked inside a slow reporter call" in real time.
// The report loop of a real root (300us ticker) is held inside one reporter call (Flush, which holds no lock,
// or a counter delivery, which holds the scope's and the shard's read locks) for several seconds while Close
// is called from another goroutine.  The property leaves no room for patience: as long as the pass is still
// inside the reporter, Close has not returned and nothing else reaches the reporter (Close's own pass, Flush
// and reporter Close come after the loop has ended).  Once the call returns: everything recorded is delivered
// exactly once, the last reporter calls are Flush and one Close, nothing afterwards, the loop goroutine is gone.
// The cooperative scheduler is not used: this suite is about wall-clock waits (a bounded wait for the loop in
// Close can only be seen by outlasting it), the schedules themselves are covered by c08sched / c08lock and, for
// every schedule, by TallyProofs/Props/C08.lean.

func init() {
	register("c08slow", "C08", "", suiteC08Slow)
}

func scenarioC08Slow(c *Ctx, r *Rng, hold time.Duration) {
	cached := r.Bool()
	holdKind := "flush"
	if r.Bool() {
		holdKind = "counter"
	}
	w := newWorld(cached, 300*time.Microsecond, 1, true)
	var armed int32
	entered := make(chan struct{})
	gate := make(chan struct{})
	w.log().Pre = func(e *Ev) {
		if e.Kind == holdKind && atomic.CompareAndSwapInt32(&armed, 1, 2) {
			close(entered)
			<-gate
		}
	}
	sig := "c08-slow"
	line := func() string {
		return fmt.Sprintf("cached=%v pass held inside reporter call %q for %v while Close is called | %s", cached, holdKind, hold, strings.Join(w.trace, " | "))
	}
	fail := func(clause, why string) {
		_, order := w.delivered()
		c.Cov.Fail(Failure{Kind: "violated", Clause: clause, Signature: sig, Line: line(), Reply: fmt.Sprintf("%s; reporter log %v", why, order)})
	}
	want := map[string]int64{}
	ctrs := []c08ctr{{"rc", w.root.Counter("rc")}, {"s0.c", w.root.SubScope("s0").Counter("c")}}
	for _, ct := range ctrs {
		v := int64(r.Range(1, 9))
		ct.h.Inc(v)
		want[ct.full] += v
	}
	time.Sleep(2 * time.Millisecond) // a few passes
	for _, ct := range ctrs {
		v := int64(r.Range(1, 9))
		ct.h.Inc(v)
		want[ct.full] += v
	}
	atomic.StoreInt32(&armed, 1)
	select {
	case <-entered:
	case <-time.After(10 * time.Second):
		close(gate)
		w.closer.Close()
		c.Cov.Fail(Failure{Kind: "crash", Clause: "setup", Signature: sig + "-no-pass", Line: line(), Reply: "no periodic pass reached the reporter within 10s"})
		return
	}
	// recorded while the pass is stuck, before Close is called: must be delivered as well
	for _, ct := range ctrs {
		v := int64(r.Range(1, 9))
		ct.h.Inc(v)
		want[ct.full] += v
	}
	lenAtCall := len(w.log().Snapshot())
	returned := make(chan error, 1)
	go func() { returned <- w.closer.Close() }()
	w.note("Close called")
	early := false
	select {
	case err := <-returned:
		early = true
		fail("no-pass-running-after-close-returned", fmt.Sprintf("Close returned (err=%v) while the periodic pass was still inside the reporter's %s call", err, holdKind))
	case <-time.After(hold):
	}
	if n := len(w.log().Snapshot()); !early && n != lenAtCall {
		_, order := w.delivered()
		fail("close-waits-for-the-pass-in-flight", fmt.Sprintf("%d reporter call(s) were made while the periodic pass was still inside the reporter's %s call: %v", n-lenAtCall, holdKind, order))
		early = true
	}
	close(gate)
	if !early {
		select {
		case err := <-returned:
			if err != nil {
				fail("close-returns-reporter-error", "Close returned "+err.Error())
			}
		case <-time.After(10 * time.Second):
			c.Cov.Fail(Failure{Kind: "crash", Clause: "deadlock", Signature: sig + "-stuck", Line: line(), Reply: "Close did not return within 10s of the slow call returning"})
			return
		}
	} else {
		time.Sleep(50 * time.Millisecond)
	}
	if early {
		return
	}
	sums, order := w.delivered()
	n0 := len(w.log().Snapshot())
	for _, ct := range ctrs {
		if sums[ct.full] != want[ct.full] {
			fail("recorded-before-close-delivered-exactly-once", fmt.Sprintf("%s: recorded %d before Close was called, delivered %d", ct.full, want[ct.full], sums[ct.full]))
			return
		}
	}
	if n := len(order); n < 2 || order[n-1] != "close" || order[n-2] != "flush" {
		fail("flush-then-close", "the last reporter calls are not Flush, Close")
		return
	}
	ncl := 0
	for _, e := range order {
		if e == "close" {
			ncl++
		}
	}
	if ncl != 1 {
		fail("reporter-closed-exactly-once", fmt.Sprintf("%d reporter Close calls", ncl))
		return
	}
	time.Sleep(2 * time.Millisecond)
	if n := len(w.log().Snapshot()); n != n0 {
		fail("silent-after-close", fmt.Sprintf("%d reporter call(s) after Close returned", n-n0))
		return
	}
	deadline := time.Now().Add(500 * time.Millisecond)
	for goroutinesContaining("(*scope).reportLoop") > 0 && time.Now().Before(deadline) {
		time.Sleep(200 * time.Microsecond)
	}
	if n := goroutinesContaining("(*scope).reportLoop"); n > 0 {
		fail("report-goroutine-ended", fmt.Sprintf("%d report loop goroutine(s) still running after Close returned", n))
		return
	}
	if sc := w.root.SubScope("late"); sc != tally.NoopScope {
		fail("scopes-after-close-inert", "SubScope after Close returned a live scope")
	}
	c.Cov.Hit("held-in=" + holdKind)
	c.Cov.Hit(fmt.Sprintf("cached=%v", cached))
	c.Cov.Hit(fmt.Sprintf("hold=%v", hold))
	c.Cov.Eval(line(), true)
	c.Cov.Schedules++
}

func suiteC08Slow(c *Ctx) {
	c.Cov.Rule = "real-time runs: the real report loop (300us ticker) is held inside one reporter call (Flush or a counter delivery; plain / cached) for 3.4 s (thorough: also 5.5 s and 10.5 s) while Close is called from another goroutine; oracle: Close neither returns nor lets anything else reach the reporter while the pass is inside the call; afterwards everything recorded before the call is delivered exactly once, Flush then one reporter Close come last, nothing later, loop goroutine gone, SubScope inert; nontrivial = the pass was held inside the call when Close was called (always)"
	holds := []time.Duration{3400 * time.Millisecond}
	if c.Thorough() {
		holds = append(holds, 5500*time.Millisecond, 10500*time.Millisecond)
	}
	if c.Scale > 1 {
		holds = append(holds, 3400*time.Millisecond)
	}
	for _, h := range holds {
		scenarioC08Slow(c, c.Rng.Fork(), h)
	}
	c.Cov.Traces = c.Cov.Schedules
}
