package main

import (
	"fmt"
	"strings"
	"sync/atomic"
	"time"

	tally "github.com/uber-go/tally/v4"
)

// c08slow: "Close ... while a periodic report pass is ... blocked inside a slow reporter call" in real time.
// The report loop of a real root (300us ticker) is held inside one reporter call (Flush, which holds no lock,
// or a counter delivery, which holds the scope's and the shard's read locks) for several seconds while Close
// is called from another goroutine.  The property leaves no room for patience: as long as the pass is still
// inside the reporter, Close has not returned and nothing else reaches the reporter (Close's own pass, Flush
// and reporter Close come after the loop has ended).  Once the call returns: everything recorded is delivered
// exactly once, the last reporter calls are Flush and one Close, nothing afterwards, the loop goroutine is gone.
// The cooperative scheduler is not used: this suite is about wall-clock waits (a bounded wait for the loop in
// Close can only be seen by outlasting it), the schedules themselves are covered by c08sched / c08lock and, for
// every schedule, by TallyProofs/Props/C08.lean.

func init() {
	register("c08slow", "C08", "", suiteC08Slow)
}

func scenarioC08Slow(c *Ctx, r *Rng, hold time.Duration) {
	cached := r.Bool()
	holdKind := "flush"
	if r.Bool() {
		holdKind = "counter"
	}
	w := newWorld(cached, 300*time.Microsecond, 1, true)
	var armed int32
	entered := make(chan struct{})
	gate := make(chan struct{})
	w.log().Pre = func(e *Ev) {
		if e.Kind == holdKind && atomic.CompareAndSwapInt32(&armed, 1, 2) {
			close(entered)
			<-gate
		}
	}
	sig := "c08-slow"
	line := func() string {
		return fmt.Sprintf("cached=%v pass held inside reporter call %q for %v while Close is called | %s", cached, holdKind, hold, strings.Join(w.trace, " | "))
	}
	fail := func(clause, why string) {
		_, order := w.delivered()
		c.Cov.Fail(Failure{Kind: "violated", Clause: clause, Signature: sig, Line: line(), Reply: fmt.Sprintf("%s; reporter log %v", why, order)})
	}
	want := map[string]int64{}
	ctrs := []c08ctr{{"rc", w.root.Counter("rc")}, {"s0.c", w.root.SubScope("s0").Counter("c")}}
	for _, ct := range ctrs {
		v := int64(r.Range(1, 9))
		ct.h.Inc(v)
		want[ct.full] += v
	}
	time.Sleep(2 * time.Millisecond) // a few passes
	for _, ct := range ctrs {
		v := int64(r.Range(1, 9))
		ct.h.Inc(v)
		want[ct.full] += v
	}
	atomic.StoreInt32(&armed, 1)
	select {
	case <-entered:
	case <-time.After(10 * time.Second):
		close(gate)
		w.closer.Close()
		c.Cov.Fail(Failure{Kind: "crash", Clause: "setup", Signature: sig + "-no-pass", Line: line(), Reply: "no periodic pass reached the reporter within 10s"})
		return
	}
	// recorded while the pass is stuck, before Close is called: must be delivered as well
	for _, ct := range ctrs {
		v := int64(r.Range(1, 9))
		ct.h.Inc(v)
		want[ct.full] += v
	}
	lenAtCall := len(w.log().Snapshot())
	returned := make(chan error, 1)
	go func() { returned <- w.closer.Close() }()
	w.note("Close called")
	early := false
	select {
	case err := <-returned:
		early = true
		fail("no-pass-running-after-close-returned", fmt.Sprintf("Close returned (err=%v) while the periodic pass was still inside the reporter's %s call", err, holdKind))
	case <-time.After(hold):
	}
	if n := len(w.log().Snapshot()); !early && n != lenAtCall {
		_, order := w.delivered()
		fail("close-waits-for-the-pass-in-flight", fmt.Sprintf("%d reporter call(s) were made while the periodic pass was still inside the reporter's %s call: %v", n-lenAtCall, holdKind, order))
		early = true
	}
	close(gate)
	if !early {
		select {
		case err := <-returned:
			if err != nil {
				fail("close-returns-reporter-error", "Close returned "+err.Error())
			}
		case <-time.After(10 * time.Second):
			c.Cov.Fail(Failure{Kind: "crash", Clause: "deadlock", Signature: sig + "-stuck", Line: line(), Reply: "Close did not return within 10s of the slow call returning"})
			return
		}
	} else {
		time.Sleep(50 * time.Millisecond)
	}
	if early {
		return
	}
	sums, order := w.delivered()
	n0 := len(w.log().Snapshot())
	for _, ct := range ctrs {
		if sums[ct.full] != want[ct.full] {
			fail("recorded-before-close-delivered-exactly-once", fmt.Sprintf("%s: recorded %d before Close was called, delivered %d", ct.full, want[ct.full], sums[ct.full]))
			return
		}
	}
	if n := len(order); n < 2 || order[n-1] != "close" || order[n-2] != "flush" {
		fail("flush-then-close", "the last reporter calls are not Flush, Close")
		return
	}
	ncl := 0
	for _, e := range order {
		if e == "close" {
			ncl++
		}
	}
	if ncl != 1 {
		fail("reporter-closed-exactly-once", fmt.Sprintf("%d reporter Close calls", ncl))
		return
	}
	time.Sleep(2 * time.Millisecond)
	if n := len(w.log().Snapshot()); n != n0 {
		fail("silent-after-close", fmt.Sprintf("%d reporter call(s) after Close returned", n-n0))
		return
	}
	deadline := time.Now().Add(5 * time.Second) // generous: only a goroutine that really stays costs this time
	for goroutinesContaining("(*scope).reportLoop") > 0 && time.Now().Before(deadline) {
		time.Sleep(200 * time.Microsecond)
	}
	if n := goroutinesContaining("(*scope).reportLoop"); n > 0 {
		fail("report-goroutine-ended", fmt.Sprintf("%d report loop goroutine(s) still running after Close returned", n))
		return
	}
	if sc := w.root.SubScope("late"); sc != tally.NoopScope {
		fail("scopes-after-close-inert", "SubScope after Close returned a live scope")
	}
	c.Cov.Hit("held-in=" + holdKind)
	c.Cov.Hit(fmt.Sprintf("cached=%v", cached))
	c.Cov.Hit(fmt.Sprintf("hold=%v", hold))
	c.Cov.Eval(line(), true)
	c.Cov.Schedules++
}

func suiteC08Slow(c *Ctx) {
	c.Cov.Rule = "real-time runs: the real report loop (300us ticker) is held inside one reporter call (Flush or a counter delivery; plain / cached) for 3.4 s (thorough: also 5.5 s and 10.5 s) while Close is called from another goroutine; oracle: Close neither returns nor lets anything else reach the reporter while the pass is inside the call; afterwards everything recorded before the call is delivered exactly once, Flush then one reporter Close come last, nothing later, loop goroutine gone, SubScope inert; nontrivial = the pass was held inside the call when Close was called (always)"
	holds := []time.Duration{3400 * time.Millisecond}
	if c.Thorough() {
		holds = append(holds, 5500*time.Millisecond, 10500*time.Millisecond)
	}
	if c.Scale > 1 {
		holds = append(holds, 3400*time.Millisecond)
	}
	for _, h := range holds {
		scenarioC08Slow(c, c.Rng.Fork(), h)
	}
	c.Cov.Traces = c.Cov.Schedules
}

// c08fault -- A PROBE, NOT PART OF ANY CHECK (tools/props_table.py does not list it).  C08 quantifies over the moments
// at which Close is called, record histories, concurrent callers and kinds of reporter; a reporter whose calls PANIC is
// not among them, and "further Close calls return nil" speaks of calls made after Close has RETURNED - a Close that
// ended in the reporter's panic has not.  Demanding anything here would demand more than the property states, so the
// suite is kept for reference only (run it by name through the harness binary); see DESIGN.md 10.6.
//
// a fault at one moment of the shutdown -- one reporter call made by the winning Close (the final pass's
// counter delivery, the last Flush, or the reporter's own Close) panics once and the application recovers, as a
// deferred Close in main under a recover would.  "Further Close calls return nil": a later Close, and a Close that was
// already waiting for the first one, must return (a completion signal that is raised only on the normal way out would
// leave them waiting for ever).  Real goroutines, a watchdog judges; the scope is abandoned afterwards.

func init() {
	register("c08fault", "C08", "", suiteC08Fault)
}

func scenarioC08Fault(c *Ctx, cached bool, at string, concurrent bool) {
	w := newWorld(cached, 0, 1, true)
	var armed, fired int32
	inCall := make(chan struct{})
	gate := make(chan struct{})
	w.log().Pre = func(e *Ev) {
		if e.Kind == at && atomic.LoadInt32(&armed) == 1 && atomic.CompareAndSwapInt32(&fired, 0, 1) {
			if concurrent {
				close(inCall)
				<-gate
			}
			panic("c08fault: the reporter's " + at + " call failed")
		}
	}
	w.root.Counter("c").Inc(3)
	w.root.SubScope("s").Counter("c").Inc(4)
	atomic.StoreInt32(&armed, 1)
	line := fmt.Sprintf("cached=%v; the reporter's %q call panics once inside the first Close and the application recovers; concurrent second caller=%v; then Close again", cached, at, concurrent)
	fail := func(clause, why string) {
		c.Cov.Fail(Failure{Kind: "violated", Clause: clause, Signature: "c08-close-after-recovered-reporter-panic", Line: line, Reply: why})
	}
	first := make(chan interface{}, 1)
	go func() {
		_, v := catch(func() { w.closer.Close() })
		first <- v
	}()
	second := make(chan error, 1)
	if concurrent {
		select {
		case <-inCall:
		case <-time.After(10 * time.Second):
			close(gate)
			c.Cov.Fail(Failure{Kind: "crash", Clause: "setup", Signature: "c08fault-no-call", Line: line, Reply: "the first Close never reached the reporter's " + at + " call"})
			return
		}
		go func() { second <- w.closer.Close() }()
		time.Sleep(20 * time.Millisecond) // let it reach its wait for the first caller
		close(gate)
	}
	select {
	case v := <-first:
		if v == nil && atomic.LoadInt32(&fired) == 1 {
			c.Cov.Hit("close-fault.panic-swallowed-by-the-library")
		}
	case <-time.After(10 * time.Second):
		fail("further-close-calls-return", "the first Close neither returned nor let the reporter's panic through within 10 s")
		return
	}
	if atomic.LoadInt32(&fired) == 0 {
		// the call never happened (e.g. no reporter Close for a reporter that is no io.Closer): nothing to judge
		c.Cov.Eval(line, false)
		return
	}
	if concurrent {
		select {
		case <-second:
		case <-time.After(8 * time.Second):
			fail("further-close-calls-return", "a Close call that was waiting for the first one is still blocked 8 s after the first one ended in the reporter's (recovered) panic")
			return
		}
	}
	third := make(chan error, 1)
	go func() {
		var err error
		if p, v := catch(func() { err = w.closer.Close() }); p {
			err = fmt.Errorf("panic: %v", v)
		}
		third <- err
	}()
	select {
	case err := <-third:
		if err != nil {
			fail("further-close-calls-return-nil", "a later Close returned "+err.Error())
			return
		}
	case <-time.After(8 * time.Second):
		fail("further-close-calls-return", "a Close call made after the first one ended in the reporter's (recovered) panic is still blocked after 8 s")
		return
	}
	c.Cov.Hit("close-fault.at=" + at)
	c.Cov.Eval(line, true)
	c.Cov.Schedules++
}

func suiteC08Fault(c *Ctx) {
	c.Cov.Rule = "real goroutines: one reporter call of the winning root Close (final pass's counter delivery / Flush / reporter Close; plain and cached) panics once, the application recovers; with and without a second Close caller already waiting; oracle: the waiting caller and a later Close return within 8 s, the later one with nil; nontrivial = the faulty call happened"
	for _, cached := range []bool{false, true} {
		for _, at := range []string{"counter", "flush", "close"} {
			for _, conc := range []bool{false, true} {
				scenarioC08Fault(c, cached, at, conc)
			}
		}
	}
	c.Cov.Traces = c.Cov.Schedules
}
