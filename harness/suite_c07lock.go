package main

import (
	"fmt"
	"io"
	"strconv"
	"strings"
	"time"

	tally "github.com/uber-go/tally/v4"
	"github.com/uber-go/tally/v4/m3"
)

// Lock-step validation of the real registry against Model.Registry (driver: lean/Tally/Drv/Registry.lean).
// Every hook-to-hook transition of a real thread is translated into model events; the model supplies the
// set of threads that can run without blocking, so the schedule is fully deterministic.

func init() { register("c07lock", "C07", "registry", suiteC07Lock) }

type regOp struct {
	kind  string // obtain | record | close
	ident int
}

type regThread struct {
	id     int
	thr    *Thr
	pass   bool
	prog   []regOp
	next   int // index of the op about to run (set by the thread before it parks at app.op)
	sc     tally.Scope
	ctr    tally.Counter
	sid    int // model scope id of the current handle (-1 none)
	inObt  bool
	preLk  bool // passed registry.subscope.pre-lock in the current obtain (hooks inside the write-locked region must not park)
	rmSeen bool // (unused since both removals of the re-acquire path are schedule points)
	rmN    int  // how many registry.remove.pre-lock parks of the current obtain have been translated (0, 1)
	lastK  string
	live   bool
	opIdx  int  // index of the op the thread is parked in front of (valid while At == app.op)
	hookRm bool // set by the hook filter: the first registry.remove.pre-lock of the current obtain was seen
}

type regRun struct {
	c       *Ctx
	w       *world
	s       *Sched
	d       *Driver
	threads []*regThread
	trace   []string
	failed  bool
	ptrSid  map[tally.Scope]int
	sidPtr  map[int]tally.Scope
	keyID   map[string]int
	sig     string
	total   int
	recPre  int // records made through a handle whose Close had not been called (must all be delivered)
	recAll  int
	closedP map[tally.Scope]bool
	alias   bool
}

func (rr *regRun) fail(kind, clause, reply string) {
	if !rr.failed {
		rr.c.Cov.Fail(Failure{Kind: kind, Clause: clause, Signature: rr.sig, Line: strings.Join(rr.trace, " | "), Reply: reply})
	}
	rr.failed = true
}

func (rr *regRun) ask(line string) string {
	rr.trace = append(rr.trace, line)
	rep := rr.d.Ask(line)
	if rep == "ok" || strings.HasPrefix(rep, "ok ") || strings.HasPrefix(rep, "sid ") || strings.HasPrefix(rep, "enabled") {
		return rep
	}
	kind := "differ"
	if strings.HasPrefix(rep, "violated") {
		kind = "violated"
	} else if strings.HasPrefix(rep, "bad-op") {
		kind = "bad-op"
	}
	f := strings.Fields(rep)
	rr.fail(kind, strings.Join(f[:min(2, len(f))], " "), rep)
	return rep
}

func (rr *regRun) ev(format string, a ...interface{}) bool {
	return rr.ask("ev "+fmt.Sprintf(format, a...)) == "ok"
}
func (rr *regRun) expect(t int, pc string) bool {
	return rr.ask(fmt.Sprintf("expect %d %s", t, pc)) == "ok"
}

func identName(i int) string { return "s" + strconv.Itoa(i) }

// alias mode: the scenarios run under the M3 sanitizer and children are obtained with Tagged({key: "v"}); the raw keys
// 1 ("k 1") and 2 ("k+1") sanitize to key 3 ("k_1"), which is also a spelling of its own; key 4 ("other") is unrelated.
var aliasSpelling = map[int]string{1: "k 1", 2: "k+1", 3: "k_1", 4: "other"}

const aliasSanMap = "1:3,2:3"

func (rr *regRun) obtainChild(i int) tally.Scope {
	if rr.alias {
		return rr.w.root.Tagged(map[string]string{aliasSpelling[i]: "v"})
	}
	return rr.w.root.SubScope(identName(i))
}

// the registry key of identity i under the root without prefix/tags ("" for the root itself)
func (rr *regRun) keyIdent(k string) int {
	if k == "" {
		return 0
	}
	if id, ok := rr.keyID[k]; ok {
		return id
	}
	return 999
}

// after a visit's swap/deliver: thread left the visit and reached label `to`
func (rr *regRun) passAfter(t *regThread, to string) {
	id := t.id
	if !rr.ev("step %d 0", id) { // passAfter -> passUnlocked | passIter
		return
	}
	switch to {
	case "registry.remove.pre-lock":
		rr.expect(id, "passUnlocked")
	case "registry.visit":
		rr.expect(id, "passIter")
	case "done":
		if rr.expect(id, "passIter") {
			rr.ev("passEnd %d", id)
		}
		t.live = false
	default:
		rr.fail("differ", "unexpected-label", to)
	}
}

func (rr *regRun) takeDelivered() int {
	n := 0
	for _, e := range rr.w.log().Take() {
		if e.Kind == "counter" {
			n += int(e.I)
		}
	}
	rr.total += n
	return n
}

// one scheduler step of thread t, translated for the model
func (rr *regRun) stepThread(t *regThread) {
	from := t.thr.At
	to, arg := rr.s.Step(t.thr)
	if to == "blocked" || to == "panic" {
		rr.fail("crash", to, fmt.Sprintf("thread %d from %s (model said it could run): %v", t.id, from, t.thr.Pan))
		t.live = false
		return
	}
	id := t.id
	rr.trace = append(rr.trace, fmt.Sprintf("[%d:%s->%s]", id, from, to))
	if t.pass {
		switch from {
		case "start":
			if to == "done" {
				t.live = false
				return
			}
			rr.ev("passBegin %d", id)
			t.lastK = arg
		case "registry.visit":
			// picked entry lastK; the closed flag has been read
			rr.ev("step %d %d", id, rr.keyIdent(t.lastK))
			if to != "registry.pre-closed-read" {
				rr.fail("differ", "unexpected-label", to)
			}
		case "registry.pre-closed-read":
			if to == "counter.value:0" {
				rr.expect(id, "passSwap")
			} else { // scope without metrics: the visit is empty
				rr.ev("step %d 0", id) // passSwap -> passAfter (empty cell)
				rr.passAfter(t, to)
			}
		case "counter.value:0":
			rr.ev("step %d 0", id) // swap
			if to == "counter.deliver" {
				rr.expect(id, "passDeliver")
			} else {
				rr.passAfter(t, to)
			}
		case "counter.deliver":
			n := rr.takeDelivered()
			rr.ask(fmt.Sprintf("pending %d %d", id, n))
			rr.ev("step %d 0", id) // deliver
			rr.passAfter(t, to)
		case "registry.remove.pre-lock":
			rr.ev("step %d 0", id) // write lock: delete by identity
			rr.ev("step %d 0", id) // RLock again
			rr.ev("step %d 0", id) // clear
			switch to {
			case "registry.visit":
				rr.expect(id, "passIter")
			case "done":
				if rr.expect(id, "passIter") {
					rr.ev("passEnd %d", id)
				}
				t.live = false
			default:
				rr.fail("differ", "unexpected-label", to)
			}
		}
		if to == "registry.visit" {
			t.lastK = arg
		}
		return
	}
	// application thread
	finishObtain := func() {
		rep := rr.ask(fmt.Sprintf("result %d", id))
		if strings.HasPrefix(rep, "sid ") {
			sid, _ := strconv.Atoi(rep[4:])
			if old, ok := rr.ptrSid[t.sc]; ok && old != sid {
				rr.fail("differ", "scope-identity", fmt.Sprintf("pointer known as model scope %d, model returned %d", old, sid))
			}
			if p, ok := rr.sidPtr[sid]; ok && p != t.sc {
				rr.fail("differ", "scope-identity", fmt.Sprintf("model scope %d is another object", sid))
			}
			rr.ptrSid[t.sc], rr.sidPtr[sid] = sid, t.sc
			t.sid = sid
		}
		rr.ev("step %d 0", id) // obtDone -> idle
		t.inObt = false
	}
	afterVisitObt := func() { // obtAfter -> obtUnlocked
		rr.ev("step %d 0", id)
		if to != "registry.remove.pre-lock" {
			rr.fail("differ", "unexpected-label", to)
		} else {
			rr.expect(id, "obtUnlocked")
		}
	}
	switch from {
	case "start", "app.op":
		if from == "app.op" {
			op := t.prog[t.opIdx]
			switch op.kind {
			case "record":
				if t.sid >= 0 {
					rr.ev("record %d", t.sid)
					rr.recAll++
					if !rr.closedP[t.sc] {
						rr.recPre++
					}
				}
			case "close":
				if t.sid >= 0 {
					rr.ev("close %d", t.sid)
					rr.closedP[t.sc] = true
				}
			case "obtain":
				if to != "registry.subscope.pre-rlock" {
					// root or parent closed: not in these scenarios
					rr.fail("differ", "unexpected-label", to)
					return
				}
				rr.ev("obtain %d %d", id, op.ident)
				t.inObt, t.preLk, t.rmSeen, t.rmN = true, false, false, 0
			}
		}
	case "registry.subscope.pre-rlock":
		rr.ev("step %d 0", id) // probe
		switch to {
		case "registry.subscope.pre-lock":
			rr.expect(id, "obtWantLock")
			t.preLk = true
		case "counter.value:0":
			rr.expect(id, "obtSwap")
		case "registry.remove.pre-lock": // closed hit without metrics
			if rr.expect(id, "obtSwap") {
				rr.ev("step %d 0", id) // empty swap
				afterVisitObt()
				t.rmSeen = true
			}
		case "app.op", "done":
			if rr.expect(id, "obtDone") {
				finishObtain()
			}
		default:
			rr.fail("differ", "unexpected-label", to)
		}
	case "counter.value:0":
		rr.ev("step %d 0", id) // swap
		if to == "counter.deliver" {
			rr.expect(id, "obtDeliver")
		} else {
			afterVisitObt()
			t.rmSeen = true
		}
	case "counter.deliver":
		n := rr.takeDelivered()
		rr.ask(fmt.Sprintf("pending %d %d", id, n))
		rr.ev("step %d 0", id)
		afterVisitObt()
		t.rmSeen = true
	case "registry.remove.pre-lock":
		if t.rmN == 0 {
			// first removal (the raw key): write lock + delete by identity, RLock again, RUnlock for the second removal
			t.rmN = 1
			rr.ev("step %d 0", id) // obtUnlocked: delete raw key if it still points to the scope
			rr.ev("step %d 0", id) // obtRelock
			rr.ev("step %d 0", id) // obtAfter2: RUnlock
			if to != "registry.remove.pre-lock" {
				rr.fail("differ", "unexpected-label", to)
			} else {
				rr.expect(id, "obtUnlocked2")
			}
		} else {
			rr.ev("step %d 0", id) // obtUnlocked2: delete sanitized key if it still points to the scope
			rr.ev("step %d 0", id) // obtRelock2
			rr.ev("step %d 0", id) // clear
			rr.ev("step %d 0", id) // RUnlock
			if to != "registry.subscope.pre-lock" {
				rr.fail("differ", "unexpected-label", to)
			} else {
				rr.expect(id, "obtWantLock")
				t.preLk = true
			}
		}
	case "registry.subscope.pre-lock":
		// anything the write-locked region delivered (closed scope still registered) is in the log now
		rr.ev("step %d 0", id)
		rr.takeDelivered()
		if rr.expect(id, "obtDone") {
			finishObtain()
		}
	}
	if to == "done" {
		t.live = false
	}
	if to == "app.op" {
		t.opIdx = t.next - 1
	}
}

func runC07Lock(c *Ctx, r *Rng, ch Chooser, cached bool, progs [][]regOp, passes int, sig string) []string {
	return runC07LockA(c, r, ch, cached, false, progs, passes, sig)
}

func runC07LockA(c *Ctx, r *Rng, ch Chooser, cached, alias bool, progs [][]regOp, passes int, sig string) []string {
	if alias {
		o := m3.DefaultSanitizerOpts
		worldSanitize = &o
	}
	w := newWorld(cached, 0, 1, false)
	worldSanitize = nil
	rr := &regRun{c: c, w: w, d: c.Drv, ptrSid: map[tally.Scope]int{}, sidPtr: map[int]tally.Scope{}, keyID: map[string]int{}, sig: sig, closedP: map[tally.Scope]bool{}, alias: alias}
	rr.ptrSid[w.root], rr.sidPtr[0] = 0, w.root
	for i := 1; i <= 4; i++ {
		if alias {
			rr.keyID[tally.VerifKeyForPrefixedStringMaps("", nil, map[string]string{aliasSpelling[i]: "v"})] = i
		} else {
			rr.keyID[tally.VerifKeyForPrefixedStringMaps(identName(i), nil)] = i
		}
	}
	rr.ask("begin")
	if alias {
		rr.ask("san " + aliasSanMap)
	}
	s := NewSched(nil)
	rr.s = s
	byName := map[string]*regThread{}
	s.ParkOnT = func(th, l string) bool {
		t := byName[th]
		if t == nil {
			return false
		}
		if t.pass {
			switch l {
			case "registry.visit", "registry.pre-closed-read", "counter.value:0", "counter.deliver", "registry.remove.pre-lock":
				return true
			}
			return false
		}
		switch l {
		case "app.op", "registry.subscope.pre-rlock":
			return true
		case "registry.subscope.pre-lock":
			return true
		case "counter.value:0", "counter.deliver":
			return t.inObt && !t.preLk
		case "registry.remove.pre-lock":
			return t.inObt && !t.preLk // both removals (raw key, sanitized key) of the re-acquire path
		}
		return false
	}
	for i, prog := range progs {
		t := &regThread{id: i + 1, prog: prog, sid: -1, live: true}
		name := "U" + strconv.Itoa(t.id)
		byName[name] = t
		tt := t
		t.thr = s.Spawn(name, func() {
			for k, op := range tt.prog {
				tt.next = k + 1
				hook("app.op", op.kind)
				switch op.kind {
				case "obtain":
					tt.hookRm = false
					tt.sc = rr.obtainChild(op.ident)
					tt.ctr = tt.sc.Counter("c")
				case "record":
					if tt.ctr != nil {
						tt.ctr.Inc(1)
					}
				case "close":
					if tt.sc != nil {
						tt.sc.(io.Closer).Close()
					}
				}
			}
		})
		rr.threads = append(rr.threads, t)
	}
	for i := 0; i < passes; i++ {
		t := &regThread{id: 100 + i, pass: true, live: true}
		name := "P" + strconv.Itoa(t.id)
		byName[name] = t
		t.thr = s.Spawn(name, func() { tally.VerifReportOnce(w.root) })
		rr.threads = append(rr.threads, t)
	}
	for steps := 0; steps < 2000 && !rr.failed; steps++ {
		rep := rr.d.Ask("enabled")
		en := map[int]bool{}
		for _, x := range strings.Split(strings.TrimPrefix(rep, "enabled "), ",") {
			if v, err := strconv.Atoi(strings.TrimSpace(x)); err == nil {
				en[v] = true
			}
		}
		var cand []*regThread
		anyLive := false
		for _, t := range rr.threads {
			if !t.live {
				continue
			}
			anyLive = true
			// a thread the model has as idle (parked at start / app.op) can always run; otherwise ask the model
			modelIdle := t.thr.At == "start" || (t.thr.At == "app.op")
			if t.pass && t.thr.At == "registry.visit" && !en[t.id] {
				// the model is at passIter (always enabled) but has no pc entry before passBegin
				modelIdle = true
			}
			if modelIdle || en[t.id] {
				cand = append(cand, t)
			}
		}
		if !anyLive {
			break
		}
		if len(cand) == 0 {
			rr.fail("violated", "deadlock", "no thread can run: "+rep)
			break
		}
		rr.stepThread(cand[ch.Pick(len(cand))])
	}
	s.Finish()
	// quiescence: two solo passes; the model runs them too
	if !rr.failed {
		for k := 0; k < 2; k++ {
			p := &regThread{id: 200 + k, pass: true, live: true}
			name := "Q" + strconv.Itoa(p.id)
			s2 := NewSched(nil)
			rr.s = s2
			s2.ParkOnT = func(th, l string) bool {
				switch l {
				case "registry.visit", "registry.pre-closed-read", "counter.value:0", "counter.deliver", "registry.remove.pre-lock":
					return th == name
				}
				return false
			}
			p.thr = s2.Spawn(name, func() { tally.VerifReportOnce(w.root) })
			for n := 0; n < 500 && p.live && !rr.failed; n++ {
				rr.stepThread(p)
			}
			s2.Finish()
		}
	}
	rr.takeDelivered()
	total := rr.total
	// model-independent oracle on what the reporter really received — only when the whole execution ran
	// under the scheduler's control (after a rejected step the threads were released and ran unaccounted)
	if !rr.failed {
		if total < rr.recPre {
			rr.fail("violated", "recorded-before-close-lost", fmt.Sprintf("%d increments recorded on live scopes, %d delivered", rr.recPre, total))
		} else if total > rr.recAll {
			rr.fail("violated", "delivered-more-than-recorded", fmt.Sprintf("%d recorded, %d delivered", rr.recAll, total))
		}
	}
	if !rr.failed {
		rr.ask(fmt.Sprintf("final %d", total))
	}
	rr.d.Ask("end")
	w.closer.Close()
	_ = time.Now
	return rr.trace
}

func (t *regThread) rmSeenHook() bool {
	seen := t.hookRm
	t.hookRm = true
	return seen
}

func genRegProg(r *Rng, idents int) []regOp {
	var p []regOp
	n := r.Range(2, 7)
	have := false
	for len(p) < n {
		switch {
		case !have || r.Chance(25):
			p = append(p, regOp{"obtain", r.Range(1, idents)})
			have = true
		case r.Chance(55):
			p = append(p, regOp{kind: "record"})
		default:
			p = append(p, regOp{kind: "close"})
		}
	}
	return p
}

func suiteC07Lock(c *Ctx) {
	c.Cov.Rule = "lock-step validation: 1-2 application threads running random programs of {obtain identity, record, Close} on 1-2 identities (40% of the runs: under a sanitizer, with two raw spellings of one identity and the sanitized spelling itself) against 1-2 report passes, one shard, plain and cached reporter; the model supplies the set of threads that can run without blocking, every hook-to-hook transition of the real code is replayed as model events and rejected if the model does not allow it; the final model state is judged by the evaluated invariants (token conservation, no pre-close token dropped, live scopes registered) and the number of delivered increments is compared; nontrivial = a pass or re-acquire is interleaved with another thread's registry action; distinct by trace. Thorough: all schedules of small scenarios"
	n := c.N(250, 4000)
	for i := 0; i < n; i++ {
		r := c.Rng.Fork()
		nApp := r.Range(1, 2)
		idents := r.Range(1, 2)
		var progs [][]regOp
		for k := 0; k < nApp; k++ {
			progs = append(progs, genRegProg(r, idents))
		}
		alias := r.Chance(40)
		if alias {
			// raw spellings 1 and 2 share the identity 3; some programs also use the sanitized spelling itself
			for _, pg := range progs {
				for k := range pg {
					if pg[k].kind == "obtain" {
						pg[k].ident = r.Range(1, 3)
					}
				}
			}
			c.Cov.Hit("alias-mode")
		}
		tr := runC07LockA(c, r, &randChooser{r: r}, r.Bool(), alias, progs, r.Range(1, 2), "c07-lockstep")
		key := strings.Join(tr, " ")
		c.Cov.Eval(key, strings.Contains(key, "passUnlocked") || strings.Contains(key, "obtSwap") || strings.Contains(key, "obtUnlocked"))
		c.Cov.Schedules++
		c.Cov.Traces++
	}
	// exhaustive: one application thread {obtain 1, record, close, obtain 1, record} against one pass
	exh := [][][]regOp{{{{"obtain", 1}, {"record", 0}, {"close", 0}, {"obtain", 1}, {"record", 0}}}}
	if c.Thorough() {
		exh = append(exh, [][]regOp{{{"obtain", 1}, {"record", 0}, {"close", 0}}, {{"obtain", 1}, {"record", 0}}})
	}
	start := time.Now()
	for ei, progs := range exh {
		ch := &dfsChooser{}
		cnt := 0
		for {
			tr := runC07Lock(c, c.Rng, ch, false, progs, 1, fmt.Sprintf("c07-lockstep-exh%d", ei))
			cnt++
			c.Cov.Eval(strings.Join(tr, " "), true)
			c.Cov.Schedules++
			c.Cov.Traces++
			if !ch.Next() || cnt > 100000 || (!c.Thorough() && time.Since(start) > 30*time.Second) {
				break
			}
		}
		c.Cov.HitN(fmt.Sprintf("exhaustive.scenario%d.schedules", ei), cnt)
	}
}
