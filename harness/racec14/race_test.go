// Package racec14 is compiled only by the C14 race-detector run (`go test -race -tags verif -c ./racec14`,
// see ../suite_c14.go); it is not part of the harness binary.
package racec14

import (
	"net"
	"sync"
	"testing"
	"time"

	tally "github.com/uber-go/tally/v4"
	"github.com/uber-go/tally/v4/m3"
)

func sink(t *testing.T) (string, func()) {
	c, err := net.ListenUDP("udp", &net.UDPAddr{IP: net.IPv4(127, 0, 0, 1)})
	if err != nil {
		t.Fatal(err)
	}
	stop := make(chan struct{})
	go func() {
		buf := make([]byte, 65536)
		for {
			c.SetReadDeadline(time.Now().Add(20 * time.Millisecond))
			if _, _, err := c.ReadFrom(buf); err != nil {
				select {
				case <-stop:
					return
				default:
				}
			}
		}
	}()
	return c.LocalAddr().String(), func() { close(stop); c.Close() }
}

func newRep(t *testing.T, addr string, proto m3.Protocol, q int) m3.Reporter {
	r, err := m3.NewReporter(m3.Options{HostPorts: []string{addr}, Service: "svc", Env: "test", Protocol: proto, MaxQueueSize: q})
	if err != nil {
		t.Fatal(err)
	}
	return r
}

// mixed Allocate / Report / Flush / Close traffic in which no two goroutines share a bucket handle:
// every race reported here is a violation.
func TestC14RaceMixed(t *testing.T) {
	for _, proto := range []m3.Protocol{m3.Compact, m3.Binary} {
		for _, q := range []int{1, 2, 4096} {
			addr, stop := sink(t)
			r := newRep(t, addr, proto, q)
			shared := r.AllocateCounter("shared-c", map[string]string{"a": "b"})
			sharedG := r.AllocateGauge("shared-g", nil)
			sharedT := r.AllocateTimer("shared-t", nil)
			sharedH := r.AllocateHistogram("shared-h", map[string]string{"k": "v"}, tally.ValueBuckets{1, 2, 4})
			sharedD := r.AllocateHistogram("shared-d", nil, tally.DurationBuckets{time.Millisecond, time.Second})
			var wg sync.WaitGroup
			for g := 0; g < 6; g++ {
				wg.Add(1)
				go func(g int) {
					defer wg.Done()
					for i := 0; i < 150; i++ {
						switch (i + g) % 9 {
						case 0:
							r.AllocateCounter("c", map[string]string{"g": string(rune('a' + g))}).ReportCount(int64(i))
						case 1:
							shared.ReportCount(int64(i))
						case 2:
							sharedG.ReportGauge(float64(i))
						case 3:
							sharedT.ReportTimer(time.Duration(i))
						case 4: // a fresh handle per call: not shared
							sharedH.ValueBucket(0, 2).ReportSamples(int64(i))
						case 5:
							sharedD.DurationBucket(0, time.Second).ReportSamples(int64(i))
						case 6:
							r.Flush()
						case 7:
							r.AllocateHistogram("h", nil, tally.ValueBuckets{1, 2}).ValueBucket(0, 1).ReportSamples(1)
						case 8:
							if g == 5 && i > 100 {
								r.Close()
							}
						}
					}
				}(g)
			}
			wg.Wait()
			r.Close()
			shared.ReportCount(1)
			r.Flush()
			stop()
		}
	}
}

// four goroutines call ReportSamples on ONE value-bucket handle and ONE duration-bucket handle while
// other traffic (Allocate / Report / Flush) runs and Close arrives.
func TestC14RaceSharedHandle(t *testing.T) {
	addr, stop := sink(t)
	defer stop()
	r := newRep(t, addr, m3.Compact, 4096)
	h := r.AllocateHistogram("h", map[string]string{"k": "v"}, tally.ValueBuckets{1, 2, 4})
	d := r.AllocateHistogram("d", nil, tally.DurationBuckets{time.Millisecond, time.Second})
	vb := h.ValueBucket(0, 2)
	db := d.DurationBucket(0, time.Second)
	var wg sync.WaitGroup
	for g := 0; g < 4; g++ {
		wg.Add(1)
		go func(g int) {
			defer wg.Done()
			for i := 0; i < 300; i++ {
				vb.ReportSamples(int64(g*1000 + i))
				db.ReportSamples(int64(g*1000 + i))
			}
		}(g)
	}
	wg.Add(1)
	go func() {
		defer wg.Done()
		c := r.AllocateCounter("c", nil)
		for i := 0; i < 100; i++ {
			c.ReportCount(int64(i))
			if i%10 == 0 {
				r.Flush()
			}
		}
	}()
	wg.Wait()
	r.Close()
}
