package main

import (
	"fmt"
	"net"
	"os"
	"os/exec"
	"path/filepath"
	"regexp"
	"runtime"
	"sort"
	"strconv"
	"strings"
	"sync"
	"sync/atomic"
	"syscall"
	"time"

	tally "github.com/uber-go/tally/v4"
	"github.com/uber-go/tally/v4/m3"
)

func init() {
	register("c14", "C14", "c14", suiteC14)
	register("c14race", "C14", "c14", suiteC14Race)
}

// ---------------------------------------------------------------- loopback sink, census

type c14Sink struct {
	conn   *net.UDPConn
	addr   string
	rc     syscall.RawConn
	buf    []byte
	closed bool
	mu     sync.Mutex
}

func newC14Sink() *c14Sink {
	conn, err := net.ListenUDP("udp", &net.UDPAddr{IP: net.IPv4(127, 0, 0, 1)})
	must(err)
	conn.SetReadBuffer(4 << 20)
	rc, err := conn.SyscallConn()
	must(err)
	return &c14Sink{conn: conn, addr: conn.LocalAddr().String(), rc: rc, buf: make([]byte, 65536)}
}

// DrainData returns the datagrams received so far, without waiting.
func (k *c14Sink) DrainData() [][]byte {
	k.mu.Lock()
	defer k.mu.Unlock()
	if k.closed {
		return nil
	}
	var out [][]byte
	k.rc.Read(func(fd uintptr) bool {
		for {
			n, _, err := syscall.Recvfrom(int(fd), k.buf, syscall.MSG_DONTWAIT)
			if err != nil {
				return true
			}
			out = append(out, append([]byte(nil), k.buf[:n]...))
		}
	})
	return out
}

// Drain counts (and discards) the datagrams received so far, without waiting.
func (k *c14Sink) Drain() int {
	k.mu.Lock()
	defer k.mu.Unlock()
	if k.closed {
		return 0
	}
	n := 0
	k.rc.Read(func(fd uintptr) bool {
		for {
			if _, _, err := syscall.Recvfrom(int(fd), k.buf, syscall.MSG_DONTWAIT); err != nil {
				return true
			}
			n++
		}
	})
	return n
}

func (k *c14Sink) Close() {
	k.mu.Lock()
	defer k.mu.Unlock()
	if !k.closed {
		k.closed = true
		k.conn.Close()
	}
}

// c14ClosedPort returns a loopback UDP address nobody listens on (bound once, then closed).
func c14ClosedPort() string {
	conn, err := net.ListenUDP("udp", &net.UDPAddr{IP: net.IPv4(127, 0, 0, 1)})
	must(err)
	a := conn.LocalAddr().String()
	conn.Close()
	return a
}

var c14StackBuf = make([]byte, 4<<20)

// c14Workers counts the goroutines of M3 reporters (batching loop, clock loop) that are alive.
func c14Workers() int {
	n := runtime.Stack(c14StackBuf, true)
	s := string(c14StackBuf[:n])
	return strings.Count(s, "m3.(*reporter).process(") + strings.Count(s, "m3.(*reporter).timeLoop(")
}

func c14WaitNoWorkers(max time.Duration) int {
	deadline := time.Now().Add(max)
	for {
		w := c14Workers()
		if w == 0 || time.Now().After(deadline) {
			return w
		}
		time.Sleep(100 * time.Microsecond)
	}
}

func c14ErrClass(err error) string {
	switch {
	case err == nil:
		return "nil"
	case err.Error() == "reporter already closed":
		return "already"
	}
	return "other"
}

type c14Counts struct {
	panics, hangs, closeNil, closeAlready, closeOther, lateItems, workersLeft, must, charged, may, races int64
}

func (o *c14Counts) line(op string) string {
	return fmt.Sprintf("%s %d %d %d %d %d %d %d %d %d %d %d", op, o.panics, o.hangs, o.closeNil, o.closeAlready, o.closeOther, o.lateItems, o.workersLeft, o.must, o.charged, o.may, o.races)
}

func (o *c14Counts) addClose(class string) {
	switch class {
	case "nil":
		o.closeNil++
	case "already":
		o.closeAlready++
	default:
		o.closeOther++
	}
}

func c14ProtoName(p m3.Protocol) string {
	if p == m3.Compact {
		return "compact"
	}
	return "binary"
}

// ---------------------------------------------------------------- lock-step under the cooperative scheduler

type c14Thread struct {
	kind  string // p | f | c
	op    string // p: count | gauge | timer | vsamples | dsamples
	calls int    // p: report calls made by this goroutine, one after the other
	alloc bool   // p: allocate the handle inside the goroutine (Allocate under the interleaving)
}

type c14Scenario struct {
	name    string
	proto   m3.Protocol
	threads []c14Thread
	probe   bool // offer "resume the closer although pending != 0" as a scheduling option
}

func (sc c14Scenario) class() string {
	n := map[string]int{}
	for _, t := range sc.threads {
		n[t.kind]++
	}
	return fmt.Sprintf("%dp%df%dc", n["p"], n["f"], n["c"])
}

func c14ParkOn(l string) bool {
	return strings.HasPrefix(l, "m3.report.") || strings.HasPrefix(l, "m3.flush.") || strings.HasPrefix(l, "m3.close.")
}

const c14NInternal = 5 // report calls made by reportInternalMetrics (tied in TallyProofs/Tie/C14.lean)

func runC14(c *Ctx, sc c14Scenario, ch Chooser) (trace []string, failed bool, overlapped bool) {
	d := c.Drv
	sig := "c14-lockstep-" + sc.class()
	modelOn := true
	fail := func(kind, clause, reply string) {
		if !failed {
			c.Cov.Fail(Failure{Kind: kind, Clause: clause, Signature: sig, Line: strings.Join(trace, " | "), Reply: reply, Detail: sc.name})
		}
		failed = true
	}
	say := func(line string) string {
		trace = append(trace, line)
		if !modelOn {
			return ""
		}
		rep := d.Ask(line)
		if rep == "ok" || strings.HasPrefix(rep, "ok ") {
			return rep
		}
		f := strings.Fields(rep)
		switch {
		case strings.HasPrefix(rep, "violated"):
			fail("violated", f[1], rep)
		case strings.HasPrefix(rep, "bad-op"):
			fail("bad-op", "protocol", rep)
		default:
			fail("differ", strings.Join(f[:min(2, len(f))], " "), rep)
		}
		modelOn = false
		return rep
	}

	sink := newC14Sink()
	defer sink.Close()
	var charged int64
	s := NewSched(c14ParkOn)
	s.Observe = func(l, _ string) {
		if l == "m3.process.charge" {
			atomic.AddInt64(&charged, 1)
		}
	}
	r, err := m3.NewReporter(m3.Options{HostPorts: []string{sink.addr}, Service: "svc", Env: "test", Protocol: sc.proto, MaxQueueSize: 4096})
	must(err)
	say(fmt.Sprintf("begin 4096 %d", c14NInternal))

	ctr := r.AllocateCounter("c", map[string]string{"k": "v"})
	gau := r.AllocateGauge("g", nil)
	tim := r.AllocateTimer("t", map[string]string{"k": "v"})
	vh := r.AllocateHistogram("vh", nil, tally.ValueBuckets{1, 2, 4})
	dh := r.AllocateHistogram("dh", map[string]string{"k": "v"}, tally.DurationBuckets{time.Millisecond, time.Second})
	vb := vh.ValueBucket(0, 2)
	db := dh.DurationBucket(0, time.Second)
	report := func(op string, alloc bool, v int64) {
		switch op {
		case "count":
			h := ctr
			if alloc {
				h = r.AllocateCounter("c2", map[string]string{"a": "b"})
			}
			h.ReportCount(v)
		case "gauge":
			h := gau
			if alloc {
				h = r.AllocateGauge("g2", nil)
			}
			h.ReportGauge(float64(v))
		case "timer":
			h := tim
			if alloc {
				h = r.AllocateTimer("t2", nil)
			}
			h.ReportTimer(time.Duration(v))
		case "vsamples":
			h := vb
			if alloc {
				h = r.AllocateHistogram("vh2", nil, tally.ValueBuckets{1, 2}).ValueBucket(0, 1)
			}
			h.ReportSamples(v)
		default:
			h := db
			if alloc {
				h = r.AllocateHistogram("dh2", nil, tally.DurationBuckets{time.Second}).DurationBucket(0, time.Second)
			}
			h.ReportSamples(v)
		}
	}

	type lthr struct {
		spec     c14Thread
		thr      *Thr
		tid      int
		live     bool
		spinning bool
		res      string
	}
	spawnModel := func(kind string) int {
		rep := say("spawn " + kind)
		f := strings.Fields(rep)
		if len(f) == 2 && f[0] == "ok" {
			n, _ := strconv.Atoi(f[1])
			return n
		}
		return -1
	}
	var ths []*lthr
	for i, spec := range sc.threads {
		lt := &lthr{spec: spec, live: true}
		name := fmt.Sprintf("%s%d", spec.kind, i)
		switch spec.kind {
		case "p":
			sp := spec
			lt.thr = s.Spawn(name, func() {
				for k := 0; k < sp.calls; k++ {
					report(sp.op, sp.alloc, int64(10*i+k+1))
				}
			})
		case "f":
			lt.thr = s.Spawn(name, func() { r.Flush() })
		default:
			lt.thr = s.Spawn(name, func() { lt.res = c14ErrClass(r.Close()) })
		}
		lt.tid = spawnModel(spec.kind)
		ths = append(ths, lt)
	}

	var o c14Counts
	crash := func(clause, sigSuffix string) {
		if !failed {
			c.Cov.Fail(Failure{Kind: "crash", Clause: clause, Signature: sigSuffix, Line: strings.Join(trace, " | "), Detail: sc.name})
		}
		failed = true
		modelOn = false
	}
	for !failed {
		rep := say("enabled")
		if failed {
			break
		}
		en := map[int]bool{}
		if f := strings.Fields(rep); len(f) == 2 && f[1] != "-" {
			for _, x := range strings.Split(f[1], ";") {
				n, _ := strconv.Atoi(x)
				en[n] = true
			}
		}
		type opt struct {
			i    int
			kind string
		}
		var opts []opt
		forced := -1
		anyLive := false
		for i, t := range ths {
			if !t.live {
				continue
			}
			anyLive = true
			if en[t.tid] {
				if t.spinning {
					forced = len(opts)
				}
				opts = append(opts, opt{i, "step"})
			} else if sc.probe && t.spec.kind == "c" && t.thr.At == "m3.close.post-cas" && !t.spinning {
				opts = append(opts, opt{i, "probe"})
			}
		}
		if len(opts) == 0 {
			if anyLive {
				crash("hang", "hang")
			}
			break
		}
		var ch0 opt
		if forced >= 0 { // a closer left spinning must be collected as soon as pending is 0 again
			ch0 = opts[forced]
		} else {
			ch0 = opts[ch.Pick(len(opts))]
		}
		t := ths[ch0.i]
		if ch0.kind == "probe" {
			s.Timeout = 3 * time.Millisecond
			label, _ := s.Step(t.thr)
			s.Timeout = 2 * time.Second
			c.Cov.Hit("lockstep.probe")
			if label == "blocked" {
				say(fmt.Sprintf("probe %d", t.tid))
				t.spinning = true
			} else { // it left the spin loop although calls are in flight: the model will refuse this step
				say(fmt.Sprintf("step %d %s", t.tid, label))
			}
			continue
		}
		before := t.thr.At
		label, arg := s.Step(t.thr)
		switch label {
		case "blocked":
			o.hangs++
			crash("hang", "hang")
			continue
		case "panic":
			o.panics++
			trace = append(trace, fmt.Sprintf("step %d panic %q", t.tid, arg))
			if !failed {
				c.Cov.Fail(Failure{Kind: "violated", Clause: "no-panic", Signature: sig, Line: strings.Join(trace, " | "), Reply: arg, Detail: sc.name})
			}
			failed, modelOn, t.live = true, false, false
			continue
		}
		t.spinning = false
		if label == "m3.report.post-inc" {
			o.may++
		}
		if before == "m3.report.post-done-check" {
			o.must++ // the select ran with the queue open and not full: the metric was queued
		}
		switch t.spec.kind {
		case "p":
			switch {
			case label == "m3.report.post-inc" && before != "start": // this call returned, the goroutine's next call began
				say(fmt.Sprintf("step %d done", t.tid))
				t.tid = spawnModel("p")
				say(fmt.Sprintf("step %d %s", t.tid, label))
			default:
				say(fmt.Sprintf("step %d %s", t.tid, label))
			}
		case "f":
			say(fmt.Sprintf("step %d %s", t.tid, label))
		default:
			if label == "done" {
				say(fmt.Sprintf("step %d done %s", t.tid, t.res))
				o.addClose(t.res)
			} else {
				say(fmt.Sprintf("step %d %s", t.tid, label))
				if label == "m3.close.post-cas" {
					for _, u := range ths {
						if u != t && u.live && u.thr.At != "start" {
							overlapped = true
						}
					}
				}
			}
		}
		if label == "done" {
			t.live = false
		}
	}
	s.Finish()
	if failed { // release the reporter without risking the suite
		doneCh := make(chan struct{})
		go func() { catch(func() { r.Close() }); close(doneCh) }()
		select {
		case <-doneCh:
		case <-time.After(2 * time.Second):
		}
		d.Ask("begin 1 0") // reset the driver's model
		return
	}
	// after the winning Close returned: census, then calls that must be no-ops
	o.workersLeft = int64(c14WaitNoWorkers(200 * time.Millisecond))
	o.charged = atomic.LoadInt64(&charged)
	sink.Drain()
	lateCall := func(line string, f func()) {
		if p, v := catch(f); p {
			o.panics++
			trace = append(trace, fmt.Sprintf("late-panic %v", v))
		}
		say(line)
	}
	lateCall("late p", func() { ctr.ReportCount(7) })
	lateCall("late p", func() { vb.ReportSamples(7) })
	lateCall("late f", func() { r.Flush() })
	var cls string
	if p, _ := catch(func() { cls = c14ErrClass(r.Close()) }); p {
		o.panics++
	}
	o.addClose(cls)
	say("late c " + cls)
	lateCall("late p", func() { r.AllocateTimer("late", nil).ReportTimer(time.Second) })
	o.lateItems = atomic.LoadInt64(&charged) - o.charged + int64(sink.Drain())
	line := o.line("finish")
	trace = append(trace, line)
	rep := d.Ask(line)
	if rep != "ok" && !strings.HasPrefix(rep, "ok ") {
		f := strings.Fields(rep)
		if strings.HasPrefix(rep, "violated") {
			fail("violated", f[1], rep)
		} else {
			fail("differ", strings.Join(f[:min(2, len(f))], " "), rep)
		}
	}
	return
}

var c14Ops = []string{"count", "gauge", "timer", "vsamples", "dsamples"}

func c14GenScenario(r *Rng, i int) c14Scenario {
	sc := c14Scenario{proto: m3.Compact, probe: r.Chance(40)}
	if i%2 == 1 {
		sc.proto = m3.Binary
	}
	for k := r.Range(1, 3); k > 0; k-- {
		sc.threads = append(sc.threads, c14Thread{kind: "p", op: c14Ops[r.Intn(len(c14Ops))], calls: r.Range(1, 2), alloc: r.Chance(30)})
	}
	if r.Chance(50) {
		sc.threads = append(sc.threads, c14Thread{kind: "f"})
	}
	for k := r.Range(1, 2); k > 0; k-- {
		sc.threads = append(sc.threads, c14Thread{kind: "c"})
	}
	// shuffle so that thread order (and with it the option order) is not always p, f, c
	for a := len(sc.threads) - 1; a > 0; a-- {
		b := r.Intn(a + 1)
		sc.threads[a], sc.threads[b] = sc.threads[b], sc.threads[a]
	}
	sc.name = fmt.Sprintf("rand-%s-%s", sc.class(), c14ProtoName(sc.proto))
	return sc
}

// ---------------------------------------------------------------- free-running stress

type c14StressCfg struct {
	proto   m3.Protocol
	q       int
	dest    string // sink | closed | midclose | multi
	workers int
	ops     int
	closers int
}

func (cfg c14StressCfg) String() string {
	return fmt.Sprintf("%s q=%d dest=%s workers=%d ops=%d closers=%d", c14ProtoName(cfg.proto), cfg.q, cfg.dest, cfg.workers, cfg.ops, cfg.closers)
}

func c14Stress(c *Ctx, rng *Rng, cfg c14StressCfg) (key string, nontrivial bool) {
	sig := fmt.Sprintf("c14-stress-%s-%s", cfg.dest, c14ProtoName(cfg.proto))
	key = "stress " + cfg.String()
	sink := newC14Sink()
	defer sink.Close()
	var charged int64
	s := NewSched(nil)
	s.Observe = func(l, _ string) {
		if l == "m3.process.charge" {
			atomic.AddInt64(&charged, 1)
		}
	}
	defer s.Finish()
	var hosts []string
	switch cfg.dest {
	case "closed":
		hosts = []string{c14ClosedPort()}
	case "multi":
		hosts = []string{sink.addr, c14ClosedPort()}
	default:
		hosts = []string{sink.addr}
	}
	r, err := m3.NewReporter(m3.Options{HostPorts: hosts, Service: "svc", Env: "test", Protocol: cfg.proto, MaxQueueSize: cfg.q, MaxPacketSizeBytes: 512})
	must(err)

	var o c14Counts
	var panics, mustN, mayN, opsDone int64
	var closeBegun, closeReturned atomic.Bool
	var chargedAtReturn int64 = -1
	var pmu sync.Mutex
	var panicMsgs []string
	guard := func(f func()) {
		if p, v := catch(f); p {
			atomic.AddInt64(&panics, 1)
			pmu.Lock()
			panicMsgs = append(panicMsgs, fmt.Sprint(v))
			pmu.Unlock()
		}
	}
	reportCall := func(f func()) {
		atomic.AddInt64(&mayN, 1)
		guard(f)
		if !closeBegun.Load() { // returned before any Close call began: it was accepted
			atomic.AddInt64(&mustN, 1)
		}
	}
	var wg sync.WaitGroup
	var classes []string
	var cmu sync.Mutex
	total := int64(cfg.workers * cfg.ops)
	for w := 0; w < cfg.workers; w++ {
		wr := rng.Fork()
		wg.Add(1)
		go func(w int) {
			defer wg.Done()
			tags := map[string]string{"w": strconv.Itoa(w)}
			var ctr tally.CachedCount
			var gau tally.CachedGauge
			var tim tally.CachedTimer
			var vb, db tally.CachedHistogramBucket
			guard(func() {
				ctr = r.AllocateCounter("c", tags)
				gau = r.AllocateGauge("g", tags)
				tim = r.AllocateTimer("t", nil)
				vb = r.AllocateHistogram("vh", tags, tally.ValueBuckets{1, 2, 4}).ValueBucket(0, 2)
				db = r.AllocateHistogram("dh", nil, tally.DurationBuckets{time.Millisecond, time.Second}).DurationBucket(0, time.Second)
			})
			if ctr == nil || db == nil {
				return
			}
			for i := 0; i < cfg.ops; i++ {
				v := int64(w*100000 + i)
				switch wr.Intn(12) {
				case 0:
					reportCall(func() { r.AllocateCounter("c"+strconv.Itoa(wr.Intn(4)), tags).ReportCount(v) })
				case 1:
					reportCall(func() {
						r.AllocateHistogram("h"+strconv.Itoa(wr.Intn(3)), nil, tally.ValueBuckets{1, 2}).ValueBucket(0, 1).ReportSamples(v)
					})
				case 2, 3:
					reportCall(func() { ctr.ReportCount(v) })
				case 4:
					reportCall(func() { gau.ReportGauge(float64(v)) })
				case 5:
					reportCall(func() { tim.ReportTimer(time.Duration(v)) })
				case 6, 7:
					reportCall(func() { vb.ReportSamples(v) })
				case 8:
					reportCall(func() { db.ReportSamples(v) })
				case 9:
					atomic.AddInt64(&mayN, c14NInternal)
					guard(func() { r.Flush() })
				case 10:
					guard(func() { r.AllocateGauge("g"+strconv.Itoa(wr.Intn(4)), nil) })
				default:
					runtime.Gosched()
				}
				atomic.AddInt64(&opsDone, 1)
			}
		}(w)
	}
	for k := 0; k < cfg.closers; k++ {
		at := int64(rng.Intn(int(total) + 1))
		wg.Add(1)
		go func() {
			defer wg.Done()
			for atomic.LoadInt64(&opsDone) < at {
				runtime.Gosched()
			}
			closeBegun.Store(true)
			var cls string
			guard(func() { cls = c14ErrClass(r.Close()) })
			if cls == "nil" {
				atomic.StoreInt64(&chargedAtReturn, atomic.LoadInt64(&charged))
				closeReturned.Store(true)
			}
			cmu.Lock()
			classes = append(classes, cls)
			cmu.Unlock()
		}()
	}
	if cfg.dest == "midclose" {
		at := int64(rng.Intn(int(total) + 1))
		wg.Add(1)
		go func() {
			defer wg.Done()
			for atomic.LoadInt64(&opsDone) < at && !closeReturned.Load() {
				runtime.Gosched()
			}
			sink.Close()
		}()
	}
	allDone := make(chan struct{})
	go func() { wg.Wait(); close(allDone) }()
	select {
	case <-allDone:
	case <-time.After(20 * time.Second):
		n := runtime.Stack(c14StackBuf, true)
		c.Cov.Fail(Failure{Kind: "crash", Clause: "hang", Signature: "hang", Line: key, Detail: string(c14StackBuf[:min(n, 6000)])})
		return key, true
	}
	// a final Close by the harness (the winning one when no closer ran)
	closeBegun.Store(true)
	var cls string
	guard(func() { cls = c14ErrClass(r.Close()) })
	if cls == "nil" {
		atomic.StoreInt64(&chargedAtReturn, atomic.LoadInt64(&charged))
	}
	classes = append(classes, cls)
	for _, cl := range classes {
		o.addClose(cl)
	}
	o.workersLeft = int64(c14WaitNoWorkers(5 * time.Second))
	o.charged = atomic.LoadInt64(&charged)
	sink.Drain()
	// calls after Close: no-ops
	ctr := r.AllocateCounter("late", nil)
	guard(func() { ctr.ReportCount(1) })
	guard(func() { r.AllocateHistogram("late-h", nil, tally.ValueBuckets{1}).ValueBucket(0, 1).ReportSamples(1) })
	guard(func() { r.Flush() })
	guard(func() { cls = c14ErrClass(r.Close()) })
	o.addClose(cls)
	time.Sleep(200 * time.Microsecond)
	o.lateItems = atomic.LoadInt64(&charged) - atomic.LoadInt64(&chargedAtReturn) + int64(sink.Drain())
	o.panics = atomic.LoadInt64(&panics)
	o.must, o.may = atomic.LoadInt64(&mustN), atomic.LoadInt64(&mayN)
	line := o.line("obs")
	rep := c.Drv.Ask(line)
	if rep != "ok" {
		f := strings.Fields(rep)
		kind, clause := "differ", "protocol"
		if strings.HasPrefix(rep, "violated") {
			kind, clause = "violated", f[1]
		}
		c.Cov.Fail(Failure{Kind: kind, Clause: clause, Signature: sig, Line: key + " | " + line, Reply: rep, Detail: strings.Join(panicMsgs, "; ")})
	}
	return key + " | " + line, o.may > o.must
}

// ---------------------------------------------------------------- suite

func suiteC14(c *Ctx) {
	c.Cov.Rule = "lock-step: one real M3 reporter (loopback sink, both protocols, queue 4096) driven by the cooperative scheduler through the verif hooks of reportCopyMetric / Flush / Close: 1-3 producer goroutines (ReportCount/Gauge/Timer/Samples on pre-allocated or in-thread allocated handles, 1-2 calls each), 0-1 Flush, 1-2 Close; every hook-to-hook step must be a sequence of enabled transitions of Model.M3Life ending at the same hook (the closer is resumed only when the model's pending is 0, or as a negative probe that must keep spinning); afterwards census of reporter goroutines, late calls, datagram count at the sink, and Spec.C14.holds on the counts; nontrivial = a Close won its CAS while another call was in flight; distinct by full step trace. stress: free-running goroutines (2-6 x 40-150 ops incl. Allocate*, Flush) against queue sizes 1/2/4096, destination reachable / never open / closed mid-run / one of two closed, both protocols, 0-2 concurrent Close callers, 20 s watchdog, recover around every call; Spec.C14.holds on the counts; each run counted once (distinct by configuration and PRNG fork), nontrivial = some call overlapped or followed Close"
	start := time.Now()
	// a fixed corpus first: the schedules named in the property text
	corpus := []struct {
		sc c14Scenario
		tr []int
	}{
		// producer passes the done-check, Close CASes and must wait for it
		{c14Scenario{name: "corpus-close-waits", proto: m3.Compact, probe: true, threads: []c14Thread{{kind: "p", op: "count", calls: 1}, {kind: "c"}}}, []int{0, 0, 1, 1, 0, 0, 0, 0, 0}},
		// Close completes, then report / flush / second close
		{c14Scenario{name: "corpus-after-close", proto: m3.Binary, threads: []c14Thread{{kind: "c"}, {kind: "p", op: "vsamples", calls: 2}, {kind: "f"}, {kind: "c"}}}, []int{0, 0, 0, 0, 0, 0, 0, 0, 0, 0, 0, 0, 0, 0}},
	}
	for _, k := range corpus {
		tr, _, ov := runC14(c, k.sc, &replayChooser{trace: k.tr})
		c.Cov.Schedules++
		c.Cov.Traces++
		c.Cov.Hit("lockstep.corpus")
		c.Cov.Eval(strings.Join(tr, " | "), ov)
	}
	// stop generating once the implementation is clearly broken (every hang costs watchdog time and may leave a spinning goroutine)
	tooBroken := func() bool {
		c.Cov.mu.Lock()
		defer c.Cov.mu.Unlock()
		return c.Cov.Dist["failures.crash"] >= 3 || len(c.Cov.Failures) >= 30
	}
	n := c.N(400, 3000)
	for i := 0; i < n && !tooBroken(); i++ {
		r := c.Rng.Fork()
		sc := c14GenScenario(r, i)
		tr, _, ov := runC14(c, sc, &randChooser{r: r})
		c.Cov.Schedules++
		c.Cov.Traces++
		c.Cov.Hit("lockstep.random." + sc.class())
		c.Cov.Hit("lockstep.proto." + c14ProtoName(sc.proto))
		c.Cov.Eval(strings.Join(tr, " | "), ov)
	}
	// exhaustive: ALL schedules of small scenarios
	p1 := c14Thread{kind: "p", op: "count", calls: 1}
	exh := []c14Scenario{
		{name: "exh-1p1c", proto: m3.Compact, threads: []c14Thread{p1, {kind: "c"}}},
		{name: "exh-1p1c-probe", proto: m3.Binary, probe: true, threads: []c14Thread{{kind: "p", op: "vsamples", calls: 1}, {kind: "c"}}},
		{name: "exh-1p2c", proto: m3.Binary, threads: []c14Thread{{kind: "p", op: "gauge", calls: 1}, {kind: "c"}, {kind: "c"}}},
		{name: "exh-2p1c", proto: m3.Compact, threads: []c14Thread{p1, {kind: "p", op: "dsamples", calls: 1, alloc: true}, {kind: "c"}}},
		{name: "exh-1f1c", proto: m3.Compact, threads: []c14Thread{{kind: "f"}, {kind: "c"}}},
	}
	if c.Thorough() {
		exh = append(exh,
			c14Scenario{name: "exh-1p2calls1c-probe", proto: m3.Compact, probe: true, threads: []c14Thread{{kind: "p", op: "timer", calls: 2}, {kind: "c"}}},
			c14Scenario{name: "exh-2p2c", proto: m3.Binary, threads: []c14Thread{p1, {kind: "p", op: "vsamples", calls: 1}, {kind: "c"}, {kind: "c"}}},
			c14Scenario{name: "exh-3p1c", proto: m3.Compact, threads: []c14Thread{p1, {kind: "p", op: "gauge", calls: 1}, {kind: "p", op: "vsamples", calls: 1}, {kind: "c"}}},
			c14Scenario{name: "exh-1p1f1c", proto: m3.Binary, threads: []c14Thread{p1, {kind: "f"}, {kind: "c"}}},
		)
	}
	allDone := true
	for _, sc := range exh {
		ch := &dfsChooser{}
		cnt := 0
		for {
			tr, _, ov := runC14(c, sc, ch)
			cnt++
			c.Cov.Schedules++
			c.Cov.Traces++
			c.Cov.Eval(strings.Join(tr, " | "), ov)
			if !ch.Next() {
				break
			}
			if tooBroken() {
				allDone = false
				break
			}
			if cnt > 300000 || (!c.Thorough() && time.Since(start) > 25*time.Second) {
				allDone = false
				break
			}
		}
		c.Cov.HitN("exhaustive."+sc.name+".schedules", cnt)
	}
	if allDone {
		c.Cov.Notes = append(c.Cov.Notes, "all schedules of the listed exhaustive scenarios were enumerated (distribution exhaustive.*); random scenarios are sampled")
	}
	// free-running stress
	dests := []string{"sink", "closed", "midclose", "multi"}
	qs := []int{1, 2, 1, 2, 4096}
	ns := c.N(80, 600)
	for i := 0; i < ns && c.Cov.Dist["failures.crash"] < 3; i++ {
		r := c.Rng.Fork()
		cfg := c14StressCfg{proto: m3.Compact, q: qs[i%len(qs)], dest: dests[i%len(dests)], workers: r.Range(2, 6), ops: r.Range(40, 150), closers: r.Intn(3)}
		if (i/len(dests))%2 == 1 {
			cfg.proto = m3.Binary
		}
		key, nt := c14Stress(c, r, cfg)
		c.Cov.Hit("stress.dest." + cfg.dest)
		c.Cov.Hit("stress.proto." + c14ProtoName(cfg.proto))
		c.Cov.Hit(fmt.Sprintf("stress.queue.%d", cfg.q))
		c.Cov.Hit(fmt.Sprintf("stress.closers.%d", cfg.closers))
		c.Cov.Eval(fmt.Sprintf("%s #%d", key, i), nt)
	}
	if w := c14WaitNoWorkers(time.Second); w != 0 {
		c.Cov.Fail(Failure{Kind: "violated", Clause: "no-leak", Signature: "c14-suite-end-census", Line: fmt.Sprintf("workers alive at the end of the suite: %d", w)})
	}
}

// ---------------------------------------------------------------- race-detector run

var c14RaceFrame = regexp.MustCompile(`m3\.cachedHistogram\.(ValueBucket|DurationBucket)\.func\d+\(\)`)

func c14HarnessDir() string {
	if d := os.Getenv("VERIF_HARNESS_DIR"); d != "" {
		return d
	}
	if wd, err := os.Getwd(); err == nil {
		if _, err := os.Stat(filepath.Join(wd, "harness", "racec14")); err == nil {
			return filepath.Join(wd, "harness")
		}
		if _, err := os.Stat(filepath.Join(wd, "racec14")); err == nil {
			return wd
		}
	}
	if exe, err := os.Executable(); err == nil {
		return filepath.Join(filepath.Dir(filepath.Dir(exe)), "harness")
	}
	return "harness"
}

// c14ClassifyRaces splits the race detector's output into reports and names each by the top frames of its two stacks.
func c14ClassifyRaces(out string) map[string]int {
	res := map[string]int{}
	for _, blk := range strings.Split(out, "WARNING: DATA RACE")[1:] {
		if i := strings.Index(blk, "=================="); i >= 0 {
			blk = blk[:i]
		}
		var tops []string
		lines := strings.Split(blk, "\n")
		for i, l := range lines {
			l = strings.TrimSpace(l)
			if (strings.HasPrefix(l, "Write at") || strings.HasPrefix(l, "Read at") || strings.HasPrefix(l, "Previous write at") || strings.HasPrefix(l, "Previous read at") ||
				strings.HasPrefix(l, "Atomic") || strings.HasPrefix(l, "Previous atomic")) && i+1 < len(lines) {
				tops = append(tops, strings.TrimSpace(lines[i+1]))
			}
		}
		known := len(tops) == 2
		for _, t := range tops {
			if !c14RaceFrame.MatchString(t) {
				known = false
			}
		}
		if known {
			res["race-shared-bucket-handle-metric"]++
			continue
		}
		for i := range tops { // stable name: function without the package path prefix and closure numbering kept
			if j := strings.LastIndex(tops[i], "/"); j >= 0 {
				tops[i] = tops[i][j+1:]
			}
			tops[i] = strings.TrimSuffix(tops[i], "()")
		}
		sort.Strings(tops)
		res["race-"+strings.Join(tops, "+")]++
	}
	return res
}

func suiteC14Race(c *Ctx) {
	c.Cov.Rule = "Go race detector: a dedicated test binary (harness/racec14, go test -race -tags verif -c) runs (a) mixed Allocate/Report/Flush/Close traffic from 6 goroutines, both protocols, queue sizes 1/2/4096, no bucket handle shared, (b) 4 goroutines calling ReportSamples on ONE value-bucket handle and ONE duration-bucket handle with concurrent Report/Flush traffic and a final Close; every WARNING: DATA RACE block is classified by the top frames of its two stacks; one evaluation per test function and repetition, nontrivial = the run executed concurrent calls (always)"
	dir := c14HarnessDir()
	tmp, err := os.MkdirTemp("", "c14race")
	must(err)
	defer os.RemoveAll(tmp)
	bin := filepath.Join(tmp, "c14race.test")
	env := []string{}
	for _, e := range os.Environ() {
		if !strings.HasPrefix(e, "CGO_ENABLED=") && !strings.HasPrefix(e, "GOMEMLIMIT=") {
			env = append(env, e)
		}
	}
	env = append(env, "CGO_ENABLED=1")
	build := exec.Command("go", "test", "-race", "-tags", "verif", "-c", "-o", bin, "./racec14")
	build.Dir = dir
	build.Env = env
	bout, err := build.CombinedOutput()
	if err != nil {
		// no race detector here: fall back to the value-integrity stress (same defect, same signature)
		c.Cov.Notes = append(c.Cov.Notes, "race build failed ("+strings.TrimSpace(string(bout[:min(len(bout), 300)]))+"); value-integrity fallback used")
		c14ValueIntegrity(c)
		return
	}
	reps := c.N(2, 10)
	classes := map[string]int{}
	sample := map[string]string{}
	for i := 0; i < reps; i++ {
		for _, test := range []string{"TestC14RaceMixed", "TestC14RaceSharedHandle"} {
			cmd := exec.Command(bin, "-test.run", "^"+test+"$", "-test.count", "1")
			cmd.Env = append(append([]string{}, env...), "GORACE=halt_on_error=0")
			done := make(chan struct{})
			var out []byte
			go func() { out, _ = cmd.CombinedOutput(); close(done) }()
			select {
			case <-done:
			case <-time.After(120 * time.Second):
				cmd.Process.Kill()
				<-done
				c.Cov.Fail(Failure{Kind: "crash", Clause: "hang", Signature: "hang", Line: "race run " + test})
			}
			so := string(out)
			if strings.Contains(so, "panic:") || strings.Contains(so, "fatal error:") {
				c.Cov.Fail(Failure{Kind: "violated", Clause: "no-panic", Signature: "c14-race-run-" + test, Line: "race run " + test, Detail: so[:min(len(so), 3000)]})
			}
			cl := c14ClassifyRaces(so)
			for k, v := range cl {
				classes[k] += v
				if _, ok := sample[k]; !ok {
					j := strings.Index(so, "WARNING: DATA RACE")
					sample[k] = so[j:min(len(so), j+1800)]
				}
			}
			c.Cov.Hit("race." + test)
			c.Cov.Eval(fmt.Sprintf("race %s #%d races=%d", test, i, len(cl)), true)
		}
	}
	keys := make([]string, 0, len(classes))
	for k := range classes {
		keys = append(keys, k)
	}
	sort.Strings(keys)
	for _, k := range keys {
		o := c14Counts{closeNil: 1, races: int64(classes[k])}
		line := o.line("obs")
		rep := c.Drv.Ask(line)
		clause := "no-data-race"
		if f := strings.Fields(rep); len(f) > 1 {
			clause = f[1]
		}
		c.Cov.HitN("race.class."+k, classes[k])
		c.Cov.Fail(Failure{Kind: "violated", Clause: clause, Signature: k, Line: line, Reply: rep, Detail: sample[k]})
	}
	// the observable consequence of a shared-handle race, independent of the detector
	c14ValueIntegrity(c)
}

// c14ValueIntegrity: the consequence of the shared-handle defect without a race detector: values 1..N reported
// through ONE bucket handle from 4 goroutines must each be delivered exactly once (a shared/torn write shows
// as a duplicated and a missing value).  Datagrams are decoded with the generated Go reader.
func c14ValueIntegrity(c *Ctx) {
	bad := 0
	var sample string
	reps := c.N(10, 60)
	for rep := 0; rep < reps; rep++ {
		sink := newC14Sink()
		r, err := m3.NewReporter(m3.Options{HostPorts: []string{sink.addr}, Service: "svc", Env: "test", MaxQueueSize: 4096})
		must(err)
		var vb tally.CachedHistogramBucket
		if rep%2 == 0 {
			vb = r.AllocateHistogram("vi", nil, tally.ValueBuckets{1, 2}).ValueBucket(0, 1)
		} else {
			vb = r.AllocateHistogram("vi", nil, tally.DurationBuckets{time.Second}).DurationBucket(0, time.Second)
		}
		const per = 400
		seen := map[int64]int{}
		collect := func() {
			for _, dg := range sink.DrainData() {
				_, batch, err := goDecodeMessage("c", dg)
				if err != nil {
					continue
				}
				for _, m := range batch.Metrics {
					if m.Name == "vi" {
						seen[m.Value.Count]++
					}
				}
			}
		}
		var wg sync.WaitGroup
		for g := 0; g < 4; g++ {
			wg.Add(1)
			go func(g int) {
				defer wg.Done()
				for i := 0; i < per; i++ {
					vb.ReportSamples(int64(g*per + i + 1))
					if i%50 == 49 {
						r.Flush()
					}
				}
			}(g)
		}
		stop := make(chan struct{})
		var cwg sync.WaitGroup
		cwg.Add(1)
		go func() { // keep the socket buffer from overflowing
			defer cwg.Done()
			for {
				select {
				case <-stop:
					return
				default:
					collect()
					time.Sleep(200 * time.Microsecond)
				}
			}
		}()
		wg.Wait()
		r.Close()
		close(stop)
		cwg.Wait()
		collect()
		sink.Close()
		dup, missing := 0, 0
		for v := int64(1); v <= 4*per; v++ {
			switch n := seen[v]; {
			case n == 0:
				missing++
			case n > 1:
				dup += n - 1
			}
		}
		if dup > 0 || missing > 0 {
			bad++
			if sample == "" {
				sample = fmt.Sprintf("rep %d: %d values delivered twice, %d never delivered (of %d reported through one handle by 4 goroutines)", rep, dup, missing, 4*per)
			}
		}
		c.Cov.Hit("value-integrity.runs")
		c.Cov.Eval(fmt.Sprintf("value-integrity #%d dup=%d missing=%d", rep, dup, missing), true)
	}
	if bad > 0 {
		c.Cov.HitN("value-integrity.bad-runs", bad)
		o := c14Counts{closeNil: 1, races: int64(bad)}
		line := o.line("obs")
		rep := c.Drv.Ask(line)
		c.Cov.Fail(Failure{Kind: "violated", Clause: "no-data-race", Signature: "race-shared-bucket-handle-metric", Line: line, Reply: rep, Detail: sample})
	}
}
