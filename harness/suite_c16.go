package main

import (
	"bytes"
	"encoding/hex"
	"fmt"
	"math"

	customtransport "github.com/uber-go/tally/v4/m3/customtransports"
	m3thrift "github.com/uber-go/tally/v4/m3/thrift/v2"
	"github.com/uber-go/tally/v4/thirdparty/github.com/apache/thrift/lib/go/thrift"
)

func init() { register("c16", "C16", "thrift", suiteC16) }

func protoFactory(p string) thrift.TProtocolFactory {
	if p == "c" {
		return thrift.NewTCompactProtocolFactory()
	}
	return thrift.NewTBinaryProtocolFactoryDefault()
}

// decode a one-way emitMetricBatchV2 message with the real Go reader
func goDecodeMessage(p string, data []byte) (seq int32, batch m3thrift.MetricBatch, err error) {
	buf := thrift.NewTMemoryBuffer()
	buf.Write(data)
	proto := protoFactory(p).GetProtocol(buf)
	name, typ, seqID, e := proto.ReadMessageBegin()
	if e != nil {
		return 0, batch, e
	}
	if name != "emitMetricBatchV2" || typ != thrift.ONEWAY {
		return 0, batch, fmt.Errorf("unexpected message %q type %d", name, typ)
	}
	args := m3thrift.M3EmitMetricBatchV2Args{}
	if e := args.Read(proto); e != nil {
		return 0, batch, e
	}
	if e := proto.ReadMessageEnd(); e != nil {
		return 0, batch, e
	}
	if buf.Len() != 0 {
		return 0, batch, fmt.Errorf("%d trailing bytes", buf.Len())
	}
	return seqID, args.Batch, nil
}

type c16Handler struct{ got *m3thrift.MetricBatch }

func (h *c16Handler) EmitMetricBatchV2(batch m3thrift.MetricBatch) error {
	b := batch
	h.got = &b
	return nil
}

func suiteC16(c *Ctx) {
	c.Cov.Rule = "random MetricBatch values (0-200 metrics and the sizes 127, 128, 255, 256, 257, 300, 499, 500, 0-16 tags, byte strings up to 1KiB incl. non-UTF-8, int64/float64 extremes, all metric kinds, nil vs empty optional lists) encoded by the real generated client through ONE reused protocol object per protocol (sequence ids grow past 127 and 16383), compared byte for byte with the Lean encoder, decoded by the Lean decoder, by the Go reader on a fresh buffer and by a long-lived server route (one TBufferedReadTransport + protocol + M3Processor per protocol for the whole run, every seventh message preceded by a datagram the server cannot use: noise, a truncated message, trailing bytes); per metric the calc-transport count vs the real encoding length vs the model; nontrivial = the batch has >14 metrics or a metric >14 tags or a string >127 bytes or an extreme number or a nil/empty optional list; distinct by message bytes"
	for _, p := range []string{"c", "b"} {
		trans := thrift.NewTMemoryBuffer()
		client := m3thrift.NewM3ClientFactory(trans, protoFactory(p))
		calc := &customtransport.TCalcTransport{}
		calcProto := protoFactory(p).GetProtocol(calc)
		realBuf := thrift.NewTMemoryBuffer()
		realProto := protoFactory(p).GetProtocol(realBuf)
		// the receiving side as a server runs it: ONE long-lived read transport + protocol + processor; every datagram is
		// handed over with Write (which replaces what was there) and processed; what the handler is given must be the
		// batch that was sent - whatever arrived before (also a datagram that was not consumed to its end)
		srvTrans, _ := customtransport.NewTBufferedReadTransport(bytes.NewBuffer(nil))
		srvProto := protoFactory(p).GetProtocol(srvTrans)
		srvHandler := &c16Handler{}
		srv := m3thrift.NewM3Processor(srvHandler)
		// ... and ONE receive buffer, as a UDP server has it: every datagram is read into the same array; the batch handed
		// to the handler for the previous datagram is still held then (queued for aggregation) and must not change
		rxBuf := make([]byte, 1<<21)
		var heldBatch *m3thrift.MetricBatch
		heldTok := ""
		n := c.N(400, 6000)
		// start the sequence counter near interesting boundaries now and then
		for i := 0; i < n; i++ {
			r := c.Rng.Fork()
			switch i {
			case n / 4:
				client.SeqId = 125
			case n / 2:
				client.SeqId = 16380
			case 3 * n / 4:
				client.SeqId = math.MaxInt32 - 3
			}
			nm := 0
			maxLen := 24
			switch r.Intn(10) {
			case 0:
				maxLen = 1024
			case 1, 2:
				maxLen = 130
			}
			switch r.Intn(10) {
			case 0:
				nm = 0
			case 1:
				nm = r.Range(15, 40)
			case 2:
				if c.Thorough() || i%20 == 0 {
					nm = r.Range(100, 200)
				} else {
					nm = r.Range(13, 17)
				}
			default:
				nm = r.Range(1, 8)
			}
			if i%40 == 20 {
				// list sizes around the one-byte / power-of-two boundaries of the stated range 0..500
				nm = []int{127, 128, 255, 256, 257, 300, 499, 500}[(i/40)%8]
				maxLen = 12
			}
			batch := m3thrift.MetricBatch{CommonTags: genTagList(r, 6, maxLen)}
			if nm > 0 || r.Bool() {
				batch.Metrics = make([]m3thrift.Metric, nm)
			}
			nontriv := nm > 14 || nm == 0 || batch.CommonTags == nil || len(batch.CommonTags) == 0
			for j := range batch.Metrics {
				mt := 8
				if r.Chance(10) {
					mt = 16
				}
				batch.Metrics[j] = genMetric(r, mt, maxLen)
				m := batch.Metrics[j]
				if len(m.Tags) > 14 || len(m.Name) > 127 || m.Tags == nil || m.Value.Count == math.MaxInt64 || m.Value.Count == math.MinInt64 {
					nontriv = true
				}
			}
			trans.Reset()
			if err := client.EmitMetricBatchV2(batch); err != nil {
				c.Cov.Fail(Failure{Kind: "crash", Clause: "encode-error", Signature: "c16-encode-error", Line: err.Error()})
				continue
			}
			data := append([]byte(nil), trans.Bytes()...)
			ms := batch.Metrics
			if ms == nil {
				ms = []m3thrift.Metric{}
			}
			line := fmt.Sprintf("enc %s %d %s %s", p, client.SeqId, tagsTok(batch.CommonTags), metricsTok(ms))
			c.Cov.Eval(hex.EncodeToString(data), nontriv)
			c.Cov.Hit("proto." + p)
			if nm > 14 {
				c.Cov.Hit("batch.gt14metrics")
			}
			c.Cov.Check(c.Drv, line+" => "+hx(data), "c16-encode-"+p)
			// the Go reader on the same bytes vs the Lean decoder
			seq, got, err := goDecodeMessage(p, data)
			if err != nil {
				c.Cov.Fail(Failure{Kind: "violated", Clause: "roundtrip", Signature: "c16-go-reader-rejects-own-encoding", Line: line, Reply: err.Error()})
			} else {
				gm := got.Metrics
				if gm == nil {
					gm = []m3thrift.Metric{}
				}
				// model-independent: what the Go reader decodes is the batch that was handed to the encoder
				if a, b := tagsTok(got.CommonTags)+" "+metricsTok(gm), tagsTok(batch.CommonTags)+" "+metricsTok(ms); a != b {
					c.Cov.Fail(Failure{Kind: "violated", Clause: "roundtrip", Signature: "c16-decoded-batch-is-not-the-encoded-one", Line: line,
						Reply: fmt.Sprintf("decoded: %.400s ; encoded: %.400s", a, b)})
				}
				c.Cov.Check(c.Drv, fmt.Sprintf("dec %s %s => %d %s %s", p, hx(data), seq, tagsTok(got.CommonTags), metricsTok(gm)), "c16-decode-"+p)
			}
			// the server route on the same bytes
			if err == nil {
				if i%7 == 3 {
					// first a datagram the server cannot use: noise, a truncated message, or a message with trailing bytes
					var junk []byte
					switch r.Intn(3) {
					case 0:
						junk = []byte(genBytesStr(r, 40))
					case 1:
						junk = append([]byte(nil), data[:len(data)/2]...)
					default:
						junk = append(append([]byte(nil), data...), 0x7f, 0x00, 0x33)
					}
					srvTrans.Write(rxBuf[:copy(rxBuf, junk)])
					catch(func() { srv.Process(srvProto, srvProto) })
					c.Cov.Hit("server-route.unusable-datagram-first")
				}
				srvHandler.got = nil
				srvTrans.Write(rxBuf[:copy(rxBuf, data)])
				var perr error
				if p2, v := catch(func() { _, e := srv.Process(srvProto, srvProto); perr = e }); p2 {
					perr = fmt.Errorf("panic: %v", v)
				}
				switch {
				case perr != nil:
					c.Cov.Fail(Failure{Kind: "violated", Clause: "roundtrip", Signature: "c16-server-route-rejects-encoding", Line: line, Reply: "a long-lived TBufferedReadTransport + M3Processor: " + perr.Error()})
				case srvHandler.got == nil:
					c.Cov.Fail(Failure{Kind: "violated", Clause: "roundtrip", Signature: "c16-server-route-no-batch", Line: line, Reply: "the processor did not hand a batch to the handler"})
				default:
					sm := srvHandler.got.Metrics
					if sm == nil {
						sm = []m3thrift.Metric{}
					}
					gm := got.Metrics
					if gm == nil {
						gm = []m3thrift.Metric{}
					}
					a, b := tagsTok(srvHandler.got.CommonTags)+" "+metricsTok(sm), tagsTok(got.CommonTags)+" "+metricsTok(gm)
					if a != b {
						c.Cov.Fail(Failure{Kind: "violated", Clause: "roundtrip", Signature: "c16-server-route-decodes-another-batch", Line: line,
							Reply: fmt.Sprintf("decoded through a long-lived read transport and processor: %.300s ; decoded from a fresh buffer: %.300s", a, b)})
					}
					if heldBatch != nil {
						hm := heldBatch.Metrics
						if hm == nil {
							hm = []m3thrift.Metric{}
						}
						if now := tagsTok(heldBatch.CommonTags) + " " + metricsTok(hm); now != heldTok {
							c.Cov.Fail(Failure{Kind: "violated", Clause: "roundtrip", Signature: "c16-decoded-batch-changes-with-the-next-datagram", Line: line,
								Reply: fmt.Sprintf("the batch decoded from the PREVIOUS datagram, still held by the handler, read %.300s when it was handed over and reads %.300s after this datagram was received into the same buffer", heldTok, now)})
						}
					}
					heldBatch, heldTok = srvHandler.got, a
				}
				c.Cov.Hit("server-route.decoded")
			}
			// per-metric size: calc transport vs real encoder vs model; max placeholder bound
			for j, m := range batch.Metrics {
				if j >= 6 {
					break
				}
				calc.ResetCount()
				m.Write(calcProto)
				cnt := calc.GetCount()
				realBuf.Reset()
				m.Write(realProto)
				c.Cov.Check(c.Drv, fmt.Sprintf("size %s %s => %d %d", p, metricTok(m), cnt, realBuf.Len()), "c16-size-"+p)
				mx := m
				mx.Timestamp = math.MaxInt64
				mx.Value.Count, mx.Value.Timer, mx.Value.Gauge = math.MaxInt64, math.MaxInt64, math.MaxFloat64
				calc.ResetCount()
				mx.Write(calcProto)
				c.Cov.Check(c.Drv, fmt.Sprintf("maxsize %s %s => %d %d", p, metricTok(m), calc.GetCount(), cnt), "c16-maxsize-"+p)
			}
		}
	}
}
