package main

import (
	"fmt"
	"io"
	"strings"
	"time"

	tally "github.com/uber-go/tally/v4"
)

// scopeseq: EVERY sequential history, up to a length, over a three-scope universe -- the root, S = root.SubScope("s"),
// T = S.Tagged({k: v}) -- of {increment a counter through a handle, Close a handle (S or T), obtain S or T again
// (through the current handle of its parent), report pass, Close the root}.  No concurrency, no model: the oracles
// are the properties' own sentences.
//   * C01 / C07: what was recorded through a handle whose scope was open (and whose root was open) is delivered
//     exactly once under that scope's name, after two more passes and the root's Close;
//   * C07: a scope obtained from a closed parent, and C08: anything obtained after the root's Close, is inert -
//     recording through it delivers nothing;
//   * C08: after the root's Close nothing at all reaches the reporter, a second Close returns nil.
// The random scope programs sample such histories among many others; this suite enumerates the short ones.

func init() {
	register("scopeseq", "C07", "", func(c *Ctx) { suiteScopeSeq(c, false) })
	register("gaugeseq", "C02", "", func(c *Ctx) { suiteScopeSeq(c, true) })
}

type seqOp struct {
	kind byte // 'i' inc handle arg, 'c' close handle arg (1,2), 'o' obtain handle arg (1,2) again, 'p' pass, 'R' root close
	arg  int
}

func (o seqOp) String() string {
	n := []string{"root", "S", "T"}
	switch o.kind {
	case 'i':
		return "inc(" + n[o.arg] + ")"
	case 'c':
		return "close(" + n[o.arg] + ")"
	case 'o':
		return "obtain(" + n[o.arg] + ")"
	case 'p':
		return "pass"
	}
	return "root.Close"
}

// gauge deliveries in order: (name|tags token, value bits)
func (w *world) gaugeDeliveries() [][2]string {
	var out [][2]string
	for _, e := range w.log().Snapshot() {
		if e.Kind != "gauge" {
			continue
		}
		name, tags := e.Name, e.Tags
		if w.cached {
			name, tags = w.recC.Meta[e.ID].Name, w.recC.Meta[e.ID].Tags
		}
		out = append(out, [2]string{name + "|" + mapHex(tags), f64hex(e.F)})
	}
	return out
}

func runScopeSeq(c *Ctx, mode int, cached bool, shards uint, ops []seqOp) bool {
	gaugeMode := mode == 1
	timerWant, timerAfterClose := 0, 0
	w := newWorld(cached, 0, shards, true)
	h := [3]tally.Scope{w.root, nil, nil}
	h[1] = w.root.SubScope("s")
	h[2] = h[1].Tagged(map[string]string{"k": "v"})
	// closedObj: scope objects on which Close was called; inertObj: scopes that must be inert (obtained from a closed
	// parent or after the root's Close)
	closedObj := map[tally.Scope]bool{}
	inertObj := map[tally.Scope]bool{}
	rootClosed := false
	want := map[string]int64{}
	amount := int64(1)
	var trace []string
	names := [3]string{"c", "s.c", "s.c"}
	gnames := [3]string{"g|-", "s.g|-", "s.g|" + mapHex(map[string]string{"k": "v"})}
	gUpdates := map[string][]string{} // per identity: the values passed to Update, in order (open scopes only)
	gAll := map[string]map[string]bool{}
	silentFrom := -1
	for _, op := range ops {
		switch op.kind {
		case 'i':
			sc := h[op.arg]
			if mode != 2 && closedObj[sc] && !inertObj[sc] && !rootClosed {
				return false // a counter / gauge on a closed, not inert scope: delivery is not determined
			}
			if mode == 2 && rootClosed && !inertObj[sc] {
				timerAfterClose++
			}
			if mode == 2 {
				// a timer hands every record to the reporter at once: one delivery per record through an open scope,
				// none through an inert one, none at all after the root's Close
				// (C10: also through a handle whose scope, or whose root, has been closed since - the timer still forwards)
				sc.Timer("t").Record(time.Duration(amount))
				if !inertObj[sc] {
					timerWant++
				}
				amount *= 3
				break
			}
			if gaugeMode {
				v := float64(amount) + 0.5
				sc.Gauge("g").Update(v)
				if !inertObj[sc] && !rootClosed {
					gUpdates[gnames[op.arg]] = append(gUpdates[gnames[op.arg]], f64hex(v))
					if gAll[gnames[op.arg]] == nil {
						gAll[gnames[op.arg]] = map[string]bool{}
					}
					gAll[gnames[op.arg]][f64hex(v)] = true
				}
				amount *= 3
				break
			}
			sc.Counter("c").Inc(amount)
			if !inertObj[sc] && !rootClosed {
				want[names[op.arg]] += amount
			}
			amount *= 3
		case 'c':
			sc := h[op.arg]
			if closedObj[sc] || inertObj[sc] || rootClosed {
				return false
			}
			sc.(io.Closer).Close()
			closedObj[sc] = true
		case 'o':
			parent := h[op.arg-1]
			var sc tally.Scope
			if op.arg == 1 {
				sc = parent.SubScope("s")
			} else {
				sc = parent.Tagged(map[string]string{"k": "v"})
			}
			if rootClosed || closedObj[parent] || inertObj[parent] {
				inertObj[sc] = true
			}
			h[op.arg] = sc
		case 'p':
			tally.VerifReportOnce(w.root)
		case 'R':
			if rootClosed {
				return false
			}
			if err := w.closer.Close(); err != nil {
				c.Cov.Fail(Failure{Kind: "violated", Clause: "close-returns-nil", Signature: "scopeseq-close-error", Line: strings.Join(trace, " ; "), Reply: err.Error()})
			}
			rootClosed = true
			silentFrom = c08LogLen(w) // (a first use on an old handle may still Allocate from a cached reporter: not a delivery)
		}
		trace = append(trace, op.String())
	}
	line := func() string {
		return fmt.Sprintf("mode=%s cached=%v shards=%d: S=root.SubScope(s) ; T=S.Tagged(k:v) ; %s ; pass ; pass ; root Close", []string{"counter", "gauge", "timer"}[mode], cached, shards, strings.Join(trace, " ; "))
	}
	if !rootClosed {
		tally.VerifReportOnce(w.root)
		tally.VerifReportOnce(w.root)
		w.closer.Close()
	} else {
		if err := w.closer.Close(); err != nil {
			c.Cov.Fail(Failure{Kind: "violated", Clause: "further-close-calls-return-nil", Signature: "scopeseq-second-close", Line: line(), Reply: err.Error()})
		}
		// "scopes obtained afterwards are inert": by every route - a subscope, new tags, no tags at all (nil, empty map),
		// from the root and from the handles held since before the Close; recording through them delivers nothing
		for _, base := range h {
			for _, late := range []tally.Scope{base.SubScope("late"), base.Tagged(map[string]string{"late": "x"}), base.Tagged(nil), base.Tagged(map[string]string{})} {
				late.Timer("t").Record(time.Millisecond)
				late.Counter("c").Inc(1)
				late.Gauge("g").Update(1)
			}
		}
		tally.VerifReportOnce(w.root)
		// (timer records through handles obtained before the Close are forwarded at once, as C10 says: not a report pass)
		if n := c08LogLen(w) - timerAfterClose; n != silentFrom {
			_, order := w.delivered()
			c.Cov.Fail(Failure{Kind: "violated", Clause: "silent-after-close", Signature: "scopeseq-reporter-call-after-root-close", Line: line(),
				Reply: fmt.Sprintf("%d reporter call(s) after the root's Close had returned; reporter log %v", n-silentFrom, order)})
		}
	}
	if gaugeMode {
		// C02, sequentially: every delivered value was passed to Update on that gauge; never more deliveries than updates;
		// the most recent delivery carries the last update
		dl := w.gaugeDeliveries()
		last := map[string]string{}
		count := map[string]int{}
		for _, d := range dl {
			if !gAll[d[0]][d[1]] {
				c.Cov.Fail(Failure{Kind: "violated", Clause: "delivered-value-was-updated", Signature: "scopeseq-gauge-foreign-value", Line: line(),
					Reply: fmt.Sprintf("gauge %s: delivered %s, which was never passed to Update on it through an open scope; deliveries %v", d[0], d[1], dl)})
				return true
			}
			last[d[0]] = d[1]
			count[d[0]]++
		}
		for nt, ups := range gUpdates {
			if count[nt] > len(ups) {
				c.Cov.Fail(Failure{Kind: "violated", Clause: "deliveries-le-updates", Signature: "scopeseq-gauge-redelivered", Line: line(),
					Reply: fmt.Sprintf("gauge %s: %d updates, %d deliveries %v", nt, len(ups), count[nt], dl)})
				return true
			}
			if last[nt] != ups[len(ups)-1] {
				c.Cov.Fail(Failure{Kind: "violated", Clause: "latest-value-delivered", Signature: "scopeseq-gauge-latest", Line: line(),
					Reply: fmt.Sprintf("gauge %s: last update %s, most recent delivery %q; deliveries %v", nt, ups[len(ups)-1], last[nt], dl)})
				return true
			}
		}
	}
	if mode == 2 {
		n := 0
		for _, e := range w.log().Snapshot() {
			if e.Kind == "timer" {
				n++
			}
		}
		if n != timerWant {
			c.Cov.Fail(Failure{Kind: "violated", Clause: "one-delivery-per-record", Signature: "scopeseq-timer-deliveries", Line: line(),
				Reply: fmt.Sprintf("%d timer records through handles that are not inert, %d timer deliveries", timerWant, n)})
		}
	}
	got, order := w.delivered()
	for _, n := range []string{"c", "s.c"} {
		if got[n] != want[n] {
			c.Cov.Fail(Failure{Kind: "violated", Clause: "recorded-on-an-open-scope-delivered-exactly-once", Signature: "scopeseq-conservation", Line: line(),
				Reply: fmt.Sprintf("%s: recorded %d through handles of open scopes, delivered %d; reporter log %v", n, want[n], got[n], order)})
			break
		}
	}
	for n := range got {
		if n != "c" && n != "s.c" {
			c.Cov.Fail(Failure{Kind: "violated", Clause: "delivered-under-the-scope's-name", Signature: "scopeseq-name", Line: line(), Reply: "delivery under " + n})
		}
	}
	nontrivial := false
	for i, op := range ops {
		if (op.kind == 'c' || op.kind == 'R') && i+1 < len(ops) {
			nontrivial = true
		}
	}
	c.Cov.Eval(line(), nontrivial)
	return true
}

// runManyMetrics: one scope with many metrics of one kind (beyond any initial capacity of the scope's bookkeeping):
// every one of them is created and used, a pass runs, every one is used again THROUGH THE HANDLE OBTAINED AT FIRST and
// through a fresh look-up, a pass runs: the counters' deliveries add up to what was added, every gauge's most recent
// delivery is its last update.
func runManyMetrics(c *Ctx, gauges, cached bool, n int) {
	w := newWorld(cached, 0, 1, false)
	sc := w.root.SubScope("many")
	line := fmt.Sprintf("cached=%v: %d %s on one scope; each created and used; pass; each used again through its first handle and through a second look-up; pass; root Close", cached, n, map[bool]string{false: "counters", true: "gauges"}[gauges])
	cs := make([]tally.Counter, n)
	gs := make([]tally.Gauge, n)
	for i := 0; i < n; i++ {
		name := fmt.Sprintf("m%02d", i)
		if gauges {
			gs[i] = sc.Gauge(name)
			gs[i].Update(float64(i) + 0.25)
		} else {
			cs[i] = sc.Counter(name)
			cs[i].Inc(int64(i + 1))
		}
	}
	tally.VerifReportOnce(w.root)
	for i := 0; i < n; i++ {
		name := fmt.Sprintf("m%02d", i)
		if gauges {
			gs[i].Update(float64(i) + 0.5)
			if i%3 == 0 {
				sc.Gauge(name).Update(float64(i) + 0.75)
			}
		} else {
			cs[i].Inc(1000)
			sc.Counter(name).Inc(100000)
		}
	}
	tally.VerifReportOnce(w.root)
	w.closer.Close()
	if gauges {
		last := map[string]string{}
		for _, d := range w.gaugeDeliveries() {
			last[d[0]] = d[1]
		}
		for i := 0; i < n; i++ {
			want := float64(i) + 0.5
			if i%3 == 0 {
				want = float64(i) + 0.75
			}
			if got := last[fmt.Sprintf("many.m%02d|-", i)]; got != f64hex(want) {
				c.Cov.Fail(Failure{Kind: "violated", Clause: "latest-value-delivered", Signature: "scopeseq-many-gauges", Line: line,
					Reply: fmt.Sprintf("gauge many.m%02d: last update %v (%s), most recent delivery %q", i, want, f64hex(want), got)})
				break
			}
		}
	} else {
		got, _ := w.delivered()
		for i := 0; i < n; i++ {
			want := int64(i+1) + 1000 + 100000
			if g := got[fmt.Sprintf("many.m%02d", i)]; g != want {
				c.Cov.Fail(Failure{Kind: "violated", Clause: "recorded-on-an-open-scope-delivered-exactly-once", Signature: "scopeseq-many-counters", Line: line,
					Reply: fmt.Sprintf("counter many.m%02d: %d added, %d delivered", i, want, g)})
				break
			}
		}
	}
	c.Cov.Hit(fmt.Sprintf("many-metrics.%d", n))
	c.Cov.Eval(line, true)
}

// runRetiredHandle: a sub-scope is closed and obtained again BEFORE a pass has collected the closed object; the holder
// of the closed object then first-uses NEW metric names on it ("closing a scope never affects any other scope": what
// happens through the retired object must not disturb the successor); what is recorded on the successor is delivered.
func runRetiredHandle(c *Ctx, gauges, cached bool, lateNames int) {
	w := newWorld(cached, 0, 1, false)
	tags := map[string]string{"r": "1"}
	old := w.root.Tagged(tags)
	line := fmt.Sprintf("cached=%v %s: A = root.Tagged(r:1) with two metrics; A.Close(); B = root.Tagged(r:1) (no pass in between) with two metrics; %d NEW names first used through A; the metrics of B used; pass; pass; root Close",
		cached, map[bool]string{false: "counters", true: "gauges"}[gauges], lateNames)
	if gauges {
		old.Gauge("a0").Update(1)
		old.Gauge("a1").Update(2)
	} else {
		old.Counter("a0").Inc(1)
		old.Counter("a1").Inc(2)
	}
	old.(io.Closer).Close()
	succ := w.root.Tagged(tags)
	var bc []tally.Counter
	var bg []tally.Gauge
	for i := 0; i < 2; i++ {
		if gauges {
			bg = append(bg, succ.Gauge(fmt.Sprintf("b%d", i)))
		} else {
			bc = append(bc, succ.Counter(fmt.Sprintf("b%d", i)))
		}
	}
	for i := 0; i < lateNames; i++ {
		p, v := catch(func() {
			if gauges {
				old.Gauge(fmt.Sprintf("late%d", i)).Update(99)
			} else {
				old.Counter(fmt.Sprintf("late%d", i)).Inc(99)
			}
		})
		if p {
			c.Cov.Fail(Failure{Kind: "crash", Clause: "no-panic", Signature: "scopeseq-retired-handle-panics", Line: line, Reply: fmt.Sprint(v)})
			return
		}
	}
	for i := 0; i < 2; i++ {
		if gauges {
			bg[i].Update(float64(i) + 10.5)
		} else {
			bc[i].Inc(int64(i) + 10)
		}
	}
	tally.VerifReportOnce(w.root)
	tally.VerifReportOnce(w.root)
	w.closer.Close()
	if gauges {
		last := map[string]string{}
		for _, d := range w.gaugeDeliveries() {
			last[d[0]] = d[1]
		}
		for i := 0; i < 2; i++ {
			want := float64(i) + 10.5
			found := ""
			for k, v := range last {
				if strings.HasPrefix(k, fmt.Sprintf("b%d|", i)) {
					found = v
				}
			}
			if found != f64hex(want) {
				c.Cov.Fail(Failure{Kind: "violated", Clause: "latest-value-delivered", Signature: "scopeseq-successor-disturbed-by-retired-handle", Line: line,
					Reply: fmt.Sprintf("gauge b%d of the successor: last update %v (%s), most recent delivery %q (all: %v)", i, want, f64hex(want), found, last)})
				break
			}
		}
	} else {
		got, _ := w.delivered()
		for i := 0; i < 2; i++ {
			if g := got[fmt.Sprintf("b%d", i)]; g != int64(i)+10 {
				c.Cov.Fail(Failure{Kind: "violated", Clause: "recorded-on-an-open-scope-delivered-exactly-once", Signature: "scopeseq-successor-disturbed-by-retired-handle", Line: line,
					Reply: fmt.Sprintf("counter b%d of the successor: %d added, %d delivered (all: %v)", i, int64(i)+10, g, got)})
				break
			}
		}
	}
	c.Cov.Hit(fmt.Sprintf("retired-handle.%d", lateNames))
	c.Cov.Eval(line, true)
}

func suiteScopeSeq(c *Ctx, gauges bool) {
	for _, cached := range []bool{false, true} {
		for _, n := range []int{15, 16, 17, 33, 65, 200} {
			runManyMetrics(c, gauges, cached, n)
		}
		for _, late := range []int{1, 2, 3} {
			runRetiredHandle(c, gauges, cached, late)
		}
	}
	c.Cov.Rule = "EXHAUSTIVE over sequential histories: all well-formed sequences of up to L operations (quick L=6, thorough L=7) over {increment a counter (gauge mode: update a gauge with a fresh value; timer mode: record on a timer) through the root / S / T handle, Close S or T, obtain S or T again through the current handle of its parent, report pass, root Close} on root, S = root.SubScope(s), T = S.Tagged(k:v); plain and cached closable reporters, 1 and 2 shards; then two passes and the root's Close; oracles: conservation per name over increments made through open scopes, inert scopes (from a closed parent / after the root's Close) deliver nothing, nothing reaches the reporter after the root's Close, a second Close returns nil; timer mode: one timer delivery per record through a handle that is not inert (also after the root's Close, as C10 says), none through an inert scope; gauge mode (C02, sequentially): every delivered value was passed to Update on that gauge through an open scope, never more deliveries than updates, the most recent delivery is the last update; nontrivial = an operation follows a Close; distinct by history"
	c.Cov.Exhaustive = true
	maxLen := 6
	if c.Thorough() {
		maxLen = 7
	}
	total := 0
	for _, cfg := range [][3]int{{0, 0, 1}, {0, 1, 1}, {0, 0, 2}, {1, 0, 1}, {1, 1, 1}, {2, 0, 1}, {2, 1, 1}, {0, 1, 2}, {1, 1, 2}, {2, 1, 2}} {
		{
			mode, cached, shards := cfg[0], cfg[1] == 1, uint(cfg[2])
			if (mode == 1) != gauges || (cfg[2] == 2 && cfg[1] == 1 && !c.Thorough()) {
				continue
			}
			var rec func(prefix []seqOp)
			rec = func(prefix []seqOp) {
				if len(prefix) > 0 {
					ok := false
					if p, v := catch(func() { ok = runScopeSeq(c, mode, cached, shards, prefix) }); p {
						// "none of this can panic": a panic inside the library during a sequential history
						var tr []string
						for _, o := range prefix {
							tr = append(tr, o.String())
						}
						c.Cov.Fail(Failure{Kind: "crash", Clause: "no-panic", Signature: "scopeseq-panic",
							Line: fmt.Sprintf("mode=%d cached=%v shards=%d: %s", mode, cached, shards, strings.Join(tr, " ; ")), Reply: fmt.Sprint(v)})
						return
					}
					if !ok {
						return
					}
					total++
				}
				if len(prefix) == maxLen {
					return
				}
				last := byte(0)
				if len(prefix) > 0 {
					last = prefix[len(prefix)-1].kind
				}
				ext := func(o seqOp) { rec(append(append([]seqOp(nil), prefix...), o)) }
				for a := 0; a < 3; a++ {
					if !(last == 'i' && prefix[len(prefix)-1].arg == a) { // the same increment twice in a row adds nothing
						ext(seqOp{'i', a})
					}
				}
				for a := 1; a < 3; a++ {
					ext(seqOp{'c', a})
					ext(seqOp{'o', a})
				}
				if last != 'p' {
					ext(seqOp{'p', 0})
				}
				ext(seqOp{'R', 0})
			}
			rec(nil)
		}
	}
	c.Cov.HitN("histories.enumerated", total)
	c.Cov.Traces = total
}
