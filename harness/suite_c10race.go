package main

import (
	"fmt"
	"sort"
	"strconv"
	"strings"
	"time"

	tally "github.com/uber-go/tally/v4"
)

// c10race: "each Timer.Record(d) results in exactly one timer delivery" when the first uses of one timer
// name race.  n threads call scope.Timer("m").Record(d_i) (and, per thread, a second Record through the
// handle they got); each is parked between the read-locked probe and the write lock of scope.Timer.
// Observation: the reporter log (plain / cached recording reporters) or, for a reporter-less test scope,
// the snapshot taken afterwards (the timer's own buffer).  Oracle: the multiset of delivered durations under
// the timer's name equals the multiset recorded; a report pass afterwards adds none.
// 2 threads are enumerated exhaustively (all orders of the parked steps), 3-4 threads are sampled.

func init() { register("c10race", "C10", "", suiteC10Race) }

func runC10Race(c *Ctx, ch Chooser, kind string, nThreads int, onSub bool) string {
	var root tally.Scope
	var rec *recReporter
	var recC *recCached
	var ts tally.TestScope
	switch kind {
	case "plain":
		rec = newRec()
		root, _ = tally.VerifNewRootScope(tally.ScopeOptions{Reporter: rec, OmitCardinalityMetrics: true}, 0, 1)
	case "cached":
		recC = newRecCached()
		root, _ = tally.VerifNewRootScope(tally.ScopeOptions{CachedReporter: recC, OmitCardinalityMetrics: true}, 0, 1)
	case "both":
		// both reporters configured: a scope with a cached reporter delivers timers through the cached handle
		rec = newRec()
		recC = newRecCached()
		root, _ = tally.VerifNewRootScope(tally.ScopeOptions{Reporter: rec, CachedReporter: recC, OmitCardinalityMetrics: true}, 0, 1)
	default:
		ts = tally.VerifNewTestScope("", nil, 1)
		root = ts
	}
	sc := root
	full := "m"
	if onSub {
		sc = root.SubScope("a")
		full = "a.m"
	}
	s := NewSched(func(l string) bool { return l == "scope.timer.pre-lock" || l == "c10.second" })
	var want []int64
	var thrs []*Thr
	for i := 0; i < nThreads; i++ {
		d1, d2 := int64(i+1)*1e6, int64(i+1)*1e6+500
		want = append(want, d1, d2)
		thrs = append(thrs, s.Spawn("T"+strconv.Itoa(i), func() {
			t := sc.Timer("m")
			t.Record(time.Duration(d1))
			hook("c10.second", "")
			t.Record(time.Duration(d2))
		}))
	}
	var trace []string
	for {
		var cand []*Thr
		for _, t := range thrs {
			if !t.Done {
				cand = append(cand, t)
			}
		}
		if len(cand) == 0 {
			break
		}
		t := cand[ch.Pick(len(cand))]
		to, _ := s.Step(t)
		trace = append(trace, t.Name+"@"+to)
		if to == "blocked" || to == "panic" {
			c.Cov.Fail(Failure{Kind: "crash", Clause: to, Signature: "c10-race-" + kind, Line: strings.Join(trace, " "), Reply: fmt.Sprint(t.Pan)})
			s.Finish()
			return strings.Join(trace, " ")
		}
	}
	s.Finish()
	collect := func() []int64 {
		var got []int64
		switch kind {
		case "plain":
			for _, e := range rec.log.Snapshot() {
				if e.Kind == "timer" && e.Name == full {
					got = append(got, e.I)
				}
			}
		case "cached", "both":
			for _, e := range recC.log.Snapshot() {
				if e.Kind == "timer" && recC.Meta[e.ID].Name == full {
					got = append(got, e.I)
				}
			}
		default:
			for _, t := range ts.Snapshot().Timers() {
				if t.Name() == full {
					for _, d := range t.Values() {
						got = append(got, int64(d))
					}
				}
			}
		}
		sort.Slice(got, func(i, j int) bool { return got[i] < got[j] })
		return got
	}
	sort.Slice(want, func(i, j int) bool { return want[i] < want[j] })
	got := collect()
	line := fmt.Sprintf("kind=%s threads=%d sub=%v schedule: %s", kind, nThreads, onSub, strings.Join(trace, " "))
	if fmt.Sprint(got) != fmt.Sprint(want) {
		c.Cov.Fail(Failure{Kind: "violated", Clause: "each-record-delivered-exactly-once", Signature: "c10-race-" + kind, Line: line,
			Reply: fmt.Sprintf("timer %s: recorded %v, delivered %v", full, want, got)})
		return line
	}
	if kind == "both" {
		for _, e := range rec.log.Snapshot() {
			if e.Kind == "timer" {
				c.Cov.Fail(Failure{Kind: "violated", Clause: "cached-handle-takes-the-timer", Signature: "c10-race-" + kind, Line: line,
					Reply: "a scope with a cached reporter delivered a timer value through the plain reporter"})
				return line
			}
		}
	}
	if kind != "test" {
		tally.VerifReportOnce(root)
		if again := collect(); len(again) != len(got) {
			c.Cov.Fail(Failure{Kind: "violated", Clause: "report-pass-emits-no-timer", Signature: "c10-race-" + kind, Line: line,
				Reply: fmt.Sprintf("a report pass changed the timer deliveries from %v to %v", got, again)})
		}
	}
	if cl, ok := root.(interface{ Close() error }); ok {
		cl.Close()
	}
	return line
}

func suiteC10Race(c *Ctx) {
	c.Cov.Rule = "2-4 threads make the first use of one timer name at the same time (each parked between scope.Timer's read-locked probe and its write lock, and between its two Record calls) on a plain, a cached and a reporter-less test scope, root and subscope; oracle: multiset of timer deliveries (reporter log, or the test scope's snapshot) = multiset recorded, a later report pass adds none; all schedules for 2 threads (DFS), sampled schedules for 3-4; nontrivial = at least two threads were parked before the write lock at the same time; distinct by schedule"
	exhaustive := true
	for _, kind := range []string{"test", "plain", "cached", "both"} {
		for _, onSub := range []bool{false, true} {
			d := &dfsChooser{}
			for n := 0; ; n++ {
				d.depth = 0
				line := runC10Race(c, d, kind, 2, onSub)
				c.Cov.Eval(line, strings.Count(line, "@scope.timer.pre-lock") >= 2)
				c.Cov.Schedules++
				if !d.Next() {
					break
				}
				if n > 5000 {
					exhaustive = false
					break
				}
			}
		}
	}
	n := c.N(150, 3000)
	for i := 0; i < n; i++ {
		r := c.Rng.Fork()
		kind := []string{"test", "plain", "cached", "both"}[r.Intn(4)]
		line := runC10Race(c, &randChooser{r: r}, kind, r.Range(3, 4), r.Bool())
		c.Cov.Eval(line, strings.Count(line, "@scope.timer.pre-lock") >= 2)
		c.Cov.Schedules++
	}
	c.Cov.Exhaustive = false
	if exhaustive {
		c.Cov.Notes = append(c.Cov.Notes, "all schedules of the 2-thread scenarios were enumerated (6 configurations); 3-4 threads sampled")
	}
	c.Cov.Traces = c.Cov.Schedules
}
