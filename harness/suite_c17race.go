package main

import (
	"fmt"
	"sort"
	"strings"
	"sync"
	"time"

	prom "github.com/prometheus/client_golang/prometheus"
	tally "github.com/uber-go/tally/v4"
	"github.com/uber-go/tally/v4/prometheus"
)

// c17race: racing FIRST uses of one Prometheus metric family.  2-3 threads allocate the same name with the
// same tag keys (same or different tag values) at the same time.  The harness supplies the Registerer, so
// the call into the client's Register is a schedule point (hook "prom.register"): a thread parked there is a
// first user that has decided to register the family but has not done so yet.  Afterwards every thread
// records through the handle it got and the registry is gathered.
// Oracle (the property's own clauses, no model): no panic and no registration-error callback (all uses are
// compatible), every thread's series is exposed with exactly what was recorded on it (counter: sum, gauge:
// last update of that series, timers/histograms: sample count), series of one family stay separate.

func init() { register("c17race", "C17", "", suiteC17Race) }

type hookRegisterer struct{ inner prom.Registerer }

func (h hookRegisterer) Register(c prom.Collector) error {
	hook("prom.register", "")
	return h.inner.Register(c)
}
func (h hookRegisterer) MustRegister(cs ...prom.Collector) {
	for _, c := range cs {
		if err := h.Register(c); err != nil {
			panic(err)
		}
	}
}
func (h hookRegisterer) Unregister(c prom.Collector) bool { return h.inner.Unregister(c) }

func runC17Race(c *Ctx, r *Rng) {
	kinds := []string{"counter", "gauge", "timer-summary", "timer-histogram", "hist-value", "hist-duration"}
	kind := kinds[r.Intn(len(kinds))]
	nThreads := r.Range(2, 3)
	sameTags := r.Chance(25)
	reg := prom.NewRegistry()
	tt := prometheus.SummaryTimerType
	if kind == "timer-histogram" {
		tt = prometheus.HistogramTimerType
	}
	var cbErrs []string
	rep := prometheus.NewReporter(prometheus.Options{
		Registerer:       hookRegisterer{reg},
		DefaultTimerType: tt,
		OnRegisterError:  func(err error) { cbErrs = append(cbErrs, err.Error()) },
	})
	s := NewSched(func(l string) bool { return l == "prom.register" })
	s.Timeout = 15 * time.Millisecond
	type res struct {
		tags map[string]string
		h    interface{}
		pan  interface{}
	}
	results := make([]res, nThreads)
	var thrs []*Thr
	for i := 0; i < nThreads; i++ {
		i := i
		tags := map[string]string{"zone": fmt.Sprintf("z%d", i), "env": "e"}
		if sameTags {
			tags["zone"] = "z"
		}
		results[i].tags = tags
		thrs = append(thrs, s.Spawn(fmt.Sprintf("T%d", i), func() {
			p, v := catch(func() {
				switch kind {
				case "counter":
					results[i].h = rep.AllocateCounter("fam", tags)
				case "gauge":
					results[i].h = rep.AllocateGauge("fam", tags)
				case "timer-summary", "timer-histogram":
					results[i].h = rep.AllocateTimer("fam", tags)
				case "hist-value":
					results[i].h = rep.AllocateHistogram("fam", tags, tally.ValueBuckets{1, 2, 5})
				case "hist-duration":
					results[i].h = rep.AllocateHistogram("fam", tags, tally.DurationBuckets{time.Millisecond, time.Second})
				}
			})
			if p {
				results[i].pan = v
			}
		}))
	}
	var trace []string
	for steps := 0; steps < 200; steps++ {
		var live, ready []*Thr
		for _, t := range thrs {
			if t.Done {
				continue
			}
			live = append(live, t)
			if t.At != "blocked" {
				ready = append(ready, t)
			}
		}
		if len(live) == 0 {
			break
		}
		pick := live
		if len(ready) > 0 && r.Chance(85) {
			pick = ready
		}
		t := pick[r.Intn(len(pick))]
		if t.At == "blocked" {
			s.Poll(t, 2*time.Millisecond)
			continue
		}
		to, _ := s.Step(t)
		trace = append(trace, t.Name+"@"+to)
	}
	s.Finish()
	line := fmt.Sprintf("kind=%s threads=%d same-tags=%v schedule: %s", kind, nThreads, sameTags, strings.Join(trace, " "))
	sig := "c17-race-" + kind
	fail := func(clause, why string) {
		c.Cov.Fail(Failure{Kind: "violated", Clause: clause, Signature: sig, Line: line, Reply: why})
	}
	for _, t := range thrs {
		if !t.Done {
			c.Cov.Fail(Failure{Kind: "crash", Clause: "deadlock", Signature: sig, Line: line, Reply: t.Name + " never finished"})
			return
		}
	}
	for i, rs := range results {
		if rs.pan != nil {
			fail("conflict-never-panics", fmt.Sprintf("thread %d: first use panicked: %v", i, rs.pan))
			return
		}
	}
	if len(cbErrs) > 0 {
		fail("first-use-registers-once", fmt.Sprintf("registration error callback invoked although all uses are compatible: %v", cbErrs))
		return
	}
	// record through every handle, then gather
	want := map[string]float64{} // zone -> expected value (counter sum / gauge last / sample count)
	for i, rs := range results {
		z := rs.tags["zone"]
		switch kind {
		case "counter":
			rs.h.(tally.CachedCount).ReportCount(int64(i + 1))
			want[z] += float64(i + 1)
		case "gauge":
			rs.h.(tally.CachedGauge).ReportGauge(float64(10 + i))
			want[z] = float64(10 + i)
		case "timer-summary", "timer-histogram":
			rs.h.(tally.CachedTimer).ReportTimer(time.Duration(i+1) * time.Millisecond)
			want[z]++
		case "hist-value":
			rs.h.(tally.CachedHistogram).ValueBucket(1, 2).ReportSamples(int64(i + 1))
			want[z] += float64(i + 1)
		case "hist-duration":
			rs.h.(tally.CachedHistogram).DurationBucket(time.Millisecond, time.Second).ReportSamples(int64(i + 1))
			want[z] += float64(i + 1)
		}
	}
	mfs, err := reg.Gather()
	if err != nil {
		fail("gather", "Gather failed: "+err.Error())
		return
	}
	got := map[string]float64{}
	for _, mf := range mfs {
		if mf.GetName() != "fam" {
			continue
		}
		for _, m := range mf.GetMetric() {
			z := ""
			for _, lp := range m.GetLabel() {
				if lp.GetName() == "zone" {
					z = lp.GetValue()
				}
			}
			switch {
			case m.GetCounter() != nil:
				got[z] = m.GetCounter().GetValue()
			case m.GetGauge() != nil:
				got[z] = m.GetGauge().GetValue()
			case m.GetSummary() != nil:
				got[z] = float64(m.GetSummary().GetSampleCount())
			case m.GetHistogram() != nil:
				got[z] = float64(m.GetHistogram().GetSampleCount())
			}
		}
	}
	zs := make([]string, 0, len(want))
	for z := range want {
		zs = append(zs, z)
	}
	sort.Strings(zs)
	for _, z := range zs {
		g, ok := got[z]
		if !ok {
			fail("series-exposed", fmt.Sprintf("series zone=%s of family fam is not exposed (recorded %v); exposed: %v", z, want[z], got))
			return
		}
		if g != want[z] {
			fail("series-value", fmt.Sprintf("series zone=%s: recorded %v, exposed %v", z, want[z], g))
			return
		}
	}
	if len(got) != len(want) {
		fail("series-separate", fmt.Sprintf("exposed series %v, expected exactly %v", got, want))
	}
	parked := 0
	for _, e := range trace {
		if strings.HasSuffix(e, "@prom.register") {
			parked++
		}
	}
	c.Cov.Hit("kind." + kind)
	c.Cov.Eval(line, parked >= 1)
	c.Cov.Schedules++
}

// runC17MixedKinds: free-running -- a timer and a histogram (or a counter and a gauge) of ONE name and key set are first
// used by two goroutines released together (spinning barrier), on a fresh reporter every round.  "Whenever a name is
// reused for another kind of metric the caller still gets a usable, possibly no-op, metric: never a nil dereference or
// other panic" -- also when the two first uses race.  Oracle: neither call panics, both returned metrics accept a
// recording, the rejected one reached the (non-panicking) callback at most once, Gather succeeds.
func runC17MixedKinds(c *Ctx, r *Rng, rounds int, pair int) {
	names := []string{"summary timer + value histogram", "histogram timer + value histogram (same kind of family)", "counter + gauge"}
	line := fmt.Sprintf("%d rounds: %s of one name and key set first used by two goroutines at the same time", rounds, names[pair])
	for i := 0; i < rounds; i++ {
		reg := prom.NewRegistry()
		var mu sync.Mutex
		cb := 0
		tt := prometheus.SummaryTimerType
		if pair == 1 {
			tt = prometheus.HistogramTimerType
		}
		rep := prometheus.NewReporter(prometheus.Options{Registerer: reg, DefaultTimerType: tt,
			OnRegisterError: func(error) { mu.Lock(); cb++; mu.Unlock() }})
		tags := map[string]string{"zone": "z", "env": "e"}
		bar := newC20Barrier(2)
		var pans [2]interface{}
		var wg sync.WaitGroup
		for g := 0; g < 2; g++ {
			g := g
			wg.Add(1)
			go func() {
				defer wg.Done()
				bar.Wait()
				_, v := catch(func() {
					switch {
					case pair == 2 && g == 0:
						rep.AllocateCounter("fam", tags).ReportCount(1)
					case pair == 2:
						rep.AllocateGauge("fam", tags).ReportGauge(1)
					case g == 0:
						rep.AllocateTimer("fam", tags).ReportTimer(time.Millisecond)
					default:
						rep.AllocateHistogram("fam", tags, tally.ValueBuckets{1, 2}).ValueBucket(1, 2).ReportSamples(1)
					}
				})
				pans[g] = v
			}()
		}
		wg.Wait()
		for g, v := range pans {
			if v != nil {
				c.Cov.Fail(Failure{Kind: "violated", Clause: "conflict-never-panics", Signature: "c17-race-mixed-kinds", Line: line,
					Reply: fmt.Sprintf("round %d, goroutine %d: %v", i, g, v)})
				return
			}
		}
		if cb > 1 {
			c.Cov.Fail(Failure{Kind: "violated", Clause: "rejected-registration-reaches-callback-once", Signature: "c17-race-mixed-kinds", Line: line,
				Reply: fmt.Sprintf("round %d: the error callback was invoked %d times for two first uses", i, cb)})
			return
		}
		if _, err := reg.Gather(); err != nil {
			c.Cov.Fail(Failure{Kind: "violated", Clause: "gather", Signature: "c17-race-mixed-kinds", Line: line, Reply: err.Error()})
			return
		}
	}
	c.Cov.Hit("mixed-kinds." + names[pair])
	c.Cov.Eval(line+fmt.Sprint(r.U64()), true)
	c.Cov.Schedules++
}

func suiteC17Race(c *Ctx) {
	for i := 0; i < 6; i++ {
		runC17MixedKinds(c, c.Rng.Fork(), c.N(150, 1500), i%3)
	}
	c.Cov.Rule = "2-3 threads make the first use of one metric family (counter, gauge, summary timer, histogram timer, value / duration histogram; same tag keys, same or different values) at the same time; the harness-supplied Registerer is a schedule point, so a thread can be parked after deciding to register and before registering; sampled schedules; plus free-running rounds in which two goroutines released together make the first use of ONE name for two kinds (timer / histogram, counter / gauge) on a fresh reporter: no panic, at most one callback; oracle: no panic, no registration-error callback, every thread's series exposed with exactly what was recorded through its handle, series separate; nontrivial = some thread was parked inside Register; distinct by schedule"
	n := c.N(120, 2500)
	for i := 0; i < n; i++ {
		runC17Race(c, c.Rng.Fork())
	}
	c.Cov.Traces = c.Cov.Schedules
}
