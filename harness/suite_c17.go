package main

import (
	"errors"
	"fmt"
	"io"
	"log"
	"math"
	"os"
	"reflect"
	"runtime"
	"sort"
	"strconv"
	"strings"
	"time"

	prom "github.com/prometheus/client_golang/prometheus"
	tally "github.com/uber-go/tally/v4"
	"github.com/uber-go/tally/v4/prometheus"
)

func init() {
	register("c17", "C17", "c17", suiteC17)
	register("c17seq", "C17", "c17", suiteC17Seq)
}

// ---------------------------------------------------------------- observing wrapper around the real reporter

// obsReporter passes every call to the real Prometheus reporter and remembers what the last Allocate* call
// was given and what (dynamic type) it returned.
type obsReporter struct {
	inner    prometheus.Reporter
	calls    int
	lastType string
	lastName string
	lastTags map[string]string
}

func (o *obsReporter) note(name string, tags map[string]string, m interface{}) {
	o.calls++
	o.lastName, o.lastTags = name, copyTags(tags)
	o.lastType = reflect.TypeOf(m).String()
}
func (o *obsReporter) AllocateCounter(name string, tags map[string]string) tally.CachedCount {
	o.lastType = "panicked"
	m := o.inner.AllocateCounter(name, tags)
	o.note(name, tags, m)
	return m
}
func (o *obsReporter) AllocateGauge(name string, tags map[string]string) tally.CachedGauge {
	o.lastType = "panicked"
	m := o.inner.AllocateGauge(name, tags)
	o.note(name, tags, m)
	return m
}
func (o *obsReporter) AllocateTimer(name string, tags map[string]string) tally.CachedTimer {
	o.lastType = "panicked"
	m := o.inner.AllocateTimer(name, tags)
	o.note(name, tags, m)
	return m
}
func (o *obsReporter) AllocateHistogram(name string, tags map[string]string, b tally.Buckets) tally.CachedHistogram {
	o.lastType = "panicked"
	m := o.inner.AllocateHistogram(name, tags, b)
	o.note(name, tags, m)
	return m
}
func (o *obsReporter) Capabilities() tally.Capabilities { return o.inner.Capabilities() }
func (o *obsReporter) Flush()                           { o.inner.Flush() }

type cbSentinel struct{}

func c17ErrClass(err error) string {
	var are prom.AlreadyRegisteredError
	if errors.As(err, &are) {
		return "already"
	}
	if strings.Contains(err.Error(), "previously registered") {
		return "prev"
	}
	return "other"
}

func c17PanicClass(v interface{}) string {
	if _, ok := v.(cbSentinel); ok {
		return "cbpanic"
	}
	if re, ok := v.(runtime.Error); ok && strings.Contains(re.Error(), "nil pointer dereference") {
		return "nilpanic"
	}
	return "panic"
}

// ---------------------------------------------------------------- one case = one registry + reporter + root scope

type c17Handle struct {
	kind string // c g t ts th hv hd
	obj  interface{}
	dead bool
}

type c17Case struct {
	c        *Ctx
	class    string // "history" | "conflict-seq"
	reg      *prom.Registry
	rep      prometheus.Reporter
	obs      *obsReporter
	root     tally.Scope
	closer   io.Closer
	hist     bool // DefaultTimerType == HistogramTimerType
	cbPanics bool
	cbCount  int
	cbErrs   []string
	handles  []c17Handle
	flavour  map[string]string // name+keys -> "s" | "h" for usable timers / histograms (harness bookkeeping for signatures only)
	failed   bool
	lines    int
	split    int // > 0: the next scope-route use asks SubScope(name[:split]) for name[split+1:] (another tally object on the same series)
}

func newC17Case(c *Ctx, class string, hist, cbPanics bool, defBuckets []float64) *c17Case {
	k := &c17Case{c: c, class: class, hist: hist, cbPanics: cbPanics, flavour: map[string]string{}}
	k.reg = prom.NewRegistry()
	tt := prometheus.SummaryTimerType
	if hist {
		tt = prometheus.HistogramTimerType
	}
	k.rep = prometheus.NewReporter(prometheus.Options{
		Registerer:              k.reg,
		DefaultTimerType:        tt,
		DefaultHistogramBuckets: defBuckets,
		OnRegisterError: func(err error) {
			k.cbCount++
			k.cbErrs = append(k.cbErrs, c17ErrClass(err))
			if k.cbPanics {
				panic(cbSentinel{})
			}
		},
	})
	k.obs = &obsReporter{inner: k.rep}
	k.root, k.closer = tally.VerifNewRootScope(tally.ScopeOptions{CachedReporter: k.obs, Separator: prometheus.DefaultSeparator, OmitCardinalityMetrics: true}, 0, 1)
	tts, cb := "s", "ret"
	if hist {
		tts = "h"
	}
	if cbPanics {
		cb = "panic"
	}
	if defBuckets == nil {
		defBuckets = prometheus.DefaultHistogramBuckets()
	}
	k.ask(fmt.Sprintf("begin %s %s %s", tts, cb, f64List(defBuckets)), "begin")
	return k
}

func (k *c17Case) close() { k.closer.Close() }

// ask sends one line; any reply other than ok ends the case (model and implementation are out of step after it).
func (k *c17Case) ask(line, sig string) bool {
	if k.failed {
		return false
	}
	k.lines++
	if !c17Check(k.c, line, sig) {
		k.failed = true
		return false
	}
	return true
}

var c17SigSeen = map[string]int{}

// c17Check is Cov.Check with one difference: of every (kind, clause, signature) class only the first three
// failures are kept in the list (all are counted), so that the cap on the list cannot hide a rarer class.
func c17Check(c *Ctx, line, sig string) bool {
	reply := c.Drv.Ask(line)
	if reply == "ok" {
		return true
	}
	f := Failure{Kind: "bad-op", Clause: "protocol", Signature: sig, Line: line, Reply: reply}
	switch {
	case strings.HasPrefix(reply, "differ"):
		f.Kind, f.Clause = "differ", "model-vs-implementation"
	case strings.HasPrefix(reply, "violated"):
		f.Kind, f.Clause = "violated", ""
		if parts := strings.Fields(reply); len(parts) > 1 {
			f.Clause = parts[1]
		}
	}
	key := f.Kind + "/" + f.Clause + "/" + sig
	c17SigSeen[key]++
	c.Cov.Hit("failure-class." + key)
	if c17SigSeen[key] <= 3 {
		c.Cov.Fail(f)
	}
	return false
}

func keyID(name string, tags map[string]string) string {
	keys := make([]string, 0, len(tags))
	for t := range tags {
		keys = append(keys, t)
	}
	sort.Strings(keys)
	return name + "|" + strings.Join(keys, ",")
}

type c17Spec struct {
	vals []float64
	durs []time.Duration
}

func secsOf(d time.Duration) float64 { return float64(d) / float64(time.Second) }

func (s c17Spec) tok() string {
	if s.durs != nil {
		items := make([]string, len(s.durs))
		for i, d := range s.durs {
			items[i] = fmt.Sprintf("%d:%s", int64(d), f64hex(secsOf(d)))
		}
		return "hd " + joinList(items) + " " + f64hex(secsOf(time.Duration(math.MaxInt64)))
	}
	return "hv " + f64List(s.vals)
}

// use performs one first use through the scope (or, for ts/th, through RegisterTimer + With) and reports it.
func (k *c17Case) use(kind, name string, tags map[string]string, spec c17Spec) int {
	if k.failed {
		return -1
	}
	sc := k.root
	if len(tags) > 0 {
		sc = k.root.Tagged(tags)
	}
	local := name
	if k.split > 0 {
		sc, local = sc.SubScope(name[:k.split]), name[k.split+1:]
		k.split = 0
	}
	cb0, errs0, calls0 := k.cbCount, len(k.cbErrs), k.obs.calls
	// "rcd:<desc>" / "rgd:<desc>": RegisterCounter / RegisterGauge with the caller's own description
	desc := ""
	if strings.HasPrefix(kind, "rcd:") || strings.HasPrefix(kind, "rgd:") {
		kind, desc = kind[:3], kind[4:]
	}
	var obj interface{}
	outcome := ""
	kindTok := kind
	wantFlavour := ""
	var errs []string
	switch kind {
	case "ts", "th":
		tt, help := prometheus.SummaryTimerType, name+" summary"
		wantFlavour = "s"
		if kind == "th" {
			tt, help, wantFlavour = prometheus.HistogramTimerType, name+" histogram", "h"
		}
		keys := make([]string, 0, len(tags))
		for t := range tags {
			keys = append(keys, t)
		}
		var u prometheus.TimerUnion
		var err error
		p, v := catch(func() {
			u, err = k.rep.RegisterTimer(name, keys, help, &prometheus.RegisterTimerOptions{TimerType: tt})
		})
		switch {
		case p:
			outcome = c17PanicClass(v)
		case err != nil:
			outcome = "regerr"
			errs = []string{c17ErrClass(err)}
		case kind == "ts" && u.Summary == nil, kind == "th" && u.Histogram == nil:
			outcome = "nilvec"
		default:
			p, v := catch(func() {
				if kind == "ts" {
					obj = u.Summary.With(tags)
				} else {
					obj = u.Histogram.With(tags)
				}
			})
			if p {
				outcome = c17PanicClass(v)
			} else {
				outcome = "usable"
			}
		}
	case "rc", "rg", "rcd", "rgd":
		// RegisterCounter / RegisterGauge with the label names in DESCENDING order (not the order a sorted key list
		// would have) and the default help text, then With(tags) by the caller, as for RegisterTimer
		keys := make([]string, 0, len(tags))
		for t := range tags {
			keys = append(keys, t)
		}
		sort.Sort(sort.Reverse(sort.StringSlice(keys)))
		var cv *prom.CounterVec
		var gv *prom.GaugeVec
		var err error
		p, v := catch(func() {
			switch kind {
			case "rc":
				cv, err = k.rep.RegisterCounter(name, keys, name+" counter")
			case "rcd":
				cv, err = k.rep.RegisterCounter(name, keys, desc)
			case "rgd":
				gv, err = k.rep.RegisterGauge(name, keys, desc)
			default:
				gv, err = k.rep.RegisterGauge(name, keys, name+" gauge")
			}
		})
		if kind == "rcd" || kind == "rgd" {
			kindTok = kind + " " + hxs(desc)
		}
		isC := kind == "rc" || kind == "rcd"
		switch {
		case p:
			outcome = c17PanicClass(v)
		case err != nil:
			outcome = "regerr"
			errs = []string{c17ErrClass(err)}
		case isC && cv == nil, !isC && gv == nil:
			outcome = "nilvec"
		default:
			p, v := catch(func() {
				if isC {
					obj = cv.With(tags)
				} else {
					obj = gv.With(tags)
				}
			})
			if p {
				outcome = c17PanicClass(v)
			} else {
				outcome = "usable"
			}
		}
	default:
		switch kind {
		case "t":
			wantFlavour = "s"
			if k.hist {
				wantFlavour = "h"
			}
		case "hv", "hd":
			kindTok = spec.tok()
			wantFlavour = "h"
		}
		p, v := catch(func() {
			switch kind {
			case "c":
				obj = sc.Counter(local)
			case "g":
				obj = sc.Gauge(local)
			case "t":
				obj = sc.Timer(local)
			case "hv":
				obj = sc.Histogram(local, tally.ValueBuckets(spec.vals))
			case "hd":
				obj = sc.Histogram(local, tally.DurationBuckets(spec.durs))
			default:
				fatalf("c17: unknown kind %s", kind)
			}
		})
		switch {
		case p:
			outcome = c17PanicClass(v)
		case k.obs.calls != calls0+1:
			fatalf("c17: first use of %s %s %v did not reach the reporter exactly once (harness bug)", kind, name, tags)
		case k.obs.lastType == "*prometheus.cachedMetric":
			outcome = "usable"
		case k.obs.lastType == "prometheus.noopMetric":
			outcome = "noop"
		default:
			fatalf("c17: unexpected metric type %s", k.obs.lastType)
		}
		if !p && (k.obs.lastName != name || mapHex(k.obs.lastTags) != mapHex(tags)) {
			fatalf("c17: reporter saw %s %v for %s %v (harness assumption about the scope broken)", k.obs.lastName, k.obs.lastTags, name, tags)
		}
		errs = k.cbErrs[errs0:]
	}
	id := len(k.handles)
	h := c17Handle{kind: kind, obj: obj, dead: obj == nil}
	k.handles = append(k.handles, h)
	k.c.Cov.Hit("use." + kind + "." + outcome)
	// signature: class of the input
	sig := "first-use-" + kind + "-" + outcome
	idk := keyID(name, tags)
	if cached, ok := k.flavour[idk]; ok && wantFlavour != "" && cached != wantFlavour && (outcome == "nilpanic" || outcome == "nilvec") {
		sig = "timer-flavour-reuse-nil-vec"
	}
	if outcome == "usable" && wantFlavour != "" {
		if _, ok := k.flavour[idk]; !ok {
			k.flavour[idk] = wantFlavour
		}
	}
	line := fmt.Sprintf("use %s %s %s => %s %d %s", kindTok, hxs(name), mapHex(tags), outcome, k.cbCount-cb0, joinList(errs))
	k.ask(line, sig)
	return id
}

func (k *c17Case) op(id int, what string, arg string, f func()) {
	if k.failed || id < 0 || k.handles[id].dead {
		return
	}
	p, _ := catch(f)
	res := "ok"
	if p {
		res = "panic"
	}
	k.ask(fmt.Sprintf("op %d %s %s => %s", id, what, arg, res), "record-"+k.handles[id].kind+"-"+what)
}

func (k *c17Case) inc(id int, n int64) {
	if id < 0 || k.handles[id].dead {
		return
	}
	k.op(id, "inc", strconv.FormatInt(n, 10), func() {
		switch o := k.handles[id].obj.(type) {
		case tally.Counter:
			o.Inc(n)
		case prom.Counter: // the caller of RegisterCounter writes to the series directly
			o.Add(float64(n))
		default:
			fatalf("c17: inc on %T", o)
		}
	})
}
func (k *c17Case) upd(id int, v float64) {
	if id < 0 || k.handles[id].dead {
		return
	}
	k.op(id, "upd", f64hex(v), func() {
		switch o := k.handles[id].obj.(type) {
		case tally.Gauge:
			o.Update(v)
		case prom.Gauge:
			o.Set(v)
		default:
			fatalf("c17: upd on %T", o)
		}
	})
}
func (k *c17Case) rec(id int, d time.Duration) {
	if id < 0 || k.handles[id].dead {
		return
	}
	k.op(id, "rec", f64hex(secsOf(d)), func() {
		switch o := k.handles[id].obj.(type) {
		case tally.Timer:
			o.Record(d)
		case prom.Observer: // the caller of RegisterTimer does what reportTimerSummary/Histogram do
			o.Observe(float64(d) / float64(time.Second))
		default:
			fatalf("c17: rec on %T", o)
		}
	})
}
func (k *c17Case) sampleV(id int, v float64) {
	if id < 0 || k.handles[id].dead {
		return
	}
	k.op(id, "sv", f64hex(v), func() { k.handles[id].obj.(tally.Histogram).RecordValue(v) })
}
func (k *c17Case) sampleD(id int, d time.Duration) {
	if id < 0 || k.handles[id].dead {
		return
	}
	k.op(id, "sd", strconv.FormatInt(int64(d), 10), func() { k.handles[id].obj.(tally.Histogram).RecordDuration(d) })
}

func (k *c17Case) pass() {
	if k.failed {
		return
	}
	p, _ := catch(func() { tally.VerifReportOnce(k.root) })
	res := "ok"
	if p {
		res = "panic"
	}
	k.ask("pass => "+res, "report-pass-"+k.class)
}

// gather canonicalises Gather(): family name, type, help, sorted label pairs, values as bit patterns,
// cumulative bucket counts.
func (k *c17Case) gather() {
	if k.failed {
		return
	}
	var entries []string
	var gerr error
	p, v := catch(func() {
		mfs, err := k.reg.Gather()
		gerr = err
		for _, mf := range mfs {
			for _, m := range mf.GetMetric() {
				lps := m.GetLabel()
				labels := make([]string, len(lps))
				for i, lp := range lps {
					labels[i] = hxs(lp.GetName()) + ":" + hxs(lp.GetValue())
				}
				// the client lists label pairs sorted by name already; that order is kept
				ltok := "-"
				if len(labels) > 0 {
					ltok = strings.Join(labels, ",")
				}
				ty, val := "?", "?"
				switch mf.GetType().String() {
				case "COUNTER":
					ty, val = "c", f64hex(m.GetCounter().GetValue())
				case "GAUGE":
					ty, val = "g", f64hex(m.GetGauge().GetValue())
				case "SUMMARY":
					ty, val = "s", strconv.FormatUint(m.GetSummary().GetSampleCount(), 10)
				case "HISTOGRAM":
					ty = "h"
					parts := []string{strconv.FormatUint(m.GetHistogram().GetSampleCount(), 10)}
					for _, b := range m.GetHistogram().GetBucket() {
						parts = append(parts, f64hex(b.GetUpperBound())+":"+strconv.FormatUint(b.GetCumulativeCount(), 10))
					}
					val = strings.Join(parts, "/")
				}
				entries = append(entries, fmt.Sprintf("%s|%s|%s|%s|%s", hxs(mf.GetName()), ty, hxs(mf.GetHelp()), ltok, val))
			}
		}
	})
	if p || gerr != nil {
		k.failed = true
		k.c.Cov.Fail(Failure{Kind: "violated", Clause: "gather", Signature: "gather-failed-" + k.class, Line: "gather", Reply: fmt.Sprintf("panic=%v val=%v err=%v", p, v, gerr)})
		return
	}
	sort.Strings(entries)
	k.ask("gather => "+joinList(entries), "gather-"+k.class)
}

// ---------------------------------------------------------------- generators (Prometheus-valid names and tags)

// names and key sets include pairs that coincide when name and sorted keys are joined with '_' (or any other
// character legal in both): m_x + {a} vs m + {x_a}; q1 + {a_b} vs q1 + {a, b}; a + {b} vs a_b + {}
var c17Names = []string{"requests", "latency", "a", "A:b_9", "_x", "rpc:calls_total", "q1", "m_2", "m", "m_x", "a_b"}

// "le" and "quantile" are label names the client reserves for histograms and summaries respectively; for every OTHER kind
// they are ordinary, valid label names (doUse leaves out the two combinations the client itself refuses)
var c17KeySets = [][]string{{}, {"a"}, {"a", "b"}, {"env", "region"}, {"_k", "z9"}, {"b"}, {"a_b"}, {"x_a"}, {"env_region"}, {"le"}, {"a", "quantile"}}
var c17Values = []string{"x", "y", "", "prod", "é", "a,b=c+d", "line\nbreak", "\"q\"", "0", "世界"}

var c17ValuePool = []float64{0, math.Copysign(0, -1), 1, -1, 0.5, 2, 2.5, 10, -10, 100, 1e-300, -1e-300, 5e-324, 1e300, -1e300, 3, 7,
	0.1, 0.2, 0.30000000000000004, 1e15, 123456.789, 0.005, 0.01, 0.025}

func genC17ValueSpec(r *Rng) []float64 {
	n := r.Range(1, 8)
	if r.Intn(10) == 0 {
		n = r.Range(20, 40)
	}
	set := map[float64]bool{}
	for len(set) < n {
		var v float64
		switch r.Intn(4) {
		case 0:
			v = c17ValuePool[r.Intn(len(c17ValuePool))]
		case 1:
			v = float64(r.Range(-5, 5))
		case 2:
			v = math.Float64frombits(r.U64())
		default:
			v = float64(r.Range(-1000, 1000)) / 8
		}
		if math.IsNaN(v) || math.IsInf(v, 0) || v == math.MaxFloat64 {
			continue
		}
		if v == 0 {
			v = 0 // one zero only: -0 and +0 are equal, so not strictly increasing together
		}
		set[v] = true
	}
	out := make([]float64, 0, n)
	for v := range set {
		out = append(out, v)
	}
	sort.Float64s(out)
	return out
}

var c17DurPool = []int64{0, 1, -1, 2, 10, 1000, 1e6, 1e9, -1e9, 5e9, 60e9, 3, 7, 25e6, 50e6, 75e6, 1 << 49, -(1 << 49), 999999999, 1000000001}

// durations d for which time.Duration(d).Seconds() != float64(d)/1e9 (found by scanning whole milliseconds)
var c17UlpDurs = func() []int64 {
	var out []int64
	for ms := int64(1000); ms < 60000 && len(out) < 64; ms++ {
		d := time.Duration(ms * 1e6)
		if d.Seconds() != float64(d)/float64(time.Second) {
			out = append(out, int64(d))
		}
	}
	if len(out) == 0 {
		out = []int64{1140e6}
	}
	return out
}()

// strictly increasing durations whose conversion to seconds is strictly increasing too (|d| <= 2^50 ns)
func genC17DurSpec(r *Rng) []time.Duration {
	n := r.Range(1, 8)
	set := map[int64]bool{}
	for len(set) < n {
		switch r.Intn(6) {
		case 0:
			set[c17DurPool[r.Intn(len(c17DurPool))]] = true
		case 4:
			// whole milliseconds above one second: float64(d)/1e9 is correctly rounded, other ways of computing
			// seconds (Duration.Seconds adds two roundings) differ by one ulp for some of these
			set[int64(r.Range(1000, 20000))*1e6] = true
		case 5:
			set[c17UlpDurs[r.Intn(len(c17UlpDurs))]] = true
		case 1:
			set[int64(r.Range(-5, 5))] = true
		case 2:
			set[int64(r.U64()>>14)-(1<<49)] = true
		default:
			set[int64(r.Range(-1000, 1000))*1e6] = true
		}
	}
	ds := make([]int64, 0, n)
	for d := range set {
		ds = append(ds, d)
	}
	sort.Slice(ds, func(i, j int) bool { return ds[i] < ds[j] })
	out := make([]time.Duration, len(ds))
	for i, d := range ds {
		out[i] = time.Duration(d)
	}
	for i := 1; i < len(out); i++ {
		if !(secsOf(out[i-1]) < secsOf(out[i])) {
			return nil
		}
	}
	return out
}

func genTags(r *Rng, keys []string) map[string]string {
	m := map[string]string{}
	for _, k := range keys {
		m[k] = c17Values[r.Intn(len(c17Values))]
	}
	return m
}

type c17Metric struct {
	kind string
	name string
	keys []string
	spec c17Spec
}

func suiteC17(c *Ctx) {
	c.Cov.Rule = "random histories through a real root scope (separator _, one shard) with the Prometheus reporter as CachedReporter on a fresh registry: 2-6 metric names each with a kind (counter, gauge, timer, value/duration histogram with a strictly increasing finite spec) and a tag-key set, several tagged scopes per name (same keys, different values incl. empty / UTF-8 / delimiter characters), interleaved increments (0..2^40), gauge updates (any bit pattern), timer records (any int64 duration), histogram samples (on a bound, one ulp / 1ns either side, +-Inf, NaN, int64 extremes), report passes and gathers; 15% of cases additionally reuse a name for another kind or with other tag keys (rejected registration -> recording on the no-op); both DefaultTimerType values, panicking and returning callbacks. nontrivial = the case has a histogram sample exactly on a bound, or two series in one family, or a rejected registration; distinct by the full case transcript"
	n := c.N(700, 9000)
	// core's NewRng(seed) streams for neighbouring seeds are shifted copies of one another (state = seed*G + const,
	// step = G); forking once through the output mixer first makes the case streams of different seeds unrelated.
	root := c.Rng.Fork()
	for i := 0; i < n; i++ {
		c17HistoryCase(c, root.Fork())
	}
	c17LetterCases(c)
	c17FreshRegistryCases(c)
}

func c17HistoryCase(c *Ctx, r *Rng) {
	hist := r.Bool()
	cbPanics := r.Intn(4) == 0
	var defB []float64
	if r.Intn(3) == 0 {
		defB = genC17ValueSpec(r)
		for len(defB) > 0 && defB[0] < -1e300 { // keep it a plausible seconds layout; any strictly increasing finite list is in the domain
			defB = defB[1:]
		}
		if len(defB) == 0 {
			defB = nil
		}
	}
	k := newC17Case(c, "history", hist, cbPanics, defB)
	defer k.close()
	reuse := r.Intn(100) < 15
	nNames := r.Range(2, 6)
	perm := make([]int, len(c17Names))
	for i := range perm {
		perm[i] = i
	}
	for i := len(perm) - 1; i > 0; i-- {
		j := r.Intn(i + 1)
		perm[i], perm[j] = perm[j], perm[i]
	}
	kinds := []string{"c", "g", "t", "hv", "hd"}
	var metrics []c17Metric
	for i := 0; i < nNames; i++ {
		m := c17Metric{kind: kinds[r.Intn(len(kinds))], name: c17Names[perm[i]], keys: c17KeySets[r.Intn(len(c17KeySets))]}
		switch m.kind {
		case "hv":
			m.spec.vals = genC17ValueSpec(r)
		case "hd":
			m.spec.durs = genC17DurSpec(r)
			if m.spec.durs == nil {
				c.Cov.Hit("spec.duration.rejected-not-injective")
				m.kind = "c"
			}
		}
		metrics = append(metrics, m)
	}
	type live struct {
		id     int
		m      c17Metric
		series string // name and tags: two tally objects may report into one series (root scope and sub-scope route)
	}
	aliased := map[string]bool{} // series that has a second tally object
	dirty := map[string]int{}    // gauge series -> the one object updated since the last pass
	lastUpd := map[int]float64{} // gauge object -> its previous update
	var lives []live
	used := map[string]bool{}
	onBound, twoSeries, rejected := false, false, false
	seriesPerName := map[string]int{}
	transcript := []string{fmt.Sprintf("hist=%v cb=%v", hist, cbPanics)}
	doUse := func(m c17Metric, tags map[string]string) {
		if _, le := tags["le"]; le && (m.kind == "hv" || m.kind == "hd" || (m.kind == "t" && hist)) {
			return // not a Prometheus-valid tag set for a histogram
		}
		if _, q := tags["quantile"]; q && m.kind == "t" && !hist {
			return // not a Prometheus-valid tag set for a summary
		}
		if _, le := tags["le"]; le {
			c.Cov.Hit("history.label-named-le-on-" + m.kind)
		}
		if _, q := tags["quantile"]; q {
			c.Cov.Hit("history.label-named-quantile-on-" + m.kind)
		}
		key := m.kind[:1] + "|" + m.name + "|" + mapHex(tags)
		ser := m.name + "|" + mapHex(tags)
		if used[key] {
			// the same kind, name and tags once more: through the sub-scope named like the part of the name before its
			// first separator this is ANOTHER tally object whose Allocate call returns the same Prometheus series
			us := strings.IndexByte(m.name, '_')
			if us > 0 && us < len(m.name)-1 && !aliased[key] && r.Chance(60) {
				aliased[key] = true
				k.split = us
				id := k.use(m.kind, m.name, tags, m.spec)
				transcript = append(transcript, "use-via-subscope "+key)
				c.Cov.Hit("history.second-object-on-one-series." + m.kind)
				if id >= 0 && !k.handles[id].dead {
					lives = append(lives, live{id, m, ser})
				}
			}
			return
		}
		used[key] = true
		if (m.kind == "c" || m.kind == "g") && r.Chance(25) {
			// the application pre-registers the vector (RegisterCounter / RegisterGauge) before the scope uses it
			pk := "r" + m.kind
			full := pk
			if r.Chance(45) {
				// with a description of the caller's own: a counter and a gauge of one name may then carry the SAME help
				// text, which the client library answers with AlreadyRegisteredError instead of "different help"
				full = pk + "d:" + []string{"shared help", "", m.name + " counter", "Requests served."}[r.Intn(4)]
				c.Cov.Hit("history.pre-registered-with-own-description")
			}
			pid := k.use(full, m.name, tags, m.spec)
			transcript = append(transcript, "use "+full+"|"+m.name+"|"+mapHex(tags))
			c.Cov.Hit("history.pre-registered-" + pk)
			if pid >= 0 && !k.handles[pid].dead {
				pm := m
				pm.kind = pk
				lives = append(lives, live{pid, pm, ser})
			}
			if full != pk && r.Chance(40) {
				// ... and the other kind under the same name, label names and description straight away
				other := map[string]string{"rc": "rgd", "rg": "rcd"}[pk] + full[3:]
				oid := k.use(other, m.name, tags, m.spec)
				transcript = append(transcript, "use "+other+"|"+m.name+"|"+mapHex(tags))
				c.Cov.Hit("history.same-description-other-kind")
				if oid >= 0 && !k.handles[oid].dead {
					om := m
					om.kind = other[:2]
					lives = append(lives, live{oid, om, ser})
				}
			}
		}
		id := k.use(m.kind, m.name, tags, m.spec)
		transcript = append(transcript, "use "+key)
		if id >= 0 && !k.handles[id].dead {
			lives = append(lives, live{id, m, ser})
			if k.obs.lastType == "prometheus.noopMetric" {
				rejected = true
			} else {
				seriesPerName[m.name]++
				if seriesPerName[m.name] >= 2 {
					twoSeries = true
				}
			}
		} else {
			rejected = true
		}
	}
	steps := r.Range(8, 60)
	for s := 0; s < steps && !k.failed; s++ {
		x := r.Intn(100)
		switch {
		case x < 14 || len(lives) == 0:
			m := metrics[r.Intn(len(metrics))]
			if reuse && r.Intn(3) == 0 { // reuse the name for another kind and/or with other keys
				if r.Bool() {
					m.kind = kinds[r.Intn(len(kinds))]
					switch m.kind {
					case "hv":
						m.spec = c17Spec{vals: genC17ValueSpec(r)}
					case "hd":
						m.spec = c17Spec{durs: genC17DurSpec(r)}
						if m.spec.durs == nil {
							m.kind = "g"
						}
					}
				}
				if r.Bool() {
					m.keys = c17KeySets[r.Intn(len(c17KeySets))]
				}
				c.Cov.Hit("history.reuse-use")
			}
			doUse(m, genTags(r, m.keys))
		case x < 22:
			k.pass()
			dirty = map[string]int{}
			transcript = append(transcript, "pass")
			if r.Intn(3) == 0 {
				k.gather()
			}
		default:
			l := lives[r.Intn(len(lives))]
			switch l.m.kind {
			case "c":
				var v int64
				switch r.Intn(5) {
				case 0:
					v = 0
				case 1:
					v = int64(r.U64() >> 24)
				default:
					v = int64(r.Intn(1000))
				}
				k.inc(l.id, v)
				transcript = append(transcript, fmt.Sprintf("inc %d %d", l.id, v))
			case "rc":
				v := int64(r.Intn(1000))
				k.inc(l.id, v)
				transcript = append(transcript, fmt.Sprintf("inc %d %d", l.id, v))
			case "rg":
				v := float64(r.Range(-1000, 1000)) / 4
				k.upd(l.id, v)
				transcript = append(transcript, fmt.Sprintf("upd %d %x", l.id, math.Float64bits(v)))
			case "g":
				var v float64
				switch r.Intn(4) {
				case 0:
					v = math.Float64frombits(r.U64())
				case 1:
					v = []float64{math.NaN(), math.Inf(1), math.Inf(-1), math.Copysign(0, -1), 0, math.MaxFloat64}[r.Intn(6)]
				default:
					v = float64(r.Range(-1000, 1000)) / 4
				}
				if prev, ok := lastUpd[l.id]; ok && r.Chance(35) {
					v = prev // updated to the value it was given last
					c.Cov.Hit("history.gauge-updated-to-its-previous-value")
				}
				if d, ok := dirty[l.series]; ok && d != l.id {
					// two objects of one series updated within one interval would be delivered in the registry's
					// (map) order: a pass in between keeps the history deterministic
					k.pass()
					dirty = map[string]int{}
					transcript = append(transcript, "pass")
					c.Cov.Hit("history.gauge-series-updated-through-both-objects")
				}
				dirty[l.series] = l.id
				lastUpd[l.id] = v
				k.upd(l.id, v)
				transcript = append(transcript, fmt.Sprintf("upd %d %x", l.id, math.Float64bits(v)))
			case "t":
				var d int64
				switch r.Intn(5) {
				case 0:
					d = int64(r.U64())
				case 1:
					d = []int64{0, 1, -1, 1e6, 1e9, 2e9, 5e6, 1e7, math.MaxInt64, math.MinInt64}[r.Intn(10)]
				default:
					d = int64(r.Intn(20000)) * 1e6
				}
				k.rec(l.id, time.Duration(d))
				transcript = append(transcript, fmt.Sprintf("rec %d %d", l.id, d))
			case "hv":
				sp := l.m.spec.vals
				var v float64
				switch r.Intn(8) {
				case 0, 1, 2:
					v = sp[r.Intn(len(sp))]
					onBound = true
					c.Cov.Hit("sample.value.on-bound")
				case 3:
					v = math.Nextafter(sp[r.Intn(len(sp))], math.Inf(1))
					c.Cov.Hit("sample.value.ulp-above")
				case 4:
					v = math.Nextafter(sp[r.Intn(len(sp))], math.Inf(-1))
					c.Cov.Hit("sample.value.ulp-below")
				case 5:
					v = []float64{math.Inf(1), math.Inf(-1), math.NaN(), math.MaxFloat64, -math.MaxFloat64, 0, math.Copysign(0, -1)}[r.Intn(7)]
					c.Cov.Hit("sample.value.extreme")
				case 6:
					v = math.Float64frombits(r.U64())
				default:
					v = float64(r.Range(-1100, 1100)) / 8
				}
				k.sampleV(l.id, v)
				transcript = append(transcript, fmt.Sprintf("sv %d %x", l.id, math.Float64bits(v)))
			case "hd":
				sp := l.m.spec.durs
				var d int64
				switch r.Intn(8) {
				case 0, 1, 2:
					d = int64(sp[r.Intn(len(sp))])
					onBound = true
					c.Cov.Hit("sample.duration.on-bound")
				case 3:
					d = int64(sp[r.Intn(len(sp))]) + 1
					c.Cov.Hit("sample.duration.ns-above")
				case 4:
					d = int64(sp[r.Intn(len(sp))]) - 1
					c.Cov.Hit("sample.duration.ns-below")
				case 5:
					d = []int64{math.MaxInt64, math.MinInt64, 0, math.MaxInt64 - 1}[r.Intn(4)]
					c.Cov.Hit("sample.duration.extreme")
				case 6:
					d = int64(r.U64())
				default:
					d = int64(r.Range(-1100, 1100)) * 1e6
				}
				k.sampleD(l.id, time.Duration(d))
				transcript = append(transcript, fmt.Sprintf("sd %d %d", l.id, d))
			}
		}
	}
	k.pass()
	k.gather()
	if reuse {
		c.Cov.Hit("history.with-reuse")
	} else {
		c.Cov.Hit("history.kind-consistent")
	}
	if hist {
		c.Cov.Hit("history.timers-as-histograms")
	} else {
		c.Cov.Hit("history.timers-as-summaries")
	}
	if rejected {
		c.Cov.Hit("history.has-rejected-registration")
	}
	c.Cov.HitN("history.lines", k.lines)
	c.Cov.Eval(strings.Join(transcript, ";"), onBound || twoSeries || rejected)
	c.Cov.Traces++
}

// ---------------------------------------------------------------- exhaustive conflict sequences

type c17Sym struct {
	kind    string // c g t to(other flavour via RegisterTimer) h
	sameKey bool
}

func suiteC17Seq(c *Ctx) {
	maxLen := 3
	if c.Thorough() {
		maxLen = 4
	}
	c.Cov.Rule = fmt.Sprintf("EXHAUSTIVE: every sequence of 1..%d first uses of ONE name over {counter, gauge, timer (AllocateTimer, default flavour), timer of the other flavour (RegisterTimer + With), value histogram} x {tag keys {a}, tag keys {a,b}}, each under DefaultTimerType summary and histogram and with a returning and a panicking OnRegisterError; every call wrapped in recover; after each first use one recording on the returned metric, at the end a report pass and Gather compared with the model. A repeated (kind, key set) gets a fresh tag value so that it is a first use at the reporter; different kinds share the identical tag set (same series). nontrivial = length >= 2 (a name is reused); distinct by (sequence, timer type, callback). Plus the four OnError settings of Configuration.NewReporter", maxLen)
	c.Cov.Exhaustive = true
	kinds := []string{"c", "g", "t", "to", "h"}
	var syms []c17Sym
	for _, kd := range kinds {
		syms = append(syms, c17Sym{kd, true}, c17Sym{kd, false})
	}
	var seq []c17Sym
	var rec func()
	rec = func() {
		if len(seq) > 0 {
			for _, hist := range []bool{false, true} {
				for _, cbp := range []bool{false, true} {
					c17SeqCase(c, seq, hist, cbp)
				}
			}
		}
		if len(seq) == maxLen {
			return
		}
		for _, s := range syms {
			seq = append(seq, s)
			rec()
			seq = seq[:len(seq)-1]
		}
	}
	rec()
	c17ConfigCases(c)
}

func c17SeqCase(c *Ctx, seq []c17Sym, hist, cbPanics bool) {
	k := newC17Case(c, "conflict-seq", hist, cbPanics, []float64{0.5, 1, 2})
	defer k.close()
	spec := c17Spec{vals: []float64{1, 2.5, 4}}
	seen := map[c17Sym]int{}
	var desc []string
	for j, s := range seq {
		va := "x"
		if n := seen[s]; n > 0 {
			va = fmt.Sprintf("x%d", j)
		}
		seen[s]++
		tags := map[string]string{"a": va}
		if !s.sameKey {
			tags["b"] = "y"
		}
		kind := s.kind
		switch s.kind {
		case "to":
			kind = "th"
			if hist {
				kind = "ts"
			}
		case "h":
			kind = "hv"
		}
		desc = append(desc, fmt.Sprintf("%s/%v", s.kind, s.sameKey))
		id := k.use(kind, "m", tags, spec)
		if k.failed {
			break
		}
		// one recording on whatever came back (usable or no-op); nothing to record on if the caller got nothing
		switch kind {
		case "c":
			k.inc(id, int64(j+1))
		case "g":
			k.upd(id, float64(j)+0.5)
		case "t", "ts", "th":
			k.rec(id, time.Duration(j+1)*time.Second)
		case "hv":
			k.sampleV(id, 2.5)
			k.sampleV(id, float64(j))
		}
	}
	k.pass()
	k.gather()
	key := fmt.Sprintf("seq=%s hist=%v cbpanics=%v", strings.Join(desc, ","), hist, cbPanics)
	c.Cov.Hit(fmt.Sprintf("seq.len.%d", len(seq)))
	c.Cov.Eval(key, len(seq) >= 2)
	c.Cov.Traces++
}

// the four OnError settings of Configuration.NewReporter (callback selection): a rejected registration
// (same name, other tag keys) and the timer/histogram reuse under each.
func c17ConfigCases(c *Ctx) {
	oldErr := os.Stderr
	oldLog := log.Writer()
	tmp, err := os.CreateTemp("", "c17-stderr")
	must(err)
	defer os.Remove(tmp.Name())
	log.SetOutput(tmp)
	os.Stderr = tmp
	defer func() { os.Stderr = oldErr; log.SetOutput(oldLog) }()
	n := 0
	for _, onErr := range []string{"stderr", "log", "none", ""} {
		for _, tt := range []string{"summary", "histogram"} {
			n++
			reg := prom.NewRegistry()
			var rep prometheus.Reporter
			p, v := catch(func() {
				var err error
				rep, err = prometheus.Configuration{OnError: onErr, TimerType: tt, HandlerPath: fmt.Sprintf("/c17-%d-%d", os.Getpid(), time.Now().UnixNano())}.
					NewReporter(prometheus.ConfigurationOptions{Registry: reg})
				must(err)
			})
			if p {
				fatalf("c17: Configuration.NewReporter panicked: %v", v)
			}
			key := fmt.Sprintf("config onError=%q timerType=%s", onErr, tt)
			panics := onErr == ""
			size0, _ := tmp.Seek(0, io.SeekEnd)
			// 1. rejected registration
			rep.AllocateCounter("cfg_m", map[string]string{"a": "x"})
			var m tally.CachedCount
			p, v = catch(func() { m = rep.AllocateCounter("cfg_m", map[string]string{"a": "x", "b": "y"}) })
			size1, _ := tmp.Seek(0, io.SeekEnd)
			switch {
			case panics && !p:
				c.Cov.Fail(Failure{Kind: "violated", Clause: "callback", Signature: "config-default-does-not-panic", Line: key})
			case panics:
				if e, ok := v.(error); !ok || !strings.Contains(e.Error(), "previously registered") {
					c.Cov.Fail(Failure{Kind: "violated", Clause: "no-panic", Signature: "config-default-other-panic", Line: key, Reply: fmt.Sprint(v)})
				}
			case p:
				c.Cov.Fail(Failure{Kind: "violated", Clause: "no-panic", Signature: "config-" + onErr + "-panics", Line: key, Reply: fmt.Sprint(v)})
			case reflect.TypeOf(m).String() != "prometheus.noopMetric":
				c.Cov.Fail(Failure{Kind: "violated", Clause: "callback", Signature: "config-" + onErr + "-not-noop", Line: key})
			case (onErr == "stderr" || onErr == "log") && size1 == size0:
				c.Cov.Fail(Failure{Kind: "violated", Clause: "callback", Signature: "config-" + onErr + "-silent", Line: key})
			default:
				catchFail(c, key, "config-noop-record", func() { m.ReportCount(3) })
			}
			// 2. a histogram under the name of a timer of the other flavour (or RegisterTimer of the other flavour)
			rep.AllocateTimer("cfg_t", map[string]string{"a": "x"})
			p, v = catch(func() {
				if tt == "summary" {
					rep.AllocateHistogram("cfg_t", map[string]string{"a": "x"}, tally.ValueBuckets{1, 2})
				} else {
					u, err := rep.RegisterTimer("cfg_t", []string{"a"}, "cfg_t summary", &prometheus.RegisterTimerOptions{TimerType: prometheus.SummaryTimerType})
					if err == nil {
						u.Summary.With(map[string]string{"a": "x"})
					}
				}
			})
			if p {
				if e, ok := v.(error); panics && ok && !isNilDeref(v) {
					_ = e // the default callback panicking with the error it was given is allowed
				} else {
					sig := "config-" + onErr + "-panics"
					if isNilDeref(v) {
						sig = "timer-flavour-reuse-nil-vec"
					}
					c.Cov.Fail(Failure{Kind: "violated", Clause: "no-panic", Signature: sig, Line: key + " timer then histogram/other flavour", Reply: fmt.Sprint(v)})
				}
			}
			c.Cov.Hit("config." + onErr + "." + tt)
			c.Cov.Eval(key, true)
		}
	}
}

func isNilDeref(v interface{}) bool {
	re, ok := v.(runtime.Error)
	return ok && strings.Contains(re.Error(), "nil pointer dereference")
}

func catchFail(c *Ctx, key, sig string, f func()) {
	if p, v := catch(f); p {
		c.Cov.Fail(Failure{Kind: "violated", Clause: "no-panic", Signature: sig, Line: key, Reply: fmt.Sprint(v)})
	}
}

// ---------------------------------------------------------------- observations at the edge of the stated domain

// c17LetterCases records (as notes, not verdicts) what the implementation does just outside the domain the
// check claims: one histogram name with two bucket specs, an empty spec, a reserved label name.
func c17LetterCases(c *Ctx) {
	note := func(s string) { c.Cov.Notes = append(c.Cov.Notes, s) }
	// two specs under one name: the family keeps the first layout
	{
		reg := prom.NewRegistry()
		rep := prometheus.NewReporter(prometheus.Options{Registerer: reg, OnRegisterError: func(error) {}})
		root, cl := tally.VerifNewRootScope(tally.ScopeOptions{CachedReporter: rep, Separator: "_", OmitCardinalityMetrics: true}, 0, 1)
		root.Tagged(map[string]string{"a": "x"}).Histogram("h2", tally.ValueBuckets{1, 2, 3}).RecordValue(0.5)
		root.Tagged(map[string]string{"a": "y"}).Histogram("h2", tally.ValueBuckets{1.5, 2.5}).RecordValue(1.8)
		p, v := catch(func() { tally.VerifReportOnce(root) })
		mfs, _ := reg.Gather()
		got := ""
		for _, mf := range mfs {
			for _, m := range mf.GetMetric() {
				if len(m.GetLabel()) == 1 && m.GetLabel()[0].GetValue() == "y" {
					for _, b := range m.GetHistogram().GetBucket() {
						got += fmt.Sprintf(" le=%v:%d", b.GetUpperBound(), b.GetCumulativeCount())
					}
				}
			}
		}
		note(fmt.Sprintf("outside the claimed domain (one bucket spec per histogram name): name h2 with spec {1,2,3} in scope a=x and {1.5,2.5} in scope a=y, sample 1.8 in the second: panic=%v %v; series a=y lists%s (the family keeps the first layout, 1.8 is counted at le=3 only)", p, v, got))
		cl.Close()
	}
	// empty spec: the client substitutes its DefBuckets
	{
		reg := prom.NewRegistry()
		rep := prometheus.NewReporter(prometheus.Options{Registerer: reg, OnRegisterError: func(error) {}})
		root, cl := tally.VerifNewRootScope(tally.ScopeOptions{CachedReporter: rep, Separator: "_", OmitCardinalityMetrics: true}, 0, 1)
		p, v := catch(func() {
			root.Histogram("h0", tally.ValueBuckets{}).RecordValue(0.001)
			tally.VerifReportOnce(root)
		})
		mfs, _ := reg.Gather()
		nb := -1
		for _, mf := range mfs {
			for _, m := range mf.GetMetric() {
				nb = len(m.GetHistogram().GetBucket())
			}
		}
		note(fmt.Sprintf("outside the claimed domain (non-empty spec): empty ValueBuckets: panic=%v %v; Prometheus lists %d finite bounds (its DefBuckets) and the sample 0.001 only in +Inf", p, v, nb))
		cl.Close()
	}
	// reserved label names
	{
		reg := prom.NewRegistry()
		rep := prometheus.NewReporter(prometheus.Options{Registerer: reg, OnRegisterError: func(error) {}})
		p1, v1 := catch(func() { rep.AllocateHistogram("hl", map[string]string{"le": "x"}, tally.ValueBuckets{1}) })
		p2, v2 := catch(func() { rep.AllocateTimer("tq", map[string]string{"quantile": "x"}) })
		note(fmt.Sprintf("outside the claimed domain (Prometheus-valid tag sets exclude the reserved names): histogram tagged le: panic=%v %v; summary timer tagged quantile: panic=%v %v (both with a non-panicking callback)", p1, v1, p2, v2))
	}
	// duration bounds that collide after conversion to seconds
	{
		reg := prom.NewRegistry()
		rep := prometheus.NewReporter(prometheus.Options{Registerer: reg, OnRegisterError: func(error) {}})
		d := time.Duration(1) << 60
		p, v := catch(func() { rep.AllocateHistogram("hc", map[string]string{}, tally.DurationBuckets{d, d + 1}) })
		note(fmt.Sprintf("outside the claimed domain (duration bounds distinct after conversion to float seconds, |d| <= 2^50 ns generated): DurationBuckets{2^60, 2^60+1}: panic=%v %v", p, v))
	}
}

// c17FreshRegistryCases: on a FRESH registry nothing can conflict, so every first use with a Prometheus-valid name and
// tag set must be accepted (no callback) and its records must show in Gather() - in particular with the label names
// the client reserves for ONE kind only: "le" (histograms) on counters, gauges and summaries, "quantile" (summaries) on
// counters, gauges and histograms.  Model-independent.
func c17FreshRegistryCases(c *Ctx) {
	type cse struct{ kind, key string }
	var cases []cse
	for _, key := range []string{"le", "quantile", "region"} {
		for _, kind := range []string{"counter", "gauge", "timer-summary", "timer-histogram", "histogram"} {
			if key == "le" && (kind == "timer-histogram" || kind == "histogram") {
				continue
			}
			if key == "quantile" && kind == "timer-summary" {
				continue
			}
			cases = append(cases, cse{kind, key})
		}
	}
	for _, k := range cases {
		reg := prom.NewRegistry()
		tt := prometheus.SummaryTimerType
		if k.kind == "timer-histogram" {
			tt = prometheus.HistogramTimerType
		}
		var cbErrs []string
		rep := prometheus.NewReporter(prometheus.Options{Registerer: reg, DefaultTimerType: tt, OnRegisterError: func(err error) { cbErrs = append(cbErrs, err.Error()) }})
		tags := map[string]string{k.key: "x"}
		line := fmt.Sprintf("fresh registry, %s fresh_m with tags %v, two records, Gather", k.kind, tags)
		p, v := catch(func() {
			switch k.kind {
			case "counter":
				m := rep.AllocateCounter("fresh_m", tags)
				m.ReportCount(1)
				m.ReportCount(1)
			case "gauge":
				m := rep.AllocateGauge("fresh_m", tags)
				m.ReportGauge(1)
				m.ReportGauge(2)
			case "timer-summary", "timer-histogram":
				m := rep.AllocateTimer("fresh_m", tags)
				m.ReportTimer(time.Second)
				m.ReportTimer(time.Second)
			case "histogram":
				h := rep.AllocateHistogram("fresh_m", tags, tally.ValueBuckets{1, 2})
				h.ValueBucket(1, 2).ReportSamples(2)
			}
		})
		if p {
			c.Cov.Fail(Failure{Kind: "violated", Clause: "no-panic", Signature: "c17-fresh-registry-panic", Line: line, Reply: fmt.Sprint(v)})
			continue
		}
		got := ""
		mfs, _ := reg.Gather()
		for _, mf := range mfs {
			if mf.GetName() != "fresh_m" {
				continue
			}
			for _, m := range mf.GetMetric() {
				switch {
				case m.GetCounter() != nil:
					got = fmt.Sprint(m.GetCounter().GetValue())
				case m.GetGauge() != nil:
					got = fmt.Sprint(m.GetGauge().GetValue())
				case m.GetSummary() != nil:
					got = fmt.Sprint(float64(m.GetSummary().GetSampleCount()))
				case m.GetHistogram() != nil:
					got = fmt.Sprint(float64(m.GetHistogram().GetSampleCount()))
				}
			}
		}
		if len(cbErrs) > 0 || got != "2" {
			c.Cov.Fail(Failure{Kind: "violated", Clause: "accepted-registration-is-shown", Signature: "c17-fresh-registry-valid-tag-set-refused", Line: line,
				Reply: fmt.Sprintf("error callback: %v; value / sample count gathered for fresh_m: %q (expected 2)", cbErrs, got)})
		}
		c.Cov.Hit("fresh-registry." + k.kind + "." + k.key)
		c.Cov.Eval(line, true)
	}
}
