package main

import (
	"flag"
	"fmt"
	"os"
	"sort"
)

// Ctx is what every suite gets.
type Ctx struct {
	Rng    *Rng
	Tier   string
	Seed   uint64
	Cov    *Cov
	Drv    *Driver
	Replay string // path of a replay file to re-run instead of generating
	Scale  int    // multiplier on case counts (adversarial search uses > 1)
}

func (c *Ctx) Thorough() bool { return c.Tier == "thorough" }

// N picks a case count for the tier.
func (c *Ctx) N(quick, thorough int) int {
	n := quick
	if c.Thorough() {
		n = thorough
	}
	if c.Scale > 1 {
		n *= c.Scale
	}
	return n
}

type suiteFn func(*Ctx)

var registry = map[string]struct {
	prop string
	drv  string
	fn   suiteFn
}{}

func register(name, prop, drv string, fn suiteFn) {
	registry[name] = struct {
		prop string
		drv  string
		fn   suiteFn
	}{prop, drv, fn}
}

func main() {
	seed := flag.Uint64("seed", 1, "PRNG seed")
	tier := flag.String("tier", "quick", "quick|thorough")
	out := flag.String("out", "", "coverage json output path")
	replay := flag.String("replay", "", "replay file")
	scale := flag.Int("scale", 1, "case count multiplier")
	flag.Parse()
	if flag.NArg() != 1 {
		names := []string{}
		for k := range registry {
			names = append(names, k)
		}
		sort.Strings(names)
		fmt.Fprintln(os.Stderr, "usage: harness [flags] <suite>; suites:", names)
		os.Exit(2)
	}
	name := flag.Arg(0)
	s, ok := registry[name]
	if !ok {
		fatalf("unknown suite %s", name)
	}
	ctx := &Ctx{Rng: NewRng(*seed), Tier: *tier, Seed: *seed, Replay: *replay, Scale: *scale}
	ctx.Cov = NewCov(s.prop, name, *seed, *tier)
	if s.drv != "" {
		ctx.Drv = StartDriver(s.drv)
		defer ctx.Drv.Close()
	}
	s.fn(ctx)
	if *out != "" {
		ctx.Cov.Write(*out)
	}
	nf := len(ctx.Cov.Failures)
	fmt.Printf("suite=%s evaluations=%d distinct_nontrivial=%d failures=%d\n", name, ctx.Cov.Evaluations, ctx.Cov.Nontrivial, nf)
	for i, f := range ctx.Cov.Failures {
		if i >= 5 {
			break
		}
		l := f.Line
		if len(l) > 300 {
			l = l[:300] + "…"
		}
		fmt.Printf("  %s clause=%s sig=%s reply=%s\n    line: %s\n", f.Kind, f.Clause, f.Signature, f.Reply, l)
	}
	if nf > 0 {
		os.Exit(1)
	}
}
